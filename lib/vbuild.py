"""Content-hash driven build of ampl/mp sources and harnesses from /repo's working tree.

Every object is keyed by (command line, sha1 of every non-system file it depended on at the
last compile).  A check therefore always runs code compiled from the *current* tree, and a
reverted edit costs nothing (objects of both versions are kept under build/obj/<variant>/).
"""
import hashlib, json, os, subprocess, sys, threading, fcntl, time
from concurrent.futures import ThreadPoolExecutor

REPO = os.environ.get("VERIF_REPO", "/repo")
VERIF = os.path.dirname(os.path.dirname(os.path.abspath(__file__)))
BUILD = os.path.join(VERIF, "build")

DEFS = ['-DMP_DATE=20240320', '-DMP_SYSINFO="Linux x86_64"', '-DMP_USE_UNIQUE_PTR',
        '-DMP_USE_ATOMIC', '-DMP_USE_HASH', '-DMP_VERIF']
INCS = ['-I' + REPO + '/include', '-I' + REPO + '/src', '-I' + REPO + '/nl-writer2/include',
        '-I' + VERIF + '/engine', '-I' + VERIF + '/ref']

VARIANTS = {
    # production-like: assertions off, so a missing range check is *not* masked by MP_ASSERT
    'plain': ['g++', '-std=c++17', '-O1', '-g0', '-DNDEBUG', '-w', '-fno-access-control'],
    'plain0': ['g++', '-std=c++17', '-O0', '-g0', '-DNDEBUG', '-w', '-fno-access-control'],
    'san': ['clang++', '-std=c++17', '-O1', '-gline-tables-only', '-DNDEBUG', '-w',
            '-fno-access-control',
            '-fsanitize=address,undefined', '-fno-sanitize-recover=undefined',
            '-fno-omit-frame-pointer'],
    # UBSan in recover mode + ASan recover: used where the sanitizer is a *counting* oracle
    'sanrec': ['clang++', '-std=c++17', '-O1', '-gline-tables-only', '-DNDEBUG', '-w',
               '-fno-access-control',
               '-fsanitize=address,undefined', '-fsanitize-recover=address,undefined',
               '-fno-omit-frame-pointer'],
}
# san + float-cast-overflow (not part of -fsanitize=undefined in clang 14): a NaN / out-of-range double cast to an integer traps
VARIANTS['sanfc'] = VARIANTS['san'] + ['-fsanitize=float-cast-overflow', '-fno-sanitize-recover=float-cast-overflow']
LINK = {
    'sanfc': ['clang++', '-fsanitize=address,undefined,float-cast-overflow'],
    'plain': ['g++'], 'plain0': ['g++'],
    'san': ['clang++', '-fsanitize=address,undefined'],
    'sanrec': ['clang++', '-fsanitize=address,undefined'],
}

LIBMP_SRCS = ['src/' + f for f in (
    'format.cc posix.cc expr.cc nl-reader.cc option.cc os.cc problem.cc rstparser.cc sol.cc '
    'solver.cc sp.cc std_constr.cc utils_file.cc utils_string.cc utils_clock.cc expr-info.cc '
    'mp/flat/encodings.cpp mp/flat/piecewise_linear.cpp').split()]
NLW2_SRCS = ['nl-writer2/src/' + f for f in
             'dtoa.cc nl-model-c.cc nl-solver-c.cc nl-solver.cc nl-utils.cc nl-writer2.cc'.split()]

_lock = threading.Lock()
_hash_cache = {}
_gen_dir = None


def gen_dir():
    """src/expr-info.cc and nl-writer2/include/mp/nl-opcodes.h are generated (git-ignored) files.
    Regenerate both from the current tree's src/gen-expr-info.cc so that an edit of the opcode
    table is never masked by stale generated files (and scratch worktrees, which lack them, build)."""
    global _gen_dir
    if _gen_dir: return _gen_dir
    with _lock:
        if _gen_dir: return _gen_dir
        srcs = [os.path.join(REPO, 'src/gen-expr-info.cc'), os.path.join(REPO, 'src/format.cc'),
                os.path.join(REPO, 'src/posix.cc'),
                os.path.join(REPO, 'include/mp/common.h'), os.path.join(REPO, 'include/mp/format.h')]
        h = hashlib.sha1()
        for f in srcs: h.update(_sha_file(f).encode())
        d = os.path.join(BUILD, 'gen', hashlib.sha1((REPO + h.hexdigest()).encode()).hexdigest()[:16])
        with FileLock(d + '.lock'):
            if not os.path.exists(os.path.join(d, 'ok')):
                os.makedirs(os.path.join(d, 'src'), exist_ok=True)
                os.makedirs(os.path.join(d, 'include', 'mp'), exist_ok=True)
                exe = os.path.join(d, 'gen-expr-info')
                r = subprocess.run(['g++', '-std=c++17', '-O0', '-w'] + DEFS + ['-I' + REPO + '/include', '-o', exe,
                                    srcs[0], srcs[1], srcs[2]], capture_output=True, text=True)
                if r.returncode != 0:
                    sys.stderr.write('BUILD-ERROR gen-expr-info\n' + r.stderr[-3000:]); raise SystemExit(2)
                r = subprocess.run([exe, os.path.join(d, 'src', 'expr-info.cc'),
                                    os.path.join(d, 'include', 'mp', 'nl-opcodes.h')], capture_output=True, text=True)
                if r.returncode != 0:
                    sys.stderr.write('BUILD-ERROR running gen-expr-info\n' + r.stderr[-3000:]); raise SystemExit(2)
                open(os.path.join(d, 'ok'), 'w').write('ok')
        _gen_dir = d
        return d


def _sha_file(path):
    try:
        st = os.stat(path)
    except OSError:
        return 'missing'
    key = (path, st.st_mtime_ns, st.st_size)
    h = _hash_cache.get(key)
    if h is None:
        with open(path, 'rb') as f:
            h = hashlib.sha1(f.read()).hexdigest()
        _hash_cache[key] = h
    return h


def _parse_deps(dfile):
    try:
        txt = open(dfile).read()
    except OSError:
        return None
    txt = txt.replace('\\\n', ' ')
    parts = txt.split(':', 1)
    if len(parts) < 2:
        return None
    deps = [d for d in parts[1].split() if not d.startswith('/usr/') and not d.startswith('/opt/')]
    return deps


def _stamp(cmd, deps):
    h = hashlib.sha1()
    h.update(json.dumps(cmd).encode())
    for d in sorted(set(deps)):
        h.update(d.encode())
        h.update(_sha_file(d).encode())
    return h.hexdigest()


def obj_path(src, variant, tag=''):
    rel = os.path.abspath(src).replace('/', '_').lstrip('_')
    return os.path.join(BUILD, 'obj', variant, rel + (('.' + tag) if tag else '') + '.o')


def compile_one(src, variant, extra=(), tag=''):
    """Compile src (absolute, or relative to REPO) -> object path.  Rebuilds iff stale."""
    if not os.path.isabs(src):
        src = os.path.join(gen_dir(), src) if src == 'src/expr-info.cc' else os.path.join(REPO, src)
    obj = obj_path(src, variant, tag)
    os.makedirs(os.path.dirname(obj), exist_ok=True)
    cmd = VARIANTS[variant] + DEFS + ['-I' + gen_dir() + '/include'] + INCS + list(extra) + ['-c', src]
    dfile = obj + '.d'
    sfile = obj + '.stamp'
    with FileLock(obj + '.lock'):
        return _compile_locked(src, variant, obj, cmd, dfile, sfile)


def _compile_locked(src, variant, obj, cmd, dfile, sfile):
    deps = _parse_deps(dfile)
    if deps is not None and os.path.exists(obj) and os.path.exists(sfile):
        if open(sfile).read() == _stamp(cmd, deps):
            return obj
    t0 = time.time()
    r = subprocess.run(cmd + ['-MD', '-MF', dfile, '-o', obj], capture_output=True, text=True)
    if r.returncode != 0:
        sys.stderr.write('BUILD-ERROR compiling %s (%s)\n%s\n' % (src, variant, r.stderr[-6000:]))
        raise SystemExit(2)
    deps = _parse_deps(dfile) or [src]
    with open(sfile, 'w') as f:
        f.write(_stamp(cmd, deps))
    if os.environ.get('VERIF_VERBOSE'):
        sys.stderr.write('[build] %s %s %.1fs\n' % (variant, os.path.basename(src), time.time() - t0))
    return obj


def compile_many(jobs, workers=16):
    """jobs: list of (src, variant, extra, tag) -> list of objects (parallel)."""
    with ThreadPoolExecutor(max_workers=workers) as ex:
        futs = [ex.submit(compile_one, *j) for j in jobs]
        return [f.result() for f in futs]


def link(name, objs, variant, libs=()):
    vdir = variant if REPO == '/repo' else variant + '-' + hashlib.sha1(REPO.encode()).hexdigest()[:8]
    out = os.path.join(BUILD, 'bin', vdir, name)     # binaries of scratch worktrees do not collide
    os.makedirs(os.path.dirname(out), exist_ok=True)
    cmd = LINK[variant] + ['-o', out] + list(objs) + list(libs)
    sfile = out + '.stamp'
    with FileLock(out + '.lock'):
        return _link_locked(out, cmd, sfile, objs, libs, variant, name)


def _link_locked(out, cmd, sfile, objs, libs, variant, name):
    st = _stamp(cmd, objs)
    if os.path.exists(out) and os.path.exists(sfile) and open(sfile).read() == st:
        return out
    tmp = out + '.tmp%d' % os.getpid()
    r = subprocess.run(LINK[variant] + ['-o', tmp] + list(objs) + list(libs),
                       capture_output=True, text=True)
    if r.returncode != 0:
        sys.stderr.write('BUILD-ERROR linking %s\n%s\n' % (name, r.stderr[-6000:]))
        raise SystemExit(2)
    os.replace(tmp, out)
    with open(sfile, 'w') as f:
        f.write(st)
    return out


class FileLock:
    """Per-object / per-binary lock: several checks may build at once (flock is per open file
    description, so it also serialises threads of one process)."""
    def __init__(self, path):
        self.path = path

    def __enter__(self):
        os.makedirs(os.path.dirname(self.path), exist_ok=True)
        self.f = open(self.path, 'w')
        fcntl.flock(self.f, fcntl.LOCK_EX)
        return self

    def __exit__(self, *a):
        fcntl.flock(self.f, fcntl.LOCK_UN)
        self.f.close()


def build_program(name, variant, harness_srcs, with_libmp=True, with_nlw2=False, extra=(),
                  libs=(), mp_srcs=None, tag=''):
    """Build a harness: its own sources (absolute or relative to VERIF) + libmp/nlw2 objects
    compiled from the current tree.  Returns the binary path."""
    jobs = []
    for s in harness_srcs:
        if not os.path.isabs(s):
            s = os.path.join(VERIF, s)
        jobs.append((s, variant, tuple(extra), tag))
    srcs = []
    if mp_srcs is not None:
        srcs += list(mp_srcs)
    else:
        if with_libmp:
            srcs += LIBMP_SRCS
        if with_nlw2:
            srcs += NLW2_SRCS
    for s in srcs:
        jobs.append((s, variant, (), ''))
    objs = compile_many(jobs)
    return link(name, objs, variant, libs)


def gc_objects(max_bytes=6 << 30):
    """Keep the object cache bounded: drop oldest objects beyond max_bytes."""
    root = os.path.join(BUILD, 'obj')
    files = []
    for d, _, fs in os.walk(root):
        for f in fs:
            p = os.path.join(d, f)
            try:
                st = os.stat(p)
                files.append((st.st_mtime, st.st_size, p))
            except OSError:
                pass
    tot = sum(f[1] for f in files)
    files.sort()
    for m, s, p in files:
        if tot <= max_bytes:
            break
        try:
            os.remove(p)
            tot -= s
        except OSError:
            pass
