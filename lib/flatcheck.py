"""Acceptance-configuration closure + point-wise equivalence oracle over flatsrv (C01 and friends)."""
import json, os, sys, time, hashlib
import flatlib, nlmodel
from delivered import Delivered, Undecided, LPFMDisagree, TOL

LIN3 = ['AlgebraicConstraint< LinTerms, RhsLE >', 'AlgebraicConstraint< LinTerms, RhsEQ >',
        'AlgebraicConstraint< LinTerms, RhsGE >']
QC3 = ['AlgebraicConstraint< QuadAndLinTerms, RhsLE >', 'AlgebraicConstraint< QuadAndLinTerms, RhsEQ >',
       'AlgebraicConstraint< QuadAndLinTerms, RhsGE >']
CONES = ['QuadraticConeConstraint', 'RotatedQuadraticConeConstraint']

# capability presets of the API ("G" in DESIGN.md 2.5): levels of globally queried types + flags
G_PRESETS = {
    'g0': dict(types={}, flags={}),
    'g1': dict(types={}, flags={'quadobj': 1}),
    'g2': dict(types={t: 2 for t in QC3}, flags={'quadobj': 1}),
    'g3': dict(types={t: 2 for t in QC3}, flags={'quadobj': 2, 'nonconvexqc': 1}),
    'g4': dict(types={t: 2 for t in CONES}, flags={'quadobj': 1}),
    'g5': dict(types={t: 2 for t in QC3 + CONES}, flags={'quadobj': 1, 'mixconic': 1, 'socpcorner': 1}),
    'g6': dict(types={t: 2 for t in QC3 + CONES}, flags={'quadobj': 1}),
}


def base_config(gname):
    g = G_PRESETS[gname]
    types = {t: 2 for t in LIN3}
    types.update(g['types'])
    return {'g': gname, 'types': types, 'flags': dict(g['flags'])}


def acc_of(cfg, default=0):
    return flatlib.acc_string(default, cfg['types'], **cfg['flags'])


def cfg_key(cfg):
    return (cfg['g'], tuple(sorted((t, l) for t, l in cfg['types'].items() if l != 0)))


def cfg_str(cfg):
    short = lambda t: t.replace('AlgebraicConstraint< ', 'Alg<').replace('Constraint', '')
    dflt = cfg.get('default', 0)
    return cfg['g'] + '{' + ','.join('%s=%d' % (short(t), l) for t, l in sorted(cfg['types'].items())
                                     if l != dflt and t not in LIN3) + '}'


def delivery_fingerprint(r):
    return hashlib.sha1(json.dumps([r.get('status'), r.get('vars'), r.get('objs'), r.get('cons')],
                                   sort_keys=True).encode()).hexdigest()


def closure(srv, nltext, opts, gname, levels=(2,), max_dev=1, from_all=True, cap=2000, stats=None):
    """Deviation-bounded worklist over acceptance configurations (DESIGN.md 2.5).
    Types relevant for a run = types ever stored in a constraint keeper during that run (the only
    types whose level the run can read, besides the API-capability preset `gname`).
    Explored: the base config c0 (only linear rows accepted), every config that differs from c0 in
    at most max_dev relevant types (each set to every level in `levels`), and (from_all) the config
    accepting every type natively plus its single deviations (one relevant type set to 0 / 1).
    Deduplicated by the projection on non-default levels.  Returns list of (cfg, response)."""
    start = base_config(gname)
    seen = {cfg_key(start)}
    work = [(start, 0)]
    out = []
    def run(cfg, default=0):
        r = srv.request('convert', nl=nltext, opts=opts, acc=acc_of(cfg, default))
        out.append((cfg, r))
        return r
    while work:
        cfg, dev = work.pop(0)
        r = run(cfg)
        if r.get('status') == 'crash' or dev >= max_dev:
            continue
        for kname, info in sorted(r.get('stored', {}).items()):
            tn = info.get('tn') or kname
            if tn in LIN3: continue        # an API without linear rows is not a MIP API
            for lv in levels:
                if cfg['types'].get(tn, 0) == lv: continue
                if tn in start['types'] and start['types'][tn] != cfg['types'].get(tn): continue
                c2 = {'g': cfg['g'], 'types': dict(cfg['types']), 'flags': dict(cfg['flags'])}
                c2['types'][tn] = lv
                k = cfg_key(c2)
                if k in seen: continue
                if len(seen) >= cap:
                    if stats is not None: stats['capped'] = stats.get('capped', 0) + 1
                    continue
                seen.add(k); work.append((c2, dev + 1))
    if from_all:
        call = {'g': gname + '+all', 'types': dict(start['types']), 'flags': dict(start['flags']), 'default': 2}
        r = srv.request('convert', nl=nltext, opts=opts, acc=acc_of(call, 2))
        out.append((call, r))
        if r.get('status') != 'crash':
            for kname, info in sorted(r.get('stored', {}).items()):
                tn = info.get('tn') or kname
                if tn in LIN3: continue
                for lv in ((0,) if levels == (2,) else (0, 1)):
                    c2 = {'g': gname + '+all', 'types': dict(call['types']), 'flags': dict(call['flags']), 'default': 2}
                    c2['types'][tn] = lv
                    r2 = srv.request('convert', nl=nltext, opts=opts, acc=acc_of(c2, 2))
                    out.append((c2, r2))
    return out


def truth_table(model):
    """string for the server-side judge + list form; points where an expression is undefined are skipped"""
    recs = []
    for p in model.grid():
        f = model.feasible(p)
        if f is None: continue
        try:
            ov = model.objval(p) if model.objs else None
        except (nlmodel.EvalUndefined, ZeroDivisionError, OverflowError, ValueError):
            continue                      # objective undefined at p: point outside the model's domain
        if not f: ov = None
        recs.append('%s|%d|%s' % (','.join(repr(float(x)) for x in p), 1 if f else 0, repr(ov) if ov is not None else '-'))
    return ';'.join(recs)


def judge_fast(srv, model, r, tt=None):
    """same contract as judge(), point search executed by the C++ twin inside flatsrv
    (must be called right after the convert request that produced r)"""
    st = r.get('status')
    if st != 'ok' or 'PLApprox' in r.get('warnings', ''):
        return judge(model, r)
    if tt is None: tt = truth_table(model)
    v = srv.request('judge', norig=len(model.vars), pts=tt)
    if v.get('status') == 'crash':
        return {'verdict': 'crash', 'detail': v.get('stderr', '')[-800:], 'rc': v.get('rc')}
    return v


def judge(model, r, want_points=None):
    """Equivalence oracle for one (model, delivered response).
    Returns dict(verdict=ok|refused|plapprox|undecided|violation|crash, ...)."""
    st = r.get('status')
    if st == 'crash':
        return {'verdict': 'crash', 'detail': r.get('stderr', '')[-800:], 'rc': r.get('rc')}
    if st == 'readerror':
        return {'verdict': 'invalid-nl', 'detail': r.get('msg')}
    if st != 'ok':
        if not r.get('msg'):
            return {'verdict': 'violation', 'kind': 'refusal-without-diagnostic', 'detail': r}
        if r.get('cons') or (r.get('vars') and r['vars'] != []):
            # refused after pushing part of the model
            return {'verdict': 'violation', 'kind': 'refused-but-delivered', 'detail': r.get('msg')}
        res = {'verdict': 'refused', 'msg': r['msg'][:200], 'exit_code': r.get('exit_code')}
        # an infeasibility refusal must be true: no NL-feasible grid point
        if 'nfeasible' in r['msg'].lower():
            for p in model.grid():
                if model.feasible(p):
                    return {'verdict': 'violation', 'kind': 'refused-as-infeasible-but-feasible',
                            'point': p, 'detail': r['msg'][:300]}
        return res
    if 'PLApprox' in r.get('warnings', ''):
        return {'verdict': 'plapprox'}
    D = Delivered(r, len(model.vars))
    has_aux = D.nv > len(model.vars)
    nfeas = ninf = 0
    try:
        for p in model.grid():
            f = model.feasible(p)
            if f is None: continue
            if f: nfeas += 1
            else: ninf += 1
            ex, best, wit = D.search(p, want_obj=bool(model.objs) and f)
            if ex != f:
                return {'verdict': 'violation', 'kind': 'feasibility nl=%s delivered=%s' % (f, ex), 'point': p,
                        'witness': wit}
            if f and model.objs and best is not None:
                ov = model.objval(p)
                if abs(best - ov) > 1e-6 * max(1.0, abs(ov)):
                    return {'verdict': 'violation', 'kind': 'objective', 'point': p, 'nl_obj': ov,
                            'delivered_best': best}
    except LPFMDisagree as u:
        return {'verdict': 'oracle-internal', 'why': str(u)}
    except Undecided as u:
        return {'verdict': 'undecided', 'why': str(u)}
    return {'verdict': 'ok', 'nfeas': nfeas, 'ninf': ninf, 'has_aux': has_aux,
            'nontrivial': bool(has_aux and nfeas and ninf)}
