"""Deterministic generator of the exact-fragment NL model family (C01/C04/C06/C07/C19/C20).

All enumeration is exhaustive over explicitly listed finite alphabets; nothing is sampled.
Variables (NL order: continuous first):  y cont [0,2] (grid step .5), x int [-2,2], b binary.
"""
import itertools
from nlmodel import Model, INF

Y, X, B = ('v', 0), ('v', 1), ('v', 2)
V3 = [(0.0, 2.0, False, 0.5), (-2.0, 2.0, True, 1.0), (0.0, 1.0, True, 1.0)]
N = lambda v: ('n', v)


# ------------------------------------------------------------------------------ templates
# numeric templates: (name, numeric arity, logical arity, builder(nums, logs))
NUM_T = [
    ('neg', 1, 0, lambda a, l: ('neg', a[0])),
    ('abs', 1, 0, lambda a, l: ('abs', a[0])),
    ('pow2', 1, 0, lambda a, l: ('pow2', a[0])),
    ('add', 2, 0, lambda a, l: ('add', a[0], a[1])),
    ('sub', 2, 0, lambda a, l: ('sub', a[0], a[1])),
    ('mul', 2, 0, lambda a, l: ('mul', a[0], a[1])),
    ('cmul', 1, 0, lambda a, l: ('mul', N(-2), a[0])),
    ('cdiv', 1, 0, lambda a, l: ('div', a[0], N(2))),
    ('min', 2, 0, lambda a, l: ('min', a[0], a[1])),
    ('max', 2, 0, lambda a, l: ('max', a[0], a[1])),
    ('min3', 3, 0, lambda a, l: ('min', a[0], a[1], a[2])),
    ('max3', 3, 0, lambda a, l: ('max', a[0], a[1], a[2])),
    ('sum3', 3, 0, lambda a, l: ('sum', a[0], a[1], a[2])),
    ('if', 2, 1, lambda a, l: ('if', l[0], a[0], a[1])),
    ('count', 0, 2, lambda a, l: ('count', l[0], l[1])),
    ('numberofc', 3, 0, lambda a, l: ('numberof', N(1), a[0], a[1], a[2])),
    ('numberofv', 3, 0, lambda a, l: ('numberof', a[0], a[1], a[2])),
    ('pl', 1, 0, lambda a, l: ('pl', (-1.0, 1.0, 2.0), (0.0, 1.0), a[0])),
]
LOG_T = [
    ('lt', 2, 0, lambda a, l: ('lt', a[0], a[1])),
    ('le', 2, 0, lambda a, l: ('le', a[0], a[1])),
    ('eq', 2, 0, lambda a, l: ('eq', a[0], a[1])),
    ('ge', 2, 0, lambda a, l: ('ge', a[0], a[1])),
    ('gt', 2, 0, lambda a, l: ('gt', a[0], a[1])),
    ('ne', 2, 0, lambda a, l: ('ne', a[0], a[1])),
    ('not', 0, 1, lambda a, l: ('not', l[0])),
    ('and', 0, 2, lambda a, l: ('and', l[0], l[1])),
    ('or', 0, 2, lambda a, l: ('or', l[0], l[1])),
    ('iff', 0, 2, lambda a, l: ('iff', l[0], l[1])),
    ('impl', 0, 3, lambda a, l: ('impl', l[0], l[1], l[2])),
    ('forall', 0, 3, lambda a, l: ('forall', l[0], l[1], l[2])),
    ('exists', 0, 3, lambda a, l: ('exists', l[0], l[1], l[2])),
    ('alldiff', 3, 0, lambda a, l: ('alldiff', a[0], a[1], a[2])),
    ('nalldiff', 3, 0, lambda a, l: ('nalldiff', a[0], a[1], a[2])),
    ('atleast', 0, 3, lambda a, l: ('atleast', N(2), ('count', l[0], l[1], l[2]))),
    ('atmost', 0, 3, lambda a, l: ('atmost', N(1), ('count', l[0], l[1], l[2]))),
    ('exactly', 0, 3, lambda a, l: ('exactly', N(1), ('count', l[0], l[1], l[2]))),
    ('natleast', 0, 3, lambda a, l: ('natleast', N(2), ('count', l[0], l[1], l[2]))),
    ('natmost', 0, 3, lambda a, l: ('natmost', N(1), ('count', l[0], l[1], l[2]))),
    ('nexactly', 0, 3, lambda a, l: ('nexactly', N(1), ('count', l[0], l[1], l[2]))),
]

# default leaves per slot (numeric) and default logical atoms per slot
NUM_LEAF_DEFAULT = [X, Y, B]
LOG_ATOM_DEFAULT = [('ge', X, N(1)), ('le', Y, N(1)), ('ge', B, N(1))]
NUM_LEAF_ALL = [X, Y, B, N(1), N(-1), N(0.5)]
LOG_ATOM_ALL = [('ge', X, N(1)), ('le', Y, N(1)), ('ge', B, N(1)), ('eq', X, N(0)), ('lt', Y, N(1.5)),
                ('ne', X, N(1))]


def _fill(t, nums, logs):
    return t[3](nums, logs)


INT_ARG_TEMPLATES = ('alldiff', 'nalldiff')      # comparisons of non-integer expressions are refused by
                                                 # the MIP converter; see family_alldiff_cont
NUM_LEAF_INT = [X, B, N(1)]


def is_int_expr(e):
    k = e[0]
    if k == 'v': return V3[e[1]][2]
    if k == 'n': return float(e[1]).is_integer()
    if k in ('count', 'numberof'): return True
    if k == 'if': return is_int_expr(e[2]) and is_int_expr(e[3])
    if k in ('neg', 'abs', 'pow2', 'add', 'sub', 'mul', 'min', 'max', 'sum'):
        return all(is_int_expr(a) for a in e[1:])
    return False


def depth1(all_leaves=False):
    """every template over leaves.  all_leaves: every assignment of leaf alphabet to slots."""
    out_n, out_l = [], []
    for T, out in ((NUM_T, out_n), (LOG_T, out_l)):
        for t in T:
            name, na, nl, _ = t
            if all_leaves:
                for nums in itertools.product(NUM_LEAF_ALL, repeat=na):
                    if na and all(n[0] == 'n' for n in nums): continue
                    if name in INT_ARG_TEMPLATES and not all(is_int_expr(n) for n in nums): continue
                    for logs in itertools.product(LOG_ATOM_ALL[:3], repeat=nl):
                        out.append((name, _fill(t, list(nums), list(logs))))
            else:
                leaves = NUM_LEAF_INT if name in INT_ARG_TEMPLATES else NUM_LEAF_DEFAULT
                out.append((name, _fill(t, leaves[:na], LOG_ATOM_DEFAULT[:nl])))
    return out_n, out_l


def depth2(reduced=True):
    """every (parent template, slot, child template) with default leaves elsewhere"""
    d1n, d1l = depth1(False)
    out_n, out_l = [], []
    for T, out in ((NUM_T, out_n), (LOG_T, out_l)):
        for t in T:
            name, na, nl, _ = t
            for i in range(na):
                for cname, child in d1n:
                    leaves = NUM_LEAF_INT if name in INT_ARG_TEMPLATES else NUM_LEAF_DEFAULT
                    if name in INT_ARG_TEMPLATES and not is_int_expr(child): continue
                    nums = list(leaves[:na]); nums[i] = child
                    out.append(('%s[%d<-%s]' % (name, i, cname), _fill(t, nums, LOG_ATOM_DEFAULT[:nl])))
            for i in range(nl):
                for cname, child in d1l:
                    logs = list(LOG_ATOM_DEFAULT[:nl]); logs[i] = child
                    out.append(('%s[L%d<-%s]' % (name, i, cname), _fill(t, NUM_LEAF_DEFAULT[:na], logs)))
    return out_n, out_l


RANGES = [(-INF, 1.0), (1.0, INF), (1.0, 1.0), (0.0, 1.5)]


def roots_numeric(name, e, V=V3, reduced=False):
    for (lb, ub) in (RANGES[:1] + RANGES[2:3] if reduced else RANGES):
        yield ('con %s in [%g,%g]' % (name, lb, ub), Model(V, acons=[(e, {}, lb, ub)]))
    for s in (('min',) if reduced else ('min', 'max')):
        yield ('%s %s' % (s, name), Model(V, acons=[(None, {0: 1.0, 1: 1.0}, -INF, 3.0)], obj=(s, e, {})))


def roots_logical(name, e, V=V3):
    yield ('log %s' % name, Model(V, lcons=[e]))


def family_shapes(tier):
    """operator shapes: depth 1 (all leaf assignments in thorough) + depth 2 triples"""
    d1n, d1l = depth1(all_leaves=(tier == 'thorough'))
    d2n, d2l = depth2()
    seen = set()
    d1set = set(e for _, e in d1n)
    for name, e in d1n + d2n:
        if e in seen: continue
        seen.add(e)
        # quick: depth-2 shapes get the roots {<=1, ==1, min}; depth-1 shapes and thorough get all six
        yield from roots_numeric(name, e, reduced=(tier == 'quick' and e not in d1set))
    for name, e in d1l + d2l:
        if e in seen: continue
        seen.add(e)
        yield from roots_logical(name, e)


def family_sharing():
    """one atom used in two different contexts inside one model"""
    atoms_l = [('eq', X, N(1)), ('eq', X, Y), ('le', X, Y), ('lt', Y, N(1)), ('ne', X, B)]
    atoms_n = [('max', X, Y), ('abs', X), ('mul', X, B), ('if', ('ge', B, N(1)), X, Y), ('min', X, Y, B)]
    ctx_l = {
        'root': lambda a: dict(lcons=[a]),
        'not': lambda a: dict(lcons=[('not', a)]),
        'or_b': lambda a: dict(lcons=[('or', a, ('ge', B, N(1)))]),
        'iff_b': lambda a: dict(lcons=[('iff', a, ('ge', B, N(1)))]),
        'impl_b': lambda a: dict(lcons=[('impl', ('ge', B, N(1)), a, ('le', X, N(0)))]),
        'count_le': lambda a: dict(acons=[(('count', a, ('ge', B, N(1))), {}, -INF, 1.0)]),
        'count_ge': lambda a: dict(acons=[(('count', a, ('ge', B, N(1))), {}, 1.0, INF)]),
        'if_cond': lambda a: dict(acons=[(('if', a, X, N(1)), {}, -INF, 0.0)]),
        'objmin': lambda a: dict(obj=('min', ('count', a, ('ge', B, N(1))), {})),
        'objmax': lambda a: dict(obj=('max', ('count', a, ('ge', B, N(1))), {})),
    }
    ctx_n = {
        'le': lambda a: dict(acons=[(a, {}, -INF, 1.0)]),
        'ge': lambda a: dict(acons=[(a, {}, 1.0, INF)]),
        'eq': lambda a: dict(acons=[(a, {}, 1.0, 1.0)]),
        'neg_le': lambda a: dict(acons=[(('neg', a), {}, -INF, -1.0)]),
        'in_rel_pos': lambda a: dict(lcons=[('or', ('ge', a, N(1)), ('ge', B, N(1)))]),
        'in_rel_neg': lambda a: dict(lcons=[('not', ('ge', a, N(1)))]),
        'numberof': lambda a: dict(acons=[(('numberof', a, X, Y), {}, -INF, 0.0)]),
        'objmin': lambda a: dict(obj=('min', a, {})),
        'objmax': lambda a: dict(obj=('max', a, {})),
        'mulneg_ge': lambda a: dict(acons=[(('mul', ('neg', Y), a), {}, -1.0, INF)]),
    }
    def merge(d1, d2):
        m = dict(acons=[], lcons=[], obj=None)
        for d in (d1, d2):
            m['acons'] += d.get('acons', []); m['lcons'] += d.get('lcons', [])
            if d.get('obj'):
                if m['obj']: return None
                m['obj'] = d['obj']
        return m
    for atoms, ctxs in ((atoms_l, ctx_l), (atoms_n, ctx_n)):
        for a in atoms:
            names = sorted(ctxs)
            for i, c1 in enumerate(names):
                for c2 in names[i:]:
                    m = merge(ctxs[c1](a), ctxs[c2](a))
                    if m is None: continue
                    if c1 == c2 and not m['acons'] and not m['lcons']: continue
                    yield ('share %r: %s + %s' % (a, c1, c2), Model(V3, **m))
            # via a defined variable used twice (numeric atoms only)
            if atoms is atoms_n:
                yield ('share-dvar %r' % (a,), Model(V3, dvars=[({}, a)], acons=[(('d', 0), {}, -INF, 1.0)],
                                                     lcons=[('or', ('ge', ('d', 0), N(0)), ('ge', B, N(1)))]))
                yield ('share-dvar-lin %r' % (a,), Model(V3, dvars=[({1: 1.0}, a)], acons=[(('d', 0), {0: 1.0}, 0.0, 2.0)],
                                                         obj=('min', ('d', 0), {})))


def family_canon():
    """repeated / cancelling terms and near-duplicate subexpressions that must not be merged"""
    E = [
        ('x+x', ('add', X, X)), ('x-x+y', ('add', ('sub', X, X), Y)), ('2x+3x', ('add', ('mul', N(2), X), ('mul', N(3), X))),
        ('(x+1)*(y-2)', ('mul', ('add', X, N(1)), ('sub', Y, N(2)))), ('x*x+x*x', ('add', ('mul', X, X), ('mul', X, X))),
        ('x*y-y*x', ('sub', ('mul', X, Y), ('mul', Y, X))), ('x*x-x*x+b', ('add', ('sub', ('mul', X, X), ('mul', X, X)), B)),
        ('abs(x)-abs(y)', ('sub', ('abs', X), ('abs', Y))), ('max(x,y)-max(y,x)', ('sub', ('max', X, Y), ('max', Y, X))),
        ('max(x,y)-min(x,y)', ('sub', ('max', X, Y), ('min', X, Y))),
        ('nof1-nof2', ('sub', ('numberof', N(1), X, B), ('numberof', N(2), X, B))),
        ('pl-pl2', ('sub', ('pl', (-1.0, 1.0, 2.0), (0.0, 1.0), X), ('pl', (-1.0, 1.0, 3.0), (0.0, 1.0), X))),
        ('x^2-y^2', ('sub', ('pow2', X), ('pow2', Y))), ('x*b-y*b', ('sub', ('mul', X, B), ('mul', Y, B))),
        ('count(a,a)', ('count', ('ge', X, N(1)), ('ge', X, N(1)))),
        ('if-if', ('sub', ('if', ('ge', B, N(1)), X, Y), ('if', ('ge', B, N(1)), Y, X))),
        ('0*x+y', ('add', ('mul', N(0), X), Y)),
        ('lin+expr', None),
    ]
    for name, e in E:
        if e is None:
            for (lb, ub) in RANGES:
                yield ('con lin+abs in [%g,%g]' % (lb, ub),
                       Model(V3, acons=[(('abs', X), {0: 1.0, 1: -1.0, 2: 2.0}, lb, ub)]))
            continue
        yield from roots_numeric('canon ' + name, e)


def family_uenc():
    """integer x compared with several constants in positive/negative/mixed context"""
    eqs = lambda k: ('eq', X, N(k))
    combos = [
        ('x==1 or x==2', ('or', eqs(1), eqs(2))), ('x==-2 or x==0 or x==2', ('exists', eqs(-2), eqs(0), eqs(2))),
        ('not x==1', ('not', eqs(1))), ('x!=0 and x!=1', ('and', ('ne', X, N(0)), ('ne', X, N(1)))),
        ('x==1 iff b', ('iff', eqs(1), ('ge', B, N(1)))), ('x==3 or b', ('or', eqs(3), ('ge', B, N(1)))),
        ('x==0.5 or b', ('or', eqs(0.5), ('ge', B, N(1)))),
        ('(x==1 or b) and (not x==1 or y>=1)', ('and', ('or', eqs(1), ('ge', B, N(1))), ('or', ('not', eqs(1)), ('ge', Y, N(1))))),
        ('count(x==k)>=2', ('ge', ('count', eqs(-1), eqs(0), eqs(1), ('ge', B, N(1))), N(2))),
        ('y==1 or b', ('or', ('eq', Y, N(1)), ('ge', B, N(1)))), ('y!=1', ('ne', Y, N(1))),
        ('x==y', ('eq', X, Y)), ('x!=y', ('ne', X, Y)), ('x==b iff y>=1', ('iff', ('eq', X, B), ('ge', Y, N(1)))),
    ]
    for name, e in combos:
        yield ('uenc ' + name, Model(V3, lcons=[e]))
        yield ('uenc obj ' + name, Model(V3, lcons=[e], obj=('min', ('add', X, Y), {})))


def family_bounds():
    """bound patterns: fixed, zero-crossing, positive-only, shifted domains for each unary/binary op"""
    doms = [
        [(1.0, 1.0, False, 0.5), (-2.0, 2.0, True, 1.0), (0.0, 1.0, True, 1.0)],
        [(-1.5, 1.5, False, 0.5), (1.0, 3.0, True, 1.0), (0.0, 1.0, True, 1.0)],
        [(0.5, 2.0, False, 0.5), (-3.0, -1.0, True, 1.0), (1.0, 1.0, True, 1.0)],
        [(-2.0, 0.0, False, 0.5), (0.0, 0.0, True, 1.0), (0.0, 1.0, True, 1.0)],
        [(-1.5, 0.5, False, 0.5), (-3.0, 1.0, True, 1.0), (0.0, 1.0, True, 1.0)],          # asymmetric zero-crossing
        # integer variables at the lower NL indices (class "nonlinear in both"), the continuous one last (class "linear")
        [(-2.0, 2.0, True, 1.0, 'b'), (0.0, 1.0, True, 1.0, 'b'), (0.0, 2.0, False, 0.5, 'l')],
    ]
    d1n, d1l = depth1(False)
    for di, V in enumerate(doms):
        for name, e in d1n:
            for nm, m in roots_numeric(name, e, V):
                yield ('dom%d %s' % (di, nm), m)
        for name, e in d1l:
            for nm, m in roots_logical(name, e, V):
                yield ('dom%d %s' % (di, nm), m)


def family_linear_mix():
    """several constraints, linear + nonlinear/logical, ranges of each kind"""
    lins = [({0: 1.0, 1: 1.0}, -INF, 3.0), ({0: 1.0, 1: -1.0, 2: 2.0}, -1.0, INF), ({1: 1.0, 2: 1.0}, 1.0, 1.0),
            ({0: 2.0, 2: -1.0}, 0.0, 1.5)]
    extras = [dict(acons=[(('abs', X), {0: 1.0}, -INF, 2.0)]), dict(lcons=[('or', ('ge', X, N(1)), ('le', Y, N(1)))]),
              dict(acons=[(('max', X, Y), {}, 1.0, INF)]), dict(acons=[(('mul', X, B), {0: 1.0}, 0.0, 1.5)])]
    for k in range(1, len(lins) + 1):
        for sub in itertools.combinations(range(len(lins)), k):
            for xi, ex in enumerate(extras):
                ac = [(None,) + lins[i] for i in sub] + ex.get('acons', [])
                yield ('linmix %s+extra%d' % (sub, xi), Model(V3, acons=ac, lcons=ex.get('lcons', []),
                                                             obj=('max', None, {0: 1.0, 1: 1.0, 2: -1.0})))


def family_alldiff_cont():
    """alldiff over non-integer expressions (the default MIP conversion refuses these)"""
    for nm, e in [('y,x,b', ('alldiff', Y, X, B)), ('max(x,y),y,b', ('alldiff', ('max', X, Y), Y, B)),
                  ('x+y,y,b', ('alldiff', ('add', X, Y), Y, B)), ('!alldiff y,x,b', ('nalldiff', Y, X, B))]:
        yield ('alldiff-cont ' + nm, Model(V3, lcons=[e]))


def family_compl():
    """expr complements variable (bounded variable: both-sided complementarity)"""
    exprs = [('y-1', None, {0: 1.0}, -1.0), ('x+y-2', None, {0: 1.0, 1: 1.0}, -2.0), ('abs(x)-1', ('sub', ('abs', X), N(1)), {}, 0.0),
             ('1-y-b', None, {0: -1.0, 2: -1.0}, 1.0), ('x*b-1', ('sub', ('mul', X, B), N(1)), {}, 0.0)]
    for nm, e, lin, const in exprs:
        for v in (0, 1, 2):
            ee = e if const == 0.0 else (('add', e, N(const)) if e is not None else N(const))
            yield ('compl %s _|_ x%d' % (nm, v), Model(V3, acons=[(ee, lin, -INF, INF)], compl={0: v}))
            yield ('compl %s _|_ x%d + obj' % (nm, v), Model(V3, acons=[(ee, lin, -INF, INF), (None, {0: 1.0, 1: 1.0}, -INF, 3.0)],
                                                           compl={0: v}, obj=('min', None, {0: 1.0, 1: -1.0, 2: 1.0})))


def family_sos():
    """SOS1 / SOS2 sets declared by suffixes on the three variables"""
    VS = [(0.0, 2.0, False, 0.5), (0.0, 2.0, False, 1.0), (0.0, 2.0, True, 1.0)]
    sets = [('sos1', {0: 1, 1: 1, 2: 1}), ('sos2', {0: -1, 1: -1, 2: -1}), ('sos1-pair', {0: 2, 2: 2}), ('sos2+single', {0: -3, 1: -3, 2: 5})]
    refs = [('asc', {0: 1.0, 1: 2.0, 2: 3.0}), ('perm', {0: 2.0, 1: 3.0, 2: 1.0})]
    cons = [('sum>=2', [(None, {0: 1.0, 1: 1.0, 2: 1.0}, 2.0, INF)]), ('sum==1.5', [(None, {0: 1.0, 1: 1.0, 2: 1.0}, 1.5, 1.5)]),
            ('max>=1', [(('max', ('v', 0), ('v', 2)), {}, 1.0, INF)])]
    for sn, so in sets:
        for rn, rf in refs:
            for cn, ac in cons:
                yield ('sos %s %s %s' % (sn, rn, cn), Model(VS, acons=ac, obj=('max', None, {0: 1.0, 1: 2.0, 2: 1.0}),
                                                          suffixes=[(0, False, 'sosno', so), (0, True, 'ref', rf)]))
    # members with negative lower bounds (a negative member is as nonzero as a positive one)
    VN = [(-2.0, 2.0, False, 1.0), (-1.0, 2.0, False, 1.0), (-2.0, 1.0, True, 1.0)]
    for sn, so in sets[:2]:
        yield ('sos %s negdom' % sn, Model(VN, acons=[(None, {0: 1.0, 1: 1.0, 2: 1.0}, -1.0, INF)], obj=('max', None, {0: 1.0, 1: -1.0, 2: 1.0}),
                                           suffixes=[(0, False, 'sosno', so), (0, True, 'ref', refs[0][1])]))
    # .sos/.sosref are the suffixes AMPL itself generates when it linearises a PL term or an `in` domain: the
    # members are weights in [0,1] tied by a convexity row sum = 1 (mp relies on that: "for linearized PL").
    VL = [(0.0, 1.0, False, 0.5), (0.0, 1.0, False, 0.5), (0.0, 1.0, False, 0.5)]
    for cn, extra in (('w>=0.5', [(None, {1: 1.0, 2: 2.0}, 0.5, INF)]), ('w==1.5', [(None, {1: 1.0, 2: 2.0}, 1.5, 1.5)]), ('none', [])):
        yield ('sos via .sos/.sosref (convexity row) %s' % cn,
               Model(VL, acons=[(None, {0: 1.0, 1: 1.0, 2: 1.0}, 1.0, 1.0)] + extra, obj=('max', None, {0: 1.0, 1: 2.0, 2: 1.0}),
                     suffixes=[(0, False, 'sos', {0: 1, 1: 1, 2: 1}), (0, True, 'sosref', refs[0][1])]))


def family_dvars():
    """defined variables (common expressions) used in several places, with linear parts"""
    for nm, lin, e in [('abs', {}, ('abs', X)), ('lin+max', {0: 1.0}, ('max', X, B)), ('purelin', {0: 1.0, 1: -1.0}, None),
                       ('pl', {}, ('pl', (-1.0, 1.0, 2.0), (0.0, 1.0), X)), ('nested', {2: 1.0}, ('min', ('abs', X), Y))]:
        d = ('d', 0)
        yield ('dvar %s twice' % nm, Model(V3, dvars=[(lin, e)], acons=[(d, {}, -INF, 1.0), (('neg', d), {1: 1.0}, -2.0, INF)]))
        yield ('dvar %s obj+con' % nm, Model(V3, dvars=[(lin, e)], acons=[(d, {2: 1.0}, 0.0, 2.0)], obj=('max', d, {})))
        yield ('dvar %s logical' % nm, Model(V3, dvars=[(lin, e)], lcons=[('or', ('ge', d, N(1)), ('ge', B, N(1)))],
                                           acons=[(('mul', N(2), d), {}, -INF, 3.0)]))
    yield ('dvar chain', Model(V3, dvars=[({}, ('abs', X)), ({0: 1.0}, ('max', ('d', 0), B))],
                               acons=[(('d', 1), {}, -INF, 2.0)], obj=('min', ('d', 0), {2: 1.0})))


def family_fracint():
    """comparisons of integer-valued expressions with fractional constants (rounding of the threshold)
    and of continuous expressions with constants off / on the grid, in every comparison operator and
    in positive / negative / reified context"""
    exprs = [('x', X), ('x+b', ('add', X, B)), ('2x-b', ('sub', ('mul', N(2), X), B)), ('abs(x)', ('abs', X)), ('y', Y), ('x+y', ('add', X, Y))]
    consts = [0.5, 1.5, -0.5, 1.0, -1.25, 0.25]
    # a fractional constant next to integer arguments: the result of max / min / if-then-else is not integer-valued
    for nm, e in (('max(x,2.5)', ('max', X, N(2.5))), ('min(x,1.5)', ('min', X, N(1.5))), ('max(x,b,0.5)', ('max', X, B, N(0.5))),
                  ('if b then 2.5 else x', ('if', ('ge', B, N(1)), N(2.5), X)), ('if b then x else -0.5', ('if', ('ge', B, N(1)), X, N(-0.5))),
                  ('min(x,-1.5)+b', ('add', ('min', X, N(-1.5)), B))):
        yield ('fracint %s min-obj' % nm, Model(V3, obj=('min', e, {})))
        yield ('fracint %s max-obj' % nm, Model(V3, obj=('max', e, {})))
        yield ('fracint %s == y' % nm, Model(V3, acons=[(('sub', e, Y), {}, 0.0, 0.0)]))
        yield ('fracint %s <= 1' % nm, Model(V3, acons=[(e, {}, -INF, 1.0)]))
    for en, e in exprs:
        for c in consts:
            for op in ('lt', 'le', 'eq', 'ge', 'gt', 'ne'):
                a = (op, e, N(c))
                if en in ('y', 'x+y') and c in (-1.25, 0.25): continue     # thresholds stay on the 0.5 grid for continuous bodies
                yield ('fracint %s %s %g root' % (en, op, c), Model(V3, lcons=[a]))
                yield ('fracint %s %s %g or-b' % (en, op, c), Model(V3, lcons=[('or', a, ('ge', B, N(1)))]))
                yield ('fracint %s %s %g iff-b' % (en, op, c), Model(V3, lcons=[('iff', a, ('ge', B, N(1)))]))
                yield ('fracint %s %s %g not' % (en, op, c), Model(V3, lcons=[('not', a)], obj=('min', None, {0: 1.0, 1: 1.0})))


def family_cones():
    """quadratic rows of (rotated) second-order-cone shape and their near misses (wrong direction, free or
    non-positive "radius" variable, constant radius, extra constant), for APIs that accept cones"""
    # NL order: continuous y, z first, then the integers x, w
    VC = [(-1.5, 1.5, False, 0.5), (0.0, 3.0, False, 0.5), (-2.0, 2.0, True, 1.0), (0.0, 2.0, True, 1.0)]
    VF = [(-1.5, 1.5, False, 0.5), (-1.0, 3.0, False, 0.5), (-2.0, 2.0, True, 1.0), (0.0, 2.0, True, 1.0)]
    VN = [(-1.5, 1.5, False, 0.5), (-3.0, 0.0, False, 0.5), (-2.0, 2.0, True, 1.0), (0.0, 2.0, True, 1.0)]
    y, z, x, w = ('v', 0), ('v', 1), ('v', 2), ('v', 3)
    sq = lambda e: ('pow2', e)
    def S(*ts):
        e = ts[0]
        for t in ts[1:]: e = ('add', e, t)
        return e
    c = lambda k, e: ('mul', N(k), e)
    rows = [
        ('x2+y2<=z2', S(sq(x), sq(y), c(-1, sq(z))), -INF, 0.0),
        ('4x2+y2<=9z2', S(c(4, sq(x)), sq(y), c(-9, sq(z))), -INF, 0.0),
        ('x2+y2<=4', S(sq(x), sq(y)), -INF, 4.0),
        ('x2+y2+1<=z2', S(sq(x), sq(y), c(-1, sq(z))), -INF, -1.0),
        ('z2-x2-y2>=0', S(sq(z), c(-1, sq(x)), c(-1, sq(y))), 0.0, INF),
        ('x2+y2>=z2 (reverse)', S(sq(x), sq(y), c(-1, sq(z))), 0.0, INF),
        ('x2<=2zw', S(sq(x), c(-2, ('mul', z, w))), -INF, 0.0),
        ('x2+y2<=zw', S(sq(x), sq(y), c(-1, ('mul', z, w))), -INF, 0.0),
        ('x2+y2+1<=4zw', S(sq(x), sq(y), c(-4, ('mul', z, w))), -INF, -1.0),
        ('x2<=3z', S(sq(x), c(-3, z)), -INF, 0.0),
        ('zw>=x2 (ge)', S(('mul', z, w), c(-1, sq(x))), 0.0, INF),
        ('abs(x)<=z', S(('abs', x), c(-1, z)), -INF, 0.0),
        ('2z>=abs(x)', S(c(2, z), c(-1, ('abs', x))), 0.0, INF),
        ('x2-y2<=0', S(sq(x), c(-1, sq(y))), -INF, 0.0),
        ('x2+y2-z2 in [-1,0]', S(sq(x), sq(y), c(-1, sq(z))), -1.0, 0.0),
    ]
    for vn, V in (('z>=0', VC), ('z free', VF), ('z<=0', VN)):
        for rn, e, lb, ub in rows:
            if vn != 'z>=0' and ('w' in rn or 'abs' in rn or rn == 'x2+y2<=4'): continue
            yield ('cone %s %s' % (rn, vn), Model(V, acons=[(e, {}, lb, ub)]))
            yield ('cone %s %s +obj+lin' % (rn, vn), Model(V, acons=[(e, {}, lb, ub), (None, {0: 1.0, 2: 1.0, 3: 1.0}, 1.0, INF)],
                                                         obj=('min', None, {1: 1.0, 2: -0.5})))
    # two cones sharing the radius variable, and a cone next to a logical constraint
    yield ('cone pair shared z', Model(VC, acons=[(S(sq(x), c(-1, sq(z))), {}, -INF, 0.0), (S(sq(y), sq(w), c(-1, sq(z))), {}, -INF, 0.0)],
                                       obj=('min', None, {1: 1.0})))
    yield ('cone + or', Model(VC, acons=[(S(sq(x), sq(y), c(-1, sq(z))), {}, -INF, 0.0)],
                              lcons=[('or', ('ge', x, N(1)), ('ge', w, N(1)))], obj=('min', None, {1: 1.0})))


def family_pl(tier='thorough'):
    """piecewise-linear terms: convex / concave / non-convex, 1..5 breakpoints (the SOS2 and the ZZI
    logarithmic encodings depend on the number of segments), breakpoints on both sides of 0 / all positive /
    all negative / outside the argument's domain, over a continuous, an integer and a zero-crossing continuous
    argument, at every root"""
    shapes = [
        ('tent', (1.0, -1.0), (1.0,)),
        ('convex3', (-1.0, 1.0, 2.0), (0.0, 1.0)),
        ('nonconvex4', (2.0, 0.0, -1.0, 1.0), (-1.0, 0.5, 1.5)),
        ('bp>0', (1.0, 3.0), (1.5,)),
        ('bp<0', (0.0, 1.0), (-1.0,)),
        ('bp<-1', (1.0, -2.0), (-1.5,)),                 # 0 lies beyond the breakpoints by more than the unit end segment
        ('bps<-1', (0.5, 2.0, -1.0), (-2.0, -1.5)),
        ('bps>1', (2.0, -1.0, 0.5), (1.5, 2.0)),
        ('zigzag6', (1.0, -1.0, 1.0, -1.0, 1.0, -1.0), (-1.5, -0.5, 0.5, 1.0, 1.5)),
        ('outside', (1.0, 2.0, -1.0), (-3.0, 4.0)),
        ('steps5', (0.0, 2.0, 0.0, -2.0, 0.0), (-1.0, 0.0, 1.0, 2.0)),
    ]
    VZ = [(-1.5, 1.5, False, 0.5), (-2.0, 2.0, True, 1.0), (0.0, 1.0, True, 1.0)]
    if tier == 'quick':          # the 5- and 6-segment terms cost seconds per judged conversion (exact LP over 7+ weights)
        shapes = [sh for sh in shapes if len(sh[1]) <= 4]
    for sn, sl, bp in shapes:
        for an, arg, V in (('y', Y, V3), ('x', X, V3), ('y0', Y, VZ)):
            e = ('pl', sl, bp, arg)
            for nm, m in roots_numeric('pl %s(%s)' % (sn, an), e, V):
                yield (nm, m)
        # inside a comparison that is reified, and as one term of a sum with another PL term on the other variable
        yield ('pl %s reified' % sn, Model(V3, lcons=[('or', ('ge', ('pl', sl, bp, X), N(1)), ('ge', B, N(1)))],
                                           obj=('min', None, {0: 1.0, 1: 1.0, 2: 1.0})))
        yield ('pl %s sum' % sn, Model(V3, acons=[(('add', ('pl', sl, bp, Y), ('pl', (1.0, -1.0), (1.0,), X)), {}, 0.5, 1.5)]))
        # the same two terms in the other order (the ZZI encoding table grows with the largest term seen so far)
        yield ('pl %s sum-rev' % sn, Model(V3, acons=[(('add', ('pl', (1.0, -1.0), (1.0,), Y), ('pl', sl, bp, X)), {}, 0.5, 1.5)]))


def family_affprod():
    """products of two affine expressions: same single variable with / without constants on either side, equal
    factors, different variables, a sum times a difference (the flattener has shortcuts for each of these)"""
    A = lambda *t: t[0] if len(t) == 1 else ('add', t[0], A(*t[1:]))
    k = lambda c, e: ('mul', N(c), e)
    prods = [
        ('(x+1)*x', ('mul', A(X, N(1)), X)), ('x*(x+1)', ('mul', X, A(X, N(1)))), ('(x+2)*(3x)', ('mul', A(X, N(2)), k(3, X))),
        ('(2x)*(3x)', ('mul', k(2, X), k(3, X))), ('(x+1)*(x+1)', ('mul', A(X, N(1)), A(X, N(1)))),
        ('(2x-1)*(x+1)', ('mul', A(k(2, X), N(-1)), A(X, N(1)))), ('(x+1)*(b-1)', ('mul', A(X, N(1)), A(B, N(-1)))),
        ('(x+y)*(x-y)', ('mul', A(X, Y), ('sub', X, Y))), ('(y+1)*y', ('mul', A(Y, N(1)), Y)), ('(x+b)*(x+b)', ('mul', A(X, B), A(X, B))),
        ('(x+1)*x*b', ('mul', ('mul', A(X, N(1)), X), B)),
        # a constant times (quadratic + constant), in both operand orders
        ('(x*b+2)*3', ('mul', A(('mul', X, B), N(2)), N(3))), ('3*(x*b+2)', ('mul', N(3), A(('mul', X, B), N(2)))),
        ('(x*x+2)*3', ('mul', A(('pow2', X), N(2)), N(3))), ('(x*y+1.5)*(-2)', ('mul', A(('mul', X, Y), N(1.5)), N(-2))),
    ]
    for nm, e in prods:
        for rn, m in roots_numeric('affprod ' + nm, e, V3):
            yield (rn, m)
        yield ('affprod %s reified' % nm, Model(V3, lcons=[('or', ('ge', e, N(2)), ('ge', B, N(1)))], obj=('min', None, {0: 1.0, 1: 1.0, 2: 1.0})))


def family_alg3(tier='thorough'):
    """arithmetic chains of depth 3: every (parent, child, grandchild) over the algebraic templates, the grandchild over
    the leaves x, y / x, b; expression canonicalisation (constant folding, multiplying out, term merging) sees products of
    sums, constants times quadratics plus constants, squares of affine expressions, ..."""
    U = [('neg', lambda e: ('neg', e)), ('pow2', lambda e: ('pow2', e)), ('*-2', lambda e: ('mul', N(-2), e)), ('*3r', lambda e: ('mul', e, N(3))),
         ('/2', lambda e: ('div', e, N(2))), ('+1.5', lambda e: ('add', e, N(1.5))), ('2-', lambda e: ('sub', N(2), e)),
         ('+y', lambda e: ('add', e, Y)), ('*b', lambda e: ('mul', e, B)), ('x*', lambda e: ('mul', X, e))]
    G = [('x*b', ('mul', X, B)), ('x+y', ('add', X, Y)), ('x', X)]
    seen = set()
    for pn, pf in U:
        for cn, cf in U:
            for gn, g in G:
                e = pf(cf(g))
                deg = _degree(e)
                if deg > 2 or e in seen: continue        # the exact fragment is linear / quadratic algebra
                seen.add(e)
                name = 'alg3 %s(%s(%s))' % (pn, cn, gn)
                yield ('con %s <= 1' % name, Model(V3, acons=[(e, {}, -INF, 1.0)]))
                if tier != 'quick':
                    yield ('con %s == 1' % name, Model(V3, acons=[(e, {}, 1.0, 1.0)]))
                    yield ('min %s' % name, Model(V3, acons=[(None, {0: 1.0, 1: 1.0}, -INF, 3.0)], obj=('min', e, {})))


def _degree(e):
    k = e[0]
    if k == 'n': return 0
    if k == 'v': return 1
    if k in ('neg',): return _degree(e[1])
    if k == 'pow2': return 2 * _degree(e[1])
    if k in ('add', 'sub'): return max(_degree(e[1]), _degree(e[2]))
    if k == 'mul': return _degree(e[1]) + _degree(e[2])
    if k == 'div': return _degree(e[1]) if _degree(e[2]) == 0 else 99
    return 99


def family_log3(tier='thorough'):
    """logical chains of depth 3: every (parent, child, atom) over unary logical contexts built from not / or / and /
    iff / implication (as condition, as consequence) / count-comparison / if-then-else condition; contexts flip and mix
    twice on the way down to the comparison"""
    BB = ('ge', B, N(1))
    U = [('not', lambda e: ('not', e)), ('or b', lambda e: ('or', e, BB)), ('and b', lambda e: ('and', e, BB)),
         ('iff b', lambda e: ('iff', e, BB)), ('=>b', lambda e: ('impl', e, BB, ('b', True))), ('b=>', lambda e: ('impl', BB, e, ('b', True))),
         ('b=>else', lambda e: ('impl', BB, ('b', True), e)), ('count>=1', lambda e: ('ge', ('count', e, BB), N(1))),
         ('count==1', lambda e: ('eq', ('count', e, BB), N(1))), ('if>=1', lambda e: ('ge', ('if', e, X, Y), N(1)))]
    atoms = [('x>=1', ('ge', X, N(1))), ('x==1', ('eq', X, N(1))), ('y<=1', ('le', Y, N(1))), ('x!=1', ('ne', X, N(1))),
             ('y<1', ('lt', Y, N(1))), ('x==y', ('eq', X, Y)), ('abs(x)>=2', ('ge', ('abs', X), N(2)))]
    if tier == 'quick': atoms = atoms[:4]
    for pn, pf in U:
        for cn, cf in U:
            for an, a in atoms:
                yield ('log3 %s(%s(%s))' % (pn, cn, an), Model(V3, lcons=[pf(cf(a))], obj=('min', None, {0: 1.0, 1: 1.0, 2: 1.0})))


def family_unbounded():
    """variables without (some) bounds: the converter either refuses (bounds / big-M needed) or, e.g. under cvt:bigM,
    delivers a model that must agree with the NL model on the explored window of the unbounded domain"""
    VFREE = [(-INF, INF, False, 0.5), (-INF, INF, True, 1.0), (0.0, 1.0, True, 1.0)]
    VHALF = [(0.0, INF, False, 0.5), (-INF, 2.0, True, 1.0), (0.0, 1.0, True, 1.0)]
    for vn, V in (('free', VFREE), ('half', VHALF)):
        ms = [('or', Model(V, lcons=[('or', ('ge', X, N(1)), ('le', Y, N(1)))])),
              ('x*b', Model(V, acons=[(('mul', X, B), {}, -INF, 1.0)])),
              ('if', Model(V, acons=[(('if', ('ge', B, N(1)), X, Y), {}, -INF, 1.0)])),
              ('max', Model(V, acons=[(('max', X, Y), {}, 1.0, INF)])),
              ('min-obj', Model(V, acons=[(None, {0: 1.0, 1: 1.0}, -INF, 3.0)], obj=('max', ('min', X, Y), {}))),
              ('abs', Model(V, acons=[(('abs', X), {}, 1.0, INF)])),
              ('iff', Model(V, lcons=[('iff', ('ge', X, N(1)), ('ge', B, N(1)))])),
              ('impl', Model(V, lcons=[('impl', ('ge', B, N(1)), ('le', Y, N(1)), ('ge', X, N(0)))])),
              ('impl-ge', Model(V, lcons=[('impl', ('ge', B, N(1)), ('ge', Y, N(1)), ('b', True))])),
              ('impl-le', Model(V, lcons=[('impl', ('ge', B, N(1)), ('le', ('add', X, Y), N(1)), ('b', True))])),
              ('count', Model(V, acons=[(('count', ('ge', X, N(1)), ('le', Y, N(1))), {}, 1.0, INF)])),
              ('ne', Model(V, lcons=[('ne', X, N(1))])),
              ('lt', Model(V, lcons=[('or', ('lt', Y, N(1)), ('ge', B, N(1)))])),
              ('eq-reif', Model(V, lcons=[('or', ('eq', X, N(1)), ('ge', B, N(1)))])),
              ('numberof', Model(V, acons=[(('numberof', X, B, N(1)), {}, 1.0, INF)])),
              ('pl', Model(V, acons=[(('pl', (-1.0, 1.0, 2.0), (0.0, 1.0), X), {}, -INF, 1.0)]))]
        for nm, m in ms:
            yield ('unbounded %s %s' % (vn, nm), m)


FAMILIES = {
    'shapes': family_shapes, 'sharing': family_sharing, 'canon': family_canon, 'uenc': family_uenc,
    'bounds': family_bounds, 'linmix': family_linear_mix, 'alldiffcont': family_alldiff_cont,
    'compl': family_compl, 'sos': family_sos, 'dvars': family_dvars, 'fracint': family_fracint,
    'cones': family_cones, 'pl': family_pl, 'affprod': family_affprod, 'alg3': family_alg3, 'log3': family_log3, 'unbounded': family_unbounded,
}


def all_models(tier, families=None):
    for fam, fn in FAMILIES.items():
        if families and fam not in families: continue
        gen = fn(tier) if fam in ('shapes', 'pl', 'alg3', 'log3') else fn()
        for name, m in gen:
            yield fam, name, m
