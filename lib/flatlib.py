"""Client side of checks/flat/flatsrv.cc: build, server pool, request encoding."""
import json, os, re, subprocess, sys
import vbuild

def build(variant='plain0'):
    """heavy converter TU at -O0 (compile time), the oracle TU and libmp at -O2/-O1"""
    jobs = [(os.path.join(vbuild.VERIF, 'checks/flat/flatsrv.cc'), 'plain0', (), ''),
            (os.path.join(vbuild.VERIF, 'checks/flat/judge.cc'), 'plain', ('-O2',), '')]
    jobs += [(s, 'plain', (), '') for s in vbuild.LIBMP_SRCS]
    objs = vbuild.compile_many(jobs)
    return vbuild.link('flatsrv', objs, 'plain', libs=('-lgmpxx', '-lgmp'))

def esc(s):
    return s.replace('\\', '\\\\').replace('\n', '\\n').replace('\t', '\\t')

_inf_re = re.compile(r'(?<=[\[,:\s])(-?)inf\b')
_nan_re = re.compile(r'(?<=[\[,:\s])-?nan\b')
def loads(line):
    try:
        return json.loads(line)
    except ValueError:
        line = _inf_re.sub(r'\1Infinity', line)
        line = _nan_re.sub('NaN', line)
        return json.loads(line)

class Server:
    def __init__(self, binary, env=None):
        self.binary = binary
        self.env = dict(os.environ)
        self.env.update({'ASAN_OPTIONS': 'detect_leaks=0', 'LC_ALL': 'C'})
        if env: self.env.update(env)
        self.p = None
        self.crashes = 0
        self.start()
    def start(self):
        self.p = subprocess.Popen([self.binary], stdin=subprocess.PIPE, stdout=subprocess.PIPE,
                                  stderr=subprocess.PIPE, text=True, env=self.env, errors='replace')
    def request(self, op, **kv):
        line = op + ''.join('\t%s=%s' % (k, esc(str(v))) for k, v in kv.items()) + '\n'
        try:
            self.p.stdin.write(line); self.p.stdin.flush()
            out = self.p.stdout.readline()
        except (BrokenPipeError, OSError):
            out = ''
        if not out:
            # server died: a crash is an observation
            try:
                err = self.p.stderr.read()[-3000:]
            except Exception:
                err = ''
            rc = self.p.wait()
            self.crashes += 1
            self.start()
            return {'status': 'crash', 'rc': rc, 'stderr': err}
        return loads(out)
    def close(self):
        try:
            self.p.stdin.close(); self.p.wait(timeout=5)
        except Exception:
            self.p.kill()

def acc_string(default=0, types=None, **flags):
    parts = ['default=%d' % default]
    for k, v in (types or {}).items():
        parts.append('%s=%d' % (k, v))
    for k, v in flags.items():
        parts.append('%s=%d' % (k, v))
    return ';'.join(parts)
