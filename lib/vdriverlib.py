"""Build and run checks/vdriver/vdriver.cc (scripted full driver)."""
import os, subprocess, json, shutil
import vbuild, flatlib

def build(variant='plain'):
    jobs = [(os.path.join(vbuild.VERIF, 'checks/vdriver/vdriver.cc'), 'plain0' if variant == 'plain' else variant, (), '')]
    jobs += [(s, variant, (), '') for s in vbuild.LIBMP_SRCS]
    objs = vbuild.compile_many(jobs)
    return vbuild.link('vdriver', objs, variant)

def run(binary, workdir, nl_text=None, stub='m', args=('-AMPL',), script=None, env_opts=None, col=None, row=None,
        timeout=20, extra_env=None, nl_bytes=None, pre=()):
    """One driver run in its own directory.  Returns dict(rc, out, err, sol (text or None), dump (dict or None))."""
    os.makedirs(workdir, exist_ok=True)
    stubp = os.path.join(workdir, stub)
    if nl_bytes is not None: open(stubp + '.nl', 'wb').write(nl_bytes)
    elif nl_text is not None: open(stubp + '.nl', 'w').write(nl_text)
    if col is not None: open(stubp + '.col', 'w').write(col)
    if row is not None: open(stubp + '.row', 'w').write(row)
    for ext in ('.sol', '.dump'):
        try: os.remove(stubp + ext)
        except OSError: pass
    env = {'PATH': '/usr/bin:/bin', 'LC_ALL': 'C', 'HOME': workdir, 'ASAN_OPTIONS': 'detect_leaks=0',
           'VDRIVER_DUMP': stubp + '.dump'}
    if script is not None:
        sp = stubp + '.script'
        with open(sp, 'w') as f:
            for k, v in script.items(): f.write('%s=%s\n' % (k, str(v).replace('\\', '\\\\').replace('\n', '\\n')))
        env['VDRIVER_SCRIPT'] = sp
    if env_opts:
        for k, v in env_opts.items(): env[k] = v
    if extra_env: env.update(extra_env)
    # a run that exceeds the horizon is repeated once, alone in time, with six times the horizon before it is called a hang
    # (the run is deterministic; on a loaded machine a 50 ms run has been seen to exceed 20 s)
    for attempt, tmo in enumerate((timeout, timeout * 6)):
        try:
            p = subprocess.run([binary] + list(pre) + [stubp] + list(args), capture_output=True, env=env, timeout=tmo, cwd=workdir)
            rc, out, err = p.returncode, p.stdout.decode(errors='replace'), p.stderr.decode(errors='replace')
            break
        except subprocess.TimeoutExpired as e:
            rc, out, err = 'timeout', (e.stdout or b'').decode(errors='replace'), (e.stderr or b'').decode(errors='replace')
            for ext in ('.sol', '.dump'):
                try: os.remove(stubp + ext)
                except OSError: pass
    sol = None; dump = None
    if os.path.exists(stubp + '.sol'):
        sol = open(stubp + '.sol', 'rb').read().decode(errors='replace')
    if os.path.exists(stubp + '.dump'):
        try: dump = flatlib.loads(open(stubp + '.dump').read())
        except ValueError as e: dump = {'_unparsable': str(e)}
    return {'rc': rc, 'out': out, 'err': err, 'sol': sol, 'dump': dump}

def parse_sol(text):
    """Reference parser of a text .sol as written by AMPL drivers.  Returns dict or raises ValueError."""
    lines = text.split('\n')
    i = 0; msg = []
    while i < len(lines) and lines[i] != 'Options' and not (lines[i] == '' and i + 1 < len(lines) and lines[i + 1] == 'Options'):
        msg.append(lines[i]); i += 1
    if i < len(lines) and lines[i] == '': i += 1
    if i >= len(lines) or lines[i] != 'Options': raise ValueError('no Options section')
    i += 1
    nopt = int(lines[i]); i += 1
    opts = []
    for _ in range(nopt): opts.append(lines[i]); i += 1
    if nopt >= 2 and opts[1].strip() == '3':   # vbtol line follows
        opts.append(lines[i]); i += 1
    ncons = int(lines[i]); nduals = int(lines[i + 1]); nvars = int(lines[i + 2]); nprimals = int(lines[i + 3]); i += 4
    duals = [float(lines[i + k]) for k in range(nduals)]; i += nduals
    primals = [float(lines[i + k]) for k in range(nprimals)]; i += nprimals
    objno = None; code = None
    if i < len(lines) and lines[i].startswith('objno'):
        parts = lines[i].split(); objno = int(parts[1]); code = int(parts[2]); i += 1
    suffixes = []
    while i < len(lines) and lines[i].startswith('suffix'):
        h = lines[i].split(); kind, n, namelen, tablen, tablines = map(int, h[1:6]); i += 1
        name = lines[i]; i += 1
        table = []
        for _ in range(tablines): table.append(lines[i]); i += 1
        vals = {}
        for _ in range(n):
            a, b = lines[i].split(); vals[int(a)] = float(b); i += 1
        suffixes.append({'kind': kind, 'name': name, 'values': vals, 'table': table})
    rest = [l for l in lines[i:] if l.strip()]
    if rest: raise ValueError('trailing garbage: %r' % rest[:3])
    return {'message': '\n'.join(msg), 'nopt': nopt, 'ncons': ncons, 'nduals': nduals, 'nvars': nvars,
            'nprimals': nprimals, 'duals': duals, 'primals': primals, 'objno': objno, 'code': code, 'suffixes': suffixes}
