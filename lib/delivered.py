"""Semantics of the model delivered to RecAPI and the exact auxiliary-variable search.

Delivered(d, norig).search(p, want_obj) decides, for a fixed point p of the ORIGINAL variables,
   exists aux: delivered(p, aux)       and      best delivered objective over aux
exhaustively: functional propagation, enumeration of integer auxiliaries (finite boxes),
Fourier-Motzkin elimination for the remaining continuous auxiliaries (they occur linearly).
Anything outside that scheme raises Undecided (counted, never a verdict).

Semantics per delivered constraint type are written from the documentation in
doc/source/model-guide.rst and the constraint headers' descriptions, not from constr_eval.h.
"""
import math, re

INF = float('inf')
TOL = 1e-7
EPS_STRICT = 1e-4      # cvt:cmp:eps default: strict comparison of continuous bodies


class Undecided(Exception):
    pass


KIND = {'i0E': 0, 'i1E': 1, 'i2E': 2, 'in1E': -1, 'in2E': -2}


def cond_kind(tn):
    m = re.search(r'AlgConRhsIL(i\d|in\d)E', tn)
    return KIND[m.group(1) + 'E']


def lin_of(body, a):
    """(const, {var: coef}) of a linear/quadratic body given the known assignment a"""
    const = 0.0; co = {}
    lin = body['lin_terms'] if 'lin_terms' in body else body
    for c, v in zip(lin['coefs'], lin['vars']):
        if v in a: const += c * a[v]
        else: co[v] = co.get(v, 0.0) + c
    if 'qp_terms' in body:
        q = body['qp_terms']
        for c, v1, v2 in zip(q['coefs'], q['vars1'], q['vars2']):
            if v1 in a and v2 in a: const += c * a[v1] * a[v2]
            elif v1 in a: co[v2] = co.get(v2, 0.0) + c * a[v1]
            elif v2 in a: co[v1] = co.get(v1, 0.0) + c * a[v2]
            else: raise Undecided('quadratic term in two unknowns')
    co = {v: c for v, c in co.items() if c != 0.0}
    return const, co


def body_vars(body):
    lin = body['lin_terms'] if 'lin_terms' in body else body
    vs = set(lin['vars'])
    if 'qp_terms' in body:
        vs |= set(body['qp_terms']['vars1']) | set(body['qp_terms']['vars2'])
    return vs


def rng_of(rr):
    if isinstance(rr[0], str):
        k, r = rr
        return {'LE': (-INF, r), 'GE': (r, INF), 'EQ': (r, r)}[k]
    lb, ub = rr
    if lb <= -1e300: lb = -INF
    if ub >= 1e300: ub = INF
    return (lb, ub)


def pl_points_eval(px, py, x):
    n = len(px)
    if n == 1: return py[0]
    if x <= px[0]:
        s = (py[1] - py[0]) / (px[1] - px[0]); return py[0] + s * (x - px[0])
    if x >= px[-1]:
        s = (py[-1] - py[-2]) / (px[-1] - px[-2]); return py[-1] + s * (x - px[-1])
    for i in range(n - 1):
        if px[i] <= x <= px[i + 1]:
            t = (x - px[i]) / (px[i + 1] - px[i]); return py[i] + t * (py[i + 1] - py[i])
    raise AssertionError


FUNC_TYPES = {
    'MaxConstraint', 'MinConstraint', 'AbsConstraint', 'AndConstraint', 'OrConstraint', 'NotConstraint',
    'DivConstraint', 'IfThenConstraint', 'ImplicationConstraint', 'AllDiffConstraint',
    'NumberofConstConstraint', 'NumberofVarConstraint', 'CountConstraint', 'PowConstraint',
    'PLConstraint', 'ExpConstraint', 'ExpAConstraint', 'LogConstraint', 'LogAConstraint', 'SinConstraint',
    'CosConstraint', 'TanConstraint', 'AsinConstraint', 'AcosConstraint', 'AtanConstraint',
    'SinhConstraint', 'CoshConstraint', 'TanhConstraint', 'AsinhConstraint', 'AcoshConstraint',
    'AtanhConstraint'}


class FuncUndefined(Exception):
    pass


def func_value(tn, x, params):
    """true value of a functional constraint's function at argument values x"""
    if tn == 'MaxConstraint': return max(x)
    if tn == 'MinConstraint': return min(x)
    if tn == 'AbsConstraint': return abs(x[0])
    if tn == 'AndConstraint': return float(all(t >= 0.5 for t in x))
    if tn == 'OrConstraint': return float(any(t >= 0.5 for t in x))
    if tn == 'NotConstraint': return float(x[0] < 0.5)
    if tn == 'DivConstraint':
        if x[1] == 0: raise FuncUndefined()
        return x[0] / x[1]
    if tn == 'IfThenConstraint': return x[1] if x[0] >= 0.5 else x[2]
    if tn == 'ImplicationConstraint':
        return float((x[0] >= 0.5 and x[1] >= 0.5) or (x[0] < 0.5 and x[2] >= 0.5))
    if tn == 'AllDiffConstraint': return float(len(set(round(t, 9) for t in x)) == len(x))
    if tn == 'NumberofConstConstraint': return float(sum(1 for t in x if abs(t - params[0]) < 1e-9))
    if tn == 'NumberofVarConstraint': return float(sum(1 for t in x[1:] if abs(t - x[0]) < 1e-9))
    if tn == 'CountConstraint': return float(sum(1 for t in x if t >= 0.5))
    try:
        if tn == 'PowConstraint':
            if x[0] < 0 and not float(params[0]).is_integer(): raise FuncUndefined()
            if x[0] == 0 and params[0] < 0: raise FuncUndefined()
            return x[0] ** params[0]
        if tn == 'ExpConstraint': return math.exp(x[0])
        if tn == 'ExpAConstraint': return params[0] ** x[0]
        if tn == 'LogConstraint':
            if x[0] <= 0: raise FuncUndefined()
            return math.log(x[0])
        if tn == 'LogAConstraint':
            if x[0] <= 0: raise FuncUndefined()
            return math.log(x[0]) / math.log(params[0])
        if tn == 'SinConstraint': return math.sin(x[0])
        if tn == 'CosConstraint': return math.cos(x[0])
        if tn == 'TanConstraint': return math.tan(x[0])
        if tn == 'AsinConstraint':
            if abs(x[0]) > 1: raise FuncUndefined()
            return math.asin(x[0])
        if tn == 'AcosConstraint':
            if abs(x[0]) > 1: raise FuncUndefined()
            return math.acos(x[0])
        if tn == 'AtanConstraint': return math.atan(x[0])
        if tn == 'SinhConstraint': return math.sinh(x[0])
        if tn == 'CoshConstraint': return math.cosh(x[0])
        if tn == 'TanhConstraint': return math.tanh(x[0])
        if tn == 'AsinhConstraint': return math.asinh(x[0])
        if tn == 'AcoshConstraint':
            if x[0] < 1: raise FuncUndefined()
            return math.acosh(x[0])
        if tn == 'AtanhConstraint':
            if abs(x[0]) >= 1: raise FuncUndefined()
            return math.atanh(x[0])
    except (OverflowError, ValueError, ZeroDivisionError):
        raise FuncUndefined()
    if tn == 'PLConstraint':
        return pl_points_eval(params['pl_x'], params['pl_y'], x[0])
    raise Undecided('functional type ' + tn)


def fm_feasible(rows, elim, obj=None):
    """rows: (coefs dict, lb, ub[, strict_lb, strict_ub]) meaning lb <= sum <= ub.
    Eliminates all variables in elim.  With obj=(coefs, const): returns (feasible, min, max)."""
    # Gaussian step first: an equality row containing a variable to eliminate defines it; substitute it
    # everywhere (keeps Fourier-Motzkin small).  The objective is the equality  oc.x - z = -o0.
    work = [[dict(row[0]), row[1], row[2]] for row in rows]
    if obj is not None:
        oc, o0 = obj
        co = dict(oc); co['__z'] = -1.0
        work.append([co, -o0, -o0])
    elim = list(elim); elimset = set(elim)
    progress = True
    while progress:
        progress = False
        for ri, (co, lb, ub) in enumerate(work):
            if lb != ub or lb in (INF, -INF): continue
            cand = [(abs(c), v) for v, c in co.items() if v in elimset and abs(c) > 1e-9]
            if not cand: continue
            v = max(cand)[1]; c = co[v]
            del work[ri]
            for q in work:
                cq = q[0].get(v, 0.0)
                if cq == 0.0: continue
                f = cq / c
                for k, val in co.items():
                    if k == v: continue
                    q[0][k] = q[0].get(k, 0.0) - f * val
                del q[0][v]
                q[1] -= f * lb; q[2] -= f * lb
            elimset.discard(v); elim.remove(v)
            progress = True
            break
    ineqs = []   # (coefs, rhs): sum <= rhs
    for co, lb, ub in work:
        co = {k: val for k, val in co.items() if abs(val) > 1e-12}
        if ub < INF: ineqs.append((dict(co), ub))
        if lb > -INF: ineqs.append(({v: -c for v, c in co.items()}, -lb))
    left = sorted(set(elim))
    while left:
        # greedy order: the variable whose elimination creates the fewest new rows (ties: smallest index)
        best = None
        for w in left:
            np_ = sum(1 for (c, r) in ineqs if c.get(w, 0.0) > 1e-12)
            nn_ = sum(1 for (c, r) in ineqs if c.get(w, 0.0) < -1e-12)
            cost = np_ * nn_ - np_ - nn_
            if best is None or cost < best[0]: best = (cost, w)
        v = best[1]; left.remove(v)
        pos = [(c, r) for (c, r) in ineqs if c.get(v, 0.0) > 1e-12]
        neg = [(c, r) for (c, r) in ineqs if c.get(v, 0.0) < -1e-12]
        new = [(c, r) for (c, r) in ineqs if abs(c.get(v, 0.0)) <= 1e-12]
        if len(pos) * len(neg) + len(new) > 6000: raise Undecided('FM blowup')
        for (cp, rp) in pos:
            for (cn, rn) in neg:
                ap = cp[v]; an = -cn[v]
                co = {}
                for k, val in cp.items():
                    if k != v: co[k] = co.get(k, 0.0) + val / ap
                for k, val in cn.items():
                    if k != v: co[k] = co.get(k, 0.0) + val / an
                co = {k: val for k, val in co.items() if abs(val) >= 1e-11}
                rhs = rp / ap + rn / an
                if not co and rhs >= 0: continue
                new.append((co, rhs))
        tight = {}
        for co, r in new:
            key = tuple(sorted(co.items(), key=lambda kv: str(kv[0])))
            if key not in tight or r < tight[key][1]: tight[key] = (co, r)
        ineqs = list(tight.values())
    lo, hi = -INF, INF
    for co, r in ineqs:
        cz = co.get('__z', 0.0) if obj is not None else 0.0
        others = [k for k, val in co.items() if k != '__z' and abs(val) > 1e-9]
        if others: raise Undecided('FM residual variables')
        if abs(cz) <= 1e-12:
            if r < -TOL: return (False, None, None)
        elif cz > 0: hi = min(hi, r / cz)
        else: lo = max(lo, r / cz)
    if lo > hi + TOL: return (False, None, None)
    return (True, lo, hi)


class LPFMDisagree(Exception):
    pass


def _simplex_min(T, basis, ncols, allowed):
    """Bland's rule on a dense tableau T of Fractions (m rows + cost row last; last column = rhs).  Minimises.
    Returns 'opt' | 'unbounded'.  Exact arithmetic: no tolerances."""
    m = len(T) - 1
    for _ in range(20000):
        cost = T[m]
        e = -1
        for j in range(ncols):
            if allowed[j] and cost[j] < 0: e = j; break
        if e < 0: return 'opt'
        lr = -1; best = None
        for i in range(m):
            a = T[i][e]
            if a > 0:
                ratio = T[i][-1] / a
                if best is None or ratio < best or (ratio == best and basis[i] < basis[lr]):
                    best = ratio; lr = i
        if lr < 0: return 'unbounded'
        pv = T[lr][e]
        T[lr] = [x / pv if x else x for x in T[lr]]
        row = T[lr]
        for i in range(m + 1):
            if i != lr:
                f = T[i][e]
                if f:
                    T[i] = [x - f * y if y else x for x, y in zip(T[i], row)]
        basis[lr] = e
    raise Undecided('simplex iteration limit')


def lp_feasible(rows, elim, obj=None):
    """Same contract as fm_feasible, decided by an exact rational two-phase simplex.
    Exact rows first; only if they have no solution, every right-hand side is relaxed by TOL (noise in the data)."""
    r = _lp_feasible(rows, elim, obj, 0.0)
    return r if r[0] else _lp_feasible(rows, elim, obj, TOL)


def _lp_feasible(rows, elim, obj, tol):
    """Every float converts exactly to a Fraction, so there is no rounding (a floating-point tableau gave wrong
    verdicts on rows mixing coefficients 1 and 1e6).  Steps: (1) equality rows define a variable: substitute it
    (exact Gaussian step); (2) single-variable rows become bounds, variables are shifted to x' >= 0;
    (3) two-phase dense simplex with Bland's rule.  The objective is the variable z of the row oc.x - z = -o0."""
    from fractions import Fraction as Fr
    ZV = '__z'
    FT = Fr(tol)
    fin = lambda b: b not in (INF, -INF)
    work = []
    for row in rows:
        co = {v: Fr(c) for v, c in row[0].items() if c != 0}
        work.append([co, Fr(row[1]) if fin(row[1]) else None, Fr(row[2]) if fin(row[2]) else None])
    free = set(elim)
    if obj is not None:
        oc, o0 = obj
        co = {v: Fr(c) for v, c in oc.items() if c != 0}; co[ZV] = Fr(-1)
        work.append([co, Fr(-o0), Fr(-o0)]); free.add(ZV)
    for co, lb, ub in work:
        for v in co:
            if v not in free: raise Undecided('LP residual variables')
    # (1) Gaussian step (only for exact equalities; with tol > 0 an equality is a range and stays a row)
    if tol == 0.0:
        progress = True
        while progress:
            progress = False
            for ri, (co, lb, ub) in enumerate(work):
                if lb is None or lb != ub: continue
                cand = sorted(v for v in co if v != ZV)
                if not cand: continue
                v = cand[0]; c = co[v]
                del work[ri]
                for q in work:
                    cq = q[0].get(v)
                    if not cq: continue
                    f = cq / c
                    for k, val in co.items():
                        if k == v: continue
                        nv = q[0].get(k, 0) - f * val
                        if nv: q[0][k] = nv
                        else: q[0].pop(k, None)
                    del q[0][v]
                    if q[1] is not None: q[1] -= f * lb
                    if q[2] is not None: q[2] -= f * lb
                free.discard(v)
                progress = True
                break
    # (2) bounds
    L = {}; U = {}; gen = []
    for co, lb, ub in work:
        if not co:
            if (ub is not None and ub + FT < 0) or (lb is not None and lb - FT > 0): return (False, None, None)
            continue
        if len(co) == 1:
            (v, c), = co.items()
            lo_ = None if (lb if c > 0 else ub) is None else (lb if c > 0 else ub) / c
            hi_ = None if (ub if c > 0 else lb) is None else (ub if c > 0 else lb) / c
            if lo_ is not None and (v not in L or lo_ > L[v]): L[v] = lo_
            if hi_ is not None and (v not in U or hi_ < U[v]): U[v] = hi_
        else: gen.append((co, lb, ub))
    for v in L:
        if v in U and L[v] - FT > U[v] + FT: return (False, None, None)
    vs = sorted(free, key=lambda v: (isinstance(v, str), v)); n = len(vs)
    # column layout: per variable one column x' (x = L + x' or x = U - x') or two (x = u - w)
    cols = {}; ncol = 0
    for v in vs:
        if v in L: cols[v] = ('lo', ncol); ncol += 1
        elif v in U: cols[v] = ('up', ncol); ncol += 1
        else: cols[v] = ('free', ncol); ncol += 2
    ineq = []                                   # (dense a over the columns, b): a.x' <= b
    def add(co, b):
        a = [Fr(0)] * ncol
        for v, c in co.items():
            kind, j = cols[v]
            if kind == 'lo': a[j] += c; b -= c * (L[v] - FT)
            elif kind == 'up': a[j] -= c; b -= c * (U[v] + FT)
            else: a[j] += c; a[j + 1] -= c
        ineq.append((a, b))
    for co, lb, ub in gen:
        if ub is not None: add(co, ub + FT)
        if lb is not None: add({v: -c for v, c in co.items()}, -lb + FT)
    for v in vs:                                # the other bound of a shifted variable
        kind, j = cols[v]
        if kind == 'lo' and v in U:
            a = [Fr(0)] * ncol; a[j] = Fr(1); ineq.append((a, (U[v] + FT) - (L[v] - FT)))
    m = len(ineq)
    # (3) tableau: structural columns, slacks, artificials only for rows with negative right-hand side
    nart = sum(1 for a, b in ineq if b < 0)
    width = ncol + m + nart
    T = []; basis = []; k = 0
    for i, (a, b) in enumerate(ineq):
        r = list(a) + [Fr(0)] * (m + nart) + [b]
        r[ncol + i] = Fr(1)
        if b < 0:
            r = [-x for x in r]; r[ncol + m + k] = Fr(1); basis.append(ncol + m + k); k += 1
        else: basis.append(ncol + i)
        T.append(r)
    allowed = [True] * width
    if nart:
        cost = [Fr(0)] * (width + 1)
        for i in range(m):
            if basis[i] >= ncol + m:
                for j in range(width + 1):
                    if j < ncol + m or j == width: cost[j] -= T[i][j]
        T.append(cost)
        _simplex_min(T, basis, width, allowed)
        if T[m][-1] != 0: return (False, None, None)
        T.pop()
        for j in range(ncol + m, width): allowed[j] = False
        for i in range(m):                      # drive artificials out of the basis where possible
            if basis[i] >= ncol + m:
                for j in range(ncol + m):
                    if T[i][j] != 0:
                        pv = T[i][j]; T[i] = [x / pv for x in T[i]]
                        for i2 in range(m):
                            if i2 != i and T[i2][j] != 0:
                                f = T[i2][j]; T[i2] = [x - f * y for x, y in zip(T[i2], T[i])]
                        basis[i] = j; break
    if obj is None: return (True, -INF, INF)
    res = []
    kind, jz = cols[ZV]
    for sgn in (1, -1):                         # min z, then max z
        T2 = [list(r) for r in T]; b2 = list(basis)
        c = [Fr(0)] * (width + 1); off = Fr(0)
        if kind == 'lo': c[jz] = Fr(sgn); off = L[ZV]
        elif kind == 'up': c[jz] = Fr(-sgn); off = U[ZV]
        else: c[jz] = Fr(sgn); c[jz + 1] = Fr(-sgn)
        for i in range(m):                      # price out the basic columns
            f = c[b2[i]]
            if f: c = [x - f * y for x, y in zip(c, T2[i])]
        T2.append(c)
        st = _simplex_min(T2, b2, width, allowed)
        res.append(None if st == 'unbounded' else sgn * (-T2[m][-1]) + off)
    lo = float(res[0]) if res[0] is not None else -INF
    hi = float(res[1]) if res[1] is not None else INF
    return (True, lo, hi)


def lin_feasible(rows, elim, obj=None):
    """Simplex decides; Fourier-Motzkin is run as an independent second opinion on small systems."""
    ok, lo, hi = lp_feasible(rows, elim, obj)
    if len(rows) <= 14 and len(set(elim)) <= 6:
        try: ok2, lo2, hi2 = fm_feasible(rows, elim, obj)
        except Undecided: return (ok, lo, hi)
        close = lambda a, b: a == b or abs(a - b) <= 1e-5 * max(1.0, abs(a), abs(b))
        if ok != ok2 or (ok and obj is not None and not (close(lo, lo2) and close(hi, hi2))):
            # disagreement only counts when it is not a tolerance-boundary effect of the feasibility test
            raise LPFMDisagree('LP %r vs FM %r' % ((ok, lo, hi), (ok2, lo2, hi2)))
    return (ok, lo, hi)


class Delivered:
    def __init__(self, d, norig):
        self.vars = [(v[0], v[1], v[2]) for v in d['vars']]
        self.cons = [dict(c) for c in d['cons']]; self.objs = [o for o in d['objs'] if o]
        self.norig = norig
        self.nv = len(self.vars)
        for c in self.cons:
            tn = c['type']
            c['_k'] = ('alg' if tn.startswith('AlgebraicConstraint') else
                       'ind' if tn.startswith('IndicatorConstraint') else
                       'cond' if tn.startswith('Conditional') else
                       'sos' if tn.startswith('SOS') else
                       'compl' if tn.startswith('ComplementarityConstraint') else
                       'lfc' if tn == 'LinearFunctionalConstraint' else
                       'qfc' if tn == 'QuadraticFunctionalConstraint' else
                       'cone' if tn in ('QuadraticConeConstraint', 'RotatedQuadraticConeConstraint') else
                       'dummy' if tn == 'UnaryEncodingConstraint' else
                       'func' if tn in FUNC_TYPES else 'other')
            if c['_k'] == 'cond': c['_ck'] = cond_kind(tn)

    # ---- helpers ---------------------------------------------------------------------------
    def _var_ok(self, i, val):
        lb, ub, ty = self.vars[i]
        if val < lb - TOL * max(1, abs(lb)) or val > ub + TOL * max(1, abs(ub)): return False
        if ty == 1 and abs(val - round(val)) > TOL: return False
        return True

    def propagate(self, a):
        """fix results of functional constraints whose arguments are known; solve single-unknown
        linear equalities.  Returns False on an undefined function value (infeasible branch)."""
        changed = True
        while changed:
            changed = False
            for c in self.cons:
                k = c['_k']; d = c['data']
                if k == 'func':
                    r = d['res_var']
                    if r >= 0 and r not in a and all(v in a for v in d['args']):
                        try: a[r] = func_value(c['type'], [a[v] for v in d['args']], d.get('params', []))
                        except FuncUndefined: return False
                        changed = True
                elif k in ('lfc', 'qfc'):
                    r = d['res_var']
                    if r >= 0 and r not in a:
                        try: const, co = lin_of(d['expr']['body'], a)
                        except Undecided: continue
                        if not co:
                            a[r] = const + d['expr']['const_term']; changed = True
                elif k == 'alg':
                    lb, ub = rng_of(d['rhs_or_range'])
                    if lb == ub:
                        try: const, co = lin_of(d['body'], a)
                        except Undecided: continue
                        if len(co) == 1:
                            (v, cf), = co.items()
                            if abs(cf) > 1e-12:
                                a[v] = (lb - const) / cf; changed = True
        return True

    def check_known(self, a):
        """False if a constraint all of whose variables are known is violated."""
        for i in a:
            if isinstance(i, int) and not self._var_ok(i, a[i]): return False
        for c in self.cons:
            k = c['_k']; d = c['data']; tn = c['type']
            if k == 'alg':
                try: const, co = lin_of(d['body'], a)
                except Undecided: continue
                if not co:
                    lb, ub = rng_of(d['rhs_or_range'])
                    if const < lb - TOL * max(1, abs(lb)) or const > ub + TOL * max(1, abs(ub)): return False
            elif k == 'ind':
                b = d['bin_var']
                if b in a and round(a[b]) == d['bin_val']:
                    try: const, co = lin_of(d['con']['body'], a)
                    except Undecided: continue
                    if not co:
                        lb, ub = rng_of(d['con']['rhs_or_range'])
                        if const < lb - TOL or const > ub + TOL: return False
            elif k == 'cond':
                r = d['res_var']
                try: const, co = lin_of(d['con']['body'], a)
                except Undecided: continue
                if r in a and not co:
                    ck = c['_ck']; rhs = d['con']['rhs_or_range'][1]
                    truth = {0: abs(const - rhs) <= TOL, 1: const >= rhs - TOL, 2: const > rhs + TOL,
                             -1: const <= rhs + TOL, -2: const < rhs - TOL}[ck]
                    if r < 0:
                        if not truth: return False
                    elif (a[r] >= 0.5) != truth: return False
            elif k == 'cone':
                if all(v in a for v in d['args']):
                    xs = [pp * a[v] for pp, v in zip(d['params'], d['args'])]
                    if tn == 'QuadraticConeConstraint':
                        if xs[0] < math.sqrt(sum(t * t for t in xs[1:])) - TOL: return False
                    else:
                        if xs[0] < -TOL or xs[1] < -TOL or 2 * xs[0] * xs[1] < sum(t * t for t in xs[2:]) - TOL:
                            return False
            elif k == 'func':
                r = d['res_var']
                if all(v in a for v in d['args']):
                    try: val = func_value(tn, [a[v] for v in d['args']], d.get('params', []))
                    except FuncUndefined: return False
                    if r < 0:
                        if val < 0.5: return False     # static logical constraint: must hold
                    elif r in a and abs(val - a[r]) > TOL * max(1, abs(val)): return False
            elif k in ('lfc', 'qfc'):
                r = d['res_var']
                try: const, co = lin_of(d['expr']['body'], a)
                except Undecided: continue
                if r in a and not co:
                    val = const + d['expr']['const_term']
                    if abs(val - a[r]) > TOL * max(1, abs(val)): return False
            elif k == 'compl':
                try: const, co = lin_of(d['expr']['body'], a)
                except Undecided: continue
                v = d['compl_var']
                if not co and v in a:
                    e = const + d['expr']['const_term']
                    lb, ub, _ = self.vars[v]; x = a[v]
                    at_lb = lb > -1e300 and abs(x - lb) <= TOL
                    at_ub = ub < 1e300 and abs(x - ub) <= TOL
                    ok = (at_lb and e >= -TOL) or (at_ub and e <= TOL) or abs(e) <= TOL
                    if not ok: return False
            elif k in ('sos', 'dummy'):
                pass
            else:
                raise Undecided('constraint type ' + tn)
        return True

    def leaf(self, a, want_obj, sense, out):
        unknown = [i for i in range(self.nv) if i not in a]
        rows = []; disj = []
        for i in unknown:
            lb, ub, ty = self.vars[i]
            rows.append(({i: 1.0}, lb if lb > -1e300 else -INF, ub if ub < 1e300 else INF))
        for c in self.cons:
            k = c['_k']; d = c['data']; tn = c['type']
            if k == 'alg':
                const, co = lin_of(d['body'], a)
                if co:
                    lb, ub = rng_of(d['rhs_or_range']); rows.append((co, lb - const, ub - const))
            elif k == 'ind':
                b = d['bin_var']
                if b not in a: raise Undecided('indicator with non-enumerated binary')
                if round(a[b]) == d['bin_val']:
                    const, co = lin_of(d['con']['body'], a)
                    if co:
                        lb, ub = rng_of(d['con']['rhs_or_range']); rows.append((co, lb - const, ub - const))
            elif k == 'cond':
                const, co = lin_of(d['con']['body'], a)
                if co:
                    r = d['res_var']
                    if r >= 0 and r not in a: raise Undecided('conditional result continuous unknown')
                    val = True if r < 0 else (a[r] >= 0.5)
                    ck = c['_ck'] if val else {0: None, 1: -2, 2: -1, -1: 2, -2: 1}[c['_ck']]
                    rhs = d['con']['rhs_or_range'][1] - const
                    if ck is None:
                        disj.append([[(co, rhs + EPS_STRICT, INF)], [(co, -INF, rhs - EPS_STRICT)]]); continue
                    if ck == 0: rows.append((co, rhs, rhs))
                    elif ck == 1: rows.append((co, rhs, INF))
                    elif ck == -1: rows.append((co, -INF, rhs))
                    elif ck == 2: rows.append((co, rhs + EPS_STRICT, INF))
                    elif ck == -2: rows.append((co, -INF, rhs - EPS_STRICT))
            elif k == 'sos':
                # members in reference order; an alternative = an admissible support (SOS1: one position,
                # SOS2: two adjacent positions); members outside it are 0 (checked if known, a row x=0 if not)
                vs = d['vars']
                order = sorted(range(len(vs)), key=lambda i: d['weights'][i])
                n = len(order); width = 1 if d['SOS_type'] == 1 else 2
                alts = []
                for s0 in range(0, max(n, width) - width + 1):
                    alt = []; ok = True
                    for pos in range(n):
                        if s0 <= pos < s0 + width: continue
                        v = vs[order[pos]]
                        if v in a:
                            if abs(a[v]) > TOL: ok = False; break
                        else: alt.append(({v: 1.0}, 0.0, 0.0))
                    if ok: alts.append(alt)
                    if n <= width: break
                if not alts: return
                if not any(len(al) == 0 for al in alts): disj.append(alts)
            elif k == 'func':
                r = d['res_var']
                if (r >= 0 and r not in a) or any(v not in a for v in d['args']):
                    raise Undecided('functional over unknown continuous: ' + tn)
            elif k in ('lfc', 'qfc'):
                r = d['res_var']
                const, co = lin_of(d['expr']['body'], a)
                const += d['expr']['const_term']
                if co or r not in a:
                    co = dict(co)
                    if r in a: const -= a[r]
                    else: co[r] = co.get(r, 0.0) - 1.0
                    rows.append((co, -const, -const))
            elif k == 'cone':
                if any(v not in a for v in d['args']): raise Undecided('cone over unknown')
            elif k == 'compl':
                const, co = lin_of(d['expr']['body'], a)
                if co or d['compl_var'] not in a: raise Undecided('complementarity over unknown')
        obj = None
        if want_obj and self.objs:
            o = self.objs[0]
            o0, oc = lin_of({'lin_terms': o['lin'], 'qp_terms': o['qp']}, a); obj = (oc, o0)
        nalt = 1
        for dd in disj:
            nalt *= len(dd)
            if nalt > 4096: raise Undecided('too many disjunctions')
        import itertools
        for alt in itertools.product(*disj):
            ok, lo, hi = lin_feasible(rows + [r1 for al in alt for r1 in al], unknown, obj)
            if ok:
                out['found'] = True
                if obj is not None:
                    val = hi if sense == 1 else lo
                    b = out.get('best')
                    if b is None or (sense == 1 and val > b) or (sense != 1 and val < b): out['best'] = val
                if 'witness' not in out: out['witness'] = dict(a)
                if obj is None: break

    def implied_bounds(self, a):
        """bounds of the unknown variables implied by the declared bounds and the linear rows under the partial
        assignment a (only consequences are derived: restricting the search to them loses no solution)"""
        L = {}; U = {}
        for i in range(self.nv):
            lb, ub, ty = self.vars[i]
            L[i] = lb if lb > -1e300 else -INF; U[i] = ub if ub < 1e300 else INF
        rows = []
        for c in self.cons:
            k = c['_k']; d = c['data']
            try:
                if k == 'alg':
                    const, co = lin_of(d['body'], a)
                    if co:
                        lb, ub = rng_of(d['rhs_or_range']); rows.append((co, lb - const, ub - const))
                elif k in ('lfc', 'qfc') and d['res_var'] >= 0:
                    r = d['res_var']
                    const, co = lin_of(d['expr']['body'], a); const += d['expr']['const_term']; co = dict(co)
                    if r in a: const -= a[r]
                    else: co[r] = co.get(r, 0.0) - 1.0
                    if co: rows.append((co, -const, -const))
            except Undecided: pass
        for _ in range(20):
            changed = False
            for co, rlb, rub in rows:
                for j, cj in co.items():
                    if abs(cj) < 1e-12: continue
                    smin = smax = 0.0
                    for i2, c2 in co.items():
                        if i2 == j: continue
                        smin += c2 * L[i2] if c2 > 0 else c2 * U[i2]
                        smax += c2 * U[i2] if c2 > 0 else c2 * L[i2]
                    lo = rlb - smax; hi = rub - smin
                    if lo != lo: lo = -INF
                    if hi != hi: hi = INF
                    nl, nu = (lo / cj, hi / cj) if cj > 0 else (hi / cj, lo / cj)
                    if self.vars[j][2] == 1:
                        if -INF < nl < INF: nl = math.ceil(nl - 1e-7)
                        if -INF < nu < INF: nu = math.floor(nu + 1e-7)
                    if nl > L[j] + 1e-9: L[j] = nl; changed = True
                    if nu < U[j] - 1e-9: U[j] = nu; changed = True
            if not changed: break
        return L, U

    def search(self, p, want_obj):
        """returns (exists, best_obj or None, witness)"""
        a0 = {i: p[i] for i in range(self.norig)}
        for i in range(self.norig):
            if not self._var_ok(i, p[i]): return (False, None, None)
        for i in range(self.norig, self.nv):          # fixed auxiliaries (constants) are known
            if self.vars[i][0] == self.vars[i][1]: a0[i] = self.vars[i][0]
        out = {'found': False}
        sense = self.objs[0]['sense'] if self.objs else 0
        budget = [200000]

        def dfs(a):
            budget[0] -= 1
            if budget[0] < 0: raise Undecided('search budget')
            a = dict(a)
            if not self.propagate(a): return
            if not self.check_known(a): return
            ints = [i for i in range(self.nv) if i not in a and self.vars[i][2] == 1]
            if not ints:
                self.leaf(a, want_obj, sense, out); return
            i = min(ints, key=lambda j: self.vars[j][1] - self.vars[j][0])
            lb, ub, ty = self.vars[i]
            if ub - lb > 64:
                # declared domain too wide to enumerate: bounds implied by the linear rows (interval propagation)
                L, U = self.implied_bounds(a)
                i = min(ints, key=lambda j: U[j] - L[j])
                lb, ub = L[i], U[i]
                if not (ub - lb <= 64): raise Undecided('large integer aux domain %r' % ((lb, ub),))
                if lb > ub + 1e-9: return
            for v in range(int(math.ceil(lb - 1e-9)), int(math.floor(ub + 1e-9)) + 1):
                a2 = dict(a); a2[i] = float(v); dfs(a2)
                if out['found'] and not want_obj: return
        dfs(a0)
        return (out['found'], out.get('best'), out.get('witness'))
