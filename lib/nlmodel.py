"""Harness-side NL model: AST, reference evaluator (written from the AMPL operator semantics,
no mp code), NL text encoder.

expr = ('n', value) | ('v', index) | ('d', k)  (defined variable k) | (op, args...)
numeric ops : neg add sub mul div abs min max sum if count numberof pow2 pl
logical ops : lt le eq ge gt ne not and or forall exists impl iff alldiff
              atleast atmost exactly natleast natmost nexactly nalldiff
('pl', slopes, breakpoints, arg): AMPL piecewise-linear term <<bp; slopes>> arg (zero at 0)
"""
import itertools, math

INF = float('inf')

NUM_OPS = {'neg': 16, 'add': 0, 'sub': 1, 'mul': 2, 'div': 3, 'abs': 15, 'min': 11, 'max': 12,
           'sum': 54, 'if': 35, 'count': 59, 'numberof': 60, 'pow2': 77, 'pow': 5,
           'exp': 44, 'log': 43, 'sin': 41, 'cos': 46, 'sqrt': 39, 'tan': 38, 'tanh': 37, 'sinh': 40,
           'log10': 42, 'cosh': 45, 'atanh': 47, 'atan': 49, 'asinh': 50, 'asin': 51, 'acosh': 52,
           'acos': 53, 'powc': 76, 'cpow': 78}
LOG_OPS = {'lt': 22, 'le': 23, 'eq': 24, 'ge': 28, 'gt': 29, 'ne': 30, 'not': 34, 'and': 21,
           'or': 20, 'forall': 70, 'exists': 71, 'impl': 72, 'iff': 73, 'alldiff': 74,
           'nalldiff': 75, 'atleast': 62, 'atmost': 63, 'exactly': 66, 'natleast': 67,
           'natmost': 68, 'nexactly': 69}
VARARG = ('min', 'max', 'sum', 'count', 'forall', 'exists', 'alldiff', 'nalldiff', 'numberof')


def fmtnum(v):
    v = float(v)
    if v == INF: return 'Infinity'
    if v == -INF: return '-Infinity'
    if v.is_integer() and abs(v) < 1e15: return '%d' % int(v)
    return repr(v)


def enc(e, out):
    k = e[0]
    if k == 'n': out.append('n' + fmtnum(e[1])); return
    if k == 'v': out.append('v%d' % e[1]); return
    if k == 'd': out.append('v%d' % e[1]); return           # resolved by Model.nl (index shift)
    if k == 'b': out.append('n%d' % (1 if e[1] else 0)); return
    if k == 'pl':
        slopes, bps, arg = e[1], e[2], e[3]
        assert len(slopes) == len(bps) + 1
        assert arg[0] in ('v', 'd'), 'PL term argument must be a variable / defined-variable reference'
        out.append('o64'); out.append('%d' % len(slopes))
        for i, s in enumerate(slopes):
            out.append('n' + fmtnum(s))
            if i < len(bps): out.append('n' + fmtnum(bps[i]))
        enc(arg, out); return
    if k in VARARG:
        code = NUM_OPS.get(k, LOG_OPS.get(k)); out.append('o%d' % code); out.append('%d' % (len(e) - 1))
        for a in e[1:]: enc(a, out)
        return
    code = NUM_OPS.get(k, LOG_OPS.get(k))
    if code is None: raise ValueError(k)
    out.append('o%d' % code)
    for a in e[1:]: enc(a, out)


class EvalUndefined(Exception):
    pass


def pl_eval(slopes, bps, x):
    """AMPL PL term: continuous, f(0)=0, slope slopes[i] on (bps[i-1], bps[i])."""
    def F(t):   # integral of slope from bps-anchor: compute g with g(-inf side) anchored at first bp
        # piecewise: value relative to point p0 = bps[0]
        v = 0.0
        if t <= bps[0]:
            return slopes[0] * (t - bps[0])
        for i in range(len(bps)):
            lo = bps[i]; hi = bps[i + 1] if i + 1 < len(bps) else INF
            if t <= hi:
                return v + slopes[i + 1] * (t - lo)
            v += slopes[i + 1] * (hi - lo)
        return v
    return F(x) - F(0.0)


def ev(e, x, dv=None):
    k = e[0]
    if k == 'n': return float(e[1])
    if k == 'v': return x[e[1]]
    if k == 'd': return ev(dv[e[1]], x, dv)
    if k == 'b': return bool(e[1])
    if k == 'pl': return pl_eval(e[1], e[2], ev(e[3], x, dv))
    if k == 'if':
        return ev(e[2], x, dv) if ev(e[1], x, dv) else ev(e[3], x, dv)
    if k == 'impl':
        return ev(e[2], x, dv) if ev(e[1], x, dv) else ev(e[3], x, dv)
    a = [ev(s, x, dv) for s in e[1:]]
    if k == 'neg': return -a[0]
    if k == 'add': return a[0] + a[1]
    if k == 'sub': return a[0] - a[1]
    if k == 'mul': return a[0] * a[1]
    if k == 'div':
        if a[1] == 0: raise EvalUndefined('div0')
        return a[0] / a[1]
    if k == 'abs': return abs(a[0])
    if k == 'pow2': return a[0] * a[0]
    if k == 'pow': return a[0] ** a[1]
    if k == 'exp': return math.exp(a[0])
    if k == 'log':
        if a[0] <= 0: raise EvalUndefined('log')
        return math.log(a[0])
    if k == 'sqrt':
        if a[0] < 0: raise EvalUndefined('sqrt')
        return math.sqrt(a[0])
    if k == 'powc':
        try:
            if a[0] < 0 and not float(a[1]).is_integer(): raise EvalUndefined('pow')
            if a[0] == 0 and a[1] < 0: raise EvalUndefined('pow')
            return a[0] ** a[1]
        except OverflowError: raise EvalUndefined('pow overflow')
    if k == 'cpow': return a[0] ** a[1]
    if k == 'log10':
        if a[0] <= 0: raise EvalUndefined('log10')
        return math.log10(a[0])
    if k in ('asin', 'acos'):
        if abs(a[0]) > 1: raise EvalUndefined(k)
        return getattr(math, k)(a[0])
    if k == 'acosh':
        if a[0] < 1: raise EvalUndefined(k)
        return math.acosh(a[0])
    if k == 'atanh':
        if abs(a[0]) >= 1: raise EvalUndefined(k)
        return math.atanh(a[0])
    if k in ('tanh', 'sinh', 'cosh', 'atan', 'asinh'):
        try: return getattr(math, k)(a[0])
        except OverflowError: raise EvalUndefined(k)
    if k == 'sin': return math.sin(a[0])
    if k == 'cos': return math.cos(a[0])
    if k == 'tan': return math.tan(a[0])
    if k == 'min': return min(a)
    if k == 'max': return max(a)
    if k == 'sum': return sum(a)
    if k == 'count': return float(sum(1 for t in a if t))
    if k == 'numberof': return float(sum(1 for t in a[1:] if t == a[0]))
    if k == 'lt': return a[0] < a[1]
    if k == 'le': return a[0] <= a[1]
    if k == 'eq': return a[0] == a[1]
    if k == 'ge': return a[0] >= a[1]
    if k == 'gt': return a[0] > a[1]
    if k == 'ne': return a[0] != a[1]
    if k == 'not': return not a[0]
    if k in ('and', 'forall'): return all(a)
    if k in ('or', 'exists'): return any(a)
    if k == 'iff': return bool(a[0]) == bool(a[1])
    if k == 'alldiff': return len(set(a)) == len(a)
    if k == 'nalldiff': return len(set(a)) != len(a)
    if k == 'atleast': return a[0] <= a[1]
    if k == 'atmost': return a[0] >= a[1]
    if k == 'exactly': return a[0] == a[1]
    if k == 'natleast': return not (a[0] <= a[1])
    if k == 'natmost': return not (a[0] >= a[1])
    if k == 'nexactly': return not (a[0] == a[1])
    raise ValueError(k)


def expr_str(e):
    k = e[0]
    if k == 'n': return fmtnum(e[1])
    if k == 'v': return 'x%d' % e[1]
    if k == 'd': return 'dv%d' % e[1]
    if k == 'b': return 'true' if e[1] else 'false'
    if k == 'pl': return '<<%s;%s>>(%s)' % (','.join(map(fmtnum, e[2])), ','.join(map(fmtnum, e[1])), expr_str(e[3]))
    return k + '(' + ','.join(expr_str(a) for a in e[1:]) + ')'


def ops_of(e, acc=None):
    if acc is None: acc = []
    if e[0] in ('n', 'v', 'b', 'd'): return acc
    acc.append(e[0])
    for a in (e[3:] if e[0] == 'pl' else e[1:]):
        if isinstance(a, tuple): ops_of(a, acc)
    return acc


class Model:
    """vars: list of (lb, ub, is_int, grid_step) with continuous variables first (NL order).
    acons: list of (expr_or_None, lin_terms {var: coef}, lb, ub) ; lcons: list of logical exprs;
    obj: None | (sense 'min'|'max', expr_or_None, lin_terms {var: coef}) ; objs: list of such
    dvars: list of (lin_terms {var: coef}, expr_or_None)  -- defined variables, referenced ('d', k)
    compl: {con_index: var_index}  -- constraint con_index complements variable var_index
    suffixes: list of (kind 0 var|1 con|2 obj|3 prob, is_real, name, {index: value})"""

    def __init__(self, vars_, acons=(), lcons=(), obj=None, objs=None, dvars=(), compl=None,
                 suffixes=()):
        self.vars = list(vars_)
        self.acons = [self._norm_con(c) for c in acons]
        self.lcons = list(lcons)
        self.objs = list(objs) if objs is not None else ([self._norm_obj(obj)] if obj else [])
        self.objs = [self._norm_obj(o) for o in self.objs]
        self.dvars = list(dvars)
        self.compl = dict(compl or {})
        self.suffixes = list(suffixes)
        # NL allows only references as PL-term arguments: lift other arguments into defined variables
        self.acons = [(self._lift_pl(e) if e is not None else None, lin, lb, ub) for (e, lin, lb, ub) in self.acons]
        self.lcons = [self._lift_pl(e) for e in self.lcons]
        self.objs = [(sn, self._lift_pl(e) if e is not None else None, lin) for (sn, e, lin) in self.objs]

    def _lift_pl(self, e):
        if e[0] in ('n', 'v', 'b', 'd'): return e
        if e[0] == 'pl':
            arg = self._lift_pl(e[3])
            if arg[0] not in ('v', 'd'):
                self.dvars.append(({}, arg)); arg = ('d', len(self.dvars) - 1)
            return ('pl', e[1], e[2], arg)
        return (e[0],) + tuple(self._lift_pl(a) for a in e[1:])

    @staticmethod
    def _norm_con(c):
        if len(c) == 3: return (c[0], {}, c[1], c[2])
        return c

    @staticmethod
    def _norm_obj(o):
        if len(o) == 2: return (o[0], o[1], {})
        return o

    def _shift(self, e):
        """('d',k) -> NL index nvars+k"""
        if e[0] == 'd': return ('v', len(self.vars) + e[1])
        if e[0] in ('n', 'v', 'b'): return e
        if e[0] == 'pl': return ('pl', e[1], e[2], self._shift(e[3]))
        return (e[0],) + tuple(self._shift(a) for a in e[1:])

    def nl(self):
        nv = len(self.vars)
        # NL variable order: nonlinear in both [cont, int], in constraints only [cont, int], in objectives only
        # [cont, int], linear [cont, int].  A variable tuple may carry a 5th element: class 'b' (default) | 'c' | 'o' | 'l'.
        cls = [(v[4] if len(v) > 4 else 'b') for v in self.vars]
        key = [('bcol'.index(c), bool(v[2])) for c, v in zip(cls, self.vars)]
        assert key == sorted(key), 'variables must be listed in NL order (class b<c<o<l, continuous before integer inside a class)'
        cnt = lambda c, i=None: sum(1 for k, v in zip(cls, self.vars) if k == c and (i is None or bool(v[2]) == i))
        nlvb = cnt('b'); nlvc = nlvb + cnt('c'); nlvo = (nlvc + cnt('o')) if cnt('o') else nlvb
        nlvbi, nlvci, nlvoi, nlin_int = cnt('b', True), cnt('c', True), cnt('o', True), cnt('l', True)
        nc = len(self.acons); nl = len(self.lcons); no = len(self.objs)
        nranges = sum(1 for (_, _, lb, ub) in self.acons if lb > -INF and ub < INF and lb != ub)
        neq = sum(1 for (_, _, lb, ub) in self.acons if lb == ub)
        ncompl = len(self.compl)
        nzJ = sum(len(c[1]) for c in self.acons); nzG = sum(len(o[2]) for o in self.objs)
        nd = len(self.dvars)
        L = ['g3 1 1 0']
        L.append(' %d %d %d %d %d %d' % (nv, nc, no, nranges, neq, nl))
        L.append(' %d %d 0 %d 0 0' % (nc, no, ncompl))    # nonlinear cons, objs; compl: lin, nonlin, nd, nzlb
        L.append(' 0 0')
        L.append(' %d %d %d' % (nlvc, nlvo, nlvb))
        L.append(' 0 0 0 1')
        L.append(' 0 %d %d %d %d' % (nlin_int, nlvbi, nlvci, nlvoi))
        L.append(' %d %d' % (nzJ, nzG))
        L.append(' 0 0')
        L.append(' %d 0 0 0 0' % nd)
        for (kind, is_real, name, vals) in self.suffixes:
            L.append('S%d %d %s' % (kind + (4 if is_real else 0), len(vals), name))
            for i in sorted(vals): L.append('%d %s' % (i, fmtnum(vals[i])))
        for k, (lin, e) in enumerate(self.dvars):
            L.append('V%d %d 0' % (nv + k, len(lin)))
            for v in sorted(lin): L.append('%d %s' % (v, fmtnum(lin[v])))
            enc(self._shift(e) if e is not None else ('n', 0), L)
        for i, (e, lin, lb, ub) in enumerate(self.acons):
            L.append('C%d' % i); enc(self._shift(e) if e is not None else ('n', 0), L)
        for i, e in enumerate(self.lcons):
            L.append('L%d' % i); enc(self._shift(e), L)
        for i, (sense, e, lin) in enumerate(self.objs):
            L.append('O%d %d' % (i, 1 if sense == 'max' else 0)); enc(self._shift(e) if e is not None else ('n', 0), L)
        if nc:
            L.append('r')
            for i, (e, lin, lb, ub) in enumerate(self.acons):
                if i in self.compl:
                    v = self.compl[i]; vlb, vub = self.vars[v][0], self.vars[v][1]
                    # flags describe the *constraint* side: 1 = no lower bound on the body (variable has a
                    # finite upper bound only), 2 = no upper bound (finite lower bound only), 3 = free body
                    # (variable bounded on both sides), 0 = body == 0 (free variable)
                    flags = (1 if vub < INF else 0) | (2 if vlb > -INF else 0)
                    L.append('5 %d %d' % (flags, v + 1))
                elif lb == -INF and ub == INF: L.append('3')
                elif lb == -INF: L.append('1 ' + fmtnum(ub))
                elif ub == INF: L.append('2 ' + fmtnum(lb))
                elif lb == ub: L.append('4 ' + fmtnum(lb))
                else: L.append('0 %s %s' % (fmtnum(lb), fmtnum(ub)))
        L.append('b')
        for (lb, ub, isint, step) in (v[:4] for v in self.vars):
            if lb == -INF and ub == INF: L.append('3')
            elif lb == -INF: L.append('1 ' + fmtnum(ub))
            elif ub == INF: L.append('2 ' + fmtnum(lb))
            elif lb == ub: L.append('4 ' + fmtnum(lb))
            else: L.append('0 %s %s' % (fmtnum(lb), fmtnum(ub)))
        if nv > 1:
            L.append('k%d' % (nv - 1))
            cnt = [0] * nv
            for c in self.acons:
                for v in c[1]: cnt[v] += 1
            s = 0
            for i in range(nv - 1):
                s += cnt[i]; L.append('%d' % s)
        for i, (e, lin, lb, ub) in enumerate(self.acons):
            if lin:
                L.append('J%d %d' % (i, len(lin)))
                for v in sorted(lin): L.append('%d %s' % (v, fmtnum(lin[v])))
        for i, (sense, e, lin) in enumerate(self.objs):
            if lin:
                L.append('G%d %d' % (i, len(lin)))
                for v in sorted(lin): L.append('%d %s' % (v, fmtnum(lin[v])))
        return '\n'.join(L) + '\n'

    # ------------------------------------------------------------------ reference semantics
    def grid(self):
        axes = []
        for (lb, ub, isint, step) in (v[:4] for v in self.vars):
            # an unbounded side is explored on a window of width 3 around 0 / next to the finite bound
            if lb == -INF: lb = -3.0 if ub == INF else min(-3.0, ub - 3.0)
            if ub == INF: ub = max(3.0, lb + 3.0)
            pts = []; n = int(round((ub - lb) / step))
            for i in range(n + 1): pts.append(lb + i * step)
            axes.append(pts)
        return itertools.product(*axes)

    def _dvexprs(self):
        out = []
        for (lin, e) in self.dvars:
            t = e if e is not None else ('n', 0)
            for v, c in sorted(lin.items()):
                t = ('add', t, ('mul', ('n', c), ('v', v)))
            out.append(t)
        return out

    def body(self, i, p):
        e, lin, lb, ub = self.acons[i]
        dv = self._dvexprs()
        v = ev(e, p, dv) if e is not None else 0.0
        return v + sum(c * p[j] for j, c in lin.items())

    def feasible(self, p, tol=1e-9):
        """True/False, or None if some expression is undefined at p (point excluded)."""
        dv = self._dvexprs()
        try:
            for i, (e, lin, lb, ub) in enumerate(self.acons):
                v = (ev(e, p, dv) if e is not None else 0.0) + sum(c * p[j] for j, c in lin.items())
                if i in self.compl:
                    j = self.compl[i]; vlb, vub = self.vars[j][0], self.vars[j][1]
                    x = p[j]
                    # AMPL: expr complements lb<=x<=ub :  x==lb -> expr>=0 ; x==ub -> expr<=0 ;
                    # lb<x<ub -> expr==0  (finite bounds only where present)
                    at_lb = vlb > -INF and abs(x - vlb) <= tol
                    at_ub = vub < INF and abs(x - vub) <= tol
                    ok = (at_lb and v >= -tol) or (at_ub and v <= tol) or (abs(v) <= tol)
                    if vlb == vub: ok = True
                    if not ok: return False
                    continue
                if v < lb - tol or v > ub + tol: return False
            for e in self.lcons:
                if not ev(e, p, dv): return False
        except (EvalUndefined, ZeroDivisionError, OverflowError, ValueError):
            return None
        return self._sos_ok(p, tol)

    def _sos_ok(self, p, tol):
        """SOS sets declared through suffixes: .sosno/.ref (positive set number: SOS1, negative: SOS2),
        .sos/.sosref (all SOS2); members ordered by the reference value"""
        sf = {name: vals for (kind, is_real, name, vals) in self.suffixes if kind == 0}
        for nos, ref, all2 in (('sosno', 'ref', False), ('sos', 'sosref', True)):
            if nos not in sf or ref not in sf: continue
            groups = {}
            for i, g in sf[nos].items():
                if g: groups.setdefault(g, []).append(i)
            for g, members in groups.items():
                members.sort(key=lambda i: sf[ref].get(i, 0.0))
                nz = [k for k, i in enumerate(members) if abs(p[i]) > tol]
                if all2 or g < 0:
                    if len(nz) > 2 or (len(nz) == 2 and nz[1] - nz[0] != 1): return False
                else:
                    if len(nz) > 1: return False
        return True

    def objval(self, p, k=0):
        if not self.objs: return None
        sense, e, lin = self.objs[k]
        dv = self._dvexprs()
        return (ev(e, p, dv) if e is not None else 0.0) + sum(c * p[j] for j, c in lin.items())

    def describe(self):
        parts = []
        for i, (lb, ub, isint, step) in enumerate(v[:4] for v in self.vars):
            parts.append('x%d:%s[%s,%s]' % (i, 'int' if isint else 'cont', fmtnum(lb), fmtnum(ub)))
        for k, (lin, e) in enumerate(self.dvars):
            parts.append('dv%d=%s+%s' % (k, expr_str(e) if e is not None else '0', lin))
        for i, (e, lin, lb, ub) in enumerate(self.acons):
            parts.append('c%d:%s<=%s%s<=%s%s' % (i, fmtnum(lb), expr_str(e) if e is not None else '0',
                                                ''.join('%+g*x%d' % (c, v) for v, c in sorted(lin.items())), fmtnum(ub),
                                                (' complements x%d' % self.compl[i]) if i in self.compl else ''))
        for e in self.lcons: parts.append('l:' + expr_str(e))
        for (s, e, lin) in self.objs:
            parts.append('%s:%s%s' % (s, expr_str(e) if e is not None else '0',
                                      ''.join('%+g*x%d' % (c, v) for v, c in sorted(lin.items()))))
        for (kind, is_real, name, vals) in self.suffixes:
            parts.append('suffix %s kind%d %s' % (name, kind, vals))
        return ' ; '.join(parts)
