"""Common runner: evidence files, known findings, violation reporting, sharded harness runs."""
import json, os, subprocess, sys, time, hashlib, re
from concurrent.futures import ThreadPoolExecutor

VERIF = os.path.dirname(os.path.dirname(os.path.abspath(__file__)))
EVID = os.environ.get('VERIF_EVIDENCE_DIR') or os.path.join(VERIF, 'evidence')      # overridden when a check is
REPLAYS = os.environ.get('VERIF_REPLAY_DIR') or os.path.join(VERIF, 'replays')       # run against a scratch worktree
KNOWN = os.path.join(VERIF, 'known-findings.jsonl')
NCPU = int(os.environ.get('VERIF_JOBS', '16'))


def load_known(pid):
    """known-findings.jsonl: {"property","status":"known"|"fixed","signature"(regex),"what",...}"""
    out = []
    if os.path.exists(KNOWN):
        for line in open(KNOWN):
            line = line.strip()
            if not line or line.startswith('#'):
                continue
            r = json.loads(line)
            if r.get('property') == pid and r.get('status') == 'known':
                out.append(r)
    return out


class Check:
    def __init__(self, pid, tier, level, seed=0):
        self.pid, self.tier, self.level, self.seed = pid, tier, level, seed
        self.t0 = time.time()
        self.cov = {'evaluations': 0, 'distinct_nontrivial': 0, 'rule': '', 'samples': [],
                    'exhaustive': True}
        self.assumptions = []
        self.violations = []     # list of dict(sig, detail, replay)
        self.known_hits = {}     # signature regex -> count
        self.known = load_known(pid)
        self.broken = []         # reasons the check itself is broken (exit 2)
        self.deadline = None

    # ----------------------------------------------------------------- coverage bookkeeping
    def add(self, key, n=1):
        self.cov[key] = self.cov.get(key, 0) + n

    def set(self, key, v):
        self.cov[key] = v

    def sample(self, s, cap=12):
        if len(self.cov['samples']) < cap:
            self.cov['samples'].append(s)

    def not_exhaustive(self, why):
        self.cov['exhaustive'] = False
        self.cov.setdefault('caps_hit', []).append(why)

    # ----------------------------------------------------------------- violations
    def violation(self, sig, detail, replay=None):
        """sig: stable, specific signature string of the failing input/site/history."""
        for k in self.known:
            if re.search(k['signature'], sig):
                self.known_hits.setdefault(k['signature'], [k, 0])[1] += 1
                return False
        if any(v['sig'] == sig for v in self.violations):
            return True
        self.violations.append({'sig': sig, 'detail': detail, 'replay': replay})
        return True

    def finish(self):
        os.makedirs(EVID, exist_ok=True)
        rc = 0
        for sigre, (k, n) in sorted(self.known_hits.items()):
            print('KNOWN-FINDING: property=%s %s (hits=%d)' % (self.pid, k['what'], n))
        self.cov['known_finding_hits'] = {k['what']: n for _, (k, n) in self.known_hits.items()}
        if self.violations:
            os.makedirs(REPLAYS, exist_ok=True)
            for i, v in enumerate(self.violations[:50]):
                h = hashlib.sha1(v['sig'].encode()).hexdigest()[:10]
                path = os.path.join(REPLAYS, '%s-%s.json' % (self.pid, h))
                with open(path, 'w') as f:
                    json.dump({'property': self.pid, 'signature': v['sig'], 'detail': v['detail'],
                               'replay': v['replay']}, f, indent=1, default=str)
                print('VIOLATION property=%s replay=%s' % (self.pid, path))
                print('  signature: %s' % v['sig'])
                print('  detail: %s' % (json.dumps(v['detail'], default=str)[:600]))
            rc = 1
        ev = {'property_id': self.pid, 'tier': self.tier, 'seed': self.seed, 'level': self.level,
              'coverage': self.cov, 'assumptions': self.assumptions,
              'wall_s': round(time.time() - self.t0, 2), 'violations': len(self.violations)}
        if self.broken:
            ev['coverage']['broken'] = self.broken
        with open(os.path.join(EVID, self.pid + '.json'), 'w') as f:
            json.dump(ev, f, indent=1, default=str)
        if self.broken:
            for b in self.broken:
                print('BROKEN-CHECK property=%s %s' % (self.pid, b))
            rc = rc or 2
        print('%s tier=%s evaluations=%s distinct_nontrivial=%s exhaustive=%s violations=%d wall=%.1fs'
              % (self.pid, self.tier, self.cov.get('evaluations'), self.cov.get('distinct_nontrivial'),
                 self.cov.get('exhaustive'), len(self.violations), time.time() - self.t0))
        return rc


def run_shards(binary, nshards, args=(), env=None, timeout=None, stdin=None):
    """Run `binary --shard i/n args...` for all i in parallel; return list of
    (rc, stdout, stderr)."""
    e = dict(os.environ)
    e.update({'ASAN_OPTIONS': 'detect_leaks=0:abort_on_error=0:allocator_may_return_null=1',
              'UBSAN_OPTIONS': 'print_stacktrace=1', 'LC_ALL': 'C'})
    if env:
        e.update(env)

    def one(i):
        try:
            r = subprocess.run([binary, '--shard', '%d/%d' % (i, nshards)] + list(args),
                               capture_output=True, text=True, env=e, timeout=timeout,
                               errors='replace')
            return (r.returncode, r.stdout, r.stderr)
        except subprocess.TimeoutExpired as ex:
            so = ex.stdout.decode(errors='replace') if isinstance(ex.stdout, bytes) else (ex.stdout or '')
            se = ex.stderr.decode(errors='replace') if isinstance(ex.stderr, bytes) else (ex.stderr or '')
            return ('timeout', so, se)
    with ThreadPoolExecutor(max_workers=min(nshards, NCPU)) as ex:
        return list(ex.map(one, range(nshards)))


def parse_jsonl(text):
    """Harness protocol: one JSON object per line on stdout; other lines ignored."""
    out = []
    for line in text.splitlines():
        line = line.strip()
        if line.startswith('{'):
            try:
                out.append(json.loads(line))
            except ValueError:
                out.append({'type': 'garbage', 'line': line[:200]})
    return out


def absorb(chk, results, what='harness'):
    """Fold the JSON-lines output of sharded harness runs into the Check:
       {"type":"stat","k":v,...}        summed into coverage
       {"type":"sample","v":...}        kept (capped)
       {"type":"class","v":"..."}       distinct observation classes (set union)
       {"type":"violation","sig":..,"detail":..,"replay":..}
       {"type":"cap","why":...}         exploration was capped -> exhaustive=false
       {"type":"broken","why":...}
    A shard that dies without printing {"type":"done"} makes the check broken unless it
    reported a violation explaining the death."""
    classes = chk.cov.setdefault('_classes', set())
    for i, (rc, out, err) in enumerate(results):
        done = False
        for r in parse_jsonl(out):
            t = r.get('type')
            if t == 'stat':
                for k, v in r.items():
                    if k != 'type' and isinstance(v, (int, float)):
                        chk.add(k, v)
            elif t == 'sample':
                chk.sample(r.get('v'))
            elif t == 'class':
                classes.add(r.get('v'))
            elif t == 'violation':
                chk.violation(r['sig'], r.get('detail'), r.get('replay'))
            elif t == 'cap':
                chk.not_exhaustive(r.get('why'))
            elif t == 'broken':
                chk.broken.append(r.get('why'))
            elif t == 'done':
                done = True
        if not done:
            chk.broken.append('%s shard %d ended without completion marker rc=%s stderr=%s'
                              % (what, i, rc, (err or '')[-1500:]))
    return classes


def finalize_classes(chk):
    classes = chk.cov.pop('_classes', set())
    chk.cov['distinct_nontrivial'] = len(classes)
    chk.cov['observation_classes_sample'] = sorted(classes)[:40]
