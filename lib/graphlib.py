"""Strict parser / validator of the reformulation graph written by cvt:writegraph (JSON Lines)."""
import json, collections

NODE_CLASSES_FIXED = ('src_vars()', 'src_cons()', 'src_objs()', 'dest_vars()', 'dest_cons()', 'dest_objs()')


def _strict_pairs(pairs):
    d = {}
    for k, v in pairs:
        d[k] = v            # duplicate keys are legal JSON; last one wins (json default)
    return d


def parse(text):
    """returns (records, problems).  Every line must be a JSON object (strict json.loads: no NaN/Infinity
    literals are rejected by parse_constant)."""
    recs = []; probs = []
    def bad_const(c):
        raise ValueError('non-JSON constant ' + c)
    for ln, line in enumerate(text.split('\n')):
        if not line.strip():
            if ln != text.count('\n'):
                probs.append(('blank-line', ln + 1, ''))
            continue
        try:
            o = json.loads(line, parse_constant=bad_const)
        except ValueError as e:
            probs.append(('invalid-json', ln + 1, '%s :: %s' % (e, line[:160]))); continue
        if not isinstance(o, dict):
            probs.append(('not-an-object', ln + 1, line[:160])); continue
        recs.append(o)
    return recs, probs


def _idx_list(v):
    """a node reference value: int index or [beg, end] inclusive range"""
    if isinstance(v, int): return [v]
    if isinstance(v, list) and len(v) == 2 and all(isinstance(t, int) for t in v):
        return list(range(v[0], v[1] + 1)) if v[1] >= v[0] else None
    return None


def validate(recs, dump, nl_counts):
    """Referential checks.  dump: RecAPI record of the same run (vars/objs/cons) or None.
    nl_counts: dict(vars, algcons, logcons, objs, dvars).  Returns list of (signature, detail)."""
    out = []
    var_recs = collections.defaultdict(list)
    con_create = collections.defaultdict(list)   # (type, index) -> creation records
    con_final = collections.defaultdict(list)    # (type, index) -> status records
    nl_cons = {}; nl_objs = {}; objs = {}
    links = []
    con_groups = {}
    for r in recs:
        if 'VAR_index' in r: var_recs[r['VAR_index']].append(r)
        elif 'CON_TYPE' in r and 'CON_GROUP' in r: con_groups[r['CON_TYPE']] = r.get('CON_GROUP_index')
        elif 'CON_TYPE' in r and 'final' in r: con_final[(r['CON_TYPE'], r.get('index'))].append(r)
        elif 'CON_TYPE' in r: con_create[(r['CON_TYPE'], r.get('index'))].append(r)
        elif 'NL_CON_TYPE' in r: nl_cons[r.get('index')] = r
        elif 'NL_OBJECTIVE_index' in r: nl_objs[r['NL_OBJECTIVE_index']] = r
        elif 'OBJECTIVE_index' in r: objs[r['OBJECTIVE_index']] = r
        elif 'link_index' in r: links.append(r)
    nvars = (max(var_recs) + 1) if var_recs else 0
    # --- NL items all present
    for i in range(nl_counts['vars']):
        if i not in var_recs or not any(v.get('is_from_nl') == 1 for v in var_recs[i]):
            out.append(('C20 NL variable missing from graph', {'index': i})); break
    for i in range(nl_counts['algcons'] + nl_counts['logcons']):
        if i not in nl_cons: out.append(('C20 NL constraint missing from graph', {'index': i})); break
    for i in range(nl_counts['objs']):
        if i not in nl_objs: out.append(('C20 NL objective missing from graph', {'index': i})); break
    # --- each stored constraint: exactly one creation record and exactly one final-status record
    ntype = collections.Counter()
    for (t, i), lst in con_create.items():
        ntype[t] = max(ntype[t], (i or 0) + 1)
        if len(lst) != 1: out.append(('C20 constraint has %d creation records' % len(lst), {'type': t, 'index': i})); break
    for (t, i), lst in con_create.items():
        fl = con_final.get((t, i), [])
        if len(fl) != 1:
            out.append(('C20 stored constraint has %d final-status records (type %s)' % (len(fl), t), {'type': t, 'index': i})); break
        f = fl[0]
        flags = (f.get('unused'), f.get('bridged'), f.get('final'))
        if flags not in ((0, 0, 1), (0, 1, 0), (1, 1, 0), (1, 0, 0)):
            out.append(('C20 inconsistent status flags unused/bridged/final=%s (type %s)' % (flags, t), {'type': t, 'index': i})); break
    for (t, i) in con_final:
        if (t, i) not in con_create:
            out.append(('C20 final-status record for a constraint that was never created (type %s)' % t, {'type': t, 'index': i})); break
    for t, n in ntype.items():
        if sorted(i for (tt, i) in con_create if tt == t) != list(range(n)):
            out.append(('C20 constraint indices of type %s are not contiguous' % t, {})); break
    # --- links refer to existing items
    sizes = {'src_vars()': nl_counts['vars'] + nl_counts.get('dvars', 0), 'src_cons()': nl_counts['algcons'] + nl_counts['logcons'],
             'src_objs()': nl_counts['objs'], 'dest_vars()': nvars, 'dest_objs()': max(len(objs), nl_counts['objs'])}
    for l in links:
        for side in ('src_nodes', 'dest_nodes'):
            for node in l.get(side, []):
                if not isinstance(node, dict) or len(node) != 1:
                    out.append(('C20 malformed link node', {'link': l})); break
                (cls, ref), = node.items()
                idx = _idx_list(ref)
                if idx is None:
                    out.append(('C20 link index range malformed (%s)' % cls.split('(')[0], {'link': l})); break
                if cls in sizes: size = sizes[cls]
                elif cls in ntype or cls in con_groups: size = ntype.get(cls, 0)
                elif cls == 'dest_cons()': continue
                elif cls.startswith('dest_cons(') and cls.endswith(')') and cls[10:-1].isdigit():
                    if dump is None: continue
                    size = sum(1 for c in dump['cons'] if c.get('group') == int(cls[10:-1]))
                else:
                    out.append(('C20 link refers to unknown item class %s' % cls, {'link': l})); break
                if idx and (min(idx) < 0 or max(idx) >= size):
                    out.append(('C20 link index outside item class %s (size %d)' % (cls if cls in sizes else 'CON', size), {'link': l, 'class': cls})); break
    # --- export completeness of the links: every NL constraint and objective starts at least one link (it is copied or
    # converted into something); observed to hold for every model / configuration of the C19/C20 model set
    if links:
        linked = {'src_cons()': set(), 'src_objs()': set()}
        for l in links:
            for node in l.get('src_nodes', []):
                if isinstance(node, dict) and len(node) == 1:
                    (cls, ref), = node.items()
                    if cls in linked: linked[cls].update(_idx_list(ref) or [])
        miss = [i for i in range(nl_counts['algcons'] + nl_counts['logcons']) if i not in linked['src_cons()']]
        if miss: out.append(('C20 NL constraint is the source of no link record', {'indexes': miss[:10], 'count': len(miss)}))
        # ... and every stored constraint is the destination of at least one link record (it was created for something)
        dest = set()
        for l in links:
            for node in l.get('dest_nodes', []):
                if isinstance(node, dict) and len(node) == 1:
                    (cls, ref), = node.items()
                    for i in (_idx_list(ref) or []): dest.add((cls, i))
        orphan = collections.defaultdict(list)
        for (t, i), lst in con_create.items():
            deep = min(r.get('depth', 0) for r in lst) > 0
            if not deep and t in ('_sos1', '_sos2'): continue            # SOS sets declared by suffixes have no NL constraint as source
            if (t, i) not in dest: orphan[(t, deep)].append(i)
        for (t, deep), idxs in sorted(orphan.items()):
            out.append(('C20 stored constraint is the destination of no link record (type %s, %s)' % (t, 'created by a conversion' if deep else 'top level'),
                        {'type': t, 'indexes': sorted(idxs)[:10], 'count': len(idxs)}))
    # --- delivered == final
    if dump is not None:
        # variables and objectives of the delivered model appear
        if len(dump['vars']) != nvars:
            out.append(('C20 delivered variable count %d != variables in graph %d' % (len(dump['vars']), nvars), {}))
        for k, o in enumerate(dump['objs']):
            if o and k not in objs: out.append(('C20 delivered objective missing from graph', {'index': k})); break
        fin = collections.Counter(); finnames = collections.defaultdict(list)
        for (t, i), fl in sorted(con_final.items(), key=lambda kv: (kv[0][0], kv[0][1] if kv[0][1] is not None else -1)):
            for f in fl:
                if f.get('final') == 1: fin[t] += 1; finnames[t].append(f.get('name', ''))
        dl = collections.Counter(); dnames = collections.defaultdict(list)
        for c in dump['cons']:
            t = c.get('short') or c['type']; dl[t] += 1; dnames[t].append(c.get('name', ''))
        # type keys differ (short names in graph, C++ type names in dump): compare multisets of per-type counts and names
        if sorted(fin.values()) != sorted(dl.values()):
            out.append(('C20 set of constraints marked final differs from the constraints handed to the solver API',
                        {'final': dict(fin), 'delivered': dict(dl)}))
        elif sorted(sum(finnames.values(), [])) != sorted(sum(dnames.values(), [])):
            out.append(('C20 names of final constraints differ from the names handed to the solver API', {}))
    return out


def provenance(recs):
    """(type, index) -> list of source node classes that link to it (for C19 signatures)"""
    prov = collections.defaultdict(set)
    for r in recs:
        if 'link_index' not in r: continue
        srcs = [list(n)[0] for n in r.get('src_nodes', []) if isinstance(n, dict)]
        for node in r.get('dest_nodes', []):
            if not isinstance(node, dict): continue
            (cls, ref), = node.items()
            for i in (_idx_list(ref) or []):
                prov[(cls, i)].update(srcs)
    return prov


def final_records(recs):
    """short type -> list of final==1 status records ordered by index"""
    d = collections.defaultdict(list)
    for r in recs:
        if 'CON_TYPE' in r and r.get('final') == 1: d[r['CON_TYPE']].append(r)
    for t in d: d[t].sort(key=lambda r: r.get('index', 0))
    return d
