"""C19 (names) and C20 (graph export) share their driver runs: the scripted full driver (vdriver) is
run on exact-fragment models x names modes x .col/.row file variants x acceptance configs, with
cvt:writegraph; this module decides C19, checks/C20/check.py decides C20 from the same kind of run."""
import itertools, json, os, sys, collections, shutil
from concurrent.futures import ThreadPoolExecutor
import vcheck, vbuild, vdriverlib, flatlib, flatcheck, flatgen, nlmodel, graphlib
from nlmodel import Model, INF

PID = 'C19'
WORK = os.path.join(vbuild.BUILD, 'work', 'C19')

ACC = {
    'mip': flatcheck.acc_of(flatcheck.base_config('g0'), 0),
    'mip+range+ind': flatcheck.acc_of({'g': 'g0', 'flags': {}, 'types': dict(
        flatcheck.base_config('g0')['types'], **{'AlgebraicConstraint< LinTerms, Range >': 2,
        'IndicatorConstraint[AlgebraicConstraint< LinTerms, RhsLE >]': 2,
        'IndicatorConstraint[AlgebraicConstraint< LinTerms, RhsGE >]': 2,
        'IndicatorConstraint[AlgebraicConstraint< LinTerms, RhsEQ >]': 2})}, 0),
    'all': 'default=2;QuadraticConeConstraint=0;RotatedQuadraticConeConstraint=0;quadobj=1',
}


def models(tier):
    out = []
    fams = ['linmix', 'canon', 'uenc']
    for fam, name, m in flatgen.all_models('quick', fams): out.append((fam, name, m))
    sh = list(flatgen.all_models('quick', ['sharing'])); out += sh[::9]
    d = list(flatgen.all_models('quick', ['shapes'])); out += d[::40 if tier == 'quick' else 8]
    out = out[::3] if tier == 'quick' else out
    # constraint kinds that only arise from suffixes / special terms: SOS sets, complementarity, PL terms, cones, defined variables
    for fam, k in (('sos', 5), ('compl', 7), ('pl', 23), ('cones', 13), ('dvars', 4)):
        extra = list(flatgen.all_models('quick', [fam]))
        out += extra[::k if tier == 'quick' else max(1, k // 3)]
    return out


def name_sets(m):
    """(label, col names or None, row names (cons then objs) or None, newline)"""
    nv = len(m.vars) + len(m.dvars); nc = len(m.acons) + len(m.lcons); no = len(m.objs)
    plain_c = ['x%d' % (i + 1) for i in range(nv)]; plain_r = ['c%d' % (i + 1) for i in range(nc)] + ['obj%d' % (i + 1) for i in range(no)]
    yield ('absent', None, None, '\n')
    yield ('plain', plain_c, plain_r, '\n')
    yield ('crlf', plain_c, plain_r, '\r\n')
    # mixed line ends (a file edited on two systems): CRLF lines first, the last lines end in a plain LF; names of different
    # lengths so that a lost final character produces a collision or a visibly shorter name
    yield ('mixed-eol', ['z%s' % ('2' * (i + 1)) for i in range(nv)], ['Row%s' % ('x' * (i + 1)) for i in range(nc)] + ['Total%d' % (i + 1) for i in range(no)], 'mixed')
    yield ('short', plain_c[:max(0, nv - 1)], plain_r[:max(0, nc + no - 1)], '\n')
    yield ('col-only', plain_c, None, '\n')
    # look-alikes of derived names
    la_r = (['c', 'c_2_', 'c_2__2_', 'c_equ_', 'c_3_'] * 3)[:nc] + ['o', 'o_2_'][:no]
    la_c = (['c_slk_', 'c_2_', 'o_2_', 'v', 'v_2_'] * 3)[:nv]
    yield ('lookalike', la_c, la_r, '\n')
    yield ('brackets', ['X[%d]' % (i + 1) for i in range(nv)], ["C['a b',%d]" % (i + 1) for i in range(nc)] + ['Total'] * no, '\n')


def chain_of(name, nl_names):
    best = ''
    for b in nl_names:
        if b and name.startswith(b) and len(b) > len(best): best = b
    return "'%s'" % name[len(best):]


def generic_var(i, nvars):
    return '_svar[%d]' % (i + 1)


def judge(m, run, mode, label, col, row, grecs=None):
    """returns list of (signature, detail)"""
    out = []
    d = run['dump']
    if d is None or '_unparsable' in (d or {}): return out
    requested = mode >= 2 or (mode == 1 and (col is not None or row is not None))
    norig = len(m.vars); nc = len(m.acons) + len(m.lcons)
    vnames = [v[3] for v in d['vars']]
    cnames = [c.get('name', '') for c in d['cons']]
    onames = [o.get('name', '') for o in d['objs'] if o]
    implicit = False
    if not requested:
        # names were not requested, but the graph export makes the converter generate them (mp::Problem::item_name:
        # _x[i], _CONi_, _LCONi_, _OBJi_): whatever is delivered then must still be complete, derived and unique
        if not any(vnames) and not any(cnames): return out
        implicit = True; label = label + '/implicit'
        col = ['_x[%d]' % (j + 1) for j in range(norig + len(m.dvars))]
        row = ['_CON%d_' % (i + 1) for i in range(len(m.acons))] + ['_LCON%d_' % (i + 1) for i in range(len(m.lcons))] + \
              ['_OBJ%d_' % (k + 1) for k in range(len(m.objs))]
        mode = 1
    # 1. completeness
    for i, n in enumerate(vnames):
        if not n: out.append(('C19 delivered variable without a name (%s)' % ('original' if i < norig else 'auxiliary'), {'var': i, 'mode': mode, 'files': label})); break
    tmap = d.get('types', {}); prov = graphlib.provenance(grecs) if grecs else {}
    fin = graphlib.final_records(grecs) if grecs else {}
    seen_t = collections.Counter()
    for i, n in enumerate(cnames):
        short = tmap.get(d['cons'][i]['type'], d['cons'][i]['type']); k = seen_t[short]; seen_t[short] += 1
        if not n:
            src = '?'
            if short in fin and k < len(fin[short]):
                src = ','.join(sorted(prov.get((short, fin[short][k].get('index')), []))) or 'no-link'
            out.append(('C19 delivered constraint without a name: type %s created from [%s]' % (short, src),
                        {'con': i, 'type': d['cons'][i]['type'], 'mode': mode, 'files': label})); break
    for i, n in enumerate(onames):
        if not n: out.append(('C19 delivered objective without a name', {'obj': i, 'mode': mode, 'files': label})); break
    # 2. original items keep file names / documented generic names
    use_files = mode <= 2
    for j in range(min(norig, len(vnames))):
        exp = col[j] if (use_files and col is not None and j < len(col)) else '_svar[%d]' % (j + 1)
        if vnames[j] != exp:
            out.append(('C19 original variable name not faithful (names mode %d, files %s)' % (mode, label),
                        {'index': j, 'got': vnames[j], 'expected': exp})); break
    for k, o in enumerate(d['objs']):
        if not o: continue
        exp = row[nc + k] if (use_files and row is not None and nc + k < len(row)) else '_sobj[%d]' % (k + 1)
        if o.get('name') != exp:
            out.append(('C19 objective name not faithful (mode %d, files %s)' % (mode, label), {'index': k, 'got': o.get('name'), 'expected': exp})); break
    # 3. derived names start with the name of an NL item
    nl_names = []
    for j in range(norig + len(m.dvars)):
        nl_names.append(col[j] if (use_files and col is not None and j < len(col)) else
                        ('_svar[%d]' % (j + 1) if j < norig else '_sdvar[%d]' % (j - norig + 1)))
    na = len(m.acons)
    for i in range(nc):
        nl_names.append(row[i] if (use_files and row is not None and i < len(row)) else
                        ('_scon[%d]' % (i + 1) if i < na else '_slogcon[%d]' % (i - na + 1)))
    for k in range(len(m.objs)):
        nl_names.append(row[nc + k] if (use_files and row is not None and nc + k < len(row)) else '_sobj[%d]' % (k + 1))
    # SOS sets declared through suffixes are NL items identified by their set number: mp names them SOS1_<no>_ / SOS2_<no>_
    # (.sosno/.ref) and SOS2_PL_<no>_ (.sos/.sosref)
    for sf in m.suffixes:
        if sf[2] == 'sosno':
            for no in sorted(set(int(v) for v in sf[3].values() if v)): nl_names.append(('SOS1_%d_' if no > 0 else 'SOS2_%d_') % no)
        if sf[2] == 'sos':
            for no in sorted(set(int(v) for v in sf[3].values() if v)): nl_names.append('SOS2_PL_%d_' % no)
    for n in vnames[norig:] + cnames:
        if n and not any(n.startswith(b) for b in nl_names if b):
            out.append(('C19 derived name does not start with the name of an NL item (files %s)' % (label),
                        {'name': n, 'nl_names': nl_names})); break
    # 4. uniqueness
    seen = {}
    for i, n in enumerate(vnames):
        if n and n in seen:
            kind = 'original/derived' if (seen[n] < norig) != (i < norig) else 'derived/derived' if i >= norig else 'original/original'
            if kind == 'original/original' and label in ('brackets',): pass
            out.append(('C19 two delivered variables share a name [%s]: suffix chain %s%s' % (kind, chain_of(n, nl_names), ' (look-alike file names)' if label == 'lookalike' else ''),
                        {'name': n, 'indexes': [seen[n], i], 'mode': mode, 'files': label})); break
        seen[n] = i
    seen = {}
    for i, n in enumerate(cnames):
        if n and n in seen:
            ts = sorted([tmap.get(d['cons'][seen[n]]['type'], '?'), tmap.get(d['cons'][i]['type'], '?')])
            out.append(('C19 two delivered constraints share a name: suffix chain %s types %s%s' % (chain_of(n, nl_names), '/'.join(ts), ' (look-alike file names)' if label == 'lookalike' else ''),
                        {'name': n, 'indexes': [seen[n], i], 'mode': mode, 'files': label})); break
        seen[n] = i
    return out


def one(job):
    binary, idx, fam, name, m, accname, mode, label, col, row, nlsep = job
    wd = os.path.join(WORK, 'r%06d' % idx)
    def text(names):
        if names is None: return None
        if nlsep != 'mixed': return ''.join(n + nlsep for n in names)
        return ''.join(n + ('\r\n' if i < len(names) - 1 else '\n') for i, n in enumerate(names))
    colt = text(col); rowt = text(row)
    gfile = os.path.join(wd, 'g.jsonl')
    run = vdriverlib.run(binary, wd, nl_text=m.nl(), script={'acc': ACC[accname], 'code': 0},
                         env_opts={'vdriver_options': 'cvt:names=%d cvt:writegraph=%s' % (mode, gfile)}, col=colt, row=rowt)
    grecs = None
    try: grecs, _ = graphlib.parse(open(gfile, errors='replace').read())
    except OSError: pass
    v = judge(m, run, mode, label, col, row, grecs)
    info = {'rc': run['rc'], 'has_dump': run['dump'] is not None, 'err': run['err'][-300:] if run['rc'] != 0 else ''}
    cls = '%s|mode%d|%s|%s' % (accname, mode, label, 'named' if run['dump'] and run['dump']['vars'] and run['dump']['vars'][0][3] else 'unnamed')
    shutil.rmtree(wd, ignore_errors=True)
    return v, info, cls, (fam, name, m.describe(), accname, mode, label)


def build():
    return vdriverlib.build('plain')


def main(tier, seed):
    chk = vcheck.Check(PID, tier, 'exploration', seed)
    binary = build()
    shutil.rmtree(WORK, ignore_errors=True); os.makedirs(WORK, exist_ok=True)
    jobs = []
    for fam, name, m in models(tier):
        for accname in ACC:
            for mode in (0, 1, 2, 3):
                for (label, col, row, nlsep) in name_sets(m):
                    if mode in (0, 3) and label not in ('absent', 'plain', 'lookalike'): continue
                    jobs.append((binary, len(jobs), fam, name, m, accname, mode, label, col, row, nlsep))
    # partial conversion of one constraint type: max(x, y, z) = w with indicators "accepted but not recommended" (level 1): the
    # big-M conversion of the indicator rows succeeds for the bounded arguments and fails for the unbounded one, which stays
    # native - converted and native constraints of one type then live in the same keeper
    from nlmodel import Model, INF
    ACC['mip+ind1'] = flatcheck.acc_of({'g': 'g0', 'flags': {}, 'types': dict(
        flatcheck.base_config('g0')['types'], **{'IndicatorConstraint[AlgebraicConstraint< LinTerms, RhsLE >]': 1,
        'IndicatorConstraint[AlgebraicConstraint< LinTerms, RhsGE >]': 1, 'IndicatorConstraint[AlgebraicConstraint< LinTerms, RhsEQ >]': 1})}, 0)
    for un in (0, 1, 2):
        V = [((-INF if i == un else 0.0), 10.0, False, 1.0) for i in range(3)] + [(0.0, 10.0, False, 1.0)]
        mu = Model(V, acons=[(('max', ('v', 0), ('v', 1), ('v', 2)), {3: -1.0}, 0.0, 0.0), (None, {0: 1.0, 1: 1.0, 2: 1.0, 3: 1.0}, -INF, 20.0)],
                   obj=('max', None, {3: 1.0}))
        for mode in (1, 2, 3):
            jobs.append((binary, len(jobs), 'partial', 'max with unbounded argument %d' % un, mu, 'mip+ind1', mode, 'plain',
                         ['x', 'y', 'z', 'w'], ['Peak', 'Budget', 'Total'], '\n'))
    classes = set(); n = 0; crashed = 0; named = 0
    with ThreadPoolExecutor(max_workers=vcheck.NCPU) as ex:
        for v, info, cls, ident in ex.map(one, jobs):
            n += 1; classes.add(cls)
            if cls.endswith('|named'): named += 1
            if info['rc'] != 0 or not info['has_dump']:
                crashed += 1
                if info['rc'] not in (0,) and 'rror' not in info['err']:
                    chk.violation('C19 driver failed rc=%s on a names run' % info['rc'], {'case': ident, 'err': info['err']}, None)
            for sig, det in v:
                det = dict(det); det['case'] = ident
                chk.violation(sig, det, {'case': ident})
            if n % 1500 == 0: chk.sample({'case': ident})
    chk.set('evaluations', n); chk.set('runs_named', named); chk.set('runs_without_dump', crashed)
    chk.cov['_classes'] = classes
    vcheck.finalize_classes(chk)
    chk.set('rule', 'driver runs (real RunBackendApp path) over models (linear mixes, canonicalisation, unary-encoding, plus fixed sub-lists of the sharing, shape, SOS, complementarity, PL, cone and defined-variable '
            'families: every k-th model of the deterministic generator order; the list is enumerated completely) x acceptance configs %s x cvt:names 0..3 x name files {absent, plain, CRLF, short, col-only, look-alikes of derived '
            'names, bracketed names with blanks}; judged: completeness, fidelity of original names (file or documented generic names), '
            'derived names start with an NL item name, uniqueness among delivered variables and among delivered constraints. '
            'A class = (config, names mode, file variant, names delivered or not).' % list(ACC))
    chk.assumptions += ['names are "requested" for cvt:names>=2, or cvt:names=1 with at least one of .col/.row present',
                        'generic names are _svar[i], _sdvar[i], _scon[i], _slogcon[i], _sobj[i] (NameProvider defaults in model-mgr-with-pb.h)']
    if named < n / 4: chk.broken.append('vacuous: names were delivered in only %d of %d runs' % (named, n))
    shutil.rmtree(WORK, ignore_errors=True)
    return chk.finish()


def replay(path):
    print(open(path).read()[:3000]); return 0
