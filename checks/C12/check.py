"""C12 objective selection: NL files with 0..3 objectives (sense x {linear, constant, abs, quadratic}) x objno
{unset, 0..n+1} x multiobj {0,1} x option route {<solver>_options env, command line, option file with / without a final newline} x NL format {text, binary}
x {quadratic objectives accepted, not accepted}, each through the scripted driver (one process per case).
Oracle = reference selection function written from the property statement + semantic comparison of the delivered
objective(s) (recorded SetLinearObjective/SetQuadraticObjective calls and the auxiliary constraints they refer to)
with the reference evaluator of the NL model."""
import itertools, json, multiprocessing, os, re, shutil, struct, sys
import vbuild, vcheck, vdriverlib, nlmodel

PID = 'C12'
WORK = os.path.join(vbuild.VERIF, 'build', 'work', PID)
INF = float('inf')
NV = 2                                   # x0, x1 in [-10, 10]; one linear constraint x0 + x1 <= 5
SHAPES = ['lin', 'const', 'abs', 'quad', 'prod']
SENSES = ['min', 'max']
POINTS = [(-3.0, 2.0), (-1.0, -2.0), (0.0, 1.0), (2.0, 0.0), (5.0, -4.0), (0.0, 0.0), (1.0, 1.0), (-7.0, 3.0)]

LINACC = ('default=0;AlgebraicConstraint< LinTerms, RhsLE >=2;AlgebraicConstraint< LinTerms, RhsEQ >=2;'
          'AlgebraicConstraint< LinTerms, RhsGE >=2;AbsConstraint=2')
QUADCON = (';AlgebraicConstraint< QuadAndLinTerms, RhsLE >=2;AlgebraicConstraint< QuadAndLinTerms, RhsEQ >=2;'
           'AlgebraicConstraint< QuadAndLinTerms, RhsGE >=2')
SCRIPTS = {'quadobj': {'acc': LINACC + ';quadobj=1', 'x': 'zeros', 'y': 'none', 'code': 0},
           'noquadobj': {'acc': LINACC + QUADCON + ';quadobj=0', 'x': 'zeros', 'y': 'none', 'code': 0}}


# ------------------------------------------------------------------------------------------- generator
def objective(i, sense, shape):
    """objective i (0-based) of a file; every objective is a different function of (x0, x1)"""
    x = ('v', 0)
    if shape == 'lin':   return (sense, None, {0: i + 1, 1: -(i + 2)})                       # (i+1) x0 - (i+2) x1
    if shape == 'const': return (sense, ('n', (7 + i) * (-1 if i % 2 else 1) * (100000 if i == 2 else 1)), {})   # 7, -8, 900000 (both signs; the last needs 32 bits)
    if shape == 'abs':   return (sense, ('add', ('abs', x), ('n', i - 1.5)), {1: i + 3})        # |x0| + (i-1.5) + (i+3) x1 (negative constants too)
    if shape == 'quad':  return (sense, ('mul', ('pow2', x), ('n', i + 1)), {1: 2 * i + 1})    # (i+1) x0^2 + (2i+1) x1
    if shape == 'prod':  # (x0 + i + 2) * (x1 - 1) + (i+1) x0: multiplying out leaves linear terms and a constant next to x0*x1
        return (sense, ('mul', ('add', x, ('n', i + 2)), ('sub', ('v', 1), ('n', 1))), {0: i + 1})
    raise ValueError(shape)


def make_model(spec):
    """spec: list of (sense, shape)"""
    return nlmodel.Model([(-10, 10, False, 1), (-10, 10, False, 1)], acons=[(None, {0: 1, 1: 1}, -INF, 5)],
                         objs=[objective(i, s, sh) for i, (s, sh) in enumerate(spec)])


ARITY = {0: 2, 1: 2, 2: 2, 3: 2, 5: 2, 15: 1, 16: 1, 77: 1}


def nl_binary(m):
    """binary ('b') NL encoding of a Model restricted to what this check generates (no defined variables, suffixes,
    logical constraints); mirrors nlmodel.Model.nl() segment by segment."""
    assert not m.dvars and not m.lcons and not m.suffixes and not m.compl
    text = m.nl().split('\n')
    head = text[:10]
    assert head[0].startswith('g3') and head[5] == ' 0 0 0 1'
    head[0] = 'b' + head[0][1:]
    head[5] = ' 0 0 1 1'                         # arith kind 1 = IEEE little endian
    out = [('\n'.join(head) + '\n').encode()]
    I = lambda v: struct.pack('<i', v)
    D = lambda v: struct.pack('<d', float(v))

    def expr(e):
        k = e[0]
        if k == 'n':
            # AMPL's binary writer uses the short forms for integral constants: 's' (16 bit) and 'l' (32 bit)
            v = e[1]
            if float(v).is_integer() and abs(v) < 32768: out.append(b's' + struct.pack('<h', int(v)))
            elif float(v).is_integer() and abs(v) < 2 ** 31: out.append(b'l' + I(int(v)))
            else: out.append(b'n' + D(v))
            return
        if k == 'v': out.append(b'v' + I(e[1])); return
        code = nlmodel.NUM_OPS[k]
        assert ARITY[code] == len(e) - 1
        out.append(b'o' + I(code))
        for a in e[1:]: expr(a)

    def bound(lb, ub):
        if lb == -INF and ub == INF: out.append(b'3')
        elif lb == -INF: out.append(b'1' + D(ub))
        elif ub == INF: out.append(b'2' + D(lb))
        elif lb == ub: out.append(b'4' + D(lb))
        else: out.append(b'0' + D(lb) + D(ub))

    for i, (e, lin, lb, ub) in enumerate(m.acons):
        out.append(b'C' + I(i)); expr(e if e is not None else ('n', 0))
    for i, (sense, e, lin) in enumerate(m.objs):
        out.append(b'O' + I(i) + I(1 if sense == 'max' else 0)); expr(e if e is not None else ('n', 0))
    if m.acons:
        out.append(b'r')
        for (e, lin, lb, ub) in m.acons: bound(lb, ub)
    out.append(b'b')
    for (lb, ub, isint, step) in m.vars: bound(lb, ub)
    nv = len(m.vars)
    if nv > 1:
        out.append(b'k' + I(nv - 1))
        cnt = [0] * nv
        for c in m.acons:
            for v in c[1]: cnt[v] += 1
        s = 0
        for i in range(nv - 1):
            s += cnt[i]; out.append(I(s))
    for i, (e, lin, lb, ub) in enumerate(m.acons):
        if lin:
            out.append(b'J' + I(i) + I(len(lin)))
            for v in sorted(lin): out.append(I(v) + D(lin[v]))
    for i, (sense, e, lin) in enumerate(m.objs):
        if lin:
            out.append(b'G' + I(i) + I(len(lin)))
            for v in sorted(lin): out.append(I(v) + D(lin[v]))
    return b''.join(out)


def files_for(tier):
    per = list(itertools.product(SENSES, SHAPES))          # 10 (sense, shape) pairs
    out = [[]]
    out += [[a] for a in per]
    out += [[a, b] for a in per for b in per]
    if tier == 'thorough':
        out += [[a, b, c] for a in per for b in per for c in per]
    else:   # all 125 shape triples; senses alternate, starting sense from the parity of the triple's index
        for j, shp in enumerate(itertools.product(SHAPES, repeat=3)):
            ss = ('min', 'max', 'min') if j % 2 == 0 else ('max', 'min', 'max')
            out.append(list(zip(ss, shp)))
    return out


def cases_for(tier):
    """case = (spec, k, m, route, fmt, script)"""
    out = []
    for spec in files_for(tier):
        n = len(spec)
        for k in [None] + list(range(0, n + 2)):
            for m in (0, 1):
                for script in ('quadobj', 'noquadobj'):
                    if tier == 'thorough' or n < 3:
                        combos = [(r, f) for r in ('env', 'arg') for f in ('text', 'binary')] + [('file', 'text'), ('filenl', 'binary'), ('mpopts', 'text'), ('query', 'text'), ('query-e', 'text'), ('both', 'binary'), ('exe', 'text'), ('env', 'text-flag2')]
                    else:
                        combos = [('env', 'text'), ('arg', 'binary'), ('file', 'text'), ('mpopts', 'binary'), ('query-e', 'text'), ('both', 'text'), ('exe', 'binary'), ('arg', 'text-flag2')]
                    for route, fmt in combos:
                        out.append((tuple(spec), k, m, route, fmt, script))
    return out


# ------------------------------------------------------------------------------------------- reference
def reference(n, k, m):
    """-> ('reject',) | ('objs', [indices]) | ('either', [indices_single], [indices_all])   (0-based indices)"""
    if k is not None and k > n:
        return ('reject',)
    if m == 1 and k is None:
        return ('objs', list(range(n)))
    keff = 1 if k is None else k
    single = [] if (keff == 0 or n == 0) else [keff - 1]
    if m == 1:      # multiobj=1 together with an explicit objno: the statement does not say which wins
        return ('either', single, list(range(n)))
    return ('objs', single)


class Uninterpretable(Exception):
    pass


def eval_delivered(dump, ob, p):
    """value of the delivered objective `ob` at original point p, following auxiliary variables through the
    delivered constraints.  Returns (value, problems) where problems lists wrongly oriented relaxations."""
    vars_, cons = dump['vars'], dump['cons']
    problems = []

    def definition(v):
        func = [c for c in cons if isinstance(c['data'], dict) and c['data'].get('res_var') == v]
        alg = []
        for c in cons:
            d = c['data']
            if not c['type'].startswith('AlgebraicConstraint<') or not isinstance(d, dict): continue
            body = d['body']
            lt = body['lin_terms'] if 'lin_terms' in body else body
            if v in lt['vars']: alg.append(c)
        return func, alg

    def val(v, weight_sign, sense):
        if v < NV: return p[v]
        func, alg = definition(v)
        if len(func) == 1 and not alg:
            c = func[0]; a = c['data']['args']
            if c['type'] == 'AbsConstraint' and len(a) == 1: return abs(val(a[0], 0, sense))
            if c['type'] == 'PowConstraint' and len(a) == 1: return val(a[0], 0, sense) ** c['data']['params'][0]
            raise Uninterpretable('functional constraint %s' % c['type'])
        if not func and len(alg) == 1:
            d = alg[0]['data']; body = d['body']
            lt = body['lin_terms'] if 'lin_terms' in body else body
            qt = body.get('qp_terms', {'coefs': [], 'vars1': [], 'vars2': []})
            cv = sum(c for c, w in zip(lt['coefs'], lt['vars']) if w == v)
            if cv == 0 or v in qt['vars1'] or v in qt['vars2']: raise Uninterpretable('aux var in quadratic part')
            rest = sum(c * val(w, 0, sense) for c, w in zip(lt['coefs'], lt['vars']) if w != v)
            rest += sum(c * val(a, 0, sense) * val(b, 0, sense) for c, a, b in zip(qt['coefs'], qt['vars1'], qt['vars2']))
            kind, rhs = d['rhs_or_range'][0], d['rhs_or_range'][1]
            if kind not in ('LE', 'GE', 'EQ'): raise Uninterpretable('rhs kind %s' % kind)
            bnd = (rhs - rest) / cv
            if kind != 'EQ':
                is_ub = (kind == 'LE') == (cv > 0)            # v <= bnd ?
                # maximising w*v with w>0 (or minimising with w<0) pushes v up: needs an upper bound; else lower
                pushes_up = (weight_sign > 0) == (sense == 1)
                if weight_sign == 0 or is_ub != pushes_up:
                    problems.append('aux var %d defined by one-sided %s relaxation in the wrong direction' % (v, kind))
            return bnd
        if not func and not alg and vars_[v][0] == vars_[v][1]:
            return vars_[v][0]
        raise Uninterpretable('variable %d: %d functional / %d algebraic definitions, bounds %r'
                              % (v, len(func), len(alg), vars_[v][:2]))

    sense = ob['sense']
    s = 0.0
    for c, v in zip(ob['lin']['coefs'], ob['lin']['vars']):
        s += c * val(v, (c > 0) - (c < 0), sense)
    for c, a, b in zip(ob['qp']['coefs'], ob['qp']['vars1'], ob['qp']['vars2']):
        s += c * val(a, 0, sense) * val(b, 0, sense)
    return s, problems


def compare_obj(model, idx, dump, ob):
    """-> None if the delivered objective `ob` is objective idx of the file, else (kind, detail)"""
    want_sense = 1 if model.objs[idx][0] == 'max' else 0
    if ob['sense'] != want_sense:
        return ('sense', {'delivered_sense': ob['sense'], 'expected': model.objs[idx][0]})
    for p in POINTS:
        got, problems = eval_delivered(dump, ob, p)
        exp = model.objval(p, idx)
        if abs(got - exp) > 1e-9 * max(1.0, abs(exp)):
            return ('function', {'point': p, 'delivered_value': got, 'expected_value': exp})
        if problems:
            return ('relaxation', {'problems': problems})
    return None


def matches(model, indices, dump):
    """delivered objectives == the file's objectives `indices` in this order?  -> None or (kind, detail)"""
    objs = dump.get('objs', [])
    if len(objs) != len(indices) or any(o is None for o in objs):
        return ('count', {'delivered': len([o for o in objs if o is not None]), 'slots': len(objs), 'expected': len(indices)})
    for pos, idx in enumerate(indices):
        if objs[pos].get('index') != pos:
            return ('count', {'slot': pos, 'index_field': objs[pos].get('index')})
        r = compare_obj(model, idx, dump, objs[pos])
        if r: return (r[0], dict(r[1], position=pos, expected_file_objective=idx + 1, delivered=objs[pos]))
    return None


# ------------------------------------------------------------------------------------------- one case
def run_case(binary, wd, case):
    spec, k, m, route, fmt, script = case
    model = make_model(spec)
    env_opts = None; args = ('-AMPL',); pre = ()
    if route == 'env':
        toks = ([] if k is None else ['objno=%d' % k]) + (['multiobj=1'] if m else [])
        env_opts = {'vdriver_options': ' '.join(toks)}
    elif route in ('query', 'query-e'):
        # every assignment followed by a query of the same option ("name=?" prints the value and leaves it unchanged), with
        # the option echo on / suppressed by the -e switch
        toks = ([] if k is None else ['objno=%d' % k, 'objno=?']) + ['multiobj=%d' % m, 'multiobj=?', 'obj:no=?']
        env_opts = {'vdriver_options': ' '.join(toks)}
        if route == 'query-e': pre = ('-e',)
    elif route == 'both':
        # both environment variables: <solver>_options is parsed after mp_options and wins
        other = 1 if k != 1 else 0
        env_opts = {'mp_options': ('' if k is None else 'objno=%d ' % other) + 'multiobj=%d' % (1 - m),
                    'vdriver_options': ' '.join(([] if k is None else ['objno=%d' % k]) + ['multiobj=%d' % m])}
    elif route == 'exe':
        # the driver runs under another file name (a copy "vdriver-prod"): <that name>_options is the variable to read, and when
        # it exists the variable under the solver's own name is not read at all
        other = 1 if k != 1 else 0
        os.makedirs(wd, exist_ok=True)
        alias = os.path.join(wd, 'vdriver-prod')
        if not os.path.exists(alias): os.symlink(binary, alias)
        binary = alias
        env_opts = {'vdriver-prod_options': ' '.join(([] if k is None else ['objno=%d' % k]) + ['multiobj=%d' % m]),
                    'vdriver_options': ('' if k is None else 'objno=%d ' % other) + 'multiobj=%d' % (1 - m)}
    elif route == 'mpopts':
        # the solver-independent variable mp_options, value syntax without '=': "objno 2"
        toks = ([] if k is None else ['objno %d' % k]) + ['multiobj %d' % m]
        env_opts = {'mp_options': ' '.join(toks)}
    elif route in ('file', 'filenl'):
        # an option file (tech:optionfile): 'file' ends with the objno assignment and no final newline, 'filenl' has the
        # assignments in the other order and a final newline
        lines = ['multiobj=%d' % m] + ([] if k is None else ['objno=%d' % k])
        os.makedirs(wd, exist_ok=True)
        with open(os.path.join(wd, 'c12.opt'), 'w') as f:
            f.write('# objective selection\n' + ('\n'.join(lines) if route == 'file' else '\n'.join(reversed(lines)) + '\n'))
        env_opts = {'vdriver_options': 'tech:optionfile=c12.opt'}
    else:
        args = ('-AMPL',) + (() if k is None else ('obj:no=%d' % k,)) + ('obj:multi=%d' % m,)
    if fmt == 'binary': kw = {'nl_bytes': nl_binary(model)}
    elif fmt == 'text-flag2':   # "nonzero" is the NL convention for maximise: flags 2, 3, ... instead of 1
        kw = {'nl_text': re.sub(r'^(O\d+) 1$', lambda mo: '%s %d' % (mo.group(1), 2 + int(mo.group(1)[1:])), model.nl(), flags=re.M)}
    else: kw = {'nl_text': model.nl()}
    r = vdriverlib.run(binary, wd, args=args, script=SCRIPTS[script], env_opts=env_opts, pre=pre, **kw)
    return model, r


def judge(case, model, r):
    """-> (findings [(kind, detail)], observation class string)"""
    spec, k, m, route, fmt, script = case
    n = len(spec)
    ref = reference(n, k, m)
    f = []
    dump = r['dump'] if isinstance(r['dump'], dict) and '_unparsable' not in r['dump'] else None
    sol = None
    if r['sol'] is not None:
        try: sol = vdriverlib.parse_sol(r['sol'])
        except (ValueError, IndexError): sol = None
    solved = bool(dump) and any(c.get('op') == 'Solve' for c in dump.get('calls', []))
    ndel = len([o for o in dump['objs'] if o is not None]) if dump else 0
    if ref[0] == 'reject':
        code = sol['code'] if sol else None
        failed = (r['rc'] != 0) or (code is not None and 500 <= code <= 999)
        text = (sol['message'] if sol else '') + r['err'] + r['out']
        if not failed or solved:
            f.append(('objno beyond the number of objectives not rejected', {'rc': r['rc'], 'sol_code': code, 'solve_called': solved,
                                                                             'delivered_objectives': ndel}))
        elif not re.search(r'objno|obj:no', text):
            f.append(('rejected objno without an option error naming objno', {'message': text[-300:]}))
        return f, 'rejected rc=%s code=%s objno_line=%s' % (r['rc'], code, sol['objno'] if sol else None)
    if r['rc'] != 0 or sol is None or dump is None or not solved:
        return [('driver failed on a valid objective selection', {'rc': r['rc'], 'err': r['err'][-300:], 'sol': (r['sol'] or '')[:200],
                                                                'solve_called': solved})], 'failed rc=%s' % r['rc']
    if sol['code'] != 0:
        f.append(('solve code differs from the scripted 0', {'sol_code': sol['code'], 'message': sol['message'][:200]}))
    try:
        if ref[0] == 'objs':
            used = ref[1]
            bad = matches(model, used, dump)
        else:
            bad1 = matches(model, ref[1], dump)
            used = ref[1]
            bad = bad1
            if bad1 is not None:
                bad2 = matches(model, ref[2], dump)
                if bad2 is None: bad = None; used = ref[2]
    except Uninterpretable as e:
        return [('UNINTERPRETABLE', {'why': str(e), 'dump': dump})], 'uninterpretable'
    if bad:
        kind = {'count': 'wrong number of objectives delivered', 'sense': 'delivered objective has the wrong sense',
                'function': 'delivered objective is not the selected objective of the file',
                'relaxation': 'nonlinear part of the delivered objective relaxed in the wrong direction'}[bad[0]]
        f.append((kind, dict(bad[1], expected_file_objectives=[i + 1 for i in ref[1]])))
    else:
        # echo: the file's line is `objno N code`, N = (1-based objective number used) - 1, so -1 = none used
        N = sol['objno']
        multi = (ref[0] == 'objs' and m == 1 and k is None) or (ref[0] == 'either' and used is ref[2] and used != ref[1])
        if not used: ok = (N == -1)
        elif multi: ok = (0 <= N < n)
        else: ok = (N == used[0])
        if not ok:
            f.append(('objno echoed in the .sol is not the objective used',
                      {'objno_line_N': N, 'objectives_used_1based': [i + 1 for i in used]}))
    cls = '%s delivered=%d echo=%s' % ('multi' if (m == 1 and k is None) else ('multi+objno' if m == 1 else 'single'),
                                        ndel, 'none' if sol['objno'] == -1 else ('first' if sol['objno'] == 0 else 'later'))
    return f, cls


def case_json(case):
    spec, k, m, route, fmt, script = case
    return {'objectives': [list(s) for s in spec], 'objno': k, 'multiobj': m, 'route': route, 'format': fmt, 'script': script}


def case_from_json(j):
    return (tuple(tuple(s) for s in j['objectives']), j['objno'], j['multiobj'], j['route'], j['format'], j['script'])


def _worker(args):
    binary, idx, cases = args
    wd = os.path.join(WORK, 'w%02d' % idx)
    out = []
    for case in cases:
        model, r = run_case(binary, wd, case)
        f, cls = judge(case, model, r)
        out.append((case, f, cls))
    return out


# ------------------------------------------------------------------------------------------- self tests
def rank(rows):
    rows = [list(r) for r in rows]; rk = 0
    for c in range(len(rows[0])):
        piv = max(range(rk, len(rows)), key=lambda i: abs(rows[i][c]), default=None)
        if piv is None or abs(rows[piv][c]) < 1e-9: continue
        rows[rk], rows[piv] = rows[piv], rows[rk]
        for i in range(len(rows)):
            if i != rk and rows[i][c] != 0:
                q = rows[i][c] / rows[rk][c]
                rows[i] = [a - q * b for a, b in zip(rows[i], rows[rk])]
        rk += 1
        if rk == len(rows): break
    return rk


def self_test():
    bad = []
    # the test points separate every pair of functions in span{1, x0, x1, |x0|, x0^2}
    if rank([[1, p[0], p[1], abs(p[0]), p[0] ** 2] for p in POINTS]) != 5:
        bad.append('test points do not separate span{1,x0,x1,|x0|,x0^2}')
    # all generated objectives are pairwise different functions
    fs = {}
    for i in range(3):
        for sh in SHAPES:
            m = nlmodel.Model([(-10, 10, False, 1)] * 2, objs=[objective(i, 'min', sh)])
            fs[(i, sh)] = tuple(m.objval(p, 0) for p in POINTS)
    if len(set(fs.values())) != len(fs): bad.append('generated objectives are not pairwise distinct')
    # reference selection function
    exp = {(0, None, 0): ('objs', []), (2, None, 0): ('objs', [0]), (2, 0, 0): ('objs', []), (2, 2, 0): ('objs', [1]),
           (2, 3, 0): ('reject',), (3, None, 1): ('objs', [0, 1, 2]), (2, 3, 1): ('reject',), (0, 1, 0): ('reject',),
           (0, 0, 1): ('either', [], [])}
    for (n, k, m), v in exp.items():
        if reference(n, k, m) != v: bad.append('reference(%s,%s,%s)' % (n, k, m))
    # the comparison must reject a deliberately wrong delivered objective
    model = make_model([('min', 'lin'), ('max', 'abs')])
    dump = {'vars': [[-10, 10, 0, None], [-10, 10, 0, None], [0, 10, 0, None], [-0.5, -0.5, 0, None]],
            'cons': [{'type': 'AbsConstraint', 'data': {'res_var': 2, 'args': [0], 'params': []}}],
            'objs': [{'index': 0, 'sense': 1, 'lin': {'coefs': [4, 1, 1], 'vars': [1, 2, 3]},
                      'qp': {'coefs': [], 'vars1': [], 'vars2': []}}]}
    if matches(model, [1], dump) is not None: bad.append('correct delivered objective rejected')
    if matches(model, [0], dump) is None: bad.append('wrong objective accepted')
    d2 = json.loads(json.dumps(dump)); d2['objs'][0]['sense'] = 0
    if matches(model, [1], d2) is None: bad.append('wrong sense accepted')
    d3 = json.loads(json.dumps(dump)); d3['objs'][0]['lin']['coefs'][0] = 5
    if matches(model, [1], d3) is None: bad.append('leaked linear coefficient accepted')
    if matches(model, [0, 1], dump) is None: bad.append('missing objective accepted')
    return bad


# ------------------------------------------------------------------------------------------- main
def main(tier, seed):
    chk = vcheck.Check(PID, tier, 'exploration', seed)
    binary = vdriverlib.build()
    shutil.rmtree(WORK, ignore_errors=True)
    os.makedirs(WORK, exist_ok=True)
    try:
        return _main(chk, tier, binary)
    finally:
        shutil.rmtree(WORK, ignore_errors=True)


def _main(chk, tier, binary):
    for b in self_test():
        chk.broken.append('oracle self-test: ' + b)
    cases = cases_for(tier)
    nw = vcheck.NCPU
    jobs = [(binary, i, cases[i::nw]) for i in range(nw)]
    with multiprocessing.get_context('fork').Pool(nw) as pool:
        results = [r for part in pool.map(_worker, jobs) for r in part]
    order = {c: i for i, c in enumerate(cases)}
    results.sort(key=lambda t: order[t[0]])

    classes = chk.cov.setdefault('_classes', set())
    groups = {}
    cnt = {'n3': 0, 'multi': 0, 'rejected': 0, 'binary': 0, 'none_delivered': 0, 'files': set()}
    for case, f, cls in results:
        spec, k, m, route, fmt, script = case
        n = len(spec)
        chk.add('driver_runs')
        cnt['files'].add(spec)
        if n == 3: cnt['n3'] += 1
        if m == 1 and k is None and n >= 2 and cls.startswith('multi delivered=%d' % n): cnt['multi'] += 1
        if cls.startswith('rejected'): cnt['rejected'] += 1
        if fmt == 'binary': cnt['binary'] += 1
        if 'delivered=0' in cls: cnt['none_delivered'] += 1
        sel = reference(n, k, m)
        shape = spec[sel[1][0]][1] if sel[0] == 'objs' and len(sel[1]) == 1 else '-'
        classes.add('n=%d objno=%s multiobj=%d selected_shape=%s %s: %s' % (n, 'unset' if k is None else ('0' if k == 0 else ('n+1' if k > n else ('n' if k == n else 'mid'))),
                                                                          m, shape, script, cls))
        for kind, det in f:
            if kind == 'UNINTERPRETABLE':
                # the delivered objective runs through auxiliary variables the value follower cannot resolve (e.g. a linearised
                # quadratic term): an equivalent formulation is not a violation of this property; counted, not judged
                cnt['uninterpretable'] = cnt.get('uninterpretable', 0) + 1
                continue
            groups.setdefault((kind, n, k, m), []).append((case, det))
    for (kind, n, k, m), lst in sorted(groups.items(), key=lambda kv: (kv[0][0], kv[0][1], -1 if kv[0][2] is None else kv[0][2], kv[0][3])):
        case0, det0 = lst[0]
        chk.violation('C12 %s (n=%d objno=%s multiobj=%d)' % (kind, n, 'unset' if k is None else k, m),
                      {'failing_cases': len(lst), 'first': case_json(case0), 'observed': det0,
                       'failing formats/routes/scripts': sorted(set('%s/%s/%s' % (c[4], c[3], c[5]) for c, _ in lst)),
                       'failing selected shapes': sorted(set('+'.join(s[1] for s in c[0]) for c, _ in lst))[:12]},
                      case_json(case0))
    for c in (cases[0], cases[len(cases) // 3], cases[len(cases) // 2], cases[-1]):
        chk.sample(case_json(c))
    if cases:
        chk.sample({'nl_text_of_last_sample': make_model(cases[-1][0]).nl()})

    chk.set('files', len(cnt['files']))
    chk.set('cases_n3', cnt['n3']); chk.set('cases_multiobj_all_delivered', cnt['multi'])
    chk.set('cases_rejected_objno', cnt['rejected']); chk.set('cases_binary', cnt['binary'])
    chk.set('cases_no_objective_delivered', cnt['none_delivered'])
    chk.set('cases_objective_not_followed_by_oracle', cnt.get('uninterpretable', 0))
    if cnt.get('uninterpretable', 0) * 2 > len(cases): chk.broken.append('oracle could not follow the delivered objective in more than half of the cases')
    if cnt['n3'] == 0: chk.broken.append('no case with 3 objectives ran')
    if cnt['multi'] == 0: chk.broken.append('no multi-objective case delivered all objectives')
    if cnt['rejected'] == 0: chk.broken.append('no rejected-objno case ran')
    if cnt['binary'] == 0: chk.broken.append('no binary NL case ran')
    if len(results) != len(cases): chk.broken.append('runs %d != cases %d' % (len(results), len(cases)))

    chk.cov['evaluations'] = chk.cov.get('driver_runs', 0)
    vcheck.finalize_classes(chk)
    chk.set('rule', 'exhaustive: NL files with n in 0..3 objectives, objective i = {min,max} x {linear, constant only, '
            '|x0|+i+linear, (i+1)x0^2+linear, (x0+i+2)(x1-1)+linear} (%s) x objno {unset, 0..n+1} x multiobj {0,1} x {objno=/multiobj= in '
            'vdriver_options, obj:no=/obj:multi= on the command line, objno=/multiobj= in an option file ending with / without a newline, "objno K" in mp_options, assignments followed by name=? queries with / without the -e switch, contradicting mp_options next to <solver>_options, the driver under another file name with both <name>_options variables} x {text, binary NL} x {quadratic objective accepted, '
            'not accepted}%s; one driver process per case. Oracle: reference selection function + value comparison of each '
            'delivered objective (following aux variables through AbsConstraint / quadratic constraints / fixed variables) '
            'with the NL reference evaluator at %d points separating span{1,x0,x1,|x0|,x0^2,x0*x1}; `objno N code` line. '
            'A class is (n, objno class, multiobj, shape selected, script, outcome).'
            % ('all combinations' if tier == 'thorough' else 'all combinations for n<=2; for n=3 all 125 shape triples with alternating senses',
               '' if tier == 'thorough' else ' (for n=3 route and format are paired: env+text, arg+binary)', len(POINTS)))
    chk.set('bounds', {'n': [0, 3], 'shapes': SHAPES, 'senses': SENSES, 'objno': 'unset, 0..n+1', 'multiobj': [0, 1],
                       'routes': ['env', 'arg', 'file', 'filenl', 'mpopts', 'query', 'query-e', 'both', 'exe'], 'formats': ['text', 'binary', 'text-flag2'], 'scripts': sorted(SCRIPTS)})
    chk.assumptions += [
        '.sol line `objno N code`: N is zero-based (sol.h writes objno_used()-1; ASL convention obj_no), so "objective k used" '
        'is N = k-1 and "no objective used" is N = -1; demanded: N = k-1 in single-objective mode, N = -1 when nothing was '
        'delivered, 0 <= N < n in multi-objective mode (the statement does not say which of several is echoed)',
        'default objno (option not given) is 1 (option text: "1 - First (default, if available)")',
        'multiobj=1 together with an explicit valid objno: the statement does not say which wins; both "only objective objno" '
        '(what BasicSolver::multiobj() implements: multiobj_ && objno unset) and "all objectives" are accepted',
        'objno > n is rejected also when multiobj=1; rejection = option error text naming objno in .sol message/stderr/stdout, '
        'and solve code in 500..999 or non-zero exit, and Solve() not called; with -AMPL the driver exits 0 and reports through the .sol',
        '"contains exactly the k-th objective" is judged semantically: same sense, and the delivered linear+quadratic form, with '
        'auxiliary variables replaced by their delivered definitions, equals the file\'s objective at every test point; the '
        'constant is delivered as coefficient 1 on a fixed auxiliary variable (ProblemFlattener::Convert(MutObjective) -> MakeFixedVar); '
        'when quadratic objectives are not accepted the quadratic part is an auxiliary variable bounded by a one-sided quadratic '
        'constraint - accepted iff the side is the one the objective sense pushes against',
        'auxiliary constraints of objectives that were not selected are not looked at (only objectives are demanded)',
        'binary NL produced by a converter in this check (header b3, arith kind 1, little-endian int32/float64), validated by '
        'demanding the same verdicts as for text']
    return chk.finish()


def replay(path):
    j = json.load(open(path))['replay']
    case = case_from_json(j)
    binary = vdriverlib.build()
    shutil.rmtree(WORK, ignore_errors=True)
    os.makedirs(WORK, exist_ok=True)
    try:
        model, r = run_case(binary, os.path.join(WORK, 'replay'), case)
        f, cls = judge(case, model, r)
        print(json.dumps({'case': j, 'model': model.describe(), 'class': cls, 'findings': f, 'rc': r['rc'],
                          'sol_tail': (r['sol'] or '')[-80:], 'delivered_objs': (r['dump'] or {}).get('objs')}, indent=1, default=str))
        return 1 if f else 0
    finally:
        shutil.rmtree(WORK, ignore_errors=True)
