// vdriver: a complete AMPL solver driver (the real mp::BackendApp / RunBackendApp path: argv, env
// options, -AMPL, .nl/.col/.row reading, conversion, .sol writing) whose "solver" is scripted.
//   * model API = RecAPI (ref/rec_api.h): records the delivered model, acceptance from a table
//   * Solve() does nothing; status code, message, primal/dual/objective values, basis, IIS come
//     from the script file named by env VDRIVER_SCRIPT (key=value lines)
//   * everything the "solver" received is dumped as JSON to the file named by env VDRIVER_DUMP
// Modelled on solvers/visitor.
#include <fstream>
#include <sstream>
#include "mp/backend-app.h"
#include "mp/backend-mip.h"
#include "mp/flat/backend_flat.h"
#include "mp/model-mgr-with-std-pb.hpp"
#include "mp/flat/redef/MIP/converter_mip.h"
#include "mp/flat/problem_flattener.h"
#include "rec_api.h"

namespace {
std::map<std::string, std::string> g_script;
std::vector<std::string> g_calls;     // JSON objects
bool g_dumped = false;
std::string g_types_json = "{}";   // C++ type name -> short graph type name of every keeper

std::string sget(const std::string& k, const std::string& d = "") {
  auto it = g_script.find(k); return it == g_script.end() ? d : it->second;
}
void load_script() {
  const char* p = std::getenv("VDRIVER_SCRIPT");
  if (!p) return;
  std::ifstream f(p); std::string line;
  while (std::getline(f, line)) {
    auto e = line.find('=');
    if (e == std::string::npos || line[0] == '#') continue;
    std::string v = line.substr(e + 1), r;
    for (size_t i = 0; i < v.size(); ++i) {
      if (v[i] == '\\' && i + 1 < v.size()) { ++i; r += v[i] == 'n' ? '\n' : v[i]; } else r += v[i];
    }
    g_script[line.substr(0, e)] = r;
  }
}
std::vector<double> csv(const std::string& s) {
  std::vector<double> v; std::stringstream ss(s); std::string t;
  while (std::getline(ss, t, ',')) if (!t.empty()) v.push_back(std::strtod(t.c_str(), nullptr));
  return v;
}
template <class V> std::string jv(const V& v) {
  std::string s = "["; bool f = true;
  for (auto x : v) { if (!f) s += ","; f = false; s += vf::num((double)x); }
  return s + "]";
}
template <class VM> std::string jmap(const VM& vm) {
  std::string s = "{"; bool f = true;
  for (const auto& kv : vm.GetMap()) { if (!f) s += ","; f = false; s += "\"" + std::to_string(kv.first) + "\":" + jv(kv.second); }
  return s + "}";
}
int count_group(int g) {   // delivered constraints of one group, in delivery order
  int n = 0; std::string key = "\"group\": " + std::to_string(g) + ",", key2 = "\"group\":" + std::to_string(g) + ",";
  for (auto& c : vf::st().cons) if (c.find(key) != std::string::npos || c.find(key2) != std::string::npos) ++n;
  return n;
}
int nvars() { // count of "[" entries at depth 1 of vars JSON
  const std::string& s = vf::st().vars; int depth = 0, n = 0;
  for (char c : s) { if (c == '[') { if (depth == 1) ++n; ++depth; } else if (c == ']') --depth; }
  return n;
}
void dump() {
  const char* p = std::getenv("VDRIVER_DUMP");
  if (!p || g_dumped) return;
  g_dumped = true;
  std::ofstream o(p);
  auto& S = vf::st();
  o << "{\"vars\":" << S.vars << ",\"objs\":[";
  for (size_t i = 0; i < S.objs.size(); ++i) o << (i ? "," : "") << (S.objs[i].empty() ? "null" : S.objs[i]);
  o << "],\"cons\":[";
  for (size_t i = 0; i < S.cons.size(); ++i) o << (i ? "," : "") << S.cons[i];
  o << "],\"types\":" << g_types_json << ",\"calls\":[";
  for (size_t i = 0; i < g_calls.size(); ++i) o << (i ? "," : "") << g_calls[i];
  o << "]}\n";
}
}  // namespace

namespace mp {

class ScriptedBackend : public FlatBackend< MIPBackend<ScriptedBackend> > {
  using BaseBackend = FlatBackend< MIPBackend<ScriptedBackend> >;
 public:
  ScriptedBackend() {
    load_script();
    // acceptance table
    {
      auto& S = vf::st(); vf::acc().clear();
      std::stringstream ss(sget("acc", "default=0;AlgebraicConstraint< LinTerms, RhsLE >=2;"
        "AlgebraicConstraint< LinTerms, RhsEQ >=2;AlgebraicConstraint< LinTerms, RhsGE >=2"));
      std::string kv;
      while (std::getline(ss, kv, ';')) {
        auto e = kv.rfind('='); if (e == std::string::npos) continue;
        auto k = kv.substr(0, e); int v = std::atoi(kv.substr(e + 1).c_str());
        if (k == "default") S.dflt = v; else if (k == "quadobj") S.quadobj = v;
        else if (k == "nonconvexqc") S.nonconvexqc = v; else if (k == "mixconic") S.mixconic = v;
        else if (k == "socpcorner") S.socpcorner = v; else vf::acc()[k] = v;
      }
    }
    using SolverFlatCvt = FlatCvtImpl<MIPFlatConverter, RecAPI>;
    using Flattener = ProblemFltImpl<ProblemFlattener, mp::Problem, SolverFlatCvt>;
    auto pcvt = new Flattener(*this);
    auto mm = CreateModelManagerWithStdBuilder(std::unique_ptr< BasicConverter<mp::Problem> >{ pcvt });
    SetMM(std::move(mm));
    SetValuePresolver(&pcvt->GetFlatCvt().GetValuePresolver());
    p_keepers_ = &pcvt->GetFlatCvt().GetModel();
  }
  ~ScriptedBackend() { dump(); }

  static constexpr double Infinity() { return INFINITY; }
  static constexpr double MinusInfinity() { return -INFINITY; }
  static const char* GetAMPLSolverName() { return "vdriver"; }
  static const char* GetAMPLSolverLongName() { return "AMPL-VDRIVER"; }
  static const char* GetSolverName() { return "x-VDRIVER"; }
  std::string GetSolverVersion() { return "0.0.0"; }
  std::string set_external_libs() override { return ""; }
  static const char* GetBackendName() { return "ScriptedBackend"; }
  static const char* GetBackendLongName() { return nullptr; }

  void InitCustomOptions() override {
    set_option_header("VDRIVER options\n");
    AddStoredOption("tech:option_example opt_example example_opt", "Example string option.", opt_str_);
    AddStoredOption("tech:int_example int_example", "Example int option.", opt_int_, -100, 100);
    AddSolveResults({ { sol::FAILURE + 1, "fatal error 1" } });
    // solver-specific codes the way real drivers register them, several at the first code of a documented range
    AddSolveResults({ { 200, "infeasible: scripted" }, { 203, "infeasible, IIS finder failed" }, { 300, "unbounded: scripted" },
                      { 400, "limit, feasible: scripted" }, { 402, "time limit, feasible" }, { 470, "limit: scripted" },
                      { 500, "failure: scripted" } });
  }
  void InitOptionParsing() override { }
  void FinishOptionParsing() override { set_verbose_mode(false); }

  USING_STD_FEATURES;
  ALLOW_STD_FEATURE(WRITE_PROBLEM, true)
  void DoWriteProblem(const std::string& name) override { g_calls.push_back("{\"op\":\"WriteProblem\",\"name\":\"" + vx::jesc(name) + "\"}"); }
  ALLOW_STD_FEATURE(WRITE_SOLUTION, true)
  void DoWriteSolution(const std::string& name) override { g_calls.push_back("{\"op\":\"WriteSolution\",\"name\":\"" + vx::jesc(name) + "\"}"); }
  ALLOW_STD_FEATURE(MULTIOBJ, true)
  void ObjPriorities(ArrayRef<int> v) override { g_calls.push_back("{\"op\":\"ObjPriorities\",\"v\":" + jv(v) + "}"); }
  void ObjWeights(ArrayRef<double> v) override { g_calls.push_back("{\"op\":\"ObjWeights\",\"v\":" + jv(v) + "}"); }
  ALLOW_STD_FEATURE(MULTISOL, true)
  ALLOW_STD_FEATURE(BASIS, true)
  ALLOW_STD_FEATURE(MIPSTART, true)
  ALLOW_STD_FEATURE(WARMSTART, true)
  ALLOW_STD_FEATURE(VAR_PRIORITIES, true)
  ALLOW_STD_FEATURE(LAZY_USER_CUTS, true)
  ALLOW_STD_FEATURE(IIS, true)
  ALLOW_STD_FEATURE(RAYS, true)
  ALLOW_STD_FEATURE(KAPPA, true)
  double Kappa() override { g_calls.push_back("{\"op\":\"Kappa\"}"); return 123.5; }
  ALLOW_STD_FEATURE(RETURN_MIP_GAP, true)
  ALLOW_STD_FEATURE(RETURN_BEST_DUAL_BOUND, true)

  // ---- solution getters (scripted) ------------------------------------------------------
  static std::vector<double> gen(const std::string& spec, int n, double base, double step) {
    if (spec == "none" || spec.empty()) return {};
    if (spec == "zeros") return std::vector<double>(n, 0.0);
    if (spec == "ramp") { std::vector<double> v(n); for (int i = 0; i < n; ++i) v[i] = base + step * i; return v; }
    if (spec == "nramp") { std::vector<double> v(n); for (int i = 0; i < n; ++i) v[i] = -(base + step * i); return v; }
    auto v = csv(spec);
    if (!spec.compare(0, 4, "pad:")) { v = csv(spec.substr(4)); v.resize(n, 0.0); }
    return v;
  }
  ArrayRef<double> PrimalSolution() override { return gen(sget("x", "ramp"), nvars(), 100, 1); }
  pre::ValueMapDbl DualSolution() override {
    std::string spec = sget("y", "ramp");
    if (spec == "none") return {};
    std::map<int, std::vector<double>> m;
    for (int g : {CG_Linear, CG_Quadratic, CG_Conic, CG_General, CG_SOS}) {
      int n = count_group(g);
      if (n || g == CG_Linear) m[g] = gen(spec, n, 1000 * g + 1, 10);
    }
    return pre::ValueMapDbl{m};
  }
  ArrayRef<double> GetObjectiveValues() override {
    std::string spec = sget("obj", "auto");
    if (spec == "none") return {};
    if (spec == "auto") { int n = 0; for (auto& o : vf::st().objs) if (!o.empty()) ++n; return std::vector<double>(n, 42.5); }
    return csv(spec);
  }
  SolutionBasis GetBasis() override {
    if (sget("basis", "none") == "none") return {};
    std::vector<int> varstt; for (double d : gen(sget("basis_vars", "ramp"), nvars(), 1, 0)) varstt.push_back((int)d);
    std::vector<int> constt; for (double d : gen(sget("basis_cons", "ramp"), count_group(CG_Linear), 3, 0)) constt.push_back((int)d);
    if (sget("basis_vars", "ramp") == "ramp") for (size_t i = 0; i < varstt.size(); ++i) varstt[i] = 1 + (int)(i % 4);
    if (sget("basis_cons", "ramp") == "ramp") for (size_t i = 0; i < constt.size(); ++i) constt[i] = 1 + (int)((i + 1) % 4);
    g_calls.push_back("{\"op\":\"GetBasis\",\"varstt\":" + jv(varstt) + ",\"constt\":" + jv(constt) + "}");
    if (varstt.size() && constt.size()) {
      auto mv = GetValuePresolver().PostsolveBasis({ std::move(varstt), {{{ CG_Linear, std::move(constt) }}} });
      varstt = mv.GetVarValues()(); constt = mv.GetConValues()();
    }
    return { std::move(varstt), std::move(constt) };
  }
  void SetBasis(SolutionBasis basis) override {
    auto mv = GetValuePresolver().PresolveBasis({ basis.varstt, basis.constt });
    g_calls.push_back("{\"op\":\"SetBasis\",\"in_vars\":" + jv(basis.varstt) + ",\"in_cons\":" + jv(basis.constt) +
                      ",\"vars\":" + jmap(mv.GetVarValues()) + ",\"cons\":" + jmap(mv.GetConValues()) + "}");
  }
  void AddMIPStart(ArrayRef<double> x0, ArrayRef<int> sparsity) override {
    g_calls.push_back("{\"op\":\"AddMIPStart\",\"x\":" + jv(x0) + ",\"sparsity\":" + jv(sparsity) + "}");
  }
  void AddPrimalDualStart(Solution sol) override {
    auto mv = GetValuePresolver().PresolveSolution({ sol.primal, sol.dual });
    g_calls.push_back("{\"op\":\"AddPrimalDualStart\",\"in_x\":" + jv(sol.primal) + ",\"in_y\":" + jv(sol.dual) +
                      ",\"vars\":" + jmap(mv.GetVarValues()) + ",\"cons\":" + jmap(mv.GetConValues()) + "}");
  }
  void VarPriorities(ArrayRef<int> pri) override { g_calls.push_back("{\"op\":\"VarPriorities\",\"v\":" + jv(pri) + "}"); }
  void MarkLazyOrUserCuts(ArrayRef<int> lazy) override {
    auto mv = GetValuePresolver().PresolveLazyUserCutFlags({ {}, lazy });
    g_calls.push_back("{\"op\":\"MarkLazyOrUserCuts\",\"in\":" + jv(lazy) + ",\"cons\":" + jmap(mv.GetConValues()) + "}");
  }
  // rays (script key rays=1): all-ones vectors; every request is recorded
  ArrayRef<double> Ray() override {
    g_calls.push_back("{\"op\":\"Ray\"}");
    if (sget("rays", "none") == "none") return {};
    ray_.assign(nvars(), 1.0); auto mv = GetValuePresolver().PostsolveSolution({ ray_ });
    ray_out_ = std::vector<double>(mv.GetVarValues()().begin(), mv.GetVarValues()().end()); return ray_out_;   // the result must outlive mv
  }
  ArrayRef<double> DRay() override {
    g_calls.push_back("{\"op\":\"DRay\"}");
    if (sget("rays", "none") == "none") return {};
    std::map<int, std::vector<double>> cm; cm[CG_Linear] = std::vector<double>(count_group(CG_Linear), 1.0);
    pre::ValueMapDbl y{cm}; auto mv = GetValuePresolver().PostsolveSolution({ {}, y });
    dray_out_ = std::vector<double>(mv.GetConValues()().begin(), mv.GetConValues()().end()); return dray_out_;
  }
  std::vector<double> ray_, ray_out_, dray_out_;
  // script key iis_code: the IIS run reports a new status (as real drivers do: "infeasible, IIS returned", ...)
  void ComputeIIS() override {
    g_calls.push_back("{\"op\":\"ComputeIIS\"}");
    if (sget("iis_code", "none") != "none") SetStatus({ std::atoi(sget("iis_code", "0").c_str()), sget("msg", "scripted result") + " (after IIS)" });
  }
  IIS GetIIS() override {
    if (sget("iis", "none") == "none") return {};
    std::vector<int> variis; for (double d : gen(sget("iis_vars", "zeros"), nvars(), 0, 0)) variis.push_back((int)d);
    std::map<int, std::vector<int>> cm;
    for (int g : {CG_Linear, CG_Quadratic, CG_General, CG_SOS}) {
      int n = count_group(g); std::vector<int> v(n);
      for (int i = 0; i < n; ++i) v[i] = 1 + (i + g) % 3;
      if (n || g == CG_Linear) cm[g] = v;
    }
    pre::ValueMapInt coniis{cm};
    g_calls.push_back("{\"op\":\"GetIIS\",\"variis\":" + jv(variis) + ",\"coniis\":" + jmap(coniis) + "}");
    auto mv = GetValuePresolver().PostsolveIIS({ variis, coniis });
    return { mv.GetVarValues()(), mv.GetConValues()() };
  }
  double MIPGap() override { return 0.25; }
  double MIPGapAbs() override { return 0.5; }
  double BestDualBound() override { return 7.5; }

  bool IsMIP() const override { return sget("ismip", "1") == "1"; }
  bool IsQCP() const override { return false; }

  void SetInterrupter(mp::Interrupter* inter) override { inter->SetHandler(Interrupt, nullptr); }
  static bool Interrupt(void*) { return true; }

  void Solve() override { g_calls.push_back("{\"op\":\"Solve\"}"); }
  void NoteTypes() {
    if (!p_keepers_) return;
    std::string j = "{"; bool f = true;
    for (auto& ck : p_keepers_->con_keepers_) {
      auto it = vf::typeid2tn().find(ck.second.GetTypeInfo().name());
      if (it == vf::typeid2tn().end()) continue;
      j += std::string(f ? "" : ",") + "\"" + vx::jesc(it->second) + "\":\"" + vx::jesc(ck.second.GetShortTypeName()) + "\"";
      f = false;
    }
    g_types_json = j + "}";
  }
  void ReportResults() override {
    NoteTypes();
    SetStatus({ std::atoi(sget("code", "0").c_str()), sget("msg", "scripted result") });
    AddToSolverMessage(sget("extra_msg", ""));
    // alternative solutions (script key altsols=k, effective when the user asked for them with sol:stub)
    if (need_multiple_solutions())
      for (int k = std::atoi(sget("altsols", "0").c_str()); k > 0; --k) {
        auto sol = GetSolution();
        ReportIntermediateSolution({ sol.primal, sol.dual, sol.objvals });
      }
    BaseBackend::ReportResults();
    dump();
  }

 private:
  std::string opt_str_; int opt_int_ = 0;
  mp::ConstraintManager* p_keepers_ = nullptr;
};

}  // namespace mp

std::unique_ptr<mp::BasicBackend> CreateScriptedBackend() {
  return std::unique_ptr<mp::BasicBackend>{ new mp::ScriptedBackend() };
}
extern "C" int main(int, char** argv) {
  return mp::RunBackendApp(argv, CreateScriptedBackend);
}
