"""C04: solutions / suffixes return to the original model's items intact (and values sent the
other way land on the images of their items), independent of earlier transfers.
Explores, on the real converter + value presolver: models (linear rows of every kind mixed with
nonlinear/logical constraints) x acceptance configs (range native / range->slack, ...) x
histories of pre/postsolve calls (depth <= 2 quick / 3 thorough) x value alphabets (recognisable
values; every basis / IIS status vector for the matched rows and slacks)."""
import itertools, json, os, sys, collections
from multiprocessing import Pool
import vcheck, flatlib, flatcheck, flatgen, nlmodel
from nlmodel import Model, INF

PID = 'C04'
X, Y, B, N = flatgen.X, flatgen.Y, flatgen.B, flatgen.N
V3 = flatgen.V3
RANGE_T = 'AlgebraicConstraint< LinTerms, Range >'
CG_LINEAR = 3

LINROWS = [({0: 1.0, 1: 1.0}, -INF, 3.0), ({0: 1.0, 1: -1.0, 2: 2.0}, -1.0, INF), ({1: 1.0, 2: 1.0}, 1.0, 1.0),
           ({0: 2.0, 2: -1.0}, 0.0, 1.5), ({0: 3.0, 1: 2.0, 2: 1.0}, -2.0, 4.0)]
EXTRAS = [dict(), dict(acons=[(('abs', X), {0: 1.0}, -INF, 2.0)]), dict(lcons=[('or', ('ge', X, N(1)), ('le', Y, N(1)))]),
          dict(acons=[(('max', X, Y), {}, 1.0, INF)]), dict(acons=[(('mul', X, B), {0: 1.0}, 0.0, 1.5)]),
          dict(lcons=[('iff', ('eq', X, N(1)), ('ge', B, N(1)))], acons=[(('min', X, Y, B), {}, -INF, 1.0)]),
          dict(acons=[(None, {0: 1.0, 2: 1.0}, -INF, INF)])]          # a free row (no bounds at all) among the others


def models(tier):
    """every non-empty subset of the linear rows (<=3 rows) interleaved with one extra block placed
    before / between / after (shifts node numbering)"""
    out = []
    for k in (1, 2, 3):
        for sub in itertools.combinations(range(len(LINROWS)), k):
            for xi, ex in enumerate(EXTRAS):
                for pos in ((0, k) if tier == 'quick' else range(k + 1)):
                    rows = [(None,) + LINROWS[i] for i in sub]
                    ac = rows[:pos] + ex.get('acons', []) + rows[pos:]
                    lin_idx = [j for j, c in enumerate(ac) if c[0] is None and not (c[2] == -INF and c[3] == INF)]
                    m = Model(V3, acons=ac, lcons=ex.get('lcons', []), obj=('max', None, {0: 1.0, 1: 1.0, 2: -1.0}))
                    out.append(('rows%s+extra%d@%d' % (sub, xi, pos), m, lin_idx))
    return out


CONFIGS = [('mip', {}), ('mip+range', {RANGE_T: 2}), ('mip+range1', {RANGE_T: 1}),
           ('mip+ind', {'IndicatorConstraint[AlgebraicConstraint< LinTerms, RhsLE >]': 2,
                        'IndicatorConstraint[AlgebraicConstraint< LinTerms, RhsGE >]': 2,
                        'IndicatorConstraint[AlgebraicConstraint< LinTerms, RhsEQ >]': 2}),
           ('all', None)]


def acc_for(types):
    if types is None:
        return 'default=2;QuadraticConeConstraint=0;RotatedQuadraticConeConstraint=0;quadobj=1'
    cfg = flatcheck.base_config('g0'); cfg['types'].update(types)
    return flatcheck.acc_of(cfg, 0)


def match_rows(m, lin_idx, r):
    """structural matching of each purely linear NL constraint to its delivered row (by the
    harness's knowledge of the NL model, not through the link graph).
    returns {nl_con_index: dict(row=k-th CG_Linear row, slack=var or None)} or None if ambiguous"""
    norig = len(m.vars)
    rows = [c for c in r['cons'] if c['group'] == CG_LINEAR]
    res = {}
    for i in lin_idx:
        _, lin, lb, ub = m.acons[i]
        want = sorted((v, c) for v, c in lin.items())
        cands = []
        for k, c in enumerate(rows):
            if not c['type'].startswith('AlgebraicConstraint< LinTerms'): continue
            body = c['data']['body']; terms = sorted(zip(body['vars'], body['coefs']))
            orig = [(v, cf) for v, cf in terms if v < norig]; aux = [(v, cf) for v, cf in terms if v >= norig]
            if orig != want: continue
            rr = c['data']['rhs_or_range']
            if not aux:
                if rr[0] == 'LE' and lb == -INF and rr[1] == ub: cands.append((k, None))
                elif rr[0] == 'GE' and ub == INF and rr[1] == lb: cands.append((k, None))
                elif rr[0] == 'EQ' and lb == ub and rr[1] == lb: cands.append((k, None))
                elif not isinstance(rr[0], str):
                    rlb = -INF if rr[0] <= -1e300 else rr[0]; rub = INF if rr[1] >= 1e300 else rr[1]
                    if rlb == lb and rub == ub: cands.append((k, None))
            elif len(aux) == 1 and aux[0][1] == 1.0 and rr[0] == 'EQ' and rr[1] == ub and lb > -INF and lb != ub:
                s = aux[0][0]
                if r['vars'][s][0] == 0.0 and abs(r['vars'][s][1] - (ub - lb)) < 1e-12: cands.append((k, s))
        if len(cands) != 1: return None
        res[i] = {'row': cands[0][0], 'slack': cands[0][1]}
    return res


def vec(vals): return ','.join(repr(float(v)) for v in vals)


def rev_basis(s): return 4 if s == 3 else 3 if s == 4 else s
def rev_iis(s): return 3 if s == 1 else 1 if s == 3 else s


class Inst:
    """one converted instance inside a server + the expectations derived from the NL model"""
    def __init__(self, srv, m, lin_idx, acc):
        self.srv, self.m, self.lin_idx = srv, m, lin_idx
        self.r = srv.request('convert', nl=m.nl(), opts='', acc=acc)
        self.ok = self.r.get('status') == 'ok'
        if not self.ok: return
        self.norig = len(m.vars); self.nv = len(self.r['vars'])
        self.groups = collections.OrderedDict()
        for c in self.r['cons']: self.groups.setdefault(c['group'], []).append(c)
        self.match = match_rows(m, lin_idx, self.r)
        self.ncons_nl = len(m.acons) + len(m.lcons)

    def cons_arg(self, valfn):
        return ';'.join('%d:%s' % (g, vec([valfn(g, k) for k in range(len(cs))])) for g, cs in self.groups.items())

    # ---- operations: return (request kwargs, checker(result) -> list of problems) ------------------------
    def op_post_solution(self, sign=1):
        x = [sign * (100 + j) for j in range(self.nv)]
        dual = lambda g, k: sign * (1000 * g + 10 * k + 1)
        kw = dict(kind='Solution', vars=vec(x), cons=self.cons_arg(dual))
        def chk(res):
            p = []
            xs = res['vars'].get('0', [])
            if len(xs) != self.norig: p.append('primal count %d != num original vars %d' % (len(xs), self.norig))
            elif xs != x[:self.norig]: p.append('original variable values altered')
            ys = res['cons'].get('0', [])
            if len(ys) != self.ncons_nl: p.append('dual count %d != num NL constraints %d' % (len(ys), self.ncons_nl))
            else:
                for i, mt in self.match.items():
                    if ys[i] != dual(CG_LINEAR, mt['row']): p.append('dual of linear constraint is not the dual of its row (%s)' % self.kind_of(i))
            return p
        return 'postsolve', kw, chk

    def kind_of(self, i):
        _, lin, lb, ub = self.m.acons[i]
        k = 'range' if (lb > -INF and ub < INF and lb != ub) else 'eq' if lb == ub else 'le' if lb == -INF else 'ge'
        return k + ('-slack' if self.match[i]['slack'] is not None else '')

    def op_post_basis(self, statuses):
        """statuses: dict for matched rows/slacks, others get a fixed pattern"""
        nrows = len(self.groups.get(CG_LINEAR, []))
        vst = [1 + (j % 4) for j in range(self.nv)]; cst = [1 + ((k + 1) % 4) for k in range(nrows)]
        for (what, idx), s in statuses.items():
            if what == 'row': cst[idx] = s
            else: vst[idx] = s
        kw = dict(kind='Basis', vars=vec(vst), cons='%d:%s' % (CG_LINEAR, vec(cst)))
        def chk(res):
            p = []
            xs = res['vars'].get('0', [])
            if len(xs) != self.norig: p.append('basis: var status count %d != %d' % (len(xs), self.norig))
            elif xs != vst[:self.norig]: p.append('basis: original variable statuses altered')
            ys = res['cons'].get('0', [])
            if len(ys) != self.ncons_nl: p.append('basis: con status count %d != %d' % (len(ys), self.ncons_nl)); return p
            for i, mt in self.match.items():
                exp = cst[mt['row']] if mt['slack'] is None else rev_basis(vst[mt['slack']])
                if ys[i] != exp: p.append('basis status of linear constraint wrong (%s): got %s expected %s' % (self.kind_of(i), ys[i], exp))
            return p
        return 'postsolve', kw, chk

    def op_post_iis(self, statuses):
        vst = [0] * self.nv
        per_group = {g: [1 + (k + g) % 3 for k in range(len(cs))] for g, cs in self.groups.items()}
        for (what, idx), s in statuses.items():
            if what == 'row': per_group[CG_LINEAR][idx] = s
            else: vst[idx] = s
        kw = dict(kind='IIS', vars=vec(vst), cons=';'.join('%d:%s' % (g, vec(v)) for g, v in per_group.items()))
        def chk(res):
            p = []
            ys = res['cons'].get('0', [])
            if len(ys) != self.ncons_nl: p.append('iis: con count %d != %d' % (len(ys), self.ncons_nl)); return p
            for i, mt in self.match.items():
                row = per_group[CG_LINEAR][mt['row']]
                if mt['slack'] is None: exp = row
                else: exp = rev_iis(vst[mt['slack']]) if vst[mt['slack']] else row
                if ys[i] != exp: p.append('iis flag of linear constraint wrong (%s): got %s expected %s' % (self.kind_of(i), ys[i], exp))
            return p
        return 'postsolve', kw, chk

    def op_pre_solution(self):
        x = [100 + j for j in range(self.norig)]; y = [500 + 7 * i for i in range(self.ncons_nl)]
        # keep the warm start inside the bounds so that clipping is not an issue
        x = [min(max(v, self.m.vars[j][0]), self.m.vars[j][1]) for j, v in enumerate(x)]
        kw = dict(kind='Solution', vars=vec(x), cons='0:' + vec(y))
        def chk(res):
            p = []
            xs = res['vars'].get('0', [])
            if len(xs) != self.nv: p.append('presolved primal count %d != delivered vars %d' % (len(xs), self.nv))
            elif xs[:self.norig] != x: p.append('warm start of original variables not on their images')
            ys = res['cons'].get(str(CG_LINEAR), [])
            for i, mt in self.match.items():
                if mt['row'] >= len(ys) or ys[mt['row']] != y[i]: p.append('presolved dual not on the matched row (%s)' % self.kind_of(i))
                if mt['slack'] is not None and len(xs) == self.nv:
                    # the warm start of a slack is a slack of its own constraint at the given point (mp computes body - lb although the
                    # delivered row is body + s = ub; either orientation, clipped to the slack's bounds or not, is taken - see DESIGN 7.2)
                    _, lin, lb, ub = self.m.acons[i]
                    body = sum(cf * x[v] for v, cf in lin.items())
                    ok = [body - lb, ub - body]; ok += [min(max(t, 0.0), ub - lb) for t in ok]
                    if not any(abs(xs[mt['slack']] - t) <= 1e-9 * max(1.0, abs(t)) for t in ok):
                        p.append('warm start of the slack of a range constraint is not a slack of that constraint at the given point (%s)' % self.kind_of(i))
            return p
        return 'presolve', kw, chk

    def op_pre_basis(self, nlstat):
        vst = [1 + (j % 4) for j in range(self.norig)]
        cst = [2] * self.ncons_nl
        for i, s in nlstat.items(): cst[i] = s
        kw = dict(kind='Basis', vars=vec(vst), cons='0:' + vec(cst))
        def chk(res):
            p = []
            xs = res['vars'].get('0', [])
            if len(xs) != self.nv: p.append('presolved basis: var count %d != %d' % (len(xs), self.nv)); return p
            if xs[:self.norig] != vst: p.append('presolved basis: original variable statuses not on their images')
            ys = res['cons'].get(str(CG_LINEAR), [])
            for i, mt in self.match.items():
                if mt['row'] >= len(ys): p.append('presolved basis: row missing'); continue
                if mt['slack'] is None:
                    if ys[mt['row']] != cst[i]: p.append('presolved basis status not on the matched row (%s)' % self.kind_of(i))
                else:
                    if ys[mt['row']] != 5: p.append('presolved basis: equality row of a range constraint not equ')
                    if xs[mt['slack']] != rev_basis(cst[i]): p.append('presolved basis: slack status not the reversed constraint status')
            return p
        return 'presolve', kw, chk

    def op_pre_lazy(self):
        flags = [1 + (i % 2) for i in range(self.ncons_nl)]
        kw = dict(kind='LazyUserCutFlags', vars='', cons='0:' + vec(flags))
        def chk(res):
            p = []
            ys = res['cons'].get(str(CG_LINEAR), [])
            for i, mt in self.match.items():
                if mt['row'] >= len(ys) or ys[mt['row']] != flags[i]: p.append('lazy/user-cut flag not on the matched row (%s)' % self.kind_of(i))
            return p
        return 'presolve', kw, chk

    def op_generic(self, post, dbl):
        if post:
            kw = dict(kind='GenericDbl' if dbl else 'GenericInt', vars=vec([3 + j for j in range(self.nv)]),
                      cons=self.cons_arg(lambda g, k: 7 + k))
        else:
            kw = dict(kind='GenericDbl' if dbl else 'GenericInt', vars=vec([3 + j for j in range(self.norig)]),
                      cons='0:' + vec([7 + i for i in range(self.ncons_nl)]))
        def chk(res):
            xs = res['vars'].get('0', [])
            want = [3 + j for j in range(self.norig)]
            if xs[:self.norig] != want: return ['generic %s: original variable values not transferred 1:1' % ('postsolve' if post else 'presolve')]
            return []
        return ('postsolve' if post else 'presolve'), kw, chk

    def op_generic_rows(self, sign):
        """a real-valued solver suffix on the rows only (all variable values 0, so the slack image of a range row is 0):
        every matched linear constraint receives the value of its row, whatever its sign"""
        val = lambda g, k: sign * (7.5 + k)
        kw = dict(kind='GenericDbl', vars=vec([0] * self.nv), cons=self.cons_arg(val))
        def chk(res):
            p = []
            ys = res['cons'].get('0', [])
            if len(ys) != self.ncons_nl: p.append('generic dbl: con count %d != %d' % (len(ys), self.ncons_nl)); return p
            for i, mt in self.match.items():
                exp = val(CG_LINEAR, mt['row'])
                if ys[i] != exp: p.append('real-valued row suffix of linear constraint wrong (%s, %s values): got %s expected %s' % (self.kind_of(i), 'negative' if sign < 0 else 'positive', ys[i], exp))
            return p
        return 'postsolve', kw, chk


# ---------------------------------------------------------------------------------------------------
# separable pairs: two constraints over disjoint variables.  Values given for one constraint must not
# reach the rows / the result of the other one (no link entry may span two source items).
V4 = [(0.0, 2.0, False, 0.5), (0.0, 2.0, False, 0.5), (-2.0, 2.0, True, 1.0), (-2.0, 2.0, True, 1.0)]
SEP_SHAPES = {
    'abs+lin': lambda a, b: (('abs', ('v', a)), {b: 1.0}, -INF, 5.0),
    'max': lambda a, b: (('max', ('v', a), ('v', b)), {}, 1.0, INF),
    'min3': lambda a, b: (('min', ('v', a), ('v', b), N(1)), {}, -INF, 1.0),
    'mul': lambda a, b: (('mul', ('v', a), ('v', b)), {}, -1.0, 2.0),
    'range-lin': lambda a, b: (None, {a: 1.0, b: 2.0}, -1.0, 3.0),
    'if': lambda a, b: (('if', ('ge', ('v', b), N(1)), ('v', a), N(0)), {}, -INF, 1.0),
    'count': lambda a, b: (('count', ('ge', ('v', a), N(1)), ('le', ('v', b), N(0))), {}, 1.0, INF),
}


# logical pairs: a nested disjunction / conjunction leaves an unused item of the same constraint type in front of the items that
# are delivered (indices of delivered items and of stored items differ)
LSEP_SHAPES = {
    'or': lambda a, b: ('or', ('ge', ('v', a), N(1)), ('ge', ('v', b), N(1))),
    'nested-or': lambda a, b: ('or', ('or', ('ge', ('v', a), N(1)), ('ge', ('v', b), N(1))), ('le', ('v', a), N(0))),
    'and': lambda a, b: ('and', ('ge', ('v', a), N(0.5)), ('le', ('v', b), N(1))),
    'nested-and': lambda a, b: ('and', ('and', ('ge', ('v', a), N(0.5)), ('le', ('v', b), N(1))), ('ge', ('v', b), N(-1))),
    'not-or': lambda a, b: ('not', ('or', ('ge', ('v', a), N(2)), ('ge', ('v', b), N(2)))),
    'iff': lambda a, b: ('iff', ('ge', ('v', a), N(1)), ('ge', ('v', b), N(1))),
}


def sep_models():
    for n1, f1 in SEP_SHAPES.items():
        for n2, f2 in SEP_SHAPES.items():
            yield ('sep %s | %s' % (n1, n2), Model(V4, acons=[f1(0, 2), f2(1, 3)], obj=('min', None, {0: 1.0, 1: 1.0})), ({0, 2}, {1, 3}))
    for n1, f1 in LSEP_SHAPES.items():
        for n2, f2 in LSEP_SHAPES.items():
            yield ('lsep %s | %s' % (n1, n2), Model(V4, lcons=[f1(0, 2), f2(1, 3)], obj=('min', None, {0: 1.0, 1: 1.0})), ({0, 2}, {1, 3}))


def con_vars(c):
    d = c['data']; vs = set()
    def body(b):
        lin = b['lin_terms'] if 'lin_terms' in b else b
        vs.update(lin['vars'])
        if 'qp_terms' in b: vs.update(b['qp_terms']['vars1']); vs.update(b['qp_terms']['vars2'])
    if 'body' in d: body(d['body'])
    if 'con' in d: body(d['con']['body'])
    if 'expr' in d: body(d['expr']['body'])
    for k in ('res_var', 'bin_var', 'compl_var'):
        if isinstance(d.get(k), int) and d[k] >= 0: vs.add(d[k])
    for k in ('args', 'vars'):
        if isinstance(d.get(k), list): vs.update(v for v in d[k] if isinstance(v, int))
    return vs


def work_sep(job):
    global _srv
    if _srv is None: _srv = flatlib.Server(flatlib.build())
    name, m, (va, vb), cfgname, types = job
    st = collections.Counter(); viols = []
    acc = acc_for(types)
    r = _srv.request('convert', nl=m.nl(), opts='', acc=acc)
    if r.get('status') != 'ok' or 'PLApprox' in r.get('warnings', ''):
        st['sep_skipped'] += 1; return dict(st), viols
    nv = len(r['vars'])
    parent = list(range(nv))
    def find(x):
        while parent[x] != x: parent[x] = parent[parent[x]]; x = parent[x]
        return x
    fixed = {i for i, v in enumerate(r['vars']) if v[0] == v[1] and i >= len(m.vars)}      # shared constants do not connect
    cvs = []
    for c in r['cons']:
        vs = [v for v in con_vars(c) if v not in fixed]; cvs.append(vs)
        for v in vs[1:]: parent[find(v)] = find(vs[0])
    ca = {find(v) for v in va}; cb = {find(v) for v in vb}
    if len(ca) != 1 or len(cb) != 1 or ca == cb:
        st['sep_not_separable'] += 1; return dict(st), viols
    ca, cb = ca.pop(), cb.pop()
    groups = collections.OrderedDict(); side = {}
    for c, vs in zip(r['cons'], cvs):
        g = c['group']; k = len(groups.setdefault(g, []))
        groups[g].append(c)
        side[(g, k)] = 'A' if (vs and find(vs[0]) == ca) else 'B' if (vs and find(vs[0]) == cb) else '-'
    if not any(v == 'A' for v in side.values()) or not any(v == 'B' for v in side.values()):
        st['sep_not_separable'] += 1; return dict(st), viols
    st['sep_instances'] += 1
    def cons_arg(fn):
        return ';'.join('%d:%s' % (g, vec([fn(side[(g, k)]) for k in range(len(cs))])) for g, cs in groups.items())
    for kind, val in (('GenericInt', 7), ('IIS', 1), ('GenericDbl', 2.5), ('Solution', 7.5)):
        for tgt, other, iother in (('B', 'A', 0), ('A', 'B', 1)):
            _srv.request('convert', nl=m.nl(), opts='', acc=acc)
            res = _srv.request('postsolve', kind=kind, vars=vec([0] * nv), cons=cons_arg(lambda s_: val if s_ == tgt else 0))
            st['transfers'] += 1
            if res.get('status') != 'ok': continue
            ys = res['res']['cons'].get('0', [])
            if len(ys) >= 2 and ys[iother] != 0:
                viols.append(('C04 postsolve %s: value placed on the rows of one constraint is reported for another constraint (separable pair) cfg=%s' % (kind, cfgname),
                              {'model': m.describe(), 'rows_with_value': tgt, 'result': ys, 'sides': {str(k): v for k, v in side.items()}},
                              {'nl': m.nl(), 'acc': acc, 'ops': [['postsolve', dict(kind=kind, vars=vec([0] * nv), cons=cons_arg(lambda s_: val if s_ == tgt else 0))]]}))
    # a mark on one single delivered row (IIS membership, an integer suffix) reaches the constraint the row was derived from
    for kind, val in (('IIS', 1), ('GenericInt', 7)):
        for (g0, k0), sd in side.items():
            if sd not in 'AB': continue
            _srv.request('convert', nl=m.nl(), opts='', acc=acc)
            arg = ';'.join('%d:%s' % (g, vec([val if (g, k) == (g0, k0) else 0 for k in range(len(cs))])) for g, cs in groups.items())
            res = _srv.request('postsolve', kind=kind, vars=vec([0] * nv), cons=arg)
            st['transfers'] += 1
            if res.get('status') != 'ok': continue
            ys = res['res']['cons'].get('0', [])
            st['single_row_marks'] += 1
            if len(ys) >= 2 and ys[0 if sd == 'A' else 1] == 0:
                viols.append(('C04 postsolve %s: a mark on a single delivered row does not reach the constraint the row was derived from (separable pair) cfg=%s' % (kind, cfgname),
                              {'model': m.describe(), 'group': g0, 'row': k0, 'row_type': groups[g0][k0]['type'], 'side': sd, 'result': ys},
                              {'nl': m.nl(), 'acc': acc, 'ops': [['postsolve', dict(kind=kind, vars=vec([0] * nv), cons=arg)]]}))
                break
    for kind, val in (('LazyUserCutFlags', 1), ('GenericInt', 5), ('GenericDbl', 2.5)):   # Basis has the documented row:=equ slack mapping
        for isrc, other in ((0, 'B'), (1, 'A')):
            _srv.request('convert', nl=m.nl(), opts='', acc=acc)
            flags = [0, 0]; flags[isrc] = val
            kw = dict(kind=kind, vars=vec([0] * len(m.vars)) if kind != 'LazyUserCutFlags' else '', cons='0:' + vec(flags))
            res = _srv.request('presolve', **kw)
            st['transfers'] += 1
            if res.get('status') != 'ok': continue
            # the other direction: the value reaches every delivered row that belongs to the constraint it was given for (a row
            # whose variables are connected to that constraint's variables only can have been derived from nothing else)
            mine = 'A' if other == 'B' else 'B'
            for (g, k), sd in side.items():
                ys = res['res']['cons'].get(str(g), [])
                if sd == mine:
                    st['rows_expected_to_receive'] += 1
                    if k >= len(ys) or ys[k] == 0:
                        viols.append(('C04 presolve %s: value given for a constraint does not reach a row derived from it (separable pair) cfg=%s' % (kind, cfgname),
                                      {'model': m.describe(), 'given_for_constraint': isrc, 'group': g, 'row': k, 'row_type': groups[g][k]['type'],
                                       'result': res['res']['cons']}, {'nl': m.nl(), 'acc': acc, 'ops': [['presolve', kw]]}))
                        break
            for g, ys in res['res']['cons'].items():
                for k, y in enumerate(ys):
                    if y != 0 and side.get((int(g), k)) == other:
                        viols.append(('C04 presolve %s: value given for one constraint lands on a row of another constraint (separable pair) cfg=%s' % (kind, cfgname),
                                      {'model': m.describe(), 'given_for_constraint': isrc, 'group': g, 'row': k, 'result': res['res']['cons']},
                                      {'nl': m.nl(), 'acc': acc, 'ops': [['presolve', kw]]}))
                        break
    return dict(st), viols[:10]


_srv = None


def run_op(srv, op):
    name, kw, chk = op
    res = srv.request(name, **kw)
    return res


def work(job):
    global _srv
    if _srv is None: _srv = flatlib.Server(flatlib.build())
    name, m, lin_idx, cfgname, types, tier, idx = job
    st = collections.Counter(); viols = []; classes = set(); sample = None
    acc = acc_for(types)
    I = Inst(_srv, m, lin_idx, acc)
    if not I.ok:
        st['refused'] += 1
        return dict(st), viols, [], None
    if I.match is None:
        st['unmatched_models'] += 1
        return dict(st), viols, [], None
    st['instances'] += 1
    if any(v['slack'] is not None for v in I.match.values()): st['instances_with_range_slack'] += 1

    def fresh_ops():
        ops = collections.OrderedDict()
        ops['post_solution'] = I.op_post_solution()
        ops['post_solution_neg'] = I.op_post_solution(-1)
        ops['pre_solution'] = I.op_pre_solution()
        ops['pre_lazy'] = I.op_pre_lazy()
        ops['post_generic_int'] = I.op_generic(True, False)
        ops['pre_generic_dbl'] = I.op_generic(False, True)
        ops['post_generic_dbl_rows'] = I.op_generic_rows(1)
        ops['post_generic_dbl_rows_neg'] = I.op_generic_rows(-1)
        # basis / IIS: every status vector over the matched rows and slacks (<= 3 items exhaustively)
        items = []
        for i, mt in sorted(I.match.items()):
            items.append(('row', mt['row']))
            if mt['slack'] is not None: items.append(('var', mt['slack']))
        items = items[:3] if tier == 'quick' else items[:4]
        for combo in itertools.product((1, 3, 4, 5), repeat=len(items)):
            ops['post_basis%s' % (combo,)] = I.op_post_basis(dict(zip(items, combo)))
        for combo in itertools.product((0, 1, 2, 3), repeat=len(items)):
            ops['post_iis%s' % (combo,)] = I.op_post_iis(dict(zip(items, combo)))
        nlc = sorted(I.match)[:3]
        for combo in itertools.product((1, 3, 4, 5), repeat=len(nlc)):
            ops['pre_basis%s' % (combo,)] = I.op_pre_basis(dict(zip(nlc, combo)))
        return ops

    ops = fresh_ops()
    fresh = {}
    # depth 1: every op on a fresh instance
    for oname, op in ops.items():
        I2 = Inst(_srv, m, lin_idx, acc)       # fresh instance (re-convert)
        res = run_op(_srv, op)
        st['transfers'] += 1
        if res.get('status') != 'ok':
            viols.append(('C04 %s failed: %s' % (oname.split('(')[0], res.get('msg', res.get('status'))[:80]), {'model': m.describe(), 'cfg': cfgname}, None))
            continue
        fresh[oname] = res['res']
        for prob in op[2](res['res']):
            viols.append(('C04 %s cfg=%s' % (prob, cfgname), {'model': m.describe(), 'cfg': cfgname, 'op': oname, 'request': op[1], 'result': res['res']},
                          {'nl': m.nl(), 'acc': acc, 'ops': [[op[0], op[1]]]}))
        classes.add('%s|%s|%s' % (cfgname, oname.split('(')[0], 'slack' if st['instances_with_range_slack'] else 'noslack'))
    # histories: every ordered pair (triple in thorough) of representative ops; last result == fresh result
    reps = [k for k in ops if '(' not in k] + [k for k in ops if '(' in k][::max(1, len(ops) // 6)]
    depth = 2 if tier == 'quick' else 3
    hist_ops = reps if tier == 'thorough' else reps[:8]
    for d in range(2, depth + 1):
        seqs = itertools.product(hist_ops, repeat=d) if d == 2 else itertools.product(hist_ops[:6], repeat=d)
        for seq in seqs:
            Inst(_srv, m, lin_idx, acc)
            res = None
            for oname in seq:
                res = run_op(_srv, ops[oname]); st['transfers'] += 1
            st['histories'] += 1
            if res.get('status') != 'ok' or seq[-1] not in fresh: continue
            if res['res'] != fresh[seq[-1]]:
                viols.append(('C04 transfer depends on earlier transfers: %s after %s cfg=%s' % (seq[-1].split('(')[0], seq[-2].split('(')[0], cfgname),
                              {'model': m.describe(), 'history': seq, 'got': res['res'], 'fresh': fresh[seq[-1]]},
                              {'nl': m.nl(), 'acc': acc, 'ops': [[ops[o][0], ops[o][1]] for o in seq]}))
    if idx % 97 == 0:
        sample = {'model': m.describe(), 'cfg': cfgname, 'matched': {str(k): v for k, v in I.match.items()}}
    return dict(st), viols[:30], sorted(classes), sample


def driver_part(chk, tier):
    """the same expectations observed in the .sol written by the real driver (vdriver): primal values,
    dual values, .sstatus suffixes of variables and constraints"""
    import vdriverlib, shutil, vbuild
    from concurrent.futures import ThreadPoolExecutor
    binary = vdriverlib.build('plain')
    work = os.path.join(vbuild.BUILD, 'work', 'C04'); shutil.rmtree(work, ignore_errors=True)
    jobs = []
    ms = models(tier)
    for i, (name, m, lin_idx) in enumerate(ms[::(7 if tier == 'quick' else 2)]):
        for cfgname, types in CONFIGS:
            # answers with both vectors; every 3rd model also with only the dual / only the primal vector
            for pat in (('both', 'dual-only', 'primal-only') if i % 3 == 0 else ('both',)):
                jobs.append((len(jobs), name, m, lin_idx, cfgname, acc_for(types), pat))
    def one(job):
        idx, name, m, lin_idx, cfgname, acc, pat = job
        wd = os.path.join(work, 'r%05d' % idx)
        run = vdriverlib.run(binary, wd, nl_text=m.nl(), script={'acc': acc, 'code': 0, 'ismip': 0, 'x': 'none' if pat == 'dual-only' else 'ramp',
                                                                  'y': 'none' if pat == 'primal-only' else 'ramp',
                                                                  'obj': 'auto', 'basis': 'ramp'},
                             env_opts={'vdriver_options': 'basis=3 sol:chk:mode=0'})
        shutil.rmtree(wd, ignore_errors=True)
        probs = []
        d = run['dump']
        if run['rc'] != 0 or run['sol'] is None or not d:
            return job, ['driver run failed rc=%s %s' % (run['rc'], run['err'][-200:])], run
        try: sol = vdriverlib.parse_sol(run['sol'])
        except Exception as e: return job, ['.sol not parsable: %s' % e], run
        norig = len(m.vars); nalg = len(m.acons)
        if pat == 'dual-only':
            if sol['nprimals'] != 0: probs.append('.sol has %d primal values although the solver returned none' % sol['nprimals'])
        elif sol['nvars'] != norig or sol['nprimals'] != norig: probs.append('.sol primal count %s/%s != %d' % (sol['nvars'], sol['nprimals'], norig))
        elif sol['primals'] != [100.0 + j for j in range(norig)]: probs.append('.sol primal values are not the solver values of the original variables')
        if pat == 'primal-only' and sol['nduals'] != 0: probs.append('.sol has %d dual values although the solver returned none' % sol['nduals'])
        if pat == 'dual-only' and sol['nduals'] != nalg: probs.append('.sol has %d dual values although the solver returned duals for all rows (%d constraints)' % (sol['nduals'], nalg))
        if sol['ncons'] != nalg: probs.append('.sol constraint count %d != %d' % (sol['ncons'], nalg))
        mt = match_rows(m, lin_idx, {'cons': d['cons'], 'vars': d['vars']})
        if mt is None: return job, probs + ['__unmatched__'], run
        nv = len(d['vars'])
        vst = [1 + (j % 4) for j in range(nv)]
        if sol['nduals'] == nalg:
            for i, t in mt.items():
                if sol['duals'][i] != 1000 * CG_LINEAR + 1 + 10 * t['row']: probs.append('.sol dual of linear constraint is not the dual of its row'); break
        elif sol['nduals'] != 0: probs.append('.sol dual count %d' % sol['nduals'])
        sv = [sf for sf in sol['suffixes'] if sf['name'] == 'sstatus' and (sf['kind'] & 3) == 0]
        sc = [sf for sf in sol['suffixes'] if sf['name'] == 'sstatus' and (sf['kind'] & 3) == 1]
        if sv:
            got = [sv[0]['values'].get(j, 0) for j in range(norig)]
            if got != [float(v) for v in vst[:norig]]: probs.append('.sol variable .sstatus is not the solver basis of the original variables')
        else: probs.append('__no_sstatus__')
        if sc:
            for i, t in mt.items():
                exp = 1 + ((t['row'] + 1) % 4) if t['slack'] is None else rev_basis(vst[t['slack']])
                if sc[0]['values'].get(i, 0) != exp: probs.append('.sol constraint .sstatus is not the (slack-mapped) status of its row'); break
        return job, probs, run
    n = 0; judged = 0; with_sstatus = 0; with_duals = 0
    with ThreadPoolExecutor(max_workers=vcheck.NCPU) as ex:
        for job, probs, run in ex.map(one, jobs):
            n += 1
            real = [p for p in probs if not p.startswith('__')]
            if '__unmatched__' not in probs: judged += 1
            if '__no_sstatus__' not in probs and run.get('sol') and 'sstatus' in run['sol']: with_sstatus += 1
            if run.get('sol') and '\n300' in run['sol']: with_duals += 1
            for pr in real:
                chk.violation('C04 driver: %s cfg=%s' % (pr, job[4]), {'model': job[2].describe(), 'sol': (run['sol'] or '')[-600:]}, None)
    chk.set('driver_runs', n); chk.set('driver_runs_judged', judged); chk.set('driver_runs_with_sstatus', with_sstatus); chk.set('driver_runs_with_duals', with_duals)
    if with_sstatus < n / 3 or with_duals < n / 3: chk.broken.append('driver part vacuous: sstatus in %d, duals in %d of %d runs' % (with_sstatus, with_duals, n))
    shutil.rmtree(work, ignore_errors=True)
    if judged < n / 2: chk.broken.append('driver part: only %d of %d runs judged' % (judged, n))


# ---------------------------------------------------------------------------------------------------
# shared subexpression: two constraints f(x) + u <= 5 and f(x) + w <= 7 use the same subexpression f(x).  The rows
# generated for f belong to both constraints: whatever the combining rule is, the two users must be treated alike
# (a value placed on the shared rows reaches both or neither; a value given for either user reaches the shared rows
# in the same way).
V5 = [(0.0, 4.0, False, 0.5), (0.0, 4.0, False, 0.5), (-2.0, 2.0, True, 1.0), (0.0, 1.0, True, 1.0)]
SHARED = {
    'abs(x)': ('abs', ('v', 2)), 'max(x,b)': ('max', ('v', 2), ('v', 3)), 'x*b': ('mul', ('v', 2), ('v', 3)),
    'if b then x': ('if', ('ge', ('v', 3), N(1)), ('v', 2), N(0)), 'min(x,b,1)': ('min', ('v', 2), ('v', 3), N(1)),
}


def shared_models():
    for nm, f in SHARED.items():
        yield ('shared %s' % nm, Model(V5, acons=[(f, {0: 1.0}, -INF, 5.0), (f, {1: 1.0}, -INF, 7.0)], obj=('min', None, {0: 1.0, 1: 1.0})))


def work_shared(job):
    global _srv
    if _srv is None: _srv = flatlib.Server(flatlib.build())
    name, m, cfgname, types = job
    st = collections.Counter(); viols = []
    acc = acc_for(types)
    r = _srv.request('convert', nl=m.nl(), opts='', acc=acc)
    if r.get('status') != 'ok' or 'PLApprox' in r.get('warnings', ''):
        st['shared_skipped'] += 1; return dict(st), viols
    nv = len(r['vars'])
    groups = collections.OrderedDict(); kind = {}
    for c in r['cons']:
        g = c['group']; k = len(groups.setdefault(g, [])); groups[g].append(c)
        vs = con_vars(c)
        kind[(g, k)] = 'own0' if 0 in vs else 'own1' if 1 in vs else 'shared'      # u = v0 only in c0, w = v1 only in c1
    nshared = sum(1 for v in kind.values() if v == 'shared')
    if nshared == 0 or not any(v == 'own0' for v in kind.values()) or not any(v == 'own1' for v in kind.values()):
        st['shared_no_shared_rows'] += 1; return dict(st), viols
    st['shared_instances'] += 1
    def cons_arg(fn):
        return ';'.join('%d:%s' % (g, vec([fn(kind[(g, k)]) for k in range(len(cs))])) for g, cs in groups.items())
    for knd, val in (('GenericInt', 7), ('IIS', 1), ('GenericDbl', 2.5), ('GenericDbl', -2.5), ('Solution', 7.5)):
        _srv.request('convert', nl=m.nl(), opts='', acc=acc)
        kw = dict(kind=knd, vars=vec([0] * nv), cons=cons_arg(lambda s_: val if s_ == 'shared' else 0))
        res = _srv.request('postsolve', **kw)
        st['transfers'] += 1
        if res.get('status') != 'ok': continue
        ys = res['res']['cons'].get('0', [])
        if len(ys) >= 2 and ys[0] != ys[1]:
            viols.append(('C04 postsolve %s: a value on the rows of a shared subexpression reaches only one of its two users cfg=%s' % (knd, cfgname),
                          {'model': m.describe(), 'result': ys, 'rows': {str(k): v for k, v in kind.items()}},
                          {'nl': m.nl(), 'acc': acc, 'ops': [['postsolve', kw]]}))
    for knd, val in (('LazyUserCutFlags', 1), ('GenericInt', 5), ('GenericDbl', 2.5)):
        img = []
        for isrc in (0, 1):
            _srv.request('convert', nl=m.nl(), opts='', acc=acc)
            flags = [0, 0]; flags[isrc] = val
            kw = dict(kind=knd, vars=vec([0] * len(m.vars)) if knd != 'LazyUserCutFlags' else '', cons='0:' + vec(flags))
            res = _srv.request('presolve', **kw)
            st['transfers'] += 1
            if res.get('status') != 'ok': img.append(None); continue
            img.append({(int(g), k): y for g, ys in res['res']['cons'].items() for k, y in enumerate(ys) if kind.get((int(g), k)) == 'shared'})
        if img[0] is not None and img[1] is not None and img[0] != img[1]:
            viols.append(('C04 presolve %s: the rows of a shared subexpression receive the value of one user but not of the other cfg=%s' % (knd, cfgname),
                          {'model': m.describe(), 'image_from_first_user': {str(k): v for k, v in img[0].items()},
                           'image_from_second_user': {str(k): v for k, v in img[1].items()}},
                          {'nl': m.nl(), 'acc': acc, 'ops': [['presolve', dict(kind=knd, cons='0:' + vec([val, 0]))]]}))
    return dict(st), viols[:10]


def build():
    return flatlib.build()


def main(tier, seed):
    chk = vcheck.Check(PID, tier, 'model_checking', seed)
    build()
    jobs = []
    for i, (name, m, lin_idx) in enumerate(models(tier)):
        for cfgname, types in CONFIGS:
            jobs.append((name, m, lin_idx, cfgname, types, tier, len(jobs)))
    tot = collections.Counter(); classes = set()
    sepjobs = [(name, m, sides, cfgname, types) for (name, m, sides) in sep_models() for cfgname, types in CONFIGS]
    with Pool(vcheck.NCPU) as pool:
        for st, viols, cl, sample in pool.imap_unordered(work, jobs, chunksize=2):
            tot.update(st); classes.update(cl)
            if sample: chk.sample(sample)
            for sig, det, rp in viols: chk.violation(sig, det, rp)
        for st, viols in pool.imap_unordered(work_sep, sepjobs, chunksize=2):
            tot.update(st)
            for sig, det, rp in viols: chk.violation(sig, det, rp)
        shjobs = [(name, m, cfgname, types) for (name, m) in shared_models() for cfgname, types in CONFIGS]
        for st, viols in pool.imap_unordered(work_shared, shjobs, chunksize=1):
            tot.update(st)
            for sig, det, rp in viols: chk.violation(sig, det, rp)
    driver_part(chk, tier)
    for k, v in tot.items(): chk.set(k, v)
    chk.set('evaluations', tot['transfers'])
    chk.set('states', tot['instances'])
    chk.set('transitions', tot['transfers'])
    chk.set('traces_validated_against_impl', tot['histories'])
    chk.cov['_classes'] = classes
    vcheck.finalize_classes(chk)
    chk.set('rule', 'models = subsets (<=3) of 5 linear rows (le, ge, eq, two ranges; distinct coefficient vectors) interleaved with one of '
            '%d nonlinear/logical blocks at every position x configs %s; on each converted instance every transfer of the alphabet '
            '{PostsolveSolution(+/-), PresolveSolution, PresolveLazyUserCutFlags, Post/PresolveGeneric, PostsolveBasis / PostsolveIIS / '
            'PresolveBasis with every status vector over the matched rows and slacks} is run on a fresh instance and judged by structural '
            'row matching; then every history of depth <= %d over representative transfers is run and its last result compared with the '
            'fresh-instance result; separable pairs (locality) and shared-subexpression pairs (the two users of one subexpression are treated alike). states = converted instances, transitions = transfers executed.'
            % (len(EXTRAS), [c[0] for c in CONFIGS], 2 if tier == 'quick' else 3))
    chk.assumptions += ['rows reach the solver in AddConstraint call order within a constraint group (as real backends assume)',
                        'a linear NL constraint is matched to its delivered row by coefficient vector over original variables and rhs/range '
                        '(range -> equality + slack in [0, ub-lb]); models where this matching is not unique are counted, not judged']
    if tot['shared_instances'] < 5: chk.broken.append('vacuous: too few shared-subexpression instances judged (%d)' % tot['shared_instances'])
    if tot['sep_instances'] < 40: chk.broken.append('vacuous: too few separable-pair instances judged (%d)' % tot['sep_instances'])
    if tot['instances_with_range_slack'] < 20: chk.broken.append('vacuous: too few instances exercising range->slack')
    if tot['unmatched_models'] * 4 > max(1, tot['instances']): chk.broken.append('vacuous: structural matching failed on many models')
    return chk.finish()


def replay(path):
    rp = json.load(open(path))['replay']
    srv = flatlib.Server(flatlib.build())
    r = srv.request('convert', nl=rp['nl'], opts='', acc=rp['acc'])
    for name, kw in rp['ops']:
        res = srv.request(name, **kw)
        print(name, kw.get('kind'), json.dumps(res)[:600])
    return 0
