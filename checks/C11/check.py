"""C11 option parsing: bounded exhaustive histories (reference map), byte-string totality under ASan/UBSan,
command-line switch sequences.  See opt_harness.cc for the enumerated spaces."""
import json, os, shutil, subprocess, sys
import vbuild, vcheck

PID = 'C11'
SAN_ENV = {'ASAN_OPTIONS': 'detect_leaks=0:abort_on_error=0:allocator_may_return_null=1:symbolize=0:handle_segv=0',
           'UBSAN_OPTIONS': 'print_stacktrace=0:symbolize=0'}


def build():
    return vbuild.build_program('c11_options', 'san', ['checks/C11/opt_harness.cc'], with_libmp=True)


def main(tier, seed):
    chk = vcheck.Check(PID, tier, 'model_checking', seed)
    binary = build()
    work = os.path.join(vcheck.VERIF, 'build', 'work', PID)
    os.makedirs(work, exist_ok=True)
    for k in list(os.environ):          # bin/check scrubs these too; the harness sets its own
        if k.endswith('_options'):
            del os.environ[k]
    res = vcheck.run_shards(binary, 16, ['--tier', tier], env=SAN_ENV, timeout=3000)
    classes = vcheck.absorb(chk, res)
    # reference-model states travel as classes with a 'state:' prefix
    states = {c for c in classes if c.startswith('state:')}
    for c in states:
        classes.discard(c)
    cov = chk.cov
    cov['states'] = len(states)
    cov['transitions'] = cov.get('A_assignments_parsed', 0)
    cov['traces_validated_against_impl'] = cov.get('A_histories_replayed_on_fresh_object', 0)
    cov['evaluations'] = cov.get('A_histories', 0) + cov.get('B_strings', 0) + cov.get('C_argv_sequences', 0)
    vcheck.finalize_classes(chk)
    depth3 = tier == 'thorough'
    blen = 6 if depth3 else 5
    chk.set('rule', 'A class is (part, item kind-option, name form, separator, source[, handler]) for histories, plus '
            'override shapes (option, earlier source -> later source); (entry point, prefix, outcome, quote present) for '
            'byte strings; (first switch, outcome) for switch sequences.  states = distinct reference-map states '
            'reached; transitions = assignments parsed by the real parser; traces_validated_against_impl = histories '
            'executed twice (long-lived solver object without executable path; freshly constructed object with an executable path whose basename differs from the solver name and with option echo enabled) with identical observation and '
            'compared with the reference fold.')
    chk.set('bounds', {
        'histories': 'all sequences of <= 2 assignments over the full alphabet (%d items) x non-decreasing source '
                     'assignment over (mp_options, c11solver_options, argv)%s; collecting error handler always, default '
                     '(throwing) handler additionally for histories with a definite error item'
                     % (cov.get('A_alphabet_full', 0),
                        '; all sequences of exactly 3 assignments over the reduced alphabet (%d items)'
                        % cov.get('A_alphabet_reduced', 0) if depth3 else ''),
        'alphabet': 'name forms {canonical, CANONICAL, inline synonyms, SYNONYM/Mixed, out-of-line synonym and its inline '
                    'synonym (both cases), wildcard keys pri:1:w pri:2:w pri_1_w wp1 wp2 (a synonym of another head/tail shape), PRI:1:W, unknown zz/metho/pri:1:x} x '
                    'separators {=, " = ", blank} x ints {0,-7,42,010,99999999999} / doubles {1.5,-2e3,1e400} / strings '
                    '{abc, \'a b\', "q\'q", \'\', ?x, r\xc3\xa9s.log (UTF-8, unquoted)} + name=? + flag + flag=1; reduced alphabet = explicit list in opt_harness.cc (every option, name-form class, item kind; values and separators thinned)',
        'totality': 'all byte strings of length <= %d over {a = blank \' " ? 0 - . 0x80} x prefixes {none, n=, s=, s=\', d=} x '
                    '{ParseOptionString(flags=0), ParseOptions(argv)} + %d long-token strings (48..4096 bytes)'
                    % (blen, cov.get('B_long_token_strings', 0)),
        'switches': 'all argv sequences of length <= 3 over {-v -= -e -s -! -c -? -- -x -ss stub -AMPL n=1}'})
    chk.assumptions += [
        'Letter case: the statement demands case-insensitive synonyms; the code (and solver-test ParseOptionsCaseInsensitiveName) '
        'also matches canonical names case-insensitively, which is demanded too; wildcard keys are matched case-sensitively by '
        'the code, so PRI:1:W=v is only required to be exact (pri:*:w[1]=v) or reported+unchanged.',
        'Command-line source: one assignment per argv element; the shell has already removed quotes, so a string value is the '
        'rest of the element (documented at SolverOptionManager::FROM_COMMAND_LINE); environment sources use quoted strings.',
        'Out-of-range numeric text is "error-or-exact": 1e400 may be reported (value unchanged) or stored as +inf (strtod '
        'rounding of a real beyond DBL_MAX); 99999999999 may be reported (unchanged) or stored exactly where the option type '
        'can hold it (option n has a long long accessor) - a silently different stored value is a violation.',
        '"Reported as an error" = ErrorHandler::HandleError called and ParseOptions returns false (collecting handler), or '
        'mp::Error thrown by the default handler with every earlier assignment applied and nothing later applied.',
        'Totality: exceptions of the mp::Error family and std::logic_error("Empty option name list") (empty name such as "=1") '
        'escaping the parser count as reported errors, not as memory errors; any other escaping exception is a violation.',
        'Values are read back through GetIntOption/GetDblOption/GetStrOption/GetOption(synonym)->GetValue<int>; the flag and '
        'the wildcard entries through the stored variables (no public getter reaches them).',
        'Switch table derived from the usage text printed by -? ("... and exit", "end of options", "[options] stub [-AMPL] '
        '[<assignment> ...]"); -! is taken to stop like the other show-switches.',
    ]
    # vacuity guards
    if cov.get('A_histories_changed_an_option', 0) <= 0:
        chk.broken.append('no history changed an option')
    if cov.get('A_histories_error_path', 0) <= 0:
        chk.broken.append('no error-path history occurred')
    if cov.get('B_strings_with_quote', 0) <= 0:
        chk.broken.append('totality family contained no quote characters')
    if cov.get('B_strings_with_unterminated_quote', 0) <= 0:
        chk.broken.append('totality family contained no unterminated quote')
    if cov.get('C_argv_sequences', 0) != 1 + 13 + 169 + 2197:
        chk.broken.append('switch family incomplete: %s' % cov.get('C_argv_sequences'))
    if cov.get('A_reused_vs_fresh_object_divergence', 0):
        chk.assumptions.append('observations on the long-lived solver object diverged from a fresh object %d times; the fresh '
                               'object was judged' % cov['A_reused_vs_fresh_object_divergence'])
    shutil.rmtree(work, ignore_errors=True)
    return chk.finish()


def replay(path):
    r = json.load(open(path))['replay']
    binary = build()
    if r['part'] == 'A':
        args = ['--oneAtext', str(r['handler'])]
        for src, _item, text in r['steps']:
            args += [str(src), text.encode('utf-8', 'surrogateescape').hex() or '-']
    elif r['part'] == 'B':
        args = ['--oneB', str(r['mode']), r['hex']]
    else:
        toks = ['-v', '-=', '-e', '-s', '-!', '-c', '-?', '--', '-x', '-ss', 'stub', '-AMPL', 'n=1']
        args = ['--oneC'] + [str(toks.index(t)) for t in r['argv']]
    env = dict(os.environ)
    env.update({'ASAN_OPTIONS': 'detect_leaks=0:abort_on_error=0', 'UBSAN_OPTIONS': 'print_stacktrace=1', 'LC_ALL': 'C'})
    p = subprocess.run([binary] + args, capture_output=True, text=True, env=env, errors='replace', timeout=300)
    print(p.stdout)
    if p.returncode == 2:
        return 2
    if p.returncode != 0 or 'ERROR: AddressSanitizer' in p.stderr or 'runtime error' in p.stderr:
        print(p.stderr[-3000:])
        return 1
    return 1 if '"violation"' in p.stdout else 0
