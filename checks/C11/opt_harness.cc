// C11: solver option parsing is total, faithful and ordered.
//
//  Part A  histories   all sequences of <= 2 assignments (full alphabet) and, in thorough, of exactly 3
//                      assignments (reduced alphabet) distributed over mp_options, <solver>_options, argv;
//                      enumerated with vx::Explorer; oracle = reference map folded in source order.
//  Part B  totality    all byte strings of length <= L over 10 bytes, alone and behind 4 valid prefixes,
//                      through ParseOptionString (environment flavour) and through argv; every string is a
//                      malloc(len+1) copy; every execution happens in a forked child whose cursor lives in
//                      shared memory, so a sanitizer abort is an observation attributed to one string.
//  Part C  switches    all argv sequences of length <= 3 over 13 tokens through SolverAppOptionParser::Parse
//                      (+ BasicSolver::ParseOptions on the remaining arguments); oracle = reference table.
#include "mp/solver-app-base.h"
#include "mp/solver-base.h"
#include "explore.h"

#include <sys/mman.h>
#include <sys/wait.h>
#include <sys/resource.h>
#include <time.h>
#include <unistd.h>
#include <signal.h>
#include <fcntl.h>
#include <setjmp.h>
#include <ucontext.h>
#include <sanitizer/asan_interface.h>
#include <cerrno>
#include <cmath>
#include <limits>
#include <algorithm>
#include <unordered_set>

static vx::Report R;
static vx::Shard S;
static bool THOROUGH = false;

// ------------------------------------------------------------------------------------------------
// shared memory: cursor of the running child, counters, string sets (classes / reported signatures)
// ------------------------------------------------------------------------------------------------
enum { NCOUNTERS = 96, SETCAP = 16384, SETSTR = 160, MAXTRACE = 8, NBAD = 1024 };
struct Shm {
  volatile int finished;
  volatile long long cursor;            // part B/C: item index in progress; part A: entry index
  volatile int trace_len; volatile int trace[MAXTRACE];   // part A: choice sequence in progress
  volatile int handler_mode;            // part A: 0 collecting, 1 throwing
  long long counters[NCOUNTERS];
  int nset; char set[SETCAP][SETSTR];
  unsigned char bad[3][NBAD];           // part A: (source, item) pairs that already fail as a single assignment
};
static Shm* shm;
static const char* CNAMES[NCOUNTERS];
static int ncnames = 0;
static bool counters_frozen = false;
static int counter_id(const char* name) {
  for (int i = 0; i < ncnames; ++i) if (!std::strcmp(CNAMES[i], name)) return i;
  if (counters_frozen) { std::fprintf(stderr, "counter %s not pre-registered\n", name); std::abort(); }
  if (ncnames >= NCOUNTERS) { std::fprintf(stderr, "too many counters\n"); std::abort(); }
  CNAMES[ncnames] = name; return ncnames++;
}
// counters are registered before any fork (static ids), incremented in shared memory by children
#define COUNT(name, n) do { static int id_ = counter_id(name); shm->counters[id_] += (n); } while (0)

static std::unordered_set<std::string> local_seen;
// insert into the shared string set; true when new
static bool shm_insert(const std::string& s0) {
  std::string s = s0.size() >= SETSTR ? s0.substr(0, SETSTR - 1) : s0;
  if (local_seen.count(s)) return false;
  unsigned h = 2166136261u; for (unsigned char c : s) h = (h ^ c) * 16777619u;
  for (unsigned k = 0; k < SETCAP; ++k) {
    unsigned i = (h + k) % SETCAP;
    if (!shm->set[i][0]) {
      if (shm->nset >= SETCAP - 64) { std::fprintf(stderr, "shared set full\n"); std::abort(); }
      std::memcpy(shm->set[i], s.c_str(), s.size() + 1); ++shm->nset; local_seen.insert(s); return true;
    }
    if (s == shm->set[i]) { local_seen.insert(s); return false; }
  }
  std::abort();
}
static void cls(const std::string& c) { shm_insert("C:" + c); }
static void violation(const std::string& sig, const std::string& detail, const std::string& replay) {
  if (shm_insert("V:" + sig)) { R.seen_sigs.erase(sig); R.violation(sig, detail, replay); }
  COUNT("violating_executions", 1);
}

// ------------------------------------------------------------------------------------------------
// the solver under test: fixed option table
// ------------------------------------------------------------------------------------------------
struct CollectingEH : mp::ErrorHandler {
  std::vector<std::string> errs;
  void HandleError(fmt::CStringRef m) override { errs.push_back(m.c_str()); }
};
struct SinkOH : mp::OutputHandler {
  size_t bytes = 0;
  void HandleOutput(fmt::CStringRef o) override { bytes += std::strlen(o.c_str()); }
};

struct State {
  long long n = 5; double d = 0.25; std::string s = "dflt", a = "A0"; bool f = false; long long m = 3;
  std::map<std::string, long long> w;
  bool operator==(const State& o) const {
    return n == o.n && ((d == o.d) || (std::isnan(d) && std::isnan(o.d))) && s == o.s && a == o.a && f == o.f &&
           m == o.m && w == o.w;
  }
  std::string json() const {
    char b[64]; std::snprintf(b, sizeof b, "%.17g", d);
    std::string j = "{\"n\":" + std::to_string(n) + ",\"d\":\"" + b + "\",\"s\":\"" + vx::jesc(s) + "\",\"a\":\"" +
                    vx::jesc(a) + "\",\"f\":" + (f ? "true" : "false") + ",\"alg:m\":" + std::to_string(m) + ",\"pri:*:w\":{";
    bool first = true;
    for (auto& kv : w) { if (!first) j += ","; first = false; j += "\"" + vx::jesc(kv.first) + "\":" + std::to_string(kv.second); }
    return j + "}}";
  }
};

struct VSolver : mp::BasicSolver {
  long long n; double d; std::string s, a; bool f; int m; std::map<std::string, int> w;
  CollectingEH eh; SinkOH oh;

  long long GetN(const mp::SolverOption&) const { return n; }
  void SetN(const mp::SolverOption&, long long v) { n = v; }
  double GetD(const mp::SolverOption&) const { return d; }
  void SetD(const mp::SolverOption&, double v) { d = v; }
  std::string GetS(const mp::SolverOption&) const { return s; }
  void SetS(const mp::SolverOption&, fmt::StringRef v) { s = v.to_string(); }
  std::string GetA(const mp::SolverOption&) const { return a; }
  void SetA(const mp::SolverOption&, fmt::StringRef v) { a = v.to_string(); }
  int GetW(const mp::SolverOption& o, int) const {
    auto it = w.find(o.wc_keybody_last()); return it == w.end() ? -1 : it->second;
  }
  void SetW(const mp::SolverOption& o, int v, int) { w[o.wc_keybody_last()] = v; }

  void reset_values() { State z; n = z.n; d = z.d; s = z.s; a = z.a; f = z.f; m = (int)z.m; w.clear(); eh.errs.clear(); oh.bytes = 0; }

  explicit VSolver(bool collecting = true) : mp::BasicSolver("c11solver", "C11 test solver", 20240320, 0) {
    reset_values();
    AddIntOption("n", "64-bit integer option (accessor long long).", &VSolver::GetN, &VSolver::SetN);
    AddDblOption("d", "Double option.", &VSolver::GetD, &VSolver::SetD);
    AddStrOption("s", "String option.", &VSolver::GetS, &VSolver::SetS);
    AddStrOption("a", "String option whose name lies in the totality alphabet.", &VSolver::GetA, &VSolver::SetA);
    AddStoredOption("f", "Flag.", f);
    AddStoredOption("alg:m meth method", "Stored int option with two inline synonyms.", m);
    AddIntOption("pri:*:w pri_*_w wp*", "Wildcard int option; the second synonym has another head/tail shape.", &VSolver::GetW, &VSolver::SetW, 0);
    AddOptionSynonyms_OutOfLine("o:s ostr", "s");
    AddOptionSynonyms_Inline_Back("sb1 sb2", "s");      // synonyms attached after the option was created, as backends do
    AddOptionSynonyms_Inline_Front("sf1 sf2", "s");
    set_output_handler(&oh);
    if (collecting) set_error_handler(&eh);
  }
  // the stored variables
  State vars() const {
    State st; st.n = n; st.d = d; st.s = s; st.a = a; st.f = f; st.m = m;
    for (auto& kv : w) st.w[kv.first] = kv.second;
    return st;
  }
  // read every option back through the public accessors
  State read() {
    State st;
    st.n = GetIntOption("n");
    st.d = GetDblOption("d");
    st.s = GetStrOption("s");
    st.a = GetStrOption("a");
    st.f = f;
    st.m = GetOption("method")->GetValue<int>();
    if (st.m != m) st.m = -999999;
    for (auto& kv : w) st.w[kv.first] = kv.second;
    return st;
  }
};

static char* heap_copy(const std::string& s) {       // exact-size copy: one byte past the NUL is a redzone
  char* p = (char*)std::malloc(s.size() + 1);
  std::memcpy(p, s.data(), s.size()); p[s.size()] = 0; return p;
}
static std::string hex(const std::string& s) {
  static const char* H = "0123456789abcdef"; std::string o;
  for (unsigned char c : s) { o += H[c >> 4]; o += H[c & 15]; }
  return o.empty() ? "-" : o;
}
static std::string unhex(const std::string& h) {
  if (h == "-") return ""; std::string o;
  for (size_t i = 0; i + 1 < h.size(); i += 2) o += (char)std::stoi(h.substr(i, 2), nullptr, 16);
  return o;
}
static std::string jstr(const std::string& s) { return "\"" + vx::jesc(s) + "\""; }

// ------------------------------------------------------------------------------------------------
// forked execution with stderr capture
// ------------------------------------------------------------------------------------------------
struct ChildResult { bool finished; int status; std::string err; };
static ChildResult in_child(const std::function<void()>& body) {
  std::fflush(stdout); std::fflush(stderr);
  int p[2]; if (pipe(p)) { std::perror("pipe"); std::abort(); }
  shm->finished = 0;
  pid_t pid = fork();
  if (pid < 0) { std::perror("fork"); std::abort(); }
  if (pid == 0) {
    close(p[0]); dup2(p[1], 2); close(p[1]);
    body();
    shm->finished = 1; std::fflush(stdout); _exit(0);
  }
  close(p[1]);
  ChildResult r; char buf[4096]; ssize_t k;
  while ((k = read(p[0], buf, sizeof buf)) > 0 || (k < 0 && errno == EINTR))
    if (k > 0 && r.err.size() < (1u << 20)) r.err.append(buf, (size_t)k);
  close(p[0]);
  while (waitpid(pid, &r.status, 0) < 0 && errno == EINTR) {}
  r.finished = shm->finished != 0 && WIFEXITED(r.status) && WEXITSTATUS(r.status) == 0;
  return r;
}
static inline void tick(long long& cnt) { if ((cnt++ & 511) == 0) alarm(60); }   // a hang kills the child

// crash kind from a sanitizer report / wait status
static std::string crash_kind(const ChildResult& r) {
  size_t p;
  if ((p = r.err.find("AddressSanitizer: ")) != std::string::npos) {
    size_t e = r.err.find_first_of(" \n", p + 18);
    return "ASan " + r.err.substr(p + 18, e - (p + 18));
  }
  if ((p = r.err.find("runtime error: ")) != std::string::npos) {
    size_t e = r.err.find('\n', p); std::string m = r.err.substr(p + 15, e - (p + 15));
    for (auto& c : m) if (std::isdigit((unsigned char)c)) c = '#';
    return "UBSan " + m.substr(0, 60);
  }
  if (WIFSIGNALED(r.status)) {
    int sg = WTERMSIG(r.status);
    if (sg == SIGALRM) return "non-termination (60 s alarm)";
    return std::string("signal ") + strsignal(sg);
  }
  if (r.err.find("terminate called") != std::string::npos) return "std::terminate";
  return "abnormal exit status " + std::to_string(WIFEXITED(r.status) ? WEXITSTATUS(r.status) : -1);
}
// first frame of a symbolized report that lies in the code under test
static std::string top_function(const std::string& err) {
  size_t pos = 0;
  while ((pos = err.find("\n    #", pos)) != std::string::npos) {
    size_t e = err.find('\n', pos + 1); std::string line = err.substr(pos + 1, e - pos - 1); pos = e == std::string::npos ? err.size() : e;
    size_t in = line.find(" in "); if (in == std::string::npos) continue;
    if (line.find("/src/") == std::string::npos && line.find("/include/mp/") == std::string::npos) continue;
    if (line.find("opt_harness.cc") != std::string::npos) continue;
    std::string f = line.substr(in + 4);
    size_t sp = f.rfind(" /"); if (sp != std::string::npos) f = f.substr(0, sp);
    size_t an; while ((an = f.find("(anonymous namespace)::")) != std::string::npos) f.erase(an, 23);
    size_t par = f.find('('); if (par != std::string::npos && par > 0) f = f.substr(0, par);
    return f;
  }
  return "?";
}
// re-execute one case in a fresh, symbolizing process; returns its ChildResult (stderr = report)
static ChildResult fresh_process(const std::vector<std::string>& args) {
  std::fflush(stdout);
  int p[2]; if (pipe(p)) std::abort();
  pid_t pid = fork();
  if (pid == 0) {
    close(p[0]); dup2(p[1], 2); close(p[1]);
    int dn = open("/dev/null", O_WRONLY); dup2(dn, 1);
    setenv("ASAN_OPTIONS", "detect_leaks=0:abort_on_error=0:symbolize=1:allocator_may_return_null=1", 1);
    setenv("UBSAN_OPTIONS", "print_stacktrace=1:symbolize=1", 1);
    std::vector<char*> av; av.push_back((char*)"/proc/self/exe");
    for (auto& a : args) av.push_back((char*)a.c_str());
    av.push_back(nullptr);
    alarm(120);
    execv("/proc/self/exe", av.data()); _exit(127);
  }
  close(p[1]);
  ChildResult r; char buf[4096]; ssize_t k;
  while ((k = read(p[0], buf, sizeof buf)) > 0 || (k < 0 && errno == EINTR))
    if (k > 0 && r.err.size() < (1u << 20)) r.err.append(buf, (size_t)k);
  close(p[0]);
  while (waitpid(pid, &r.status, 0) < 0 && errno == EINTR) {}
  r.finished = WIFEXITED(r.status) && WEXITSTATUS(r.status) == 0;
  return r;
}
static std::string report_excerpt(const std::string& err) {
  std::string o; size_t lines = 0;
  for (size_t i = 0; i < err.size() && lines < 14; ++i) { o += err[i]; if (err[i] == '\n') ++lines; }
  return o;
}

// ================================================================================================
// Part A: histories
// ================================================================================================
enum Kind { K_SET, K_FLAG, K_QUERY, K_FLAGVAL, K_UNKNOWN, K_RANGE, K_WCASE };
enum Opt { O_N, O_D, O_S, O_F, O_M, O_W, O_NONE };
static const char* OPTNAME[] = {"n", "d", "s", "f", "alg:m", "pri:*:w", "-"};
struct Item {
  Kind kind; Opt opt; std::string form, sep, vcls;   // classes
  std::string env, arg;                               // text inside an environment variable / as one argv element
  long long iv = 0; double dv = 0; std::string sv, wkey;
  bool exact_possible = true; bool reduced = false;
  std::string coarse() const {
    static const char* KN[] = {"set", "flag", "query", "value-for-flag", "unknown-name", "out-of-range", "wildcard-key-upper"};
    return std::string(KN[kind]) + (opt == O_NONE ? "" : std::string("-") + OPTNAME[opt]);
  }
  std::string fine() const { return coarse() + "/" + form + "/sep" + sep + "/" + vcls; }
};
static std::vector<Item> ALPHA;
static std::vector<int> FULL, RED;
static const char* SRCNAME[] = {"mp_options", "c11solver_options", "argv"};

static void build_alphabet() {
  struct Sep { const char* txt; const char* name; };
  const Sep seps[] = {{"=", "="}, {" = ", "_=_"}, {" ", "_"}};
  struct NF { const char* txt; const char* form; const char* wkey; bool wcase; };
  struct IV { const char* txt; long long v; const char* c; bool range; };
  const IV ivals[] = {{"0", 0, "zero", false}, {"-7", -7, "neg", false}, {"42", 42, "pos", false},
                      {"010", 10, "leading-zero", false},        // decimal, not octal
                      {"99999999999", 99999999999LL, "beyond-int32", true}};
  struct DV { const char* txt; double v; const char* c; bool range; };
  const DV dvals[] = {{"1.5", 1.5, "frac", false}, {"-2e3", -2000.0, "neg-exp", false},
                      {"1e400", std::numeric_limits<double>::infinity(), "beyond-dbl-max", true}};
  struct SV { const char* env; const char* arg; const char* v; const char* c; };
  const SV svals[] = {{"abc", "abc", "abc", "plain"}, {"'a b'", "a b", "a b", "squoted-blank"},
                      {"\"q'q\"", "q'q", "q'q", "dquoted-apostrophe"}, {"''", "", "", "empty"},
                      {"?x", "?x", "?x", "starts-with-qmark"},
                      {"r\xc3\xa9s.log", "r\xc3\xa9s.log", "r\xc3\xa9s.log", "non-ascii-unquoted"},
                      {"run_{id}.log", "run_{id}.log", "run_{id}.log", "braces"}, {"}{0}", "}{0}", "}{0}", "unbalanced-braces"}};
  auto add = [&](Item it, bool red) { it.reduced = red; ALPHA.push_back(it); };
  auto queries = [&](Opt o, const NF& nf) {
    for (auto& sp : seps) {
      Item it; it.kind = K_QUERY; it.opt = o; it.form = nf.form; it.sep = sp.name; it.vcls = "?";
      if (nf.wcase) { it.kind = K_WCASE; it.opt = O_NONE; }     // error, or a query: nothing changes either way
      it.env = it.arg = std::string(nf.txt) + sp.txt + "?";
      add(it, sp.txt[0] == '=');
    }
  };
  auto int_items = [&](Opt o, const std::vector<NF>& nfs, bool fits64, int extra_sep_form) {
    int fi = 0;
    for (auto& nf : nfs) {
      for (auto& sp : seps) for (auto& v : ivals) {
        Item it; it.opt = o; it.form = nf.form; it.sep = sp.name; it.vcls = v.c;
        it.kind = nf.wcase ? K_WCASE : v.range ? K_RANGE : K_SET;
        it.env = it.arg = std::string(nf.txt) + sp.txt + v.txt; it.iv = v.v; if (nf.wkey) it.wkey = nf.wkey;
        it.exact_possible = !v.range || fits64;
        add(it, sp.txt[0] == '=' || (fi == extra_sep_form && v.v == 42));
      }
      queries(o, nf); ++fi;
    }
  };
  int_items(O_N, {{"n", "canonical", 0, false}, {"N", "canonical-upper", 0, false}}, true, 0);
  { // double
    const NF nfs[] = {{"d", "canonical", 0, false}, {"D", "canonical-upper", 0, false}};
    for (auto& nf : nfs) {
      for (auto& sp : seps) for (auto& v : dvals) {
        Item it; it.opt = O_D; it.form = nf.form; it.sep = sp.name; it.vcls = v.c; it.kind = v.range ? K_RANGE : K_SET;
        it.env = it.arg = std::string(nf.txt) + sp.txt + v.txt; it.dv = v.v;
        add(it, sp.txt[0] == '=' || (nf.txt[0] == 'd' && v.v == 1.5));
      }
      queries(O_D, nf);
    }
  }
  { // string, incl. the out-of-line synonym "o:s ostr" of s
    const NF nfs[] = {{"s", "canonical", 0, false}, {"S", "canonical-upper", 0, false}, {"o:s", "outofline-synonym", 0, false},
                      {"O:S", "outofline-synonym-upper", 0, false}, {"ostr", "outofline-inline-synonym", 0, false},
                      {"OSTR", "outofline-inline-synonym-upper", 0, false}, {"sb1", "inline-back-synonym1", 0, false},
                      {"SB2", "inline-back-synonym2-upper", 0, false}, {"sf1", "inline-front-synonym1", 0, false},
                      {"Sf2", "inline-front-synonym2-mixed", 0, false}};
    for (auto& nf : nfs) {
      for (auto& sp : seps) for (auto& v : svals) {
        Item it; it.kind = K_SET; it.opt = O_S; it.form = nf.form; it.sep = sp.name; it.vcls = v.c;
        it.env = std::string(nf.txt) + sp.txt + v.env; it.arg = std::string(nf.txt) + sp.txt + v.arg; it.sv = v.v;
        add(it, sp.txt[0] == '=' || (nf.txt[0] == 's' && v.env[0] == '\''));
      }
      queries(O_S, nf);
    }
  }
  { // flag
    const NF nfs[] = {{"f", "canonical", 0, false}, {"F", "canonical-upper", 0, false}};
    for (auto& nf : nfs) {
      Item it; it.kind = K_FLAG; it.opt = O_F; it.form = nf.form; it.sep = "none"; it.vcls = "none"; it.env = it.arg = nf.txt;
      add(it, true);
      for (int k = 0; k < 2; ++k) {
        Item fv; fv.kind = K_FLAGVAL; fv.opt = O_F; fv.form = nf.form; fv.sep = seps[k].name; fv.vcls = "1";
        fv.env = fv.arg = std::string(nf.txt) + seps[k].txt + "1"; add(fv, k == 0);
      }
      queries(O_F, nf);
    }
  }
  int_items(O_M, {{"alg:m", "canonical", 0, false}, {"ALG:M", "canonical-upper", 0, false}, {"meth", "synonym1", 0, false},
                  {"METH", "synonym1-upper", 0, false}, {"method", "synonym2", 0, false}, {"Method", "synonym2-mixed", 0, false}},
            false, 2);
  int_items(O_W, {{"pri:1:w", "wildcard-key1", "1", false}, {"pri:2:w", "wildcard-key2", "2", false},
                  {"pri_1_w", "wildcard-synonym-key1", "1", false}, {"wp1", "wildcard-synonym2-key1", "1", false},
                  {"wp2", "wildcard-synonym2-key2", "2", false}, {"PRI:1:W", "wildcard-key1-upper", "1", true}},
            false, 0);
  { // unknown names: plain, a synonym plus one letter, a wildcard near-miss
    const char* names[] = {"zz", "metho", "pri:1:x"};
    const char* forms[] = {"unknown-plain", "unknown-synonym-plus-letter", "unknown-wildcard-near-miss"};
    const char* tails[] = {"=1", "", " = 1", " 1"}; const char* tn[] = {"=", "none", "_=_", "_"};
    for (int i = 0; i < 3; ++i) for (int t = 0; t < 4; ++t) {
      Item it; it.kind = K_UNKNOWN; it.opt = O_NONE; it.form = forms[i]; it.sep = tn[t]; it.vcls = t == 1 ? "none" : "1";
      it.env = it.arg = std::string(names[i]) + tails[t]; add(it, t < 2);
    }
  }
  // reduced alphabet for the depth-3 family (every option, every name-form class, every item kind, every source text
  // flavour at least once; values thinned out)
  static const char* REDUCED[] = {
    "n=0", "n=-7", "n=42", "n=99999999999", "N=42", "N=0", "n=?", "n 42",
    "d=1.5", "d=-2e3", "d=1e400", "D=1.5", "D=-2e3", "d=?", "d = 1.5",
    "s=abc", "s='a b'", "s=\"q'q\"", "s=''", "s=?x", "s=r\xc3\xa9s.log", "s=run_{id}.log", "s=}{0}", "S=abc", "o:s='a b'", "O:S=abc", "ostr=\"q'q\"", "OSTR=''", "OSTR=abc", "s=?", "s 'a b'", "sb1=abc", "SB2=abc", "sf1=abc", "Sf2='a b'",
    "f", "F", "f=1", "f=?",
    "alg:m=0", "alg:m=-7", "alg:m=42", "alg:m=99999999999", "ALG:M=42", "meth=0", "METH=-7", "METH=42", "method=42", "method=-7",
    "Method=0", "meth=?", "meth 42",
    "pri:1:w=0", "pri:1:w=42", "pri:1:w=99999999999", "pri:2:w=42", "pri:2:w=-7", "pri_1_w=-7", "pri_1_w=42", "PRI:1:W=42",
    "pri:1:w=?", "pri_1_w 0", "wp1=42", "wp2=-7",
    "zz=1", "zz", "metho=1", "pri:1:x=1"};
  for (auto& it : ALPHA) it.reduced = false;
  for (const char* r : REDUCED) {
    bool found = false;
    for (auto& it : ALPHA) if (it.env == r) { it.reduced = found = true; }
    if (!found) { std::fprintf(stderr, "reduced item %s not in the alphabet\n", r); std::abort(); }
  }
  for (int i = 0; i < (int)ALPHA.size(); ++i) { FULL.push_back(i); if (ALPHA[i].reduced) RED.push_back(i); }
  if (ALPHA.size() > NBAD) { std::fprintf(stderr, "alphabet too large\n"); std::abort(); }
}

struct Step { int src; int item; };
struct Observed { State st; bool ret_ok = true; size_t nerr = 0; std::string threw, first_err; };

static void apply_exact(State& st, const Item& it) {
  switch (it.opt) {
    case O_N: st.n = it.iv; break;
    case O_D: st.d = it.dv; break;
    case O_S: st.s = it.sv; break;
    case O_F: st.f = true; break;
    case O_M: st.m = it.iv; break;
    case O_W: st.w[it.wkey] = it.iv; break;
    default: break;
  }
}
// reference model: fold the history in source order.  `mask` selects, for every error-or-exact item, the
// "set exactly" branch (bit set) or the "reported, unchanged" branch.
static bool reference(const std::vector<Step>& h, unsigned mask, State& st, bool& err, int stop_at_first_error = 0,
                      int* first_err_pos = nullptr) {
  st = State(); err = false; int bit = 0;
  for (size_t i = 0; i < h.size(); ++i) {
    const Item& it = ALPHA[h[i].item];
    bool this_err = false;
    switch (it.kind) {
      case K_SET: case K_FLAG: apply_exact(st, it); break;
      case K_QUERY: break;
      case K_FLAGVAL: case K_UNKNOWN: this_err = true; break;
      case K_RANGE: case K_WCASE:
        if (mask & (1u << bit)) { if (!it.exact_possible) return false; apply_exact(st, it); }
        else this_err = true;
        ++bit; break;
    }
    if (this_err) { err = true; if (first_err_pos && *first_err_pos < 0) *first_err_pos = (int)i; if (stop_at_first_error) return true; }
  }
  return true;
}
static int n_optional(const std::vector<Step>& h) {
  int k = 0; for (auto& s : h) if (ALPHA[s.item].kind == K_RANGE || ALPHA[s.item].kind == K_WCASE) ++k; return k;
}
static int n_definite_errors(const std::vector<Step>& h) {
  int k = 0; for (auto& s : h) if (ALPHA[s.item].kind == K_FLAGVAL || ALPHA[s.item].kind == K_UNKNOWN) ++k; return k;
}

struct Sources { std::string env[2]; bool has_env[2] = {false, false}; std::vector<std::string> argv; };
static Sources render(const std::vector<Step>& h) {
  Sources so;
  for (auto& s : h) {
    const Item& it = ALPHA[s.item];
    if (s.src < 2) { if (so.has_env[s.src]) so.env[s.src] += " "; so.env[s.src] += it.env; so.has_env[s.src] = true; }
    else so.argv.push_back(it.arg);
  }
  return so;
}
// run the real parser over the three sources
static Observed execute(VSolver& sv, const Sources& so, bool collecting, bool via_getters = true, bool echo = false) {
  Observed ob;
  sv.reset_values();
  char* envbuf[2] = {nullptr, nullptr};
  for (int e = 0; e < 2; ++e) {
    if (so.has_env[e]) { envbuf[e] = heap_copy(std::string(SRCNAME[e]) + "=" + so.env[e]); putenv(envbuf[e]); }
    else unsetenv(SRCNAME[e]);
  }
  std::vector<char*> argv;
  for (auto& a : so.argv) argv.push_back(heap_copy(a));
  argv.push_back(nullptr);
  try { ob.ret_ok = sv.ParseOptions(argv.data(), echo ? 0 : mp::BasicSolver::NO_OPTION_ECHO); }
  catch (const mp::OptionError& e) { ob.threw = std::string("mp::OptionError: ") + e.what(); }
  catch (const mp::Error& e) { ob.threw = std::string("mp::Error: ") + e.what(); }
  catch (const std::logic_error& e) { ob.threw = std::string("std::logic_error: ") + e.what(); }
  catch (const std::exception& e) { ob.threw = std::string("std::exception: ") + e.what(); }
  catch (...) { ob.threw = "non-std exception"; }
  for (int e = 0; e < 2; ++e) { unsetenv(SRCNAME[e]); std::free(envbuf[e]); }
  for (char* p : argv) std::free(p);
  ob.nerr = sv.eh.errs.size();
  if (collecting && ob.nerr) ob.first_err = sv.eh.errs[0];
  if (via_getters) { try { ob.st = sv.read(); } catch (const std::exception& e) { ob.threw += std::string(" | read-back threw: ") + e.what(); } }
  else ob.st = sv.vars();
  return ob;
}

static std::string history_json(const std::vector<Step>& h, const Sources& so, bool collecting) {
  std::string j = "{\"mp_options\":" + (so.has_env[0] ? jstr(so.env[0]) : std::string("null")) + ",\"c11solver_options\":" +
                  (so.has_env[1] ? jstr(so.env[1]) : std::string("null")) + ",\"argv\":[";
  for (size_t i = 0; i < so.argv.size(); ++i) j += (i ? "," : "") + jstr(so.argv[i]);
  j += "],\"error_handler\":\""; j += collecting ? "collecting" : "default (throws mp::Error)"; j += "\",\"items\":[";
  for (size_t i = 0; i < h.size(); ++i) j += (i ? "," : "") + jstr(std::string(SRCNAME[h[i].src]) + ": " + ALPHA[h[i].item].fine());
  return j + "]";
}
static std::string replay_json(const std::vector<Step>& h, bool collecting) {
  std::string j = std::string("{\"part\":\"A\",\"handler\":") + (collecting ? "0" : "1") + ",\"steps\":[";
  for (size_t i = 0; i < h.size(); ++i)
    j += (i ? "," : "") + ("[" + std::to_string(h[i].src) + "," + std::to_string(h[i].item) + "," + jstr(h[i].src < 2 ? ALPHA[h[i].item].env : ALPHA[h[i].item].arg) + "]");
  return j + "]}";
}
static std::string first_diff(const State& e, const State& o) {
  if (e.n != o.n) return "n"; if (!(e.d == o.d)) return "d"; if (e.s != o.s) return "s"; if (e.a != o.a) return "a";
  if (e.f != o.f) return "f"; if (e.m != o.m) return "alg:m"; if (e.w != o.w) return "pri:*:w"; return "";
}

// judge one history; returns "" when it conforms, else (kind, field) description.  exp_out = expectation shown
static std::string judge(const std::vector<Step>& h, const Observed& ob, bool collecting, State& exp_out, bool& exp_err) {
  if (collecting) {
    if (!ob.threw.empty()) {
      // With a collecting handler the definite errors (unknown name, value for a flag) go through ReportError and do
      // not throw.  An mp::OptionError/mp::Error thrown by a value parser is the documented way of rejecting a value
      // (cf. InvalidOptionValue): acceptable only for an error-or-exact item, with every earlier item applied and
      // nothing later applied.
      bool mp_err = ob.threw.compare(0, 9, "mp::Error") == 0 || ob.threw.compare(0, 15, "mp::OptionError") == 0;
      if (mp_err) {
        int bit = 0;
        for (size_t p = 0; p < h.size(); ++p) {
          Kind k = ALPHA[h[p].item].kind;
          if (k != K_RANGE && k != K_WCASE) continue;
          std::vector<Step> before(h.begin(), h.begin() + (long)p);
          for (unsigned mask = 0; mask < (1u << bit); ++mask) {
            State st; bool err;
            if (reference(before, mask, st, err) && st == ob.st) return "";
          }
          ++bit;
        }
      }
      reference(h, 0, exp_out, exp_err); return "exception escaped with a collecting error handler";
    }
    int r = n_optional(h);
    bool obs_err = ob.nerr > 0;
    if (obs_err == ob.ret_ok) { reference(h, 0, exp_out, exp_err); return "ParseOptions return value inconsistent with error handler calls"; }
    for (unsigned mask = 0; mask < (1u << r); ++mask) {
      State st; bool err;
      if (!reference(h, mask, st, err)) continue;
      if (st == ob.st && err == obs_err) return "";
    }
    reference(h, 0, exp_out, exp_err);
    std::string fd = first_diff(exp_out, ob.st);
    if (h.size() == 1 && ALPHA[h[0].item].kind == K_RANGE && ALPHA[h[0].item].opt != O_D && !obs_err) {
      const Item& it = ALPHA[h[0].item];   // an out-of-range integer was stored silently as something else
      long long got = it.opt == O_N ? ob.st.n : it.opt == O_M ? ob.st.m : (ob.st.w.count(it.wkey) ? ob.st.w.at(it.wkey) : -1);
      return "RANGE:" + std::string(OPTNAME[it.opt]) + ":" + std::to_string(got);
    }
    if (!fd.empty()) return "value-mismatch option=" + fd;
    return exp_err ? "error-not-reported" : "spurious-error";
  }
  // default handler: the first error item must surface as mp::Error; nothing after it is applied
  int pos = -1;
  reference(h, 0, exp_out, exp_err, 1, &pos);
  if (ob.threw.compare(0, 9, "mp::Error") != 0 && ob.threw.compare(0, 15, "mp::OptionError") != 0)
    return ob.threw.empty() ? "error-not-thrown-by-default-handler" : "unexpected exception type";
  std::string fd = first_diff(exp_out, ob.st);
  if (!fd.empty()) return "value-mismatch-after-throw option=" + fd;
  return "";
}

struct ACtx {
  VSolver reused{true};
  VSolver reused_throwing{false};
  std::set<std::string> states;
};

static void classify_history(const std::vector<Step>& h, const Observed& ob, bool collecting) {
  for (auto& s : h) {
    const Item& it = ALPHA[s.item];
    cls(std::string("A:") + it.coarse() + "/" + it.form + "/sep" + it.sep + "/" + SRCNAME[s.src] + (collecting ? "" : "/default-handler"));
  }
  // override shapes: two writes to the same option
  for (size_t i = 0; i < h.size(); ++i) for (size_t j = i + 1; j < h.size(); ++j) {
    const Item &a = ALPHA[h[i].item], &b = ALPHA[h[j].item];
    if (a.opt == b.opt && a.opt != O_NONE && (a.kind == K_SET || a.kind == K_FLAG) && (b.kind == K_SET || b.kind == K_FLAG))
      cls(std::string("A:override ") + OPTNAME[a.opt] + " " + SRCNAME[h[i].src] + "->" + SRCNAME[h[j].src]);
  }
  if (!ob.threw.empty()) cls("A:outcome threw " + ob.threw.substr(0, ob.threw.find(':')));
}

// run + judge one history; silent = learning pass (records failing singletons only)
static void run_history(ACtx& cx, const std::vector<Step>& h, bool full_family, bool silent) {
  Sources so = render(h);
  int ndef = n_definite_errors(h), nopt = n_optional(h);
  for (int mode = 0; mode < 2; ++mode) {
    bool collecting = mode == 0;
    if (!collecting && !(ndef > 0 && nopt == 0)) continue;
    shm->handler_mode = mode;
    VSolver& sv = collecting ? cx.reused : cx.reused_throwing;
    Observed ob = execute(sv, so, collecting, full_family);   // depth-3 family: stored variables; getters on replay
    State exp; bool exp_err = false;
    std::string bad = judge(h, ob, collecting, exp, exp_err);
    bool fresh_checked = false;
    if (full_family || !bad.empty()) {   // replay on a freshly constructed solver object
      VSolver fresh(collecting);
      // the fresh object additionally knows an executable path whose basename is not the solver name (as backends set it
      // from argv[0]); no <basename>_options variable exists, so <solver>_options must still be read
      fresh.set_exe_path("/opt/ampl/c11alt-10.2");
      // ... and echoes every assignment (into its own output handler): echoing must not change what is stored or reported
      Observed ob2 = execute(fresh, so, collecting, true, true);
      fresh_checked = true;
      if (!(ob2.st == ob.st) || ob2.nerr != ob.nerr || ob2.threw != ob.threw || ob2.ret_ok != ob.ret_ok) {
        if (!silent) {
          COUNT("A_reused_vs_fresh_object_divergence", 1);
          // parsing must not depend on what the same solver object parsed before (values are reset between histories): a
          // reused object that stores, reports or returns something else than a fresh one carries state from an earlier call
          std::string what = !(ob2.st == ob.st) ? "stored values" : ob2.nerr != ob.nerr ? "error reports" : ob2.threw != ob.threw ? "exception" : "return value";
          violation("history on a reused solver object differs from the same history on a fresh object in its " + what +
                    " (state carried over from an earlier ParseOptions call)",
                    history_json(h, so, collecting) + ",\"reused_returned_ok\":" + (ob.ret_ok ? "true" : "false") + ",\"fresh_returned_ok\":" +
                    (ob2.ret_ok ? "true" : "false") + ",\"reused_error_calls\":" + std::to_string(ob.nerr) + ",\"fresh_error_calls\":" +
                    std::to_string(ob2.nerr) + ",\"reused\":" + ob.st.json() + ",\"fresh\":" + ob2.st.json() + "}", replay_json(h, collecting));
        }
        ob = ob2; bad = judge(h, ob, collecting, exp, exp_err);
      }
    }
    if (silent) { if (!bad.empty() && h.size() == 1) shm->bad[h[0].src][h[0].item] = 1; continue; }
    COUNT("A_histories", 1); COUNT("A_assignments_parsed", (long long)h.size());
    if (fresh_checked) COUNT("A_histories_replayed_on_fresh_object", 1);
    if (!collecting) COUNT("A_histories_default_handler", 1);
    if (!(ob.st == State())) COUNT("A_histories_changed_an_option", 1);
    if (ob.nerr > 0 || !ob.threw.empty()) COUNT("A_histories_error_path", 1);
    if (nopt) COUNT("A_histories_with_error_or_exact_item", 1);
    { State st; bool e; reference(h, 0, st, e); if (cx.states.insert(st.json()).second) cls("state:" + st.json()); }
    classify_history(h, ob, collecting);
    if (bad.empty()) continue;
    bool explained = false;
    if (h.size() > 1) for (auto& s : h) if (shm->bad[s.src][s.item]) explained = true;
    if (explained) { COUNT("A_mismatches_explained_by_failing_single_assignment", 1); continue; }
    std::string sig;
    if (bad.compare(0, 6, "RANGE:") == 0) {
      const Item& it = ALPHA[h[0].item];
      sig = "history out-of-range integer text " + it.env.substr(it.env.find_last_of("= ") + 1) + " silently stored as " +
            bad.substr(bad.rfind(':') + 1) + " option=" + OPTNAME[it.opt] +
            (it.opt == O_N ? " (64-bit accessor, value representable)" : " (int accessor)") + " neither exact nor reported";
    } else if (h.size() == 1) {
      sig = "history single " + ALPHA[h[0].item].coarse() + "/" + ALPHA[h[0].item].form + " from " + SRCNAME[h[0].src] + ": " + bad +
            (collecting ? "" : " [default handler]");     // separator and value class are in the detail
    } else {
      sig = "history [";
      for (size_t i = 0; i < h.size(); ++i) sig += (i ? ", " : "") + std::string(SRCNAME[h[i].src]) + ":" + ALPHA[h[i].item].coarse();
      sig += "]: " + bad + (collecting ? "" : " [default handler]");
    }
    std::string detail = history_json(h, so, collecting) + ",\"expected\":" + exp.json() + ",\"expected_error\":" + (exp_err ? "true" : "false") +
                         ",\"observed\":" + ob.st.json() + ",\"observed_error_calls\":" + std::to_string(ob.nerr) + ",\"returned_ok\":" +
                         (ob.ret_ok ? "true" : "false") + ",\"threw\":" + jstr(ob.threw) + ",\"first_error\":" + jstr(ob.first_err) + "}";
    violation(sig, detail, replay_json(h, collecting));
  }
}

struct Entry { int family; std::vector<int> fixed; };   // family 0: depth<=2 over FULL (prefix [k,c0]); 1: depth 3 over RED (prefix [c0])

static std::vector<Step> decode_trace(int family, const std::vector<int>& tr) {
  std::vector<Step> h; const std::vector<int>& al = family == 0 ? FULL : RED; int A = (int)al.size();
  size_t p = 0; int k = 3;
  if (family == 0) { if (tr.empty()) return h; k = tr[p++]; }
  int prev = 0;
  for (int i = 0; i < k && p < tr.size(); ++i, ++p) { int c = tr[p]; int src = prev + c / A; h.push_back({src, al[c % A]}); prev = src; }
  return h;
}

static void explore_entry(ACtx& cx, const Entry& en, bool silent) {
  vx::Explorer ex;
  const std::vector<int>& al = en.family == 0 ? FULL : RED; const int A = (int)al.size();
  auto body = [&] {
    int k = en.family == 0 ? ex.choose(3, "len") : 3;
    std::vector<Step> h; int prev = 0;
    for (int i = 0; i < k; ++i) {
      int c = ex.choose((3 - prev) * A, "source*item");   // sources are non-decreasing: history order == source order
      int src = prev + c / A; h.push_back({src, al[c % A]}); prev = src;
    }
    shm->trace_len = (int)ex.trace.size();
    for (size_t i = 0; i < ex.trace.size() && i < MAXTRACE; ++i) shm->trace[i] = ex.trace[i].chosen;
    run_history(cx, h, en.family == 0, silent);
  };
  ex.prefix = en.fixed;
  static long long ticks = 0;
  for (;;) {
    tick(ticks);
    ex.trace.clear(); ex.pos = 0; body(); ++ex.executions;
    if (!ex.advance()) break;
    if (ex.prefix.size() < en.fixed.size() || !std::equal(en.fixed.begin(), en.fixed.end(), ex.prefix.begin())) break;
  }
  if (!silent) COUNT("A_explorer_choice_points", ex.choice_points);
}

static void handle_A_crash(const std::vector<Entry>& entries, long long at, const ChildResult& r, bool silent) {
  std::vector<int> tr; for (int i = 0; i < shm->trace_len && i < MAXTRACE; ++i) tr.push_back((int)shm->trace[i]);
  const Entry& en = entries[(size_t)at];
  std::vector<Step> h = decode_trace(en.family, tr);
  if (silent) { if (h.size() == 1) shm->bad[h[0].src][h[0].item] = 1; return; }
  COUNT("A_crashes", 1);
  bool explained = false;
  if (h.size() > 1) for (auto& s : h) if (shm->bad[s.src][s.item]) explained = true;
  if (explained) { COUNT("A_mismatches_explained_by_failing_single_assignment", 1); return; }
  std::string kind = crash_kind(r);
  std::string key = "KA:" + kind + ":" + (h.size() == 1 ? ALPHA[h[0].item].coarse() + ALPHA[h[0].item].form + SRCNAME[h[0].src] : std::to_string(h.size()));
  if (!shm_insert(key)) return;
  bool collecting = shm->handler_mode == 0;
  std::vector<std::string> args = {"--oneA", std::to_string(shm->handler_mode)};
  for (auto& s : h) { args.push_back(std::to_string(s.src)); args.push_back(std::to_string(s.item)); }
  ChildResult c = fresh_process(args);
  if (c.finished) { R.broken("part A crash not reproducible in a fresh process: " + kind); return; }
  std::string fn = top_function(c.err);
  Sources so = render(h);
  std::string sig = "history crash " + kind + " in " + fn + ": ";
  if (h.size() == 1) sig += "single " + ALPHA[h[0].item].coarse() + "/" + ALPHA[h[0].item].form + " from " + SRCNAME[h[0].src];
  else { sig += "["; for (size_t i = 0; i < h.size(); ++i) sig += (i ? ", " : "") + std::string(SRCNAME[h[i].src]) + ":" + ALPHA[h[i].item].coarse(); sig += "]"; }
  violation(sig, history_json(h, so, collecting) + ",\"report\":" + jstr(report_excerpt(c.err)) + "}", replay_json(h, collecting));
}

static void run_A_entries(const std::vector<Entry>& entries, bool silent) {
  long long cur = 0, n = (long long)entries.size();
  while (cur < n) {
    ChildResult r = in_child([&] {
      ACtx cx;
      for (long long e = cur; e < n; ++e) { shm->cursor = e; shm->trace_len = 0; explore_entry(cx, entries[(size_t)e], silent); }
    });
    if (r.finished) break;
    long long at = shm->cursor;
    handle_A_crash(entries, at, r, silent);
    if (!silent) { COUNT("A_subtrees_abandoned_after_crash", 1); }
    cur = at + 1;
  }
}

static void part_A() {
  const int AF = (int)FULL.size(), AR = (int)RED.size();
  // learning pass: every shard runs all single assignments silently to know which ones fail on their own
  std::vector<Entry> singles;
  for (int c0 = 0; c0 < 3 * AF; ++c0) singles.push_back({0, {1, c0}});
  run_A_entries(singles, true);
  std::vector<Entry> mine; long long idx = 0;
  auto offer = [&](Entry e) { if (S.mine(idx++)) mine.push_back(e); };
  offer({0, {0}});
  for (int k = 1; k <= 2; ++k) for (int c0 = 0; c0 < 3 * AF; ++c0) offer({0, {k, c0}});
  if (THOROUGH) for (int c0 = 0; c0 < 3 * AR; ++c0) offer({1, {c0}});
  long long before = shm->counters[counter_id("A_subtrees_abandoned_after_crash")];
  run_A_entries(mine, false);
  if (shm->counters[counter_id("A_subtrees_abandoned_after_crash")] > before)
    R.cap("part A: a crashing history ended the exploration of its subtree (reported as violation)");
}

// ================================================================================================
// Part B: totality over byte strings
// ================================================================================================
static const unsigned char BYTES[10] = {'a', '=', ' ', '\'', '"', '?', '0', '-', '.', 0x80};
static const char* PREFIX[] = {"", "n=", "s=", "s='", "d="};
enum { NPREFIX = 5, NMODE = 2 };
static const char* MODENAME[] = {"ParseOptionString(environment flavour)", "ParseOptions(argv element)"};
static int BLEN = 5;
static long long off_[9];
static std::vector<std::string> EXTRA;     // long-token family
static long long NSTR, NMAIN;

static void init_B() {
  off_[0] = 0; long long p = 1;
  for (int k = 0; k <= BLEN; ++k) { off_[k + 1] = off_[k] + p; p *= 10; }
  NSTR = off_[BLEN + 1]; NMAIN = NSTR * NPREFIX * NMODE;
  const int lens[] = {48, 49, 50, 51, 52, 100, 4096};
  for (int L : lens) {
    std::string a(L, 'a'), z(L, '0');
    for (const char* tail : {"", "=1", "=", " ", "='", "=?"}) EXTRA.push_back(a + tail);
    for (const char* head : {"n=", "d=", "s=", "s='", "s=\"", "a=", "a "}) { EXTRA.push_back(head + a); EXTRA.push_back(head + z); }
    EXTRA.push_back("n=-" + z); EXTRA.push_back("d=." + z); EXTRA.push_back("d=1e" + z); EXTRA.push_back(std::string(L, ' ') + "n=1");
    EXTRA.push_back("s='" + a + "'"); EXTRA.push_back(std::string(L, '\x80') + "=1"); EXTRA.push_back("pri:" + a + ":w=1");
  }
}
static std::string str_of(long long si) {
  int k = 0; while (si >= off_[k + 1]) ++k;
  long long r = si - off_[k]; std::string s((size_t)k, 'a');
  for (int i = k - 1; i >= 0; --i) { s[(size_t)i] = (char)BYTES[r % 10]; r /= 10; }
  return s;
}
struct BItem { int mode; std::string text; std::string pfx; };
static BItem b_item(long long idx) {
  if (idx < NMAIN) {
    int m = (int)(idx % NMODE); int p = (int)((idx / NMODE) % NPREFIX); long long si = idx / (NMODE * NPREFIX);
    return {m, std::string(PREFIX[p]) + str_of(si), PREFIX[p][0] ? PREFIX[p] : "(none)"};
  }
  long long e = idx - NMAIN; return {(int)(e % NMODE), EXTRA[(size_t)(e / NMODE)], "(long-token)"};
}
static bool b_mine(long long idx) { return idx < NMAIN ? S.mine(idx / (NMODE * NPREFIX)) : S.mine((idx - NMAIN) / NMODE); }
static long long b_end() { return NMAIN + (long long)EXTRA.size() * NMODE; }

// input class label: scanning left to right, an opening ' or " without a later partner
static bool has_unterminated_quote(const std::string& s) {
  for (size_t i = 0; i < s.size(); ++i)
    if (s[i] == '\'' || s[i] == '"') { size_t j = s.find(s[i], i + 1); if (j == std::string::npos) return true; i = j; }
  return false;
}
// ---- guard page: the string ends exactly at a PROT_NONE page, so the first byte read past the terminating NUL
// faults; the fault is caught and turned into an observation without losing the process (an over-read through a
// malloc copy is fatal under ASan and costs a fork; the unchanged tree over-reads for ~10% of the strings).
static char* g_page = nullptr; static const size_t PAGE = 4096, GUARD_SPAN = 2 * 4096;
static sigjmp_buf g_jb; static volatile sig_atomic_t g_armed = 0; static volatile unsigned long g_fault_pc = 0;
static void segv_handler(int, siginfo_t* si, void* uc) {
  char* addr = (char*)si->si_addr;
  if (g_armed && g_page && addr >= g_page + GUARD_SPAN && addr < g_page + GUARD_SPAN + PAGE) {
    g_fault_pc = (unsigned long)((ucontext_t*)uc)->uc_mcontext.gregs[REG_RIP]; g_armed = 0; siglongjmp(g_jb, 1);
  }
  signal(SIGSEGV, SIG_DFL);   // anything else: fault again and die -> isolated by the parent
}
static void guard_init() {
  g_page = (char*)mmap(nullptr, GUARD_SPAN + PAGE, PROT_READ | PROT_WRITE, MAP_PRIVATE | MAP_ANONYMOUS, -1, 0);
  if (g_page == MAP_FAILED || mprotect(g_page + GUARD_SPAN, PAGE, PROT_NONE)) { std::perror("guard"); std::abort(); }
  struct sigaction sa; std::memset(&sa, 0, sizeof sa); sa.sa_sigaction = segv_handler; sa.sa_flags = SA_SIGINFO | SA_NODEFER;
  sigaction(SIGSEGV, &sa, nullptr);
}
static char* guard_place(const std::string& s) {
  if (s.size() + 1 > GUARD_SPAN) return nullptr;
  char* p = g_page + GUARD_SPAN - (s.size() + 1);
  std::memcpy(p, s.data(), s.size()); p[s.size()] = 0; return p;
}

// one parse of one option text; `buf` is the NUL-terminated text.  escaped = exception that left the parser
static std::string parse_text(VSolver& sv, int mode, char* buf) {
  std::string esc;
  try {
    if (mode == 0) { sv.has_errors_ = false; sv.ParseOptionString(buf, 0); }
    else { char* argv[2] = {buf, nullptr}; sv.ParseOptions(argv, mp::BasicSolver::NO_OPTION_ECHO); }
  }
  catch (const mp::Error& e) { esc = std::string("mp::Error: ") + e.what(); }
  catch (const std::logic_error& e) { esc = std::string("std::logic_error: ") + e.what(); }
  catch (const std::exception& e) { esc = std::string("std::exception: ") + e.what(); }
  catch (...) { esc = "non-std exception"; }
  return esc;
}
// returns true when the parser read past the terminating NUL (guard page hit)
static bool overreads_past_nul(VSolver& sv, const BItem& it) {
  char* g = guard_place(it.text);
  if (!g) return false;
  sv.reset_values();
  if (sigsetjmp(g_jb, 1) == 0) { g_armed = 1; parse_text(sv, it.mode, g); g_armed = 0; return false; }
  return true;
}
static std::string run_B_one(VSolver& sv, const BItem& it, bool& any_error, bool& changed) {
  sv.reset_values();
  char* buf = heap_copy(it.text);
  std::string esc = parse_text(sv, it.mode, buf);
  std::free(buf);
  any_error = !sv.eh.errs.empty() || sv.has_errors_;
  changed = !(sv.vars() == State());
  return esc;
}
static void judge_B(const BItem& it, const std::string& esc, bool any_error, bool changed) {
  COUNT("B_strings", 1);
  bool q = it.text.find('\'') != std::string::npos || it.text.find('"') != std::string::npos;
  if (q) COUNT("B_strings_with_quote", 1);
  if (has_unterminated_quote(it.text)) COUNT("B_strings_with_unterminated_quote", 1);
  if (it.text.find('\x80') != std::string::npos) COUNT("B_strings_with_non_ascii", 1);
  if (any_error || !esc.empty()) COUNT("B_strings_error_path", 1);
  if (changed) COUNT("B_strings_changed_an_option", 1);
  std::string outcome;
  if (!esc.empty()) {
    bool ok = esc == "std::logic_error: Empty option name list" || esc.compare(0, 10, "mp::Error:") == 0;
    outcome = "escaped " + esc.substr(0, esc.find(':'));
    if (!ok)
      violation(std::string(it.mode == 0 ? "ParseOptionString" : "ParseOptions(argv)") + " undocumented exception escaped: " + esc.substr(0, 80),
                "{\"mode\":" + jstr(MODENAME[it.mode]) + ",\"text\":" + jstr(it.text) + "}",
                "{\"part\":\"B\",\"mode\":" + std::to_string(it.mode) + ",\"hex\":\"" + hex(it.text) + "\"}");
  } else outcome = std::string(any_error ? "errors-reported" : "no-error") + (changed ? "+option-changed" : "+unchanged");
  cls(std::string("B:") + (it.mode == 0 ? "env" : "argv") + "/prefix " + it.pfx + "/" + outcome + (q ? "/quote" : ""));
}
static void handle_B_crash(long long at, const std::string& kind0, bool forked) {
  BItem it = b_item(at);
  COUNT("B_strings", 1); COUNT(forked ? "B_crashes_isolated_by_fork" : "B_overreads_caught_by_guard_page", 1); COUNT("B_crashes", 1);
  if (it.text.find('\'') != std::string::npos || it.text.find('"') != std::string::npos) COUNT("B_strings_with_quote", 1);
  bool hasq = it.text.find('\'') != std::string::npos || it.text.find('"') != std::string::npos;
  bool uq = has_unterminated_quote(it.text);
  if (!uq && hasq) {   // the parser starts a quoted value only at a value position: drop leading name characters
    for (size_t i = 0; i < it.text.size() && !uq; ++i) if (it.text[i] == '\'' || it.text[i] == '"') uq = has_unterminated_quote(it.text.substr(i + 1));
  }
  if (uq) { COUNT("B_strings_with_unterminated_quote", 1); COUNT("B_crashes_with_unterminated_quote", 1); }
  std::string kind = kind0;
  cls(std::string("B:") + (it.mode == 0 ? "env" : "argv") + "/prefix " + it.pfx + "/crash " + kind + (uq ? "/unterminated-quote" : hasq ? "/paired-quotes" : "/no-quote"));
  std::string key = "KB:" + std::to_string(it.mode) + kind + (uq ? "U" : hasq ? "P" : "N");
  if (!shm_insert(key)) return;
  ChildResult c = fresh_process({"--oneB", std::to_string(it.mode), hex(it.text)});   // malloc(len+1) copy, symbolizing ASan
  if (c.finished) { R.broken("part B crash not reproducible in a fresh process: " + kind + " text=" + hex(it.text)); return; }
  std::string fn = top_function(c.err);
  if (!forked) kind = crash_kind(c);
  std::string sig = std::string(it.mode == 0 ? "ParseOptionString" : "ParseOptions(argv)") + " " + kind + " in " + fn + " on " +
                    (uq ? "option text with an unterminated quote" : hasq ? "option text with quotes (all paired left to right)" : "option text without quote characters");
  violation(sig, "{\"mode\":" + jstr(MODENAME[it.mode]) + ",\"text\":" + jstr(it.text) + ",\"hex\":\"" + hex(it.text) + "\",\"report\":" +
            jstr(report_excerpt(c.err)) + "}",
            "{\"part\":\"B\",\"mode\":" + std::to_string(it.mode) + ",\"hex\":\"" + hex(it.text) + "\"}");
}
static void part_B() {
  long long end = b_end(), cur = 0;
  while (cur < end && !b_mine(cur)) ++cur;
  while (cur < end) {
    ChildResult r = in_child([&] {
      VSolver sv(true); long long ticks = 0;
      guard_init();
      for (long long i = cur; i < end; ++i) {
        if (!b_mine(i)) continue;
        tick(ticks);
        shm->cursor = i;
        BItem it = b_item(i); bool any_error = false, changed = false;
        if (overreads_past_nul(sv, it)) { handle_B_crash(i, "over-read past the terminating NUL", false); continue; }
        std::string esc = run_B_one(sv, it, any_error, changed);
        judge_B(it, esc, any_error, changed);
      }
    });
    if (r.finished) break;
    long long at = shm->cursor;
    handle_B_crash(at, crash_kind(r), true);
    cur = at + 1;
    while (cur < end && !b_mine(cur)) ++cur;
  }
}

// ================================================================================================
// Part C: command-line switches
// ================================================================================================
static const char* TOK[13] = {"-v", "-=", "-e", "-s", "-!", "-c", "-?", "--", "-x", "-ss", "stub", "-AMPL", "n=1"};
struct CExpect { bool throws = false; std::string bad_arg; bool null_ret = false; std::string stub; bool echo = true; int wantsol = 0;
                 bool ampl = false; size_t rest = 0; bool printed = false; };
// reference table (from the usage text: "-? show usage and exit", "-- end of options", "-= show solver options and exit",
// "-! show solve result codes", "-e suppress echoing of assignments", "-s write .sol file (without -AMPL)",
// "-v show version and exit", "-c show constraint descriptions and exit"; usage: solver [options] stub [-AMPL] [<assignment> ...])
static CExpect c_reference(const std::vector<std::string>& t) {
  CExpect e; size_t i = 0; bool ended = false;
  while (i < t.size() && t[i][0] == '-') {
    const std::string& a = t[i]; ++i;
    if (a == "-e") e.echo = false;
    else if (a == "-s") e.wantsol = 1;
    else if (a == "--") { ended = true; break; }
    else if (a == "-v" || a == "-=" || a == "-!" || a == "-c" || a == "-?") { e.null_ret = true; e.printed = true; e.rest = i; return e; }
    else { e.throws = true; e.bad_arg = a; return e; }
  }
  (void)ended;
  if (i >= t.size()) { e.null_ret = true; e.printed = true; e.rest = i; return e; }   // no stub: usage
  e.stub = t[i++];
  if (i < t.size() && t[i] == "-AMPL") { e.ampl = true; e.wantsol = 1; ++i; }
  e.rest = i; return e;
}
static void run_C_one(const std::vector<int>& seq) {
  std::vector<std::string> t; for (int k : seq) t.push_back(TOK[k]);
  CExpect ex = c_reference(t);
  VSolver sv(true);
  mp::internal::SolverAppOptionParser parser(sv);
  std::vector<char*> argv; argv.push_back(heap_copy("c11solver"));
  for (auto& s : t) argv.push_back(heap_copy(s));
  argv.push_back(nullptr);
  char** av = argv.data(); const char* ret = nullptr; std::string threw, what;
  try { ret = parser.Parse(av); }
  catch (const mp::OptionError& e) { threw = "mp::OptionError"; what = e.what(); }
  catch (const std::exception& e) { threw = "std::exception"; what = e.what(); }
  catch (...) { threw = "non-std"; }
  COUNT("C_argv_sequences", 1);
  std::string bad;
  if (ex.throws) {
    if (threw != "mp::OptionError") bad = "invalid switch not reported as OptionError";
    else if (what.find("'" + ex.bad_arg + "'") == std::string::npos) bad = "OptionError does not name the invalid switch";
  } else if (!threw.empty()) bad = "unexpected exception " + threw;
  else {
    size_t rest = (size_t)(av - argv.data()) - 1;
    if (ex.null_ret != (ret == nullptr)) bad = "stop/continue decision";
    else if (!ex.null_ret && ex.stub != ret) bad = "stub";
    else if (ex.echo != parser.echo_solver_options()) bad = "echo flag (-e)";
    else if (ex.wantsol != sv.wantsol()) bad = "wantsol (-s/-AMPL)";
    else if (ex.ampl != sv.ampl_flag()) bad = "-AMPL flag";
    else if (!ex.null_ret && ex.rest != rest) bad = "position of remaining arguments";
    else if (ex.printed != (sv.oh.bytes > 0)) bad = "output produced";
    if (bad.empty() && !ex.null_ret) {   // the remaining arguments go to the solver option parser
      sv.oh.bytes = 0;
      bool ok = sv.ParseOptions(av, parser.echo_solver_options() ? 0 : mp::BasicSolver::NO_OPTION_ECHO);
      size_t nbad = 0; bool n1 = false;
      for (size_t i = ex.rest; i < t.size(); ++i) { if (t[i] == "n=1") n1 = true; else ++nbad; }
      if (ok != (nbad == 0)) bad = "remaining arguments: error flag";
      else if (sv.eh.errs.size() < nbad) bad = "remaining arguments: fewer errors than unknown names";
      else if (sv.n != (n1 ? 1 : State().n)) bad = "remaining arguments: n=1 not applied";
      else if (n1 && ex.echo != (sv.oh.bytes > 0)) bad = "remaining arguments: assignment echo does not follow -e";
    }
  }
  std::string outcome = ex.throws ? "invalid-switch-error" : ex.null_ret ? (ex.stub.empty() && !ex.printed ? "?" : "print-and-stop") : "stub-returned";
  cls(std::string("C:first=") + (t.empty() ? "(none)" : t[0]) + "/" + outcome + (ex.ampl ? "/-AMPL" : ""));
  if (!bad.empty()) {
    std::string a = "["; for (size_t i = 0; i < t.size(); ++i) a += (i ? "," : "") + jstr(t[i]); a += "]";
    violation("switch-parser mismatch: " + bad + " first-token=" + (t.empty() ? "(none)" : t[0]),
              "{\"argv\":" + a + ",\"threw\":" + jstr(threw + " " + what) + ",\"returned\":" + (ret ? jstr(ret) : std::string("null")) + "}",
              "{\"part\":\"C\",\"argv\":" + a + "}");
  }
}
static std::vector<std::vector<int>> c_space() {
  std::vector<std::vector<int>> all;
  vx::Explorer ex;
  ex.run_all([&] {
    int len = ex.choose(4, "argc"); std::vector<int> seq;
    for (int i = 0; i < len; ++i) seq.push_back(ex.choose(13, "token"));
    all.push_back(seq);
  });
  return all;
}
static void part_C() {
  std::vector<std::vector<int>> all = c_space();
  long long cur = 0, end = (long long)all.size();
  while (cur < end && !S.mine(cur)) ++cur;
  while (cur < end) {
    ChildResult r = in_child([&] {
      long long ticks = 0;
      for (long long i = cur; i < end; ++i) { if (!S.mine(i)) continue; tick(ticks); shm->cursor = i; run_C_one(all[(size_t)i]); }
    });
    if (r.finished) break;
    long long at = shm->cursor; COUNT("C_argv_sequences", 1); COUNT("C_crashes", 1);
    std::string a = "["; for (size_t i = 0; i < all[(size_t)at].size(); ++i) a += (i ? "," : "") + jstr(TOK[all[(size_t)at][i]]); a += "]";
    std::string kind = crash_kind(r);
    if (shm_insert("KC:" + kind)) {
      std::vector<std::string> args = {"--oneC"}; for (int k : all[(size_t)at]) args.push_back(std::to_string(k));
      ChildResult c = fresh_process(args);
      violation("switch-parser crash " + kind + " in " + top_function(c.err), "{\"argv\":" + a + ",\"report\":" + jstr(report_excerpt(c.err)) + "}",
                "{\"part\":\"C\",\"argv\":" + a + "}");
    }
    cur = at + 1; while (cur < end && !S.mine(cur)) ++cur;
  }
}

// ================================================================================================
// self-test of the oracle: a deliberately wrong expectation must be rejected, a right one accepted
// ================================================================================================
static void selftest() {
  auto find = [&](const char* env) { for (int i = 0; i < (int)ALPHA.size(); ++i) if (ALPHA[i].env == env) return i; std::abort(); return -1; };
  VSolver sv(true);
  std::vector<Step> h = {{0, find("n=42")}, {2, find("meth -7")}};
  Observed ob = execute(sv, render(h), true);
  State exp; bool ee;
  if (!judge(h, ob, true, exp, ee).empty()) R.broken("self-test: conforming history n=42 / meth -7 rejected: " + ob.st.json());
  if (ob.st.n != 42 || ob.st.m != -7) R.broken("self-test: read-back does not see the parsed values");
  std::vector<Step> wrong = {{0, find("n=0")}, {2, find("meth -7")}};       // expectation n=0 against observation n=42
  if (judge(wrong, ob, true, exp, ee).empty()) R.broken("self-test: wrong expected value was accepted by the oracle");
  std::vector<Step> werr = {{0, find("n=42")}, {2, find("meth -7")}, {2, find("zz=1")}};   // expects an error that did not happen
  if (judge(werr, ob, true, exp, ee).empty()) R.broken("self-test: missing error was accepted by the oracle");
  CExpect ce = c_reference({"-e", "--", "-v", "-AMPL", "n=1"});
  if (ce.stub != "-v" || !ce.ampl || ce.echo || ce.rest != 4) R.broken("self-test: switch reference table");
  if (!has_unterminated_quote("s='abc") || has_unterminated_quote("s='a' \"\"")) R.broken("self-test: quote classifier");
}

int main(int argc, char** argv) {
  S.parse(argc, argv);
  if (const char* t = vx::arg_value(argc, argv, "--tier")) THOROUGH = !std::strcmp(t, "thorough");
  BLEN = THOROUGH ? 6 : 5;
  shm = (Shm*)mmap(nullptr, sizeof(Shm), PROT_READ | PROT_WRITE, MAP_SHARED | MAP_ANONYMOUS, -1, 0);
  if (shm == MAP_FAILED) { std::perror("mmap"); return 2; }
  build_alphabet(); init_B();
  for (const char* v : {"mp_options", "c11solver_options"}) unsetenv(v);

  // ---- single-case replays (fresh process; sanitizer report goes to stderr)
  for (int a = 1; a < argc; ++a) {
    if (!std::strcmp(argv[a], "--oneA") || !std::strcmp(argv[a], "--oneAtext")) {
      // --oneA mode (src item-index)...   internal, same binary;   --oneAtext mode (src hex-text)...   replay files
      bool by_text = argv[a][6] == 't';
      int mode = std::atoi(argv[a + 1]); std::vector<Step> h;
      for (int k = a + 2; k + 1 < argc; k += 2) {
        int src = std::atoi(argv[k]), item = -1;
        if (!by_text) item = std::atoi(argv[k + 1]);
        else { std::string t = unhex(argv[k + 1]); for (int i = 0; i < (int)ALPHA.size(); ++i) if ((src < 2 ? ALPHA[i].env : ALPHA[i].arg) == t) { item = i; break; } }
        if (item < 0 || item >= (int)ALPHA.size() || src < 0 || src > 2) { std::printf("{\"type\":\"broken\",\"why\":\"replay item not in the alphabet\"}\n"); return 2; }
        h.push_back({src, item});
      }
      ACtx cx; State exp; bool ee;
      VSolver sv(mode == 0); Sources so = render(h); Observed ob = execute(sv, so, mode == 0);
      std::string bad = judge(h, ob, mode == 0, exp, ee);
      if (bad.empty()) reference(h, 0, exp, ee, mode != 0);
      std::printf("%s,\"observed\":%s,\"expected\":%s,\"errors\":%zu,\"threw\":%s,\"verdict\":%s}\n", history_json(h, so, mode == 0).c_str(),
                  ob.st.json().c_str(), exp.json().c_str(), ob.nerr, jstr(ob.threw).c_str(), jstr(bad.empty() ? "conforms" : bad).c_str());
      if (!bad.empty()) std::printf("{\"type\":\"violation\",\"sig\":%s}\n", jstr(bad).c_str());
      return 0;
    }
    if (!std::strcmp(argv[a], "--oneB")) {
      BItem it{std::atoi(argv[a + 1]), unhex(argv[a + 2]), "(replay)"}; VSolver sv(true); bool e = false, c = false;
      std::string esc = run_B_one(sv, it, e, c);
      std::printf("{\"text\":%s,\"escaped\":%s,\"errors\":%s,\"changed\":%s}\n", jstr(it.text).c_str(), jstr(esc).c_str(), e ? "true" : "false", c ? "true" : "false");
      bool ok = esc.empty() || esc == "std::logic_error: Empty option name list" || esc.compare(0, 10, "mp::Error:") == 0;
      if (!ok) std::printf("{\"type\":\"violation\",\"sig\":%s}\n", jstr(esc).c_str());
      return 0;
    }
    if (!std::strcmp(argv[a], "--oneC")) {
      std::vector<int> seq; for (int k = a + 1; k < argc; ++k) seq.push_back(std::atoi(argv[k]));
      run_C_one(seq); std::printf("{\"type\":\"done\"}\n"); return 0;
    }
    if (!std::strcmp(argv[a], "--alphabet")) {
      for (size_t i = 0; i < ALPHA.size(); ++i) std::printf("%zu\t%s\t%s\t[%s]\t[%s]\n", i, ALPHA[i].reduced ? "R" : "-", ALPHA[i].fine().c_str(), ALPHA[i].env.c_str(), ALPHA[i].arg.c_str());
      return 0;
    }
  }

  // counters must exist before the first fork (ids are static in the COUNT macro, resolved per call site)
  for (const char* c : {"violating_executions", "A_histories", "A_assignments_parsed", "A_histories_replayed_on_fresh_object",
                        "A_histories_default_handler", "A_histories_changed_an_option", "A_histories_error_path",
                        "A_histories_with_error_or_exact_item", "A_mismatches_explained_by_failing_single_assignment",
                        "A_reused_vs_fresh_object_divergence", "A_crashes", "A_subtrees_abandoned_after_crash", "A_explorer_choice_points",
                        "B_strings", "B_strings_with_quote", "B_strings_with_unterminated_quote", "B_strings_with_non_ascii",
                        "B_strings_error_path", "B_strings_changed_an_option", "B_crashes", "B_crashes_with_unterminated_quote",
                        "B_crashes_isolated_by_fork", "B_overreads_caught_by_guard_page",
                        "C_argv_sequences", "C_crashes"})
    counter_id(c);
  counters_frozen = true;

  selftest();
  auto cpu = [] { struct timespec a, b; clock_gettime(CLOCK_PROCESS_CPUTIME_ID, &a); struct rusage ru; getrusage(RUSAGE_CHILDREN, &ru);
                  (void)b; return a.tv_sec + a.tv_nsec * 1e-9 + ru.ru_utime.tv_sec + ru.ru_utime.tv_usec * 1e-6 + ru.ru_stime.tv_sec + ru.ru_stime.tv_usec * 1e-6; };
  double t0 = cpu(); part_A(); double t1 = cpu(); part_B(); double t2 = cpu(); part_C(); double t3 = cpu();
  std::fprintf(stderr, "[c11 shard %d] cpu seconds: histories %.1f  byte strings %.1f  switches %.1f\n", S.i, t1 - t0, t2 - t1, t3 - t2);

  for (int i = 0; i < ncnames; ++i) R.stats[CNAMES[i]] = shm->counters[i];
  R.stats["A_alphabet_full"] = S.i == 0 ? (long long)FULL.size() : 0;
  R.stats["A_alphabet_reduced"] = S.i == 0 ? (long long)RED.size() : 0;
  R.stats["B_long_token_strings"] = S.i == 0 ? (long long)EXTRA.size() : 0;
  for (int i = 0; i < SETCAP; ++i) if (shm->set[i][0] == 'C' && shm->set[i][1] == ':') R.classes.insert(shm->set[i] + 2);
  if (S.i == 0) {   // samples are members of the explored space, rendered from the same tables
    R.sample_cap = 8;
    auto find = [&](const char* env) { for (int i = 0; i < (int)ALPHA.size(); ++i) if (ALPHA[i].env == env) return i; std::abort(); return -1; };
    std::vector<std::vector<Step>> hs = {{{0, find("n=42")}, {2, find("N 0")}}, {{1, find("s = 'a b'")}, {2, find("OSTR=\"q'q\"")}},
                                         {{0, find("pri:1:w=42")}, {2, find("zz=1")}}, {{1, find("f=1")}, {1, find("METH -7")}}};
    for (auto& h : hs) { State st; bool e; reference(h, 0, st, e); R.sample(history_json(h, render(h), true) + ",\"expected\":" + st.json() + ",\"expected_error\":" + (e ? "true" : "false") + "}"); }
    for (long long idx : {(long long)(off_[3] + 317) * NPREFIX * NMODE + 3 * NMODE, (long long)(off_[4] + 9041) * NPREFIX * NMODE + 1})
      { BItem it = b_item(idx); R.sample("{\"totality\":" + jstr(it.text) + ",\"via\":" + jstr(MODENAME[it.mode]) + "}"); }
    R.sample("{\"switches\":[\"-e\",\"stub\",\"-AMPL\"],\"expect\":\"stub returned, -AMPL flag, wantsol=1, echo off\"}");
  }
  R.done();
  return 0;
}
