// Point-wise equivalence judge (separate TU so it can be optimised; see flatsrv.cc).
#include <sstream>
#include <iostream>
#include "aux_search.h"
#include "explore.h"
namespace { 
std::string num(double v) {
  if (std::isnan(v)) return "\"nan\"";
  if (std::isinf(v)) return v > 0 ? "1e999" : "-1e999";
  char b[40]; std::snprintf(b, sizeof b, "%.17g", v); return b;
}
std::string jvec(const std::vector<double>& v) { std::string s = "["; for (size_t i = 0; i < v.size(); ++i) { if (i) s += ","; s += num(v[i]); } return s + "]"; }
std::vector<double> parse_dvec(const std::string& s) {
  std::vector<double> v; if (s.empty()) return v;
  std::stringstream ss(s); std::string t;
  while (std::getline(ss, t, ',')) v.push_back(std::strtod(t.c_str(), nullptr));
  return v;
}
}
//   pts=<x0,x1,..|f|obj;...>   f in {0,1}; obj = number or '-'
std::string run_judge(const std::string& vars, const std::vector<std::string>& objs,
                      const std::vector<std::string>& cons, int norig, const std::string& pts) {
  std::ostringstream o;
  try {
    ax::Delivered D(vars, objs, cons, norig);
    bool has_aux = D.nv() > norig;
    std::stringstream ss(pts); std::string rec; long nfeas = 0, ninf = 0; bool done = false;
    while (!done && std::getline(ss, rec, ';')) {
      auto p1 = rec.find('|'), p2 = rec.find('|', p1 + 1);
      std::vector<double> p = parse_dvec(rec.substr(0, p1));
      bool f = rec[p1 + 1] == '1'; std::string os = rec.substr(p2 + 1);
      bool have_obj = os != "-"; double ov = have_obj ? std::strtod(os.c_str(), nullptr) : 0;
      if (f) ++nfeas; else ++ninf;
      ax::SearchOut r = D.search(p, f && have_obj);
      auto wit = [&]() { std::string w = "{"; bool first = true;
        for (size_t i = 0; i < r.wit.size(); ++i) if (r.wit_known[i]) { w += (first ? "\"" : ",\"") + std::to_string(i) + "\":" + num(r.wit[i]); first = false; }
        return w + "}"; };
      if (r.found != f) {
        o << "{\"verdict\":\"violation\",\"kind\":\"feasibility nl=" << (f ? "True" : "False") << " delivered=" << (r.found ? "True" : "False")
          << "\",\"point\":" << jvec(p) << ",\"witness\":" << (r.found ? wit() : "null") << "}";
        done = true; break;
      }
      if (f && have_obj && r.has_best && std::fabs(r.best - ov) > 1e-6 * std::max(1.0, std::fabs(ov))) {
        o << "{\"verdict\":\"violation\",\"kind\":\"objective\",\"point\":" << jvec(p) << ",\"nl_obj\":" << num(ov)
          << ",\"delivered_best\":" << num(r.best) << "}";
        done = true; break;
      }
    }
    if (!done)
      o << "{\"verdict\":\"ok\",\"nfeas\":" << nfeas << ",\"ninf\":" << ninf << ",\"has_aux\":" << (has_aux ? "true" : "false")
        << ",\"nontrivial\":" << ((has_aux && nfeas && ninf) ? "true" : "false") << "}";
  } catch (const ax::LPFMDisagree& u) {
    o.str(""); o << "{\"verdict\":\"oracle-internal\",\"why\":\"" << vx::jesc(u.what()) << "\"}";
  } catch (const ax::Undecided& u) {
    o.str(""); o << "{\"verdict\":\"undecided\",\"why\":\"" << vx::jesc(u.what()) << "\"}";
  } catch (const std::exception& e) {
    o.str(""); o << "{\"verdict\":\"undecided\",\"why\":\"oracle exception: " << vx::jesc(e.what()) << "\"}";
  }
  return o.str();
}
