// flatsrv: in-process server around the real NL reader + ProblemFlattener + MIPFlatConverter with
// the recording RecAPI.  One request per stdin line:  op<TAB>key=value<TAB>...   (values use
// \n \t \\ escapes); one JSON object per stdout line as the answer.
//
//   convert   nl=<NL text> opts=<option string> acc=<default=L;Type=L;...;quadobj=N;...>
//             -> {"status":"ok"|"exc", "msg", "warnings", "vars", "objs", "cons", "seen", ...}
//             the converted instance stays alive for the following ops
//   presolve / postsolve  kind=Solution|Basis|IIS|LazyUserCutFlags|GenericInt|GenericDbl
//             vars=<v,v,..>  cons=<group:v,v;group:v,..>  objs=<v,..>
//             -> {"vars":[..],"cons":{"g":[..]},"objs":[..]}
//   check     x=<v,..> objs=<v,..> infeas=0|1  -> {"ok":bool,"exc":..,"warnings":..}
//   info      -> sizes of the NL model and delivered model
#include <iostream>
#include <sstream>
#include <fstream>
#include <memory>
#include "mp/flat/redef/MIP/converter_mip.h"
#include "mp/flat/problem_flattener.h"
#include "mp/nl-reader.h"
#include "rec_api.h"

using Cvt = mp::FlatCvtImpl<mp::MIPFlatConverter, RecAPI>;
using Flt = mp::ProblemFltImpl<mp::ProblemFlattener, mp::Problem, Cvt>;

struct Quiet : mp::OutputHandler {
  std::string buf;
  void HandleOutput(fmt::CStringRef s) override { buf += s.c_str(); }
};

static std::string unesc(const std::string& s) {
  std::string r;
  for (size_t i = 0; i < s.size(); ++i) {
    if (s[i] == '\\' && i + 1 < s.size()) {
      char c = s[++i];
      r += c == 'n' ? '\n' : c == 't' ? '\t' : c;
    } else r += s[i];
  }
  return r;
}
static std::map<std::string, std::string> parse_req(const std::string& line, std::string& op) {
  std::map<std::string, std::string> kv;
  std::stringstream ss(line); std::string f; bool first = true;
  while (std::getline(ss, f, '\t')) {
    if (first) { op = f; first = false; continue; }
    auto e = f.find('=');
    if (e == std::string::npos) continue;
    kv[f.substr(0, e)] = unesc(f.substr(e + 1));
  }
  return kv;
}
static std::vector<double> parse_dvec(const std::string& s) {
  std::vector<double> v; if (s.empty()) return v;
  std::stringstream ss(s); std::string t;
  while (std::getline(ss, t, ',')) {
    if (t == "inf") v.push_back(INFINITY); else if (t == "-inf") v.push_back(-INFINITY);
    else if (t == "nan") v.push_back(NAN); else v.push_back(std::strtod(t.c_str(), nullptr));
  }
  return v;
}
static std::map<int, std::vector<double>> parse_dmap(const std::string& s) {
  std::map<int, std::vector<double>> m; if (s.empty()) return m;
  std::stringstream ss(s); std::string t;
  while (std::getline(ss, t, ';')) {
    auto c = t.find(':'); if (c == std::string::npos) continue;
    m[std::atoi(t.substr(0, c).c_str())] = parse_dvec(t.substr(c + 1));
  }
  return m;
}
template <class V> static std::string jvec(const V& v) {
  std::string s = "[";
  bool f = true;
  for (auto x : v) { if (!f) s += ","; f = false; s += vf::num((double)x); }
  return s + "]";
}
template <class MV> static std::string jmv(const MV& mv) {
  auto one = [](const auto& vm) {
    std::string s = "{"; bool f = true;
    for (const auto& kv : vm.GetMap()) {
      if (!f) s += ","; f = false;
      s += "\"" + std::to_string(kv.first) + "\":" + jvec(kv.second);
    }
    return s + "}";
  };
  return "{\"vars\":" + one(mv.GetVarValues()) + ",\"cons\":" + one(mv.GetConValues()) +
         ",\"objs\":" + one(mv.GetObjValues()) + "}";
}

struct Instance {
  mp::BasicSolver env;
  Quiet q;
  std::unique_ptr<Flt> flt;
  bool converted = false;
};
static std::unique_ptr<Instance> g_inst;

static void set_acc(const std::string& acc) {
  vf::acc().clear();
  auto& S = vf::st();
  S.dflt = 0; S.quadobj = 0; S.nonconvexqc = 0; S.mixconic = 0; S.socpcorner = 0;
  std::stringstream ss(acc); std::string kv;
  while (std::getline(ss, kv, ';')) {
    auto e = kv.rfind('='); if (e == std::string::npos) continue;
    auto k = kv.substr(0, e); int v = std::atoi(kv.substr(e + 1).c_str());
    if (k == "default") S.dflt = v; else if (k == "quadobj") S.quadobj = v;
    else if (k == "nonconvexqc") S.nonconvexqc = v; else if (k == "mixconic") S.mixconic = v;
    else if (k == "socpcorner") S.socpcorner = v; else vf::acc()[k] = v;
  }
}

static void do_convert(std::map<std::string, std::string>& kv) {
  set_acc(kv["acc"]);
  vf::st().reset_record();
  g_inst.reset(new Instance);
  Instance& I = *g_inst;
  std::string status = "ok", msg, warnings, exctype; int exitcode = 0;
  try {
    I.env.set_output_handler(&I.q);
    I.flt.reset(new Flt(I.env));
    I.flt->InitOptions();
    if (!kv["opts"].empty()) {
      I.env.has_errors_ = false;
      I.env.ParseOptionString(kv["opts"].c_str(), mp::BasicSolver::NO_OPTION_ECHO);
      if (I.env.has_errors_) { status = "optionerror"; }
    }
    if (status == "ok") {
      mp::ReadNLString(kv["nl"], I.flt->GetModel(), "(input)");
      I.flt->ConvertModel();
      I.converted = true;
    }
    warnings = I.env.GetWarnings();
  } catch (const mp::ReadError& e) {
    status = "readerror"; msg = e.what(); exctype = "mp::ReadError";
  } catch (const mp::Error& e) {
    status = "exc"; msg = e.what(); exctype = "mp::Error"; exitcode = e.exit_code();
  } catch (const std::exception& e) {
    status = "exc"; msg = e.what(); exctype = "std::exception";
  }
  auto& S = vf::st();
  std::ostringstream o;
  o << "{\"status\":\"" << status << "\",\"msg\":\"" << vx::jesc(msg) << "\",\"exctype\":\"" << exctype
    << "\",\"exit_code\":" << exitcode << ",\"warnings\":\"" << vx::jesc(warnings) << "\",\"output\":\""
    << vx::jesc(I.q.buf) << "\",\"vars\":" << S.vars << ",\"objs\":[";
  for (size_t i = 0; i < S.objs.size(); ++i) o << (i ? "," : "") << (S.objs[i].empty() ? "null" : S.objs[i]);
  o << "],\"cons\":[";
  for (size_t i = 0; i < S.cons.size(); ++i) o << (i ? "," : "") << S.cons[i];
  o << "],\"seen\":{";
  { bool f = true; for (auto& s : S.seen) { o << (f ? "" : ",") << "\"" << vx::jesc(s.first) << "\":" << s.second; f = false; } }
  o << "}";
  if (I.flt) {   // constraint types ever stored in a keeper (also after a refusal)
    o << ",\"stored\":{";
    bool f = true;
    for (auto& ck : I.flt->GetFlatCvt().GetModel().con_keepers_) {
      auto n = ck.second.GetValueNode().Size();
      if (!n) continue;
      o << (f ? "" : ",") << "\"" << vx::jesc(ck.second.GetConstraintName()) << "\":{\"n\":" << n
        << ",\"acc\":" << ck.second.acceptance_level_ << ",\"addable\":" << ck.second.GetNumberOfAddable()
        << ",\"short\":\"" << vx::jesc(ck.second.GetShortTypeName()) << "\",\"opt\":\""
        << vx::jesc(ck.second.GetAcceptanceOptionNames()) << "\",\"tn\":\""
        << vx::jesc(vf::typeid2tn()[ck.second.GetTypeInfo().name()]) << "\"}";
      f = false;
    }
    o << "}";
  }
  if (I.converted) {
    auto& P = I.flt->GetModel();
    o << ",\"nl\":{\"vars\":" << P.num_vars() << ",\"algcons\":" << P.num_algebraic_cons()
      << ",\"logcons\":" << P.num_logical_cons() << ",\"objs\":" << P.num_objs() << "}";
  }
  o << "}";
  std::cout << o.str() << std::endl;
}

template <class El, class F>
static void run_prepost(std::map<std::string, std::string>& kv, F f) {
  using MV = mp::pre::MVOverEl<El>;
  using VM = mp::pre::VMapOverElement<El>;
  auto tovec = [](const std::vector<double>& d) { std::vector<El> v; for (double x : d) v.push_back((El)x); return v; };
  std::map<int, std::vector<El>> vars, cons, objs;
  if (kv.count("vars")) vars[0] = tovec(parse_dvec(kv["vars"]));
  for (auto& g : parse_dmap(kv["cons"])) cons[g.first] = tovec(g.second);
  if (kv.count("objs")) objs[0] = tovec(parse_dvec(kv["objs"]));
  MV in{VM{typename VM::MapType(vars.begin(), vars.end())}, VM{typename VM::MapType(cons.begin(), cons.end())},
        VM{typename VM::MapType(objs.begin(), objs.end())}};
  std::string status = "ok", msg;
  std::string out = "null";
  try {
    MV res = f(in);
    out = jmv(res);
  } catch (const std::exception& e) { status = "exc"; msg = e.what(); }
  std::cout << "{\"status\":\"" << status << "\",\"msg\":\"" << vx::jesc(msg) << "\",\"res\":" << out << "}" << std::endl;
}

static void do_prepost(const std::string& op, std::map<std::string, std::string>& kv) {
  if (!g_inst || !g_inst->converted) { std::cout << "{\"status\":\"noinstance\"}" << std::endl; return; }
  auto& vp = g_inst->flt->GetFlatCvt().GetValuePresolver();
  bool pre = op == "presolve";
  const std::string kind = kv["kind"];
#define KIND(name, El) \
  if (kind == #name) { run_prepost<El>(kv, [&](const mp::pre::MVOverEl<El>& mv) { \
      return pre ? vp.Presolve##name(mv) : vp.Postsolve##name(mv); }); return; }
  KIND(Solution, double) KIND(Basis, int) KIND(IIS, int) KIND(LazyUserCutFlags, int)
  KIND(GenericInt, int) KIND(GenericDbl, double)
  std::cout << "{\"status\":\"badkind\"}" << std::endl;
}

static void do_check(std::map<std::string, std::string>& kv) {
  if (!g_inst || !g_inst->converted) { std::cout << "{\"status\":\"noinstance\"}" << std::endl; return; }
  auto& cvt = g_inst->flt->GetFlatCvt();
  std::vector<double> x = parse_dvec(kv["x"]), obj = parse_dvec(kv["objs"]);
  bool infeas = kv["infeas"] == "1";
  std::string status = "ok", msg; bool ok = false; int code = 0;
  g_inst->env.GetWarnings();   // no way to clear; warnings key is replaced
  try {
    ok = cvt.CheckSolution(x, mp::pre::ValueMapDbl{}, obj, infeas ? (void*)1 : nullptr);
  } catch (const mp::Error& e) { status = "exc"; msg = e.what(); code = e.exit_code(); }
  catch (const std::exception& e) { status = "exc"; msg = e.what(); }
  std::cout << "{\"status\":\"" << status << "\",\"ok\":" << (ok ? "true" : "false") << ",\"code\":" << code
            << ",\"msg\":\"" << vx::jesc(msg) << "\",\"warnings\":\"" << vx::jesc(g_inst->env.GetWarnings())
            << "\"}" << std::endl;
}

std::string run_judge(const std::string& vars, const std::vector<std::string>& objs,
                      const std::vector<std::string>& cons, int norig, const std::string& pts);
static void do_judge(std::map<std::string, std::string>& kv) {
  auto& S = vf::st();
  std::cout << run_judge(S.vars, S.objs, S.cons, std::atoi(kv["norig"].c_str()), kv["pts"]) << std::endl;
}

int main() {
  std::ios::sync_with_stdio(false);
  mp::VerifExactJSONNumbers() = true;      // hook in mp/util-json-write.h: delivered numbers without rounding to 6 digits
  std::string line;
  while (std::getline(std::cin, line)) {
    std::string op; auto kv = parse_req(line, op);
    try {
      if (op == "convert") do_convert(kv);
      else if (op == "presolve" || op == "postsolve") do_prepost(op, kv);
      else if (op == "check") do_check(kv);
      else if (op == "judge") do_judge(kv);
      else if (op == "ping") std::cout << "{\"pong\":1}" << std::endl;
      else std::cout << "{\"status\":\"badop\"}" << std::endl;
    } catch (const std::exception& e) {
      std::cout << "{\"status\":\"server-exc\",\"msg\":\"" << vx::jesc(e.what()) << "\"}" << std::endl;
    } catch (...) {
      std::cout << "{\"status\":\"server-exc\",\"msg\":\"unknown\"}" << std::endl;
    }
  }
  return 0;
}
