// C03 recording NLHandler: turns every notification of mp::ReadNLFile into one transcript item.
// Expression values are strings built bottom-up from the callbacks (operator by operator).
#pragma once
#include <string>
#include <vector>
#include "mp/nl-reader.h"
#include "model.h"

namespace c03 {

class Recorder : public mp::NLHandler<Recorder, std::string> {
 public:
  std::vector<std::string> items;
  std::string common_lin;      // linear part of the common expression being read
  int common_nlin = 0;
  mp::NLHeader header;

  void OnUnhandled(const char* kind) { items.push_back(std::string("UNHANDLED ") + kind); }

  void OnHeader(const mp::NLHeader& h) { header = h; items.push_back(header_line(h)); }
  bool NeedObj(int) const { return true; }
  int resulting_obj_index(int i) const { return i; }

  void OnObj(int index, mp::obj::Type type, std::string expr) {
    items.push_back("O " + std::to_string(index) + " type=" + std::to_string((int)type) + " " + expr);
  }
  void OnAlgebraicCon(int index, std::string expr) { items.push_back("C " + std::to_string(index) + " " + expr); }
  void OnLogicalCon(int index, std::string expr) { items.push_back("L " + std::to_string(index) + " " + expr); }

  // One handler type for J/G/V linear parts.  It addresses its target through the recorder
  // (idx < 0: the pending common expression) because the reader copies handlers by value and
  // `items` may reallocate.
  struct LinearExprHandler {
    Recorder* r; long idx;
    void AddTerm(int var_index, double coef) {
      std::string& d = idx < 0 ? r->common_lin : r->items[(size_t)idx];
      d += " " + std::to_string(var_index) + "*" + numstr(coef);
    }
  };
  typedef LinearExprHandler LinearObjHandler;
  typedef LinearExprHandler LinearConHandler;

  LinearExprHandler BeginCommonExpr(int index, int num_linear_terms) {
    common_lin.clear(); common_nlin = num_linear_terms; (void)index;
    return LinearExprHandler{this, -1};
  }
  void EndCommonExpr(int index, std::string expr, int position) {
    items.push_back("V " + std::to_string(index) + " nlin=" + std::to_string(common_nlin) + ":" + common_lin +
                    " | " + expr + " | pos=" + std::to_string(position));
  }
  void OnComplementarity(int con_index, int var_index, mp::ComplInfo info) {
    int k = (info.con_ub() == INFINITY ? 1 : 0) | (info.con_lb() == -INFINITY ? 2 : 0);
    items.push_back("compl " + std::to_string(con_index) + " var=" + std::to_string(var_index) + " k=" + std::to_string(k));
  }
  LinearObjHandler OnLinearObjExpr(int obj_index, int n) {
    items.push_back("G " + std::to_string(obj_index) + " n=" + std::to_string(n) + ":");
    return LinearExprHandler{this, (long)items.size() - 1};
  }
  LinearConHandler OnLinearConExpr(int con_index, int n) {
    items.push_back("J " + std::to_string(con_index) + " n=" + std::to_string(n) + ":");
    return LinearExprHandler{this, (long)items.size() - 1};
  }

  void OnVarBounds(int index, double lb, double ub) {
    items.push_back("b " + std::to_string(index) + " " + bndstr(lb) + " " + bndstr(ub));
  }
  void OnConBounds(int index, double lb, double ub) {
    items.push_back("r " + std::to_string(index) + " " + bndstr(lb) + " " + bndstr(ub));
  }
  void OnInitialValue(int var_index, double value) { items.push_back("x " + std::to_string(var_index) + " " + numstr(value)); }
  void OnInitialDualValue(int con_index, double value) { items.push_back("d " + std::to_string(con_index) + " " + numstr(value)); }

  struct ColumnSizeHandler {
    Recorder* r; size_t idx;
    void Add(int size) { r->items[idx] += " " + std::to_string(size); }
  };
  ColumnSizeHandler OnColumnSizes() { items.push_back("k:"); return ColumnSizeHandler{this, items.size() - 1}; }

  static std::string sref(fmt::StringRef s) {
    return hstr(s.size() ? std::string(s.data(), s.size()) : std::string());
  }
  void OnFunction(int index, fmt::StringRef name, int num_args, mp::func::Type type) {
    items.push_back("F " + std::to_string(index) + " type=" + std::to_string((int)type) + " nargs=" +
                    std::to_string(num_args) + " " + sref(name));
  }
  struct IntSuffixHandler {
    Recorder* r; size_t idx;
    void SetValue(int index, int value) { r->items[idx] += " " + std::to_string(index) + "=" + std::to_string(value); }
  };
  struct DblSuffixHandler {
    Recorder* r; size_t idx;
    void SetValue(int index, double value) { r->items[idx] += " " + std::to_string(index) + "=" + numstr(value); }
  };
  IntSuffixHandler OnIntSuffix(fmt::StringRef name, mp::suf::Kind kind, int num_values) {
    items.push_back("S int kind=" + std::to_string((int)kind) + " " + sref(name) + " n=" + std::to_string(num_values) + ":");
    return IntSuffixHandler{this, items.size() - 1};
  }
  DblSuffixHandler OnDblSuffix(fmt::StringRef name, mp::suf::Kind kind, int num_values) {
    items.push_back("S dbl kind=" + std::to_string((int)kind) + " " + sref(name) + " n=" + std::to_string(num_values) + ":");
    return DblSuffixHandler{this, items.size() - 1};
  }

  // ---- expressions
  struct ArgHandler {
    std::string s; int n = 0;
    void AddArg(const std::string& a) { if (n++ > 0) s += ','; s += a; }
  };
  typedef ArgHandler NumericArgHandler, VarArgHandler, CallArgHandler, NumberOfArgHandler, CountArgHandler,
      LogicalArgHandler, PairwiseArgHandler, SymbolicArgHandler;

  std::string OnNumber(double value) { return "n(" + numstr(value) + ")"; }
  std::string OnVariableRef(int i) { return "v(" + std::to_string(i) + ")"; }
  std::string OnCommonExprRef(int i) { return "cv(" + std::to_string(i) + ")"; }
  std::string OnUnary(mp::expr::Kind k, std::string a) { return "u" + std::to_string((int)k) + "(" + a + ")"; }
  std::string OnBinary(mp::expr::Kind k, std::string a, std::string b) {
    return "b" + std::to_string((int)k) + "(" + a + "," + b + ")";
  }
  std::string OnIf(std::string c, std::string t, std::string e) { return "if(" + c + "," + t + "," + e + ")"; }

  struct PLTermHandler {
    std::string s;
    void AddSlope(double v) { s += "s:" + numstr(v) + ","; }
    void AddBreakpoint(double v) { s += "b:" + numstr(v) + ","; }
  };
  PLTermHandler BeginPLTerm(int num_breakpoints) { PLTermHandler h; h.s = "pl(" + std::to_string(num_breakpoints) + ";"; return h; }
  std::string EndPLTerm(PLTermHandler h, std::string arg) {
    if (!h.s.empty() && h.s.back() == ',') h.s.pop_back();
    return h.s + ";" + arg + ")";
  }
  static ArgHandler begin(const std::string& prefix) { ArgHandler h; h.s = prefix; return h; }
  CallArgHandler BeginCall(int f, int n) { return begin("f" + std::to_string(f) + "/" + std::to_string(n) + "("); }
  std::string EndCall(CallArgHandler h) { return h.s + ")"; }
  VarArgHandler BeginVarArg(mp::expr::Kind k, int n) { return begin("va" + std::to_string((int)k) + "/" + std::to_string(n) + "("); }
  std::string EndVarArg(VarArgHandler h) { return h.s + ")"; }
  NumericArgHandler BeginSum(int n) { return begin("sum/" + std::to_string(n) + "("); }
  std::string EndSum(NumericArgHandler h) { return h.s + ")"; }
  CountArgHandler BeginCount(int n) { return begin("count/" + std::to_string(n) + "("); }
  std::string EndCount(CountArgHandler h) { return h.s + ")"; }
  NumberOfArgHandler BeginNumberOf(int n, std::string arg0) {
    ArgHandler h = begin("nof/" + std::to_string(n) + "(" + arg0 + "|"); return h;
  }
  std::string EndNumberOf(NumberOfArgHandler h) { return h.s + ")"; }
  SymbolicArgHandler BeginSymbolicNumberOf(int n, std::string arg0) {
    ArgHandler h = begin("nofs/" + std::to_string(n) + "(" + arg0 + "|"); return h;
  }
  std::string EndSymbolicNumberOf(SymbolicArgHandler h) { return h.s + ")"; }
  std::string OnBool(bool v) { return v ? "bool(1)" : "bool(0)"; }
  std::string OnNot(std::string a) { return "not(" + a + ")"; }
  std::string OnBinaryLogical(mp::expr::Kind k, std::string a, std::string b) {
    return "bl" + std::to_string((int)k) + "(" + a + "," + b + ")";
  }
  std::string OnRelational(mp::expr::Kind k, std::string a, std::string b) {
    return "rel" + std::to_string((int)k) + "(" + a + "," + b + ")";
  }
  std::string OnLogicalCount(mp::expr::Kind k, std::string a, std::string b) {
    return "lc" + std::to_string((int)k) + "(" + a + "," + b + ")";
  }
  std::string OnImplication(std::string c, std::string t, std::string e) { return "impl(" + c + "," + t + "," + e + ")"; }
  LogicalArgHandler BeginIteratedLogical(mp::expr::Kind k, int n) {
    return begin("il" + std::to_string((int)k) + "/" + std::to_string(n) + "(");
  }
  std::string EndIteratedLogical(LogicalArgHandler h) { return h.s + ")"; }
  PairwiseArgHandler BeginPairwise(mp::expr::Kind k, int n) {
    return begin("pw" + std::to_string((int)k) + "/" + std::to_string(n) + "(");
  }
  std::string EndPairwise(PairwiseArgHandler h) { return h.s + ")"; }
  std::string OnString(fmt::StringRef v) { return sref(v); }
  std::string OnSymbolicIf(std::string c, std::string t, std::string e) { return "ifs(" + c + "," + t + "," + e + ")"; }
  void EndInput() { items.push_back("end"); }
};

}  // namespace c03
