// C03 reference operator table, written by hand from the NL specification ("Writing .nl
// Files", table of opcodes) -- deliberately NOT derived from nl-opcodes.h / expr-info.cc.
//   name      : the constant's name in nl-opcodes.h (what a feeder author writes)
//   w         : the writer-side constant (mp::nl::NAME), the only thing the feeder uses
//   spec_code : opcode number in the NL specification (documentation only)
//   kind      : the mp::expr::Kind enumerator the reader must report for this operator
//   cat       : which NLHandler callback family must deliver it, and its argument typing
#pragma once
#include "mp/common.h"
// NB: nl-opcodes.h has no include guard; this is the only place that includes it.
#include "mp/nl-opcodes.h"

namespace c03 {

enum Cat {
  UNARY,        // N -> N                 OnUnary
  BINARY,       // N,N -> N               OnBinary
  VARARG,       // N{>=1} -> N            BeginVarArg/EndVarArg
  SUMC,         // N{>=3} -> N            BeginSum/EndSum
  IFC,          // L,N,N -> N             OnIf
  PLC,          // slopes/breakpoints/ref OnPLTerm
  COUNTC,       // L{>=1} -> N(count)     BeginCount/EndCount
  NUMBEROFC,    // N{>=1} -> N            BeginNumberOf/EndNumberOf
  NUMBEROFSYMC, // S{>=1} -> N            BeginSymbolicNumberOf/...
  IFSYMC,       // L,S,S -> S             OnSymbolicIf (symbolic context only)
  BINLOG,       // L,L -> L               OnBinaryLogical
  REL,          // N,N -> L               OnRelational
  NOTC,         // L -> L                 OnNot
  LOGCOUNT,     // N,COUNT -> L           OnLogicalCount
  ITERLOG,      // L{>=3} -> L            BeginIteratedLogical/...
  IMPL,         // L,L,L -> L             OnImplication
  PAIRWISE      // N{>=1} -> L            BeginPairwise/EndPairwise
};

enum Ty { TN, TL, TS, TCOUNT };   // numeric, logical, symbolic, count-expression

struct OpRef {
  const char* name;
  const mp::nl::Opcode* w;
  int spec_code;
  mp::expr::Kind kind;
  Cat cat;
};

#define C03_OP(NAME, CODE, CAT) { #NAME, &mp::nl::NAME, CODE, mp::expr::NAME, CAT }
static const OpRef OPS[] = {
  C03_OP(ADD, 0, BINARY), C03_OP(SUB, 1, BINARY), C03_OP(MUL, 2, BINARY), C03_OP(DIV, 3, BINARY),
  C03_OP(MOD, 4, BINARY), C03_OP(POW, 5, BINARY), C03_OP(LESS, 6, BINARY),
  C03_OP(MIN, 11, VARARG), C03_OP(MAX, 12, VARARG),
  C03_OP(FLOOR, 13, UNARY), C03_OP(CEIL, 14, UNARY), C03_OP(ABS, 15, UNARY), C03_OP(MINUS, 16, UNARY),
  C03_OP(OR, 20, BINLOG), C03_OP(AND, 21, BINLOG),
  C03_OP(LT, 22, REL), C03_OP(LE, 23, REL), C03_OP(EQ, 24, REL),
  C03_OP(GE, 28, REL), C03_OP(GT, 29, REL), C03_OP(NE, 30, REL),
  C03_OP(NOT, 34, NOTC), C03_OP(IF, 35, IFC),
  C03_OP(TANH, 37, UNARY), C03_OP(TAN, 38, UNARY), C03_OP(SQRT, 39, UNARY), C03_OP(SINH, 40, UNARY),
  C03_OP(SIN, 41, UNARY), C03_OP(LOG10, 42, UNARY), C03_OP(LOG, 43, UNARY), C03_OP(EXP, 44, UNARY),
  C03_OP(COSH, 45, UNARY), C03_OP(COS, 46, UNARY), C03_OP(ATANH, 47, UNARY),
  C03_OP(ATAN2, 48, BINARY), C03_OP(ATAN, 49, UNARY), C03_OP(ASINH, 50, UNARY),
  C03_OP(ASIN, 51, UNARY), C03_OP(ACOSH, 52, UNARY), C03_OP(ACOS, 53, UNARY),
  C03_OP(SUM, 54, SUMC), C03_OP(TRUNC_DIV, 55, BINARY), C03_OP(PRECISION, 56, BINARY),
  C03_OP(ROUND, 57, BINARY), C03_OP(TRUNC, 58, BINARY),
  C03_OP(COUNT, 59, COUNTC), C03_OP(NUMBEROF, 60, NUMBEROFC), C03_OP(NUMBEROF_SYM, 61, NUMBEROFSYMC),
  C03_OP(ATLEAST, 62, LOGCOUNT), C03_OP(ATMOST, 63, LOGCOUNT),
  C03_OP(PLTERM, 64, PLC), C03_OP(IFSYM, 65, IFSYMC),
  C03_OP(EXACTLY, 66, LOGCOUNT), C03_OP(NOT_ATLEAST, 67, LOGCOUNT), C03_OP(NOT_ATMOST, 68, LOGCOUNT),
  C03_OP(NOT_EXACTLY, 69, LOGCOUNT),
  C03_OP(FORALL, 70, ITERLOG), C03_OP(EXISTS, 71, ITERLOG),
  C03_OP(IMPLICATION, 72, IMPL), C03_OP(IFF, 73, BINLOG),
  C03_OP(ALLDIFF, 74, PAIRWISE), C03_OP(NOT_ALLDIFF, 75, PAIRWISE),
  C03_OP(POW_CONST_EXP, 76, BINARY), C03_OP(POW2, 77, UNARY), C03_OP(POW_CONST_BASE, 78, BINARY),
};
#undef C03_OP
static const int NOPS = sizeof(OPS) / sizeof(OPS[0]);

inline Ty result_type(Cat c) {
  switch (c) {
    case UNARY: case BINARY: case VARARG: case SUMC: case IFC: case PLC: case NUMBEROFC:
    case NUMBEROFSYMC: return TN;
    case COUNTC: return TCOUNT;     // numeric, and the only thing allowed as rhs of LOGCOUNT
    case IFSYMC: return TS;
    default: return TL;
  }
}
// minimum arity the *reader* documents/enforces (MIN_ITER_ARGS = 3 for sum/forall/exists)
inline int min_arity(Cat c) {
  switch (c) {
    case UNARY: case NOTC: return 1;
    case BINARY: case BINLOG: case REL: case LOGCOUNT: return 2;
    case IFC: case IFSYMC: case IMPL: return 3;
    case SUMC: case ITERLOG: return 3;
    case VARARG: case COUNTC: case NUMBEROFC: case NUMBEROFSYMC: case PAIRWISE: return 1;
    case PLC: return 2;            // number of slopes
  }
  return 0;
}
inline bool variadic(Cat c) {
  switch (c) {
    case VARARG: case SUMC: case COUNTC: case NUMBEROFC: case NUMBEROFSYMC: case ITERLOG:
    case PAIRWISE: case PLC: return true;
    default: return false;
  }
}
// type of argument position p
inline Ty arg_type(Cat c, int p) {
  switch (c) {
    case UNARY: case BINARY: case VARARG: case SUMC: case NUMBEROFC: case REL: case PAIRWISE: return TN;
    case IFC: return p == 0 ? TL : TN;
    case COUNTC: case BINLOG: case NOTC: case ITERLOG: case IMPL: return TL;
    case NUMBEROFSYMC: return TS;
    case IFSYMC: return p == 0 ? TL : TS;
    case LOGCOUNT: return p == 0 ? TN : TCOUNT;
    case PLC: return TN;
  }
  return TN;
}

}  // namespace c03
