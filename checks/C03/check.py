"""C03 NL writer (NLW2) -> NL reader round trip: bounded exhaustive model families x all writer
configurations, plus number lattices at formatter level and in whole files."""
import json, os, re, shutil, subprocess, sys
import vbuild, vcheck

PID = 'C03'
WORK = os.path.join(vcheck.VERIF, 'build', 'work', PID)


def build():
    return vbuild.build_program('c03_nlroundtrip', 'san', ['checks/C03/c03_harness.cc'],
                                with_libmp=True, with_nlw2=True)


def writer_opcodes():
    """Names of all operators the writer side offers: the nl-opcodes.h the harness was compiled
    against (vbuild regenerates it from src/gen-expr-info.cc of the tree under test)."""
    if hasattr(vbuild, 'gen_dir'):
        path = os.path.join(vbuild.gen_dir(), 'include', 'mp', 'nl-opcodes.h')
    else:
        path = os.path.join(vbuild.REPO, 'nl-writer2', 'include', 'mp', 'nl-opcodes.h')
    return re.findall(r'const\s+Opcode\s+(\w+)\s*=\s*\{\s*\d+', open(path).read())


def main(tier, seed):
    chk = vcheck.Check(PID, tier, 'exploration', seed)
    binary = build()
    shutil.rmtree(WORK, ignore_errors=True)
    os.makedirs(WORK, exist_ok=True)
    args = ['--work', WORK] + (['--thorough'] if tier == 'thorough' else [])
    res = vcheck.run_shards(binary, 16, args, timeout=3000)
    classes = vcheck.absorb(chk, res)
    cov = chk.cov
    cov['evaluations'] = cov.get('cycles', 0) + cov.get('lattice_text', 0) + cov.get('lattice_binary', 0)

    # ---------------------------------------------------------------- vacuity guards
    ops = writer_opcodes()
    if len(ops) < 60:
        chk.broken.append('could not parse nl-opcodes.h (%d operators found)' % len(ops))
    EXCEPTIONS = {}     # operator name -> reason it cannot be cycled (none at present)
    sigs = ' '.join(v['sig'] for v in chk.violations)
    for name in ops:
        if name in EXCEPTIONS:
            continue
        for fmt in ('text', 'binary'):
            # an operator that is itself reported as violating is a finding, not a vacuity problem
            if 'op:%s:%s:ok' % (name, fmt) not in classes and not re.search(r'\b%s\b' % name, sigs):
                chk.broken.append('operator %s of nl-opcodes.h was never written and read back successfully in %s format'
                                  % (name, fmt))
    for key, why in (('cycles_text', 'text format never exercised'), ('cycles_binary', 'binary format never exercised'),
                     ('cycles_with_suffixes', 'no file with suffixes cycled'),
                     ('cycles_with_defvars', 'no file with defined variables cycled'),
                     ('cycles_with_functions', 'no file with functions cycled'),
                     ('cycles_with_names', 'no .col/.row name files cycled'),
                     ('selftest_wrong_expectations_rejected', 'oracle self-test did not run')):
        if cov.get(key, 0) <= 0:
            chk.broken.append(why)
    for fam in ('sizes', 'varclasses', 'varbounds', 'conbounds', 'linear', 'defvars', 'functions', 'initvals',
                'suffix-single', 'suffix-multi', 'names', 'header-options', 'expr-root', 'call-root', 'expr-pairs',
                'numbers'):
        if cov.get('models_' + fam, 0) <= 0:
            chk.broken.append('family %s: no model cycled' % fam)
    want_lattice = (1 << 28 if tier == 'thorough' else 1 << 24)
    nan = cov.get('lattice_nan_skipped', 0)
    for side in ('lattice_text', 'lattice_binary'):
        if 'formatter' not in sigs and cov.get(side, 0) < want_lattice - nan:
            chk.broken.append('%s: %d values, expected at least %d' % (side, cov.get(side, 0), want_lattice - nan))
    if cov.get('cycles_ok', 0) + cov.get('probe_cycles', 0) + cov.get('cycles_violating', 0) != cov.get('cycles', 0):
        chk.broken.append('cycle accounting mismatch')
    for c in sorted(classes):
        if c.startswith('probe:'):
            cov.setdefault('probe_observations', []).append(c)

    vcheck.finalize_classes(chk)
    chk.set('rule',
            'Model families generated exhaustively through vx::Explorer choice sequences (sizes 0..3 of every item class; '
            '9 variable-ordering blocks; all bound kinds incl. complementarity; linear-part subsets; defined variables of the '
            '5 usage classes; function declarations/calls with numeric, string and symbolic-if arguments; initial values; '
            'suffixes 4 kinds x int/real x every subset; names; header options; every operator of nl-opcodes.h at the root '
            'with arities {min,min+1,3}; every well-typed (parent,position,child) operator pair; whole-file number lattice). '
            'Each model is written by mp::WriteNLFile under every configuration of its family (text|binary x comments x '
            'bounds-first x column sizes none|cumulative|plain x reader flag READ_BOUNDS_FIRST [x EPut path]) and read by '
            'mp::ReadNLFile into a recording NLHandler; the sorted transcript must equal the transcript computed from the '
            'model. Formatter level: TextFormatter/BinaryFormatter::nput output of every non-NaN double whose low 40 (quick: 2^24 values) / low 36 (thorough: 2^28 values) '
            'mantissa bits are zero is read by NLReader::ReadConstant over TextReader/BinaryReader. A class is '
            '(family|operator|number class, format, outcome).')
    chk.set('bounds', {'item_class_sizes': '0..3 (variables 1..3; 0 variables is a probe: the writer deletes the file)',
                       'expression_depth': 2, 'writer_configs_full': 24, 'reader_flags': [0, 1],
                       'formatter_lattice': want_lattice,
                       'whole_file_numbers': cov.get('models_numbers', 0)})
    chk.assumptions += [
        'variable/constraint order is the feeder\'s: the full NLFeeder API does not permute, so item i of the model is item i of the transcript',
        'a zero constant at the root of a C/O segment is reported as "no nonlinear part" (reader documents ignore_zero); the writer\'s default for linear items is n0',
        'bounds of magnitude >= DBL_MAX are infinite bounds (writer Infty()==DBL_MAX, AMPL convention); compared after canonicalisation to +-inf',
        'column sizes are derived data: with WantColumnSizes()==0 the transcript simply has no column-size item; cumulative and plain modes must report identical sizes',
        'sum/forall/exists with < 3 arguments and PL terms with < 2 slopes are malformed NL for the mp reader (MIN_ITER_ARGS); AMPL never writes them; they are probed and recorded as observation classes, not judged',
        'a model with 0 variables is not written at all (NLWriter2::WriteNL deletes the file); recorded as a probe',
        'NLHeader format/arith_kind/prob_name/num_stages and random-variable (SNL2006) fields are not part of the model; ampl_vbtol is cycled only with 1-significant-digit values (header option reserved for AMPL, written with %.g)',
        'function, suffix and item names are identifiers without whitespace (text NL cannot carry others); item names are non-empty',
        'logical constants are written as numbers 0/1; strings may contain any byte except NUL (Hollerith)',
        'OutputPrecision()==0 (full precision) only: other precisions are lossy by design',
        'builds use -DNDEBUG (production-like): the writer\'s assert(nargs_>0) on 0-argument calls is compiled out',
    ]
    shutil.rmtree(WORK, ignore_errors=True)
    return chk.finish()


def replay(path):
    r = json.load(open(path))['replay']
    binary = build()
    os.makedirs(WORK, exist_ok=True)
    if not r or 'family' not in r:
        print('no per-model replay recorded for this signature:', r)
        return 1
    p = subprocess.run([binary, '--work', WORK, '--replay-one', r['family'], r['trace'] or ',', str(r['cfg'])],
                       capture_output=True, text=True, errors='replace')
    print(p.stdout[-20000:])
    print(p.stderr[-4000:])
    shutil.rmtree(WORK, ignore_errors=True)
    return 1 if ('"violation"' in p.stdout or p.returncode != 0) else 0
