// C03 harness-side model description + the transcript a correct reader must report for it.
// Nothing in this file looks at what the writer produced.
#pragma once
#include <cfloat>
#include <climits>
#include <cmath>
#include <cstdint>
#include <cstring>
#include <string>
#include <vector>
#include <algorithm>
#include "mp/nl-header.h"
#include "optable.h"

namespace c03 {

// ------------------------------------------------------------------ numbers in transcripts
inline uint64_t bits_of(double x) { uint64_t b; std::memcpy(&b, &x, 8); return b; }
inline double from_bits(uint64_t b) { double x; std::memcpy(&x, &b, 8); return x; }
// bit pattern; the sign of zero is not significant (property statement)
inline std::string numstr(double x) {
  if (x == 0) x = 0.0;
  char buf[64];
  std::snprintf(buf, sizeof buf, "%016llx[%.17g]", (unsigned long long)bits_of(x), x);
  return buf;
}
// A bound of magnitude >= DBL_MAX *is* an infinite bound (writer: Infty() == DBL_MAX; AMPL/ASL
// convention negInfinity/Infinity = -+1.7e308).  Canonicalise on both sides.
inline std::string bndstr(double x) {
  if (x >= DBL_MAX) x = INFINITY;
  if (x <= -DBL_MAX) x = -INFINITY;
  return numstr(x);
}

// ------------------------------------------------------------------ expressions
struct Ex {
  enum K { NUM, VAR, STR, OP, CALL, PL } k = NUM;
  double num = 0;
  int var = 0;                 // VAR: index (>= num_vars: defined variable); PL: argument
  std::string str;
  const OpRef* op = nullptr;   // OP
  int func = 0;                // CALL
  std::vector<Ex> args;        // OP / CALL
  std::vector<double> slopes, bps;   // PL: slopes.size() == bps.size() + 1
};
inline Ex N(double x) { Ex e; e.k = Ex::NUM; e.num = x; return e; }
inline Ex V(int i) { Ex e; e.k = Ex::VAR; e.var = i; return e; }
inline Ex Str(const std::string& s) { Ex e; e.k = Ex::STR; e.str = s; return e; }
inline Ex Op(const OpRef* op, std::vector<Ex> a) { Ex e; e.k = Ex::OP; e.op = op; e.args = std::move(a); return e; }
inline Ex Call(int f, std::vector<Ex> a) { Ex e; e.k = Ex::CALL; e.func = f; e.args = std::move(a); return e; }
inline Ex PLT(std::vector<double> s, std::vector<double> b, int var) {
  Ex e; e.k = Ex::PL; e.slopes = std::move(s); e.bps = std::move(b); e.var = var; return e;
}
inline const OpRef* op_by_name(const char* n) {
  for (int i = 0; i < NOPS; ++i) if (!std::strcmp(OPS[i].name, n)) return &OPS[i];
  std::fprintf(stderr, "no op %s\n", n); std::abort();
}

struct Term { int var; double coef; };
struct Var { double lb = -INFINITY, ub = INFINITY; };
struct AlgCon {
  double lb = -INFINITY, ub = INFINITY;
  int k = 0, cvar = 0;                 // k > 0: complementarity with variable cvar
  std::vector<Term> lin;
  bool has_e = false; Ex e;            // nonlinear part (absent = writer's default "n0")
};
struct LogCon { Ex e; };
struct Obj { int type = 0; std::vector<Term> lin; bool has_e = false; Ex e; };
// where: 0 = shared (written first), c+1 = only in constraint c (algebraic, then logical),
// -(o+1) = only in objective o.   cls: 0 both, 1 cons, 2 objs, 3 single con, 4 single obj
struct DefVar { int cls = 0; int where = 0; std::vector<Term> lin; Ex e; };
struct Func { std::string name; int nargs = 0; int type = 0; };
struct Suffix {
  std::string name; int kind = 0;      // 0 var, 1 con, 2 obj, 3 problem
  bool real = false;
  std::vector<std::pair<int, int>> ivals;
  std::vector<std::pair<int, double>> dvals;
};

struct Model {
  // variable ordering classes (NL order): nonlinear in both (cont, int), in cons only (cont,
  // int), in objs only (cont, int), linear continuous, linear binary, linear integer
  int cls[9] = {0, 0, 0, 0, 0, 0, 0, 0, 0};
  std::vector<Var> vars;
  std::vector<AlgCon> cons;
  std::vector<LogCon> lcons;
  std::vector<Obj> objs;
  std::vector<DefVar> dvs;
  std::vector<Func> funcs;
  std::vector<Suffix> sufs;
  std::vector<std::pair<int, int>> sos_var, sos_con;        // FeedPLSOS
  std::vector<std::pair<int, double>> sosref_var;
  bool have_x0 = false, have_d0 = false;
  std::vector<std::pair<int, double>> x0, d0;
  std::vector<std::string> colnames, rownames;
  int nopts = 3; long opts[9] = {1, 1, 0, 0, 0, 0, 0, 0, 0}; double vbtol = 0;
  int flags = 1;
  std::string label;           // family-specific label used in violation signatures
  int nv() const { return (int)vars.size(); }
};

inline bool is_inf_lb(double l) { return l <= -DBL_MAX; }
inline bool is_inf_ub(double u) { return u >= DBL_MAX; }
inline bool nonlinear(bool has_e, const Ex& e) { return has_e && !(e.k == Ex::NUM && e.num == 0); }

// Header with counts consistent with the model by construction.
inline mp::NLHeader make_header(const Model& m, bool binary) {
  mp::NLHeader h;
  h.format = binary ? mp::NLHeader::BINARY : mp::NLHeader::TEXT;
  h.num_ampl_options = m.nopts;
  for (int i = 0; i < 9; ++i) h.ampl_options[i] = m.opts[i];
  h.ampl_vbtol = m.vbtol;
  h.flags = m.flags;
  h.prob_name = "c03";
  h.num_vars = m.nv();
  h.num_algebraic_cons = (int)m.cons.size();
  h.num_objs = (int)m.objs.size();
  h.num_logical_cons = (int)m.lcons.size();
  for (auto& c : m.cons) {
    bool nl = nonlinear(c.has_e, c.e);
    if (nl) ++h.num_nl_cons;
    if (c.k > 0) {
      ++h.num_compl_conds;
      if (nl) ++h.num_nl_compl_conds;
      if (c.k == 3) ++h.num_compl_dbl_ineqs;
      double vl = m.vars[c.cvar].lb;
      if ((c.k & 1) && vl != 0) ++h.num_compl_vars_with_nz_lb;
    } else {
      if (!is_inf_lb(c.lb) && !is_inf_ub(c.ub)) { if (c.lb == c.ub) ++h.num_eqns; else ++h.num_ranges; }
    }
    h.num_con_nonzeros += c.lin.size();
  }
  for (auto& o : m.objs) { if (nonlinear(o.has_e, o.e)) ++h.num_nl_objs; h.num_obj_nonzeros += o.lin.size(); }
  int nlb = m.cls[0] + m.cls[1], nlc = m.cls[2] + m.cls[3], nlo = m.cls[4] + m.cls[5];
  h.num_nl_vars_in_both = nlb;
  h.num_nl_vars_in_cons = nlb + nlc;
  h.num_nl_vars_in_objs = nlo > 0 ? nlb + nlc + nlo : nlb;
  h.num_nl_integer_vars_in_both = m.cls[1];
  h.num_nl_integer_vars_in_cons = m.cls[3];
  h.num_nl_integer_vars_in_objs = m.cls[5];
  h.num_linear_binary_vars = m.cls[7];
  h.num_linear_integer_vars = m.cls[8];
  h.num_funcs = (int)m.funcs.size();
  for (auto& d : m.dvs) {
    switch (d.cls) {
      case 0: ++h.num_common_exprs_in_both; break;
      case 1: ++h.num_common_exprs_in_cons; break;
      case 2: ++h.num_common_exprs_in_objs; break;
      case 3: ++h.num_common_exprs_in_single_cons; break;
      default: ++h.num_common_exprs_in_single_objs; break;
    }
  }
  return h;
}

// ------------------------------------------------------------------ expected transcript
inline std::string hstr(const std::string& s) { return "h(" + std::to_string(s.size()) + ":" + s + ")"; }

inline std::string expect_expr(const Model& m, const Ex& e, Ty ctx);

inline std::string expect_args(const Model& m, const Ex& e, Cat cat, int from = 0) {
  std::string s;
  for (int i = from; i < (int)e.args.size(); ++i) {
    if (i > from) s += ',';
    s += expect_expr(m, e.args[i], arg_type(cat, i));
  }
  return s;
}

inline std::string expect_expr(const Model& m, const Ex& e, Ty ctx) {
  switch (e.k) {
    case Ex::NUM:
      if (ctx == TL) return e.num != 0 ? "bool(1)" : "bool(0)";
      return "n(" + numstr(e.num) + ")";
    case Ex::VAR:
      return e.var < m.nv() ? "v(" + std::to_string(e.var) + ")" : "cv(" + std::to_string(e.var - m.nv()) + ")";
    case Ex::STR: return hstr(e.str);
    case Ex::CALL: {
      std::string s = "f" + std::to_string(e.func) + "/" + std::to_string(e.args.size()) + "(";
      for (size_t i = 0; i < e.args.size(); ++i) { if (i) s += ','; s += expect_expr(m, e.args[i], TS); }
      return s + ")";
    }
    case Ex::PL: {
      std::string s = "pl(" + std::to_string(e.bps.size()) + ";";
      for (size_t i = 0; i < e.bps.size(); ++i) s += "s:" + numstr(e.slopes[i]) + ",b:" + numstr(e.bps[i]) + ",";
      s += "s:" + numstr(e.slopes.back()) + ";" + expect_expr(m, V(e.var), TN) + ")";
      return s;
    }
    case Ex::OP: break;
  }
  const OpRef& o = *e.op;
  std::string K = std::to_string((int)o.kind), n = std::to_string(e.args.size());
  switch (o.cat) {
    case UNARY: return "u" + K + "(" + expect_args(m, e, o.cat) + ")";
    case BINARY: return "b" + K + "(" + expect_args(m, e, o.cat) + ")";
    case VARARG: return "va" + K + "/" + n + "(" + expect_args(m, e, o.cat) + ")";
    case SUMC: return "sum/" + n + "(" + expect_args(m, e, o.cat) + ")";
    case IFC: return "if(" + expect_args(m, e, o.cat) + ")";
    case COUNTC: return "count/" + n + "(" + expect_args(m, e, o.cat) + ")";
    case NUMBEROFC:
      return "nof/" + n + "(" + expect_expr(m, e.args[0], TN) + "|" + expect_args(m, e, o.cat, 1) + ")";
    case NUMBEROFSYMC:
      return "nofs/" + n + "(" + expect_expr(m, e.args[0], TS) + "|" + expect_args(m, e, o.cat, 1) + ")";
    case IFSYMC: return "ifs(" + expect_args(m, e, o.cat) + ")";
    case BINLOG: return "bl" + K + "(" + expect_args(m, e, o.cat) + ")";
    case REL: return "rel" + K + "(" + expect_args(m, e, o.cat) + ")";
    case NOTC: return "not(" + expect_args(m, e, o.cat) + ")";
    case LOGCOUNT: return "lc" + K + "(" + expect_args(m, e, o.cat) + ")";
    case ITERLOG: return "il" + K + "/" + n + "(" + expect_args(m, e, o.cat) + ")";
    case IMPL: return "impl(" + expect_args(m, e, o.cat) + ")";
    case PAIRWISE: return "pw" + K + "/" + n + "(" + expect_args(m, e, o.cat) + ")";
    case PLC: break;
  }
  return "?";
}

inline std::string expect_lin(const std::vector<Term>& lin) {
  std::string s;
  for (auto& t : lin) s += " " + std::to_string(t.var) + "*" + numstr(t.coef);
  return s;
}

// The writer's default for an absent nonlinear part is the constant 0, and the reader documents
// that a zero constant at the root of a C/O segment is ignored (ReadNumericExpr(ignore_zero)):
// the handler receives a default-constructed expression, rendered "".
inline std::string expect_root(const Model& m, bool has_e, const Ex& e) {
  if (!nonlinear(has_e, e)) return "";
  return expect_expr(m, e, TN);
}

inline std::string header_line(const mp::NLHeader& h) {
  std::string s = "H";
#define F(x) s += std::string(" " #x "=") + std::to_string((long long)h.x);
  F(num_vars) F(num_algebraic_cons) F(num_objs) F(num_ranges) F(num_eqns) F(num_logical_cons)
  F(num_nl_cons) F(num_nl_objs) F(num_compl_conds) F(num_nl_compl_conds) F(num_compl_dbl_ineqs)
  F(num_compl_vars_with_nz_lb) F(num_nl_net_cons) F(num_linear_net_cons) F(num_nl_vars_in_cons)
  F(num_nl_vars_in_objs) F(num_nl_vars_in_both) F(num_linear_net_vars) F(num_funcs) F(flags)
  F(num_linear_binary_vars) F(num_linear_integer_vars) F(num_nl_integer_vars_in_both)
  F(num_nl_integer_vars_in_cons) F(num_nl_integer_vars_in_objs) F(num_con_nonzeros)
  F(num_obj_nonzeros) F(max_con_name_len) F(max_var_name_len) F(num_common_exprs_in_both)
  F(num_common_exprs_in_cons) F(num_common_exprs_in_objs) F(num_common_exprs_in_single_cons)
  F(num_common_exprs_in_single_objs) F(num_ampl_options)
#undef F
  for (int i = 0; i < h.num_ampl_options && i < 9; ++i) s += " opt" + std::to_string(i) + "=" + std::to_string(h.ampl_options[i]);
  if (h.num_ampl_options > 1 && h.ampl_options[1] == 3) s += " vbtol=" + numstr(h.ampl_vbtol);
  return s;
}

struct Cfg {
  bool binary = false, comments = false, bounds_first = true;
  int colsizes = 1;          // 0 none, 1 cumulative ('k'), 2 plain ('K')
  int reader_flags = 0;      // 0 | mp::READ_BOUNDS_FIRST
  bool eput = false;         // children written through ExprWriter::EPut -> Feeder::FeedExpr
  std::string str() const {
    return std::string(binary ? "binary" : "text") + " comments=" + (comments ? "1" : "0") + " bounds_first=" +
           (bounds_first ? "1" : "0") + " colsizes=" + std::to_string(colsizes) + " rflags=" +
           std::to_string(reader_flags) + " eput=" + (eput ? "1" : "0");
  }
};

inline size_t maxlen(const std::vector<std::string>& v) {
  size_t l = 0; for (auto& s : v) l = std::max(l, s.size()); return l;
}

inline std::vector<std::string> expected_transcript(const Model& m, const Cfg& cfg) {
  std::vector<std::string> t;
  mp::NLHeader h = make_header(m, cfg.binary);
  h.max_con_name_len = (int)maxlen(m.rownames);    // the writer derives these from the name files
  h.max_var_name_len = (int)maxlen(m.colnames);
  t.push_back(header_line(h));
  for (size_t i = 0; i < m.funcs.size(); ++i)
    t.push_back("F " + std::to_string(i) + " type=" + std::to_string(m.funcs[i].type) + " nargs=" +
                std::to_string(m.funcs[i].nargs) + " " + hstr(m.funcs[i].name));
  auto suf_i = [&](const std::string& name, int kind, const std::vector<std::pair<int, int>>& v) {
    if (v.empty()) return;                           // documented: only non-empty suffixes are written
    std::string s = "S int kind=" + std::to_string(kind) + " " + hstr(name) + " n=" + std::to_string(v.size()) + ":";
    for (auto& p : v) s += " " + std::to_string(p.first) + "=" + std::to_string(p.second);
    t.push_back(s);
  };
  auto suf_d = [&](const std::string& name, int kind, const std::vector<std::pair<int, double>>& v) {
    if (v.empty()) return;
    std::string s = "S dbl kind=" + std::to_string(kind) + " " + hstr(name) + " n=" + std::to_string(v.size()) + ":";
    for (auto& p : v) s += " " + std::to_string(p.first) + "=" + numstr(p.second);
    t.push_back(s);
  };
  for (auto& s : m.sufs) { if (s.real) suf_d(s.name, s.kind, s.dvals); else suf_i(s.name, s.kind, s.ivals); }
  suf_i("sos", 0, m.sos_var); suf_i("sos", 1, m.sos_con); suf_d("sosref", 0, m.sosref_var);
  for (int i = 0; i < m.nv(); ++i)
    t.push_back("b " + std::to_string(i) + " " + bndstr(m.vars[i].lb) + " " + bndstr(m.vars[i].ub));
  for (size_t i = 0; i < m.cons.size(); ++i) {
    auto& c = m.cons[i];
    if (c.k > 0) t.push_back("compl " + std::to_string(i) + " var=" + std::to_string(c.cvar) + " k=" + std::to_string(c.k));
    else t.push_back("r " + std::to_string(i) + " " + bndstr(c.lb) + " " + bndstr(c.ub));
  }
  if (m.have_x0) for (auto& p : m.x0) t.push_back("x " + std::to_string(p.first) + " " + numstr(p.second));
  if (m.have_d0) for (auto& p : m.d0) t.push_back("d " + std::to_string(p.first) + " " + numstr(p.second));
  int ncon_all = (int)(m.cons.size() + m.lcons.size());
  for (size_t k = 0; k < m.dvs.size(); ++k) {
    auto& d = m.dvs[k];
    int pos = d.where >= 0 ? d.where : ncon_all + (-d.where);
    t.push_back("V " + std::to_string(k) + " nlin=" + std::to_string(d.lin.size()) + ":" + expect_lin(d.lin) +
                " | " + expect_expr(m, d.e, TN) + " | pos=" + std::to_string(pos));
  }
  for (size_t i = 0; i < m.cons.size(); ++i)
    t.push_back("C " + std::to_string(i) + " " + expect_root(m, m.cons[i].has_e, m.cons[i].e));
  for (size_t i = 0; i < m.lcons.size(); ++i)
    t.push_back("L " + std::to_string(i) + " " + expect_expr(m, m.lcons[i].e, TL));
  for (size_t i = 0; i < m.objs.size(); ++i)
    t.push_back("O " + std::to_string(i) + " type=" + std::to_string(m.objs[i].type != 0) + " " +
                expect_root(m, m.objs[i].has_e, m.objs[i].e));
  if (cfg.colsizes != 0) {
    std::vector<int> cs(m.nv(), 0);
    for (auto& c : m.cons) for (auto& tm : c.lin) ++cs[tm.var];
    std::string s = "k:";
    for (int j = 0; j + 1 < m.nv(); ++j) s += " " + std::to_string(cs[j]);
    t.push_back(s);
  }
  for (size_t i = 0; i < m.cons.size(); ++i)
    if (!m.cons[i].lin.empty())
      t.push_back("J " + std::to_string(i) + " n=" + std::to_string(m.cons[i].lin.size()) + ":" + expect_lin(m.cons[i].lin));
  for (size_t i = 0; i < m.objs.size(); ++i)
    if (!m.objs[i].lin.empty())
      t.push_back("G " + std::to_string(i) + " n=" + std::to_string(m.objs[i].lin.size()) + ":" + expect_lin(m.objs[i].lin));
  {
    std::string s = "colnames n=" + std::to_string(m.colnames.size()) + ":";
    for (auto& n : m.colnames) s += " " + hstr(n);
    t.push_back(s);
    s = "rownames n=" + std::to_string(m.rownames.size()) + ":";
    for (auto& n : m.rownames) s += " " + hstr(n);
    t.push_back(s);
  }
  t.push_back("end");
  std::sort(t.begin(), t.end());
  return t;
}

}  // namespace c03
