// C03: NL writer (NLW2) -> NL reader round trip, bounded exhaustive.
//   c03_harness --shard i/n --work DIR [--thorough]
//   c03_harness --work DIR --replay-one FAMILY TRACE CFGINDEX      (TRACE = "1,0,2,...")
// Every model of every family is written by the real mp::WriteNLFile under every writer
// configuration of the family and read back by the real mp::ReadNLFile into c03::Recorder; the
// sorted transcript must equal c03::expected_transcript(model).
#include <sys/mman.h>
#include <sys/wait.h>
#include <unistd.h>
#include <set>
#include <functional>
#include "explore.h"
#include "feeder.h"
#include "recorder.h"
#include "mp/nl-reader.h"
#include "mp/nl-utils.h"
#include "mp/nl-writer2-misc.h"

using namespace c03;

static vx::Report R;
static vx::Shard S;
static bool g_thorough = false;
static std::string g_work;

struct Quiet : mp::NLUtils {
  void log_message(const char*, ...) override {}
  void log_warning(const char*, ...) override {}
  void myexit(const std::string& msg) override { throw std::runtime_error("writer myexit: " + msg); }
};

// ------------------------------------------------------------------ shared state for crash isolation
struct Shared {
  long long cur;          // index of the model being cycled
  int cfg;                // config index being cycled
  char trace[2048];
  char label[256];
};
static Shared* g_sh = nullptr;

// ------------------------------------------------------------------ one write/read cycle
struct Outcome {
  std::string kind;                 // "ok" | "mismatch" | "writer-failed" | "reader-rejects"
  std::string err;
  std::vector<std::string> got, missing, unexpected;
};

static std::string slurp(const std::string& path, size_t cap = 3000) {
  std::string s; FILE* f = std::fopen(path.c_str(), "rb");
  if (!f) return "<absent>";
  char buf[4096]; size_t n;
  while ((n = std::fread(buf, 1, sizeof buf, f)) > 0 && s.size() < cap) s.append(buf, n);
  std::fclose(f);
  if (s.size() > cap) s.resize(cap);
  return s;
}

static void read_names(const std::string& file, const char* tag, int nitems, std::vector<std::string>& items) {
  mp::NameProvider np(file, "_gen", (size_t)nitems);
  size_t n = np.number_read();
  std::string s = std::string(tag) + " n=" + std::to_string(n) + ":";
  for (size_t i = 0; i < n; ++i) {
    fmt::StringRef r = np.name(i);
    s += " " + hstr(std::string(r.data(), r.size()));
  }
  items.push_back(s);
}

static Outcome cycle(const Model& m, const Cfg& cfg, const std::string& stub,
                     const std::vector<std::string>* expected = nullptr) {
  Outcome o;
  ::unlink((stub + ".nl").c_str());
  ChoiceFeeder feeder(m, cfg);
  Quiet utils;
  mp::WriteNLResult wr;
  try {
    wr = mp::WriteNLFile(stub, feeder, utils);
  } catch (const std::exception& e) {
    o.kind = "writer-failed"; o.err = e.what(); return o;
  }
  if (wr.first != NLW2_WriteNL_OK) {
    o.kind = "writer-failed"; o.err = "result code " + std::to_string((int)wr.first); return o;
  }
  Recorder rec;
  try {
    mp::ReadNLFile(stub + ".nl", rec, cfg.reader_flags);
    read_names(stub + ".col", "colnames", m.nv(), rec.items);
    read_names(stub + ".row", "rownames", (int)(m.cons.size() + m.lcons.size() + m.objs.size()), rec.items);
  } catch (const std::exception& e) {
    o.kind = "reader-rejects";
    std::string w = e.what();
    size_t p = w.find(stub);
    if (p != std::string::npos) {           // drop "file:line:col: " / "file:offset N: "
      size_t q = w.find(": ", p + stub.size());
      if (q != std::string::npos) w = w.substr(q + 2);
    }
    o.err = w; o.got = rec.items; return o;
  }
  o.got = rec.items;
  std::sort(o.got.begin(), o.got.end());
  std::vector<std::string> exp_local;
  if (!expected) { exp_local = expected_transcript(m, cfg); expected = &exp_local; }
  const std::vector<std::string>& exp = *expected;
  if (o.got == exp) { o.kind = "ok"; return o; }
  o.kind = "mismatch";
  std::set_difference(exp.begin(), exp.end(), o.got.begin(), o.got.end(), std::back_inserter(o.missing));
  std::set_difference(o.got.begin(), o.got.end(), exp.begin(), exp.end(), std::back_inserter(o.unexpected));
  return o;
}

static std::string jarr(const std::vector<std::string>& v, size_t cap = 12) {
  std::string s = "[";
  for (size_t i = 0; i < v.size() && i < cap; ++i) { if (i) s += ","; s += "\"" + vx::jesc(v[i].substr(0, 600)) + "\""; }
  return s + "]";
}

// category of a transcript item: its first token; for the header the first differing field
static std::string item_cat(const std::string& a, const std::string& b) {
  const std::string& x = a.empty() ? b : a;
  std::string tok = x.substr(0, x.find(' '));
  if (tok == "H" && !a.empty() && !b.empty()) {
    std::istringstream sa(a), sb(b); std::string fa, fb;
    while (sa >> fa && sb >> fb) if (fa != fb) return "header." + fa.substr(0, fa.find('='));
  }
  if (tok == "S") { std::istringstream sx(x); std::string t1, t2; sx >> t1 >> t2; return "suffix-" + t2; }
  return tok;
}

// ------------------------------------------------------------------ configurations
static std::vector<Cfg> cfgs_full() {
  std::vector<Cfg> v;
  for (int b = 0; b < 2; ++b) for (int c = 0; c < 2; ++c) for (int bf = 1; bf >= 0; --bf)
    for (int cs : {1, 0, 2}) for (int rf = 0; rf < 2; ++rf) {
      Cfg g; g.binary = b; g.comments = c; g.bounds_first = bf; g.colsizes = cs; g.reader_flags = rf; v.push_back(g);
    }
  return v;
}
static std::vector<Cfg> cfgs_light() {
  std::vector<Cfg> v;
  for (int b = 0; b < 2; ++b) for (int c = 0; c < 2; ++c) for (int e = 0; e < 2; ++e) {
    Cfg g; g.binary = b; g.comments = c; g.eput = e; v.push_back(g);
  }
  return v;
}
static std::vector<Cfg> cfgs_full_eput() {
  std::vector<Cfg> v;
  for (auto g : cfgs_full()) for (int e = 0; e < 2; ++e) { g.eput = e; v.push_back(g); }
  return v;
}
static std::vector<Cfg> cfgs_fmt() {
  std::vector<Cfg> v;
  for (int b = 0; b < 2; ++b) { Cfg g; g.binary = b; g.comments = b; v.push_back(g); }
  return v;
}

// ------------------------------------------------------------------ model construction helpers
static const OpRef* O_(const char* n) { return op_by_name(n); }

static void collect(const Model& m, const Ex& e, std::set<int>& vars, std::set<int>& dvs) {
  if (e.k == Ex::VAR || e.k == Ex::PL) { if (e.var < m.nv()) vars.insert(e.var); else dvs.insert(e.var - m.nv()); }
  for (auto& a : e.args) collect(m, a, vars, dvs);
}
static void close_dvs(const Model& m, std::set<int>& vars, std::set<int>& dvs) {
  for (bool ch = true; ch;) {
    ch = false;
    for (int k : std::set<int>(dvs)) {
      size_t a = vars.size(), b = dvs.size();
      collect(m, m.dvs[k].e, vars, dvs);
      for (auto& t : m.dvs[k].lin) vars.insert(t.var);
      if (vars.size() != a || dvs.size() != b) ch = true;
    }
  }
}
struct Usage { std::vector<std::set<int>> con_dvs, obj_dvs; std::set<int> cv, ov; };
static Usage usage(const Model& m) {
  Usage u;
  for (auto& c : m.cons) { std::set<int> v, d; if (c.has_e) collect(m, c.e, v, d); close_dvs(m, v, d); u.con_dvs.push_back(d); u.cv.insert(v.begin(), v.end()); }
  for (auto& c : m.lcons) { std::set<int> v, d; collect(m, c.e, v, d); close_dvs(m, v, d); u.con_dvs.push_back(d); u.cv.insert(v.begin(), v.end()); }
  for (auto& o : m.objs) { std::set<int> v, d; if (o.has_e) collect(m, o.e, v, d); close_dvs(m, v, d); u.obj_dvs.push_back(d); u.ov.insert(v.begin(), v.end()); }
  return u;
}
// variable classes from usage (all continuous); requires the NL ordering both < cons < objs < linear
static std::string auto_classes(Model& m) {
  Usage u = usage(m);
  int key_prev = 0; int cnt[4] = {0, 0, 0, 0};
  for (int i = 0; i < m.nv(); ++i) {
    bool c = u.cv.count(i), o = u.ov.count(i);
    int key = c && o ? 0 : c ? 1 : o ? 2 : 3;
    if (key < key_prev) return "generator bug: variable order inconsistent with nonlinear usage";
    key_prev = key; ++cnt[key];
  }
  for (int i = 0; i < 9; ++i) m.cls[i] = 0;
  m.cls[0] = cnt[0]; m.cls[2] = cnt[1]; m.cls[4] = cnt[2]; m.cls[6] = cnt[3];
  return "";
}
// "header counts consistent by construction": verify what the generator claims
static std::string check_consistency(const Model& m) {
  Usage u = usage(m);
  int sum = 0; for (int i = 0; i < 9; ++i) sum += m.cls[i];
  if (sum != m.nv()) return "class sizes do not add up to num_vars";
  int nlb = m.cls[0] + m.cls[1], nlc = m.cls[2] + m.cls[3], nlo = m.cls[4] + m.cls[5];
  for (int i = 0; i < m.nv(); ++i) {
    bool c = u.cv.count(i), o = u.ov.count(i);
    int want = i < nlb ? 0 : i < nlb + nlc ? 1 : i < nlb + nlc + nlo ? 2 : 3;
    int have = c && o ? 0 : c ? 1 : o ? 2 : 3;
    if (want != have) return "variable " + std::to_string(i) + " class " + std::to_string(want) + " but usage " + std::to_string(have);
  }
  int prev = 0;
  for (size_t k = 0; k < m.dvs.size(); ++k) {
    int nc = 0, no = 0, lastc = -1, lasto = -1;
    for (size_t c = 0; c < u.con_dvs.size(); ++c) if (u.con_dvs[c].count((int)k)) { ++nc; lastc = (int)c; }
    for (size_t o = 0; o < u.obj_dvs.size(); ++o) if (u.obj_dvs[o].count((int)k)) { ++no; lasto = (int)o; }
    int cls = nc && no ? 0 : nc > 1 ? 1 : no > 1 ? 2 : nc == 1 ? 3 : no == 1 ? 4 : -1;
    const DefVar& d = m.dvs[k];
    if (cls != d.cls) return "defined variable " + std::to_string(k) + " class " + std::to_string(d.cls) + " but usage class " + std::to_string(cls);
    int where = cls == 3 ? lastc + 1 : cls == 4 ? -(lasto + 1) : 0;
    if (where != d.where) return "defined variable " + std::to_string(k) + " position";
    if (d.cls < prev) return "defined variables not ordered by class";
    prev = d.cls;
  }
  for (auto& c : m.cons) {
    for (auto& t : c.lin) if (t.var < 0 || t.var >= m.nv()) return "linear term index";
    if (c.k > 0 && (c.cvar < 0 || c.cvar >= m.nv())) return "cvar index";
  }
  return "";
}

static Ex chain(const OpRef* op, std::vector<Ex> v) {       // left-nested binary chain
  Ex e = v[0];
  for (size_t i = 1; i < v.size(); ++i) e = Op(op, {e, v[i]});
  return e;
}
static Ex all_vars_product(int nv) {
  std::vector<Ex> v; for (int i = 0; i < nv; ++i) v.push_back(Op(O_("POW2"), {V(i)}));
  return chain(O_("MUL"), v);
}
static void add_ref(bool& has_e, Ex& e, Ex ref) {
  if (has_e) e = Op(O_("ADD"), {e, ref}); else { has_e = true; e = ref; }
}

// Host model for an expression E: 3 variables nonlinear in both; numeric E sits at the root of
// C0, O0 and of a shared defined variable; logical E at the root of L0; symbolic E inside a call.
static Model host(const Ex& E, Ty ty) {
  Model m;
  m.vars.resize(3);
  m.vars[0].lb = 0; m.vars[1].ub = 10.5; m.vars[2].lb = -1; m.vars[2].ub = 1;
  m.funcs.push_back({"fsym", -1, 1});
  m.funcs.push_back({"fnum", 2, 0});
  m.cons.resize(2); m.objs.resize(2); m.lcons.resize(1);
  m.cons[1].has_e = true; m.cons[1].e = all_vars_product(3);
  m.objs[1].has_e = true; m.objs[1].e = all_vars_product(3); m.objs[1].type = 1;
  m.cons[0].lb = 1; m.cons[0].ub = 2; m.cons[0].lin = {{0, 1.5}, {2, -2}};
  m.cons[1].lb = m.cons[1].ub = 4; m.cons[1].lin = {{1, 3}};
  m.objs[0].lin = {{1, 0.25}};
  Ex num = ty == TN || ty == TCOUNT ? E : ty == TS ? Call(0, {E, N(7)}) : Op(O_("IF"), {E, V(1), N(2.5)});
  m.cons[0].has_e = true; m.cons[0].e = num;
  m.objs[0].has_e = true; m.objs[0].e = num;
  DefVar d; d.cls = 0; d.where = 0; d.lin = {{0, 2}}; d.e = num; m.dvs.push_back(d);
  add_ref(m.cons[1].has_e, m.cons[1].e, V(3));
  add_ref(m.objs[1].has_e, m.objs[1].e, V(3));
  m.lcons[0].e = ty == TL ? E : Op(O_("LE"), {num, N(3)});
  return m;
}

// leaves distinct per position so that argument order is observable
static Ex leaf(Ty t, int pos) {
  switch (t) {
    case TN: return pos % 3 == 0 ? V(pos % 3) : pos % 3 == 1 ? N(2.5 + pos) : V(2);
    case TL: return pos % 2 == 0 ? Op(O_("LE"), {V(pos % 3), N(pos + 1)}) : N(pos % 4 == 1 ? 1 : 0);
    case TS: return pos % 3 == 0 ? Str("s" + std::to_string(pos)) : pos % 3 == 1 ? V(1) : N(pos + 0.5);
    case TCOUNT: return Op(O_("COUNT"), {Op(O_("GE"), {V(0), N(1)}), N(1)});
  }
  return N(0);
}
static Ex make_op(const OpRef* op, int arity, int child_pos = -1, const Ex* child = nullptr) {
  if (op->cat == PLC) {
    std::vector<double> s, b;
    for (int i = 0; i < arity; ++i) s.push_back(i * 1.5 - 1);
    for (int i = 0; i + 1 < arity; ++i) b.push_back(i * 2 - 3.25);
    return PLT(s, b, arity % 3);
  }
  std::vector<Ex> a;
  for (int p = 0; p < arity; ++p) a.push_back(p == child_pos ? *child : leaf(arg_type(op->cat, p), p));
  return Op(op, a);
}
static std::vector<int> arities(const OpRef* op) {
  int mn = min_arity(op->cat);
  if (!variadic(op->cat)) return {mn};
  std::set<int> s = {mn, mn + 1, 3};
  std::vector<int> v; for (int x : s) if (x >= mn) v.push_back(x);
  return v;
}
static int canon_arity(const OpRef* op) {
  if (!variadic(op->cat)) return min_arity(op->cat);
  return op->cat == PLC ? 2 : 3;
}

// ------------------------------------------------------------------ families (Explorer-driven)
typedef std::function<void(vx::Explorer&, Model&)> Gen;
struct Family { std::string name; Gen gen; std::vector<Cfg> cfgs; bool probe; };

static const double BVAL[] = {-7.25, 0.1, 3, 1e30};

static void set_bound_kind(double& lb, double& ub, int kind, int i) {
  double a = BVAL[i % 4], b = a + 1 + i;
  switch (kind) {
    case 0: lb = -INFINITY; ub = INFINITY; break;     // free
    case 1: lb = a; ub = INFINITY; break;             // lower
    case 2: lb = -INFINITY; ub = b; break;            // upper
    case 3: lb = a; ub = b; break;                    // range
    default: lb = ub = a; break;                      // equality / fixed
  }
}

static void gen_sizes(vx::Explorer& ex, Model& m) {
  // thorough: 0..3 of every item class (variables 1..3); quick: 0..2 (variables 1..3)
  int hi = g_thorough ? 4 : 3;
  int nv = 1 + ex.choose(3, "nv"), nac = ex.choose(hi, "nac"), nlc = ex.choose(hi, "nlc"),
      nobj = ex.choose(hi, "nobj"), ndv = ex.choose(hi, "ndv"), nf = ex.choose(hi, "nfunc"), ns = ex.choose(hi, "nsuf");
  m.label = "sizes";
  m.vars.resize(nv);
  for (int i = 0; i < nv; ++i) set_bound_kind(m.vars[i].lb, m.vars[i].ub, (i + nac) % 5, i);
  m.cons.resize(nac); m.lcons.resize(nlc); m.objs.resize(nobj);
  for (int i = 0; i < nac; ++i) {
    set_bound_kind(m.cons[i].lb, m.cons[i].ub, (i + 3) % 5, i + 1);
    for (int t = 0; t < (i + 1) % (nv + 1); ++t) m.cons[i].lin.push_back({(t + i) % nv, 1.5 * (t + 1) - i});
    std::sort(m.cons[i].lin.begin(), m.cons[i].lin.end(), [](const Term& a, const Term& b) { return a.var < b.var; });
    if (i % 2 == 0) { m.cons[i].has_e = true; m.cons[i].e = Op(O_("ADD"), {all_vars_product(nv), N(i + 0.5)}); }
  }
  for (int i = 0; i < nlc; ++i) m.lcons[i].e = Op(i % 2 ? O_("GE") : O_("LE"), {all_vars_product(nv), N(i)});
  for (int j = 0; j < nobj; ++j) {
    m.objs[j].type = j & 1;
    for (int t = 0; t < (j + 2) % (nv + 1); ++t) m.objs[j].lin.push_back({t, 0.5 + t + j});
    if (j % 2 == 0) { m.objs[j].has_e = true; m.objs[j].e = Op(O_("SUB"), {all_vars_product(nv), N(j + 0.25)}); }
  }
  for (int f = 0; f < nf; ++f) m.funcs.push_back({"func" + std::to_string(f), f == 2 ? -1 : f + 1, f & 1});
  auto callf = [&](int f) { std::vector<Ex> a; for (int i = 0; i < f + 1; ++i) a.push_back(i == 1 && (f & 1) ? Str("arg") : V(i % nv)); return Call(f, a); };
  if (nf > 0) {
    if (nac > 0) for (int f = 0; f < nf; ++f) add_ref(m.cons[0].has_e, m.cons[0].e, callf(f));
    else if (nobj > 0) for (int f = 0; f < nf; ++f) add_ref(m.objs[0].has_e, m.objs[0].e, callf(f));
  }
  // defined variables: pick feasible classes in NL order
  int ncon = nac + nlc;
  std::vector<int> cl;
  if (ncon >= 1 && nobj >= 1) cl.push_back(0);
  if (ncon >= 2) cl.push_back(1);
  if (nobj >= 2) cl.push_back(2);
  if (ncon >= 1) cl.push_back(3);
  if (nobj >= 1) cl.push_back(4);
  std::vector<int> chosen;
  for (int k = 0; k < ndv && !cl.empty(); ++k) chosen.push_back(cl[(k * 2) % cl.size()]);
  std::sort(chosen.begin(), chosen.end());
  auto con_ref = [&](int c, int idx) {
    if (c < nac) add_ref(m.cons[c].has_e, m.cons[c].e, V(idx));
    else m.lcons[c - nac].e = Op(O_("AND"), {m.lcons[c - nac].e, Op(O_("NE"), {V(idx), N(0)})});
  };
  for (size_t k = 0; k < chosen.size(); ++k) {
    DefVar d; d.cls = chosen[k]; int idx = nv + (int)k;
    for (int t = 0; t < (int)k % (nv + 1); ++t) d.lin.push_back({t, 2.0 + k + t});
    d.e = Op(O_("MUL"), {all_vars_product(nv), N(k + 2)});
    switch (d.cls) {
      case 0: d.where = 0; con_ref(ncon - 1, idx); add_ref(m.objs[nobj - 1].has_e, m.objs[nobj - 1].e, V(idx)); break;
      case 1: d.where = 0; con_ref(0, idx); con_ref(ncon - 1, idx); break;
      case 2: d.where = 0; add_ref(m.objs[0].has_e, m.objs[0].e, V(idx)); add_ref(m.objs[nobj - 1].has_e, m.objs[nobj - 1].e, V(idx)); break;
      case 3: { int c = (int)k % ncon; d.where = c + 1; con_ref(c, idx); break; }
      default: { int o = (int)k % nobj; d.where = -(o + 1); add_ref(m.objs[o].has_e, m.objs[o].e, V(idx)); break; }
    }
    m.dvs.push_back(d);
  }
  for (int s = 0; s < ns; ++s) {
    Suffix su; su.name = "suf" + std::to_string(s); su.real = s & 1;
    int kind = (s + nv) % 4;
    int nitems = kind == 0 ? nv : kind == 1 ? ncon : kind == 2 ? nobj : 1;
    if (nitems == 0) { kind = 0; nitems = nv; }
    su.kind = kind;
    for (int i = 0; i < nitems; i += 1 + (s % 2)) { if (su.real) su.dvals.push_back({i, 0.5 + i - s}); else su.ivals.push_back({i, 3 * i - s - 1}); }
    m.sufs.push_back(su);
  }
  if (nv > 1) { m.have_x0 = true; m.x0 = {{nv - 1, 1.25}}; }
  if (nac > 1) { m.have_d0 = true; m.d0 = {{0, -0.5}, {nac - 1, 0}}; }
}

static void gen_varclasses(vx::Explorer& ex, Model& m) {
  m.label = "varclasses";
  int hi = g_thorough ? 3 : 2;        // block sizes 0..1 (quick) / 0..2 (thorough)
  int tot = 0;
  for (int b = 0; b < 9; ++b) { m.cls[b] = ex.choose(hi, "block"); tot += m.cls[b]; }
  if (tot == 0) { m.cls[6] = 1; tot = 1; m.label = "varclasses-all-empty"; }
  m.vars.resize(tot);
  for (int i = 0; i < tot; ++i) { m.vars[i].lb = i; m.vars[i].ub = 10 + i; }
  int pos = 0, start[10];
  for (int b = 0; b < 9; ++b) { start[b] = pos; pos += m.cls[b]; } start[9] = pos;
  for (int i = start[7]; i < start[8]; ++i) { m.vars[i].lb = 0; m.vars[i].ub = 1; }   // binaries
  std::vector<Ex> cv, ov;
  for (int i = 0; i < start[4]; ++i) cv.push_back(Op(O_("POW2"), {V(i)}));
  for (int i = 0; i < start[2]; ++i) ov.push_back(Op(O_("EXP"), {V(i)}));
  for (int i = start[4]; i < start[6]; ++i) ov.push_back(Op(O_("EXP"), {V(i)}));
  m.cons.resize(1); m.objs.resize(1);
  m.cons[0].ub = 100;
  if (!cv.empty()) { m.cons[0].has_e = true; m.cons[0].e = chain(O_("ADD"), cv); }
  if (!ov.empty()) { m.objs[0].has_e = true; m.objs[0].e = chain(O_("ADD"), ov); }
  for (int i = 0; i < tot; ++i) { m.cons[0].lin.push_back({i, 1.0 + i}); if (i % 2 == 0) m.objs[0].lin.push_back({i, -1.0 - i}); }
}

static void gen_varbounds(vx::Explorer& ex, Model& m) {
  m.label = "varbounds";
  m.vars.resize(3);
  for (int i = 0; i < 3; ++i) set_bound_kind(m.vars[i].lb, m.vars[i].ub, ex.choose(5, "kind"), i + ex.choose(2, "val"));
  m.cons.resize(1); m.cons[0].lin = {{0, 1}, {1, 1}, {2, 1}}; m.cons[0].ub = 5;
  m.objs.resize(1); m.objs[0].lin = {{1, 1}};
}

static void gen_conbounds(vx::Explorer& ex, Model& m) {
  m.label = "conbounds";
  m.vars.resize(3);
  for (int i = 0; i < 3; ++i) { m.vars[i].lb = -INFINITY; m.vars[i].ub = INFINITY; }
  const int NC = g_thorough ? 3 : 2;      // constraints, each of 5 bound kinds + 9 (k, cvar) complementarities
  m.cons.resize(NC);
  bool used[3] = {false, false, false};
  for (int i = 0; i < NC; ++i) {
    int c = ex.choose(5 + 9, "conkind");
    AlgCon& a = m.cons[i];
    a.lin = {{i, 1.0 + i}, {(i + 1) % 3, 2.0}};
    std::sort(a.lin.begin(), a.lin.end(), [](const Term& x, const Term& y) { return x.var < y.var; });
    if (i == 1) { a.has_e = true; a.e = all_vars_product(3); }
    if (c < 5) { set_bound_kind(a.lb, a.ub, c, i); continue; }
    int k = 1 + (c - 5) / 3, cvar = (c - 5) % 3;
    if (used[cvar]) { m.label = "conbounds-dup-cvar"; }      // still legal NL; header best effort
    used[cvar] = true;
    a.k = k; a.cvar = cvar;
    if (k & 1) m.vars[cvar].lb = cvar == 1 ? 0 : 1.5;
    if (k & 2) m.vars[cvar].ub = 9;
  }
  m.objs.resize(1); m.objs[0].has_e = true; m.objs[0].e = all_vars_product(3);
}

static std::vector<Term> subset_terms(int mask, double base) {
  std::vector<Term> t;
  for (int v = 0; v < 3; ++v) if (mask >> v & 1) t.push_back({v, base + 0.75 * v});
  return t;
}
static void gen_linear(vx::Explorer& ex, Model& m) {
  m.label = "linear";
  m.vars.resize(3);
  m.cons.resize(2); m.objs.resize(1);
  m.cons[0].lin = subset_terms(ex.choose(8, "J0"), 1);
  m.cons[1].lin = subset_terms(g_thorough ? ex.choose(8, "J1") : 5, -2);
  m.objs[0].lin = subset_terms(ex.choose(8, "G0"), 0);       // includes explicit zero coefficient
  DefVar d; d.cls = 0; d.where = 0; d.lin = subset_terms(ex.choose(8, "Vlin"), 10); d.e = all_vars_product(3);
  m.dvs.push_back(d);
  m.cons[0].has_e = true; m.cons[0].e = V(3); m.cons[0].ub = 1;
  m.cons[1].lb = 0;
  m.objs[0].has_e = true; m.objs[0].e = Op(O_("MINUS"), {V(3)});
}

static void gen_defvars(vx::Explorer& ex, Model& m) {
  m.label = "defvars";
  int hi = g_thorough ? 3 : 2;
  int cnt[5]; for (int c = 0; c < 5; ++c) cnt[c] = ex.choose(hi, "ndv-class");
  int nlin = ex.choose(2, "nlin") * 2;
  bool nest = ex.choose(2, "nested");
  m.vars.resize(3);
  m.cons.resize(2); m.lcons.resize(1); m.objs.resize(2);
  m.cons[0].has_e = true; m.cons[0].e = all_vars_product(3); m.cons[0].ub = 3;
  m.cons[1].lb = m.cons[1].ub = 0;
  m.lcons[0].e = Op(O_("LT"), {V(0), V(1)});
  m.objs[0].has_e = true; m.objs[0].e = all_vars_product(3);
  int idx = 3, first_shared = -1;
  for (int c = 0; c < 5; ++c) for (int r = 0; r < cnt[c]; ++r, ++idx) {
    DefVar d; d.cls = c;
    for (int t = 0; t < nlin; ++t) d.lin.push_back({t, 1.0 + idx + t});
    d.e = Op(O_("DIV"), {V(r % 3), N(idx)});
    if (nest && c == 0 && r == 1 && first_shared >= 0) d.e = Op(O_("ADD"), {d.e, V(first_shared)});
    if (c == 0 && first_shared < 0) first_shared = idx;
    switch (c) {
      case 0: d.where = 0; add_ref(m.cons[1].has_e, m.cons[1].e, V(idx)); add_ref(m.objs[1].has_e, m.objs[1].e, V(idx)); break;
      case 1: d.where = 0; add_ref(m.cons[0].has_e, m.cons[0].e, V(idx));
              m.lcons[0].e = Op(O_("OR"), {m.lcons[0].e, Op(O_("GT"), {V(idx), N(1)})}); break;
      case 2: d.where = 0; add_ref(m.objs[0].has_e, m.objs[0].e, V(idx)); add_ref(m.objs[1].has_e, m.objs[1].e, V(idx)); break;
      case 3: if (r == 0) { d.where = 2; add_ref(m.cons[1].has_e, m.cons[1].e, V(idx)); }
              else { d.where = 3; m.lcons[0].e = Op(O_("AND"), {m.lcons[0].e, Op(O_("EQ"), {V(idx), N(2)})}); } break;
      default: d.where = -(r + 1); add_ref(m.objs[r].has_e, m.objs[r].e, V(idx)); break;
    }
    m.dvs.push_back(d);
  }
}

static const char* STRS[] = {"", "a", "x y", "tab\there", "nl\nin", "#hash 'q' \"dq\"", "0123456789012345678901234567890123456789"};
static void gen_functions(vx::Explorer& ex, Model& m) {
  m.label = "functions";
  int ftype = ex.choose(2, "functype"), decl = ex.choose(3, "declared-nargs"), arity = ex.choose(4, "call-arity");
  std::vector<Ex> a;
  for (int i = 0; i < arity; ++i) {
    switch (ex.choose(5, "argkind")) {
      case 0: a.push_back(N(1.5 + i)); break;
      case 1: a.push_back(V(i % 3)); break;
      case 2: a.push_back(Str(STRS[(i * 2 + arity + decl) % 7])); break;
      case 3: a.push_back(Op(O_("SIN"), {V(i % 3)})); break;
      default: a.push_back(Op(O_("IFSYM"), {Op(O_("LE"), {V(0), N(1)}), Str(STRS[(i + 3) % 7]), N(i)})); break;
    }
  }
  m = host(Call(2, a), TN);
  m.label = "functions";
  m.funcs.push_back({ftype ? "symfunc_1" : "numfunc", decl == 0 ? -1 : decl == 1 ? arity : -(arity + 1), ftype});
}

static void gen_initvals(vx::Explorer& ex, Model& m) {
  m.label = "initvals";
  int xm = ex.choose(8, "x0-subset"), dm = ex.choose(4, "d0-subset"), val = ex.choose(3, "values");
  m.vars.resize(3); m.cons.resize(2); m.objs.resize(1);
  m.cons[0].lin = {{0, 1}}; m.cons[1].lin = {{1, 1}, {2, 1}}; m.cons[0].ub = 1; m.cons[1].lb = 0;
  static const double VALS[3][3] = {{0, 1, -2.5}, {1e-300, 0.1, 123456789.125}, {-0.0, 1e22, -1.0 / 3}};
  m.have_x0 = true; m.have_d0 = true;
  for (int i = 0; i < 3; ++i) if (xm >> i & 1) m.x0.push_back({i, VALS[val][i]});
  for (int i = 0; i < 2; ++i) if (dm >> i & 1) m.d0.push_back({i, VALS[val][2 - i]});
}

static void suffix_base(Model& m) {
  m.vars.resize(3); m.cons.resize(2); m.lcons.resize(1); m.objs.resize(2);
  m.cons[0].lin = {{0, 1}}; m.cons[1].lin = {{1, 1}}; m.cons[0].ub = 1; m.cons[1].ub = 2;
  m.lcons[0].e = Op(O_("LE"), {V(0), N(1)});
  m.objs[0].lin = {{0, 1}}; m.objs[1].lin = {{2, 1}};
}
static int suffix_items(int kind) { return kind == 0 ? 3 : kind == 1 ? 3 : kind == 2 ? 2 : 1; }
static const int IVALS[] = {1, -1, 2147483647, -2147483647, 32768, -32769, 7};
static const double DVALS[] = {0.5, -1e-310, 1e300, 0.1, -123456.789, 4, 1.0 / 3};
static Suffix mk_suffix(const std::string& name, int kind, bool real, int mask, int shift) {
  Suffix s; s.name = name; s.kind = kind; s.real = real;
  for (int i = 0; i < suffix_items(kind); ++i) if (mask >> i & 1) {
    if (real) s.dvals.push_back({i, DVALS[(i + shift) % 7]}); else s.ivals.push_back({i, IVALS[(i + shift) % 7]});
  }
  return s;
}
static void gen_suffix1(vx::Explorer& ex, Model& m) {
  m.label = "suffix-single";
  suffix_base(m);
  int kind = ex.choose(4, "kind"); bool real = ex.choose(2, "real");
  int mask = ex.choose(1 << suffix_items(kind), "subset");      // 0 = empty suffix (must not be written)
  int shift = ex.choose(3, "values");
  m.sufs.push_back(mk_suffix("sfx_" + std::to_string(kind), kind, real, mask, shift));
}
static void gen_suffix2(vx::Explorer& ex, Model& m) {
  m.label = "suffix-multi";
  suffix_base(m);
  int n = ex.choose(g_thorough ? 4 : 3, "count");
  for (int s = 0; s < n; ++s) {
    int kr = ex.choose(8, "kind-x-type");
    m.sufs.push_back(mk_suffix(std::string(s == 1 ? "priority" : s == 2 ? "ref" : "sstatus"), kr & 3, kr >> 2, s == 0 ? 1 : (1 << suffix_items(kr & 3)) - 1, s));
  }
  switch (ex.choose(4, "plsos")) {
    case 0: break;
    case 1: m.sos_var = {{0, 1}, {1, 1}}; m.sosref_var = {{0, 1.5}, {1, 2.5}}; break;
    case 2: m.sos_var = {{0, -2}, {2, -2}}; m.sos_con = {{1, 1}}; m.sosref_var = {{0, 1}, {2, 3.25}}; break;
    default: m.sos_con = {{0, 3}}; break;
  }
}
static void gen_suffix_intmin(vx::Explorer& ex, Model& m) {
  m.label = "suffix int value INT_MIN";
  suffix_base(m);
  int kind = ex.choose(4, "kind");
  Suffix s; s.name = "imin"; s.kind = kind; s.ivals = {{0, INT_MIN}};
  m.sufs.push_back(s);
}

static void gen_names(vx::Explorer& ex, Model& m) {
  m.label = "names";
  int nv = 1 + ex.choose(3, "nv"), nc = ex.choose(3, "ncons"), col = ex.choose(2, "colnames"), row = ex.choose(2, "rownames"),
      style = ex.choose(3, "style");
  m.vars.resize(nv); m.cons.resize(nc); m.objs.resize(1);
  for (int i = 0; i < nc; ++i) { m.cons[i].lin = {{i % nv, 1}}; m.cons[i].ub = i; }
  m.objs[0].lin = {{0, 1}};
  static const char* ST[3][4] = {{"x", "yy", "zzz", "obj"}, {"x[1]", "y['a b',2]", "z[\"q\"]", "Total_Cost"},
                                 {"a_very_long_variable_name_0123456789_0123456789_0123456789", "b", "c#d", "o"}};
  if (col) for (int i = 0; i < nv; ++i) m.colnames.push_back(ST[style][i]);
  if (row) { for (int i = 0; i < nc; ++i) m.rownames.push_back(std::string("con_") + ST[style][i]); m.rownames.push_back(ST[style][3]); }
}

static void gen_header(vx::Explorer& ex, Model& m) {
  m.label = "header-options";
  static const int NO[] = {3, 0, 1, 2, 9};
  m.nopts = NO[ex.choose(5, "nopts")];
  int ov = ex.choose(3, "optvals");
  for (int i = 0; i < 9; ++i) m.opts[i] = ov == 0 ? (i < 2 ? 1 : 0) : ov == 1 ? i * 7 + 2 : 0;
  if (ov == 2 && m.nopts >= 2) { m.opts[0] = 0; m.opts[1] = 3; m.vbtol = ex.choose(2, "vbtol") ? 1e-6 : 0.5; }
  m.flags = ex.choose(2, "flags");
  m.vars.resize(2); m.cons.resize(1); m.objs.resize(1);
  m.cons[0].lin = {{0, 1}, {1, 1}}; m.cons[0].ub = 4; m.objs[0].lin = {{1, 2}};
}

// ampl_vbtol with more than one significant digit: WriteNLHeader prints it with "%.g".  The header
// option is reserved for AMPL and not part of the model -> observation only.
static void gen_vbtol_probe(vx::Explorer& ex, Model& m) {
  static const double VB[] = {0.125, 1.5e-7, 0.3};
  m.nopts = 3; m.opts[0] = 0; m.opts[1] = 3; m.opts[2] = 0; m.vbtol = VB[ex.choose(3, "vbtol")];
  m.label = "probe header ampl_vbtol with >1 significant digit";
  m.vars.resize(2); m.cons.resize(1); m.objs.resize(1);
  m.cons[0].lin = {{0, 1}, {1, 1}}; m.cons[0].ub = 4; m.objs[0].lin = {{1, 2}};
}

static void gen_expr_root(vx::Explorer& ex, Model& m) {
  const OpRef* op = &OPS[ex.choose(NOPS, "opcode")];
  std::vector<int> ar = arities(op);
  int a = ar[ex.choose((int)ar.size(), "arity")];
  m = host(make_op(op, a), result_type(op->cat));
  m.label = std::string("opcode ") + op->name + " arity " + std::to_string(a);
}
static void gen_call_root(vx::Explorer& ex, Model& m) {
  int a = ex.choose(4, "arity");
  std::vector<Ex> args; for (int i = 0; i < a; ++i) args.push_back(leaf(TS, i));
  m = host(Call(1, args), TN);
  m.funcs[1].nargs = a;
  m.label = "call arity " + std::to_string(a);
}
// arities the mp reader documents as malformed (MIN_ITER_ARGS = 3; >= 2 slopes): observation only
static void gen_expr_probe(vx::Explorer& ex, Model& m) {
  static const char* PR[] = {"SUM", "FORALL", "EXISTS", "PLTERM"};
  const OpRef* op = O_(PR[ex.choose(4, "op")]);
  int a = op->cat == PLC ? 1 : 1 + ex.choose(2, "arity");
  m = host(make_op(op, a), result_type(op->cat));
  m.label = std::string("probe opcode ") + op->name + " arity " + std::to_string(a);
}
static void gen_expr_pairs(vx::Explorer& ex, Model& m) {
  int pi = ex.choose(NOPS + 1, "parent");           // NOPS = function call
  bool pcall = pi == NOPS;
  const OpRef* p = pcall ? nullptr : &OPS[pi];
  int pa = pcall ? 3 : canon_arity(p);
  int npos = pcall ? 3 : p->cat == PLC ? 0 : pa;
  if (npos == 0) { m = host(make_op(p, pa), TN); m.label = "pair-none"; return; }
  int pos = ex.choose(npos, "position");
  int ci = ex.choose(NOPS + 1, "child");
  bool ccall = ci == NOPS;
  const OpRef* c = ccall ? nullptr : &OPS[ci];
  Ty want = pcall ? TS : arg_type(p->cat, pos);
  Ty have = ccall ? TN : result_type(c->cat);
  bool ok = want == have || (want == TN && have == TCOUNT) || (want == TS && (have == TN || have == TCOUNT));
  if (!ok) { m.vars.resize(1); m.label = "pair-illtyped"; return; }     // skipped (counted)
  Ex child;
  if (ccall) { child = Call(1, {leaf(TS, 0), leaf(TS, 1)}); }
  else child = make_op(c, canon_arity(c));
  Ex e;
  if (pcall) { std::vector<Ex> a; for (int i = 0; i < 3; ++i) a.push_back(i == pos ? child : leaf(TS, i)); e = Call(0, a); }
  else e = make_op(p, pa, pos, &child);
  m = host(e, pcall ? TN : result_type(p->cat));
  m.label = std::string("pair ") + (pcall ? "CALL" : p->name) + ">arg" + std::to_string(pos) + ">" + (ccall ? "CALL" : c->name);
}

// ------------------------------------------------------------------ number lattice (whole files)
static std::vector<double> g_numbers;
static const char* num_class(double x) {
  if (x == 0) return "zero";
  if (std::isinf(x)) return "inf";
  if (std::fabs(x) < DBL_MIN) return "subnormal";
  if (x == std::floor(x) && std::fabs(x) <= 32767) return "int16";
  if (x == std::floor(x) && std::fabs(x) <= 2147483647.0) return "int32";
  if (x == std::floor(x)) return "bigint";
  return "fraction";
}
static void build_numbers() {
  std::vector<double>& v = g_numbers;
  int step = g_thorough ? 1 : 16;
  for (uint64_t k = 0; k < 65536; k += step) { double x = from_bits(k << 48); if (!std::isnan(x)) v.push_back(x); }
  for (int k = -320; k <= 308; ++k) {
    char b[32]; std::snprintf(b, sizeof b, "1e%d", k); double x = std::strtod(b, nullptr);
    for (double y : {x, std::nextafter(x, INFINITY), std::nextafter(x, -INFINITY)}) { v.push_back(y); v.push_back(-y); }
  }
  for (double x : {4.9406564584124654e-324, 2.2250738585072009e-308, DBL_MIN, DBL_MAX, std::nextafter(DBL_MAX, 0.0), (double)INFINITY}) { v.push_back(x); v.push_back(-x); }
  for (int k = -20; k <= 20; ++k) { v.push_back(k / 7.0); v.push_back(0.1 * k); v.push_back(k); v.push_back(k + 0.5); }
  for (double b : {32767.0, 32768.0, 65535.0, 2147483647.0, 2147483648.0, 4294967296.0, 9007199254740992.0, 1e15, 1e16, 1e17, 123456789012345678.0})
    for (int d = -2; d <= 2; ++d) { v.push_back(b + d); v.push_back(-b + d); v.push_back(b + d + 0.5); }
  for (double x : {0.1 + 0.2, 1.0 / 3, 2.0 / 3, M_PI, M_E, 1e23, 5e-324, 1.7976931348623157e308, 8.41e21, 2.0e-308, 9.5367431640625e-7,
                   5.0e-324, 1.2345678901234567, 0.3, 1e22, 1e21, 123456.7, 299792458.0, 6.02214076e23})
    { v.push_back(x); v.push_back(-x); }
}
static void gen_numbers(vx::Explorer& ex, Model& m) {
  double x = g_numbers[ex.choose((int)g_numbers.size(), "number")];
  m.label = std::string("number ") + num_class(x);
  m.vars.resize(3);
  m.vars[0].lb = x; m.vars[0].ub = INFINITY;
  m.vars[1].lb = -INFINITY; m.vars[1].ub = x;
  m.vars[2].lb = m.vars[2].ub = x;
  m.cons.resize(3); m.objs.resize(2);
  // constant at the root of a C / O segment (objective constant term); zero there means "none"
  m.cons[2].has_e = true; m.cons[2].e = N(x); m.cons[2].ub = 0;
  m.objs[1].has_e = true; m.objs[1].e = N(x); m.objs[1].type = 1;
  double y = 1.5;
  m.cons[0].lb = std::min(x, y); m.cons[0].ub = std::max(x, y);
  m.cons[0].lin = {{0, x}, {2, 1}};
  m.cons[0].has_e = true; m.cons[0].e = Op(O_("MUL"), {all_vars_product(3), N(x)});
  m.cons[1].lb = m.cons[1].ub = x;
  m.cons[1].has_e = true; m.cons[1].e = PLT({x, 1, -x}, {x, x}, 1);
  m.objs[0].lin = {{1, x}};
  m.objs[0].has_e = true; m.objs[0].e = Op(O_("ADD"), {all_vars_product(3), Call(0, {N(x), Op(O_("MINUS"), {N(x)})})});
  m.funcs.push_back({"f", 2, 0});
  DefVar d; d.cls = 0; d.where = 0; d.lin = {{1, x}}; d.e = N(x); m.dvs.push_back(d);
  add_ref(m.cons[1].has_e, m.cons[1].e, V(3)); add_ref(m.objs[0].has_e, m.objs[0].e, V(3));
  m.have_x0 = m.have_d0 = true; m.x0 = {{1, x}}; m.d0 = {{0, x}};
  Suffix s; s.name = "rsuf"; s.kind = 0; s.real = true; s.dvals = {{2, x}}; m.sufs.push_back(s);
  Suffix s2; s2.name = "psuf"; s2.kind = 3; s2.real = true; s2.dvals = {{0, x}}; m.sufs.push_back(s2);
  m.sosref_var = {{0, x}};
}

// zero variables: NLWriter2::WriteNL deletes the file instead of writing (documented in the code:
// "Write NL file, if any variables") -> nothing is written, nothing to read back.
static void gen_novars(vx::Explorer& ex, Model& m) {
  m.label = "probe zero variables";
  int nc = ex.choose(2, "ncons");
  m.cons.resize(nc); m.objs.resize(1);
}

static std::vector<Family> families() {
  std::vector<Family> f;
  auto full = cfgs_full();
  f.push_back({"sizes", gen_sizes, full, false});
  f.push_back({"varclasses", gen_varclasses, full, false});
  f.push_back({"varbounds", gen_varbounds, full, false});
  f.push_back({"conbounds", gen_conbounds, full, false});
  f.push_back({"linear", gen_linear, full, false});
  f.push_back({"defvars", gen_defvars, full, false});
  f.push_back({"functions", gen_functions, g_thorough ? cfgs_full_eput() : cfgs_light(), false});
  f.push_back({"initvals", gen_initvals, full, false});
  f.push_back({"suffix-single", gen_suffix1, full, false});
  f.push_back({"suffix-multi", gen_suffix2, full, false});
  f.push_back({"suffix-int-min", gen_suffix_intmin, cfgs_fmt(), false});
  f.push_back({"names", gen_names, full, false});
  f.push_back({"header-options", gen_header, full, false});
  f.push_back({"expr-root", gen_expr_root, g_thorough ? cfgs_full_eput() : cfgs_light(), false});
  f.push_back({"call-root", gen_call_root, g_thorough ? cfgs_full_eput() : cfgs_light(), false});
  f.push_back({"expr-pairs", gen_expr_pairs, g_thorough ? cfgs_full_eput() : cfgs_light(), false});
  f.push_back({"numbers", gen_numbers, cfgs_fmt(), false});
  f.push_back({"expr-probe", gen_expr_probe, cfgs_fmt(), true});
  f.push_back({"novars-probe", gen_novars, cfgs_fmt(), true});
  f.push_back({"vbtol-probe", gen_vbtol_probe, cfgs_fmt(), true});
  return f;
}

// ------------------------------------------------------------------ judging one model
static std::string trace_json(const std::string& fam, const std::string& trace, int cfg) {
  return "{\"family\":\"" + fam + "\",\"trace\":\"" + trace + "\",\"cfg\":" + std::to_string(cfg) + "}";
}

static void note_ops(const Ex& e, const char* fmtname, bool ok, std::set<std::string>& out) {
  if (e.k == Ex::OP) out.insert(std::string("op:") + e.op->name + ":" + fmtname + (ok ? ":ok" : ":fail"));
  if (e.k == Ex::PL) out.insert(std::string("op:PLTERM:") + fmtname + (ok ? ":ok" : ":fail"));
  if (e.k == Ex::CALL) out.insert(std::string("op:CALL:") + fmtname + (ok ? ":ok" : ":fail"));
  for (auto& a : e.args) note_ops(a, fmtname, ok, out);
}

static void judge(const Family& fam, const Model& m, const std::string& trace, const std::string& stub, bool verbose = false) {
  bool is_expr = fam.name == "expr-root" || fam.name == "call-root";
  // the expected transcript depends on the configuration only through the column-size mode
  std::vector<std::string> exp_by_cs[3]; bool have_exp[3] = {false, false, false};
  long long n_text = 0, n_bin = 0;
  for (size_t ci = 0; ci < fam.cfgs.size(); ++ci) {
    const Cfg& cfg = fam.cfgs[ci];
    if (g_sh) g_sh->cfg = (int)ci;
    if (!have_exp[cfg.colsizes]) { exp_by_cs[cfg.colsizes] = expected_transcript(m, cfg); have_exp[cfg.colsizes] = true; }
    Outcome o = cycle(m, cfg, stub, &exp_by_cs[cfg.colsizes]);
    const char* fn = cfg.binary ? "binary" : "text";
    ++(cfg.binary ? n_bin : n_text);
    if (verbose) {
      std::printf("--- cfg %zu: %s -> %s %s\n", ci, cfg.str().c_str(), o.kind.c_str(), o.err.c_str());
      if (!cfg.binary) std::printf("%s\n", slurp(stub + ".nl", 20000).c_str());
      for (auto& s : o.missing) std::printf("  expected, not reported: %s\n", s.c_str());
      for (auto& s : o.unexpected) std::printf("  reported, not expected: %s\n", s.c_str());
    }
    if (fam.probe) {
      std::string cat;
      if (o.kind == "mismatch") cat = ":" + item_cat(o.missing.empty() ? "" : o.missing[0], o.unexpected.empty() ? "" : o.unexpected[0]);
      R.cls("probe:" + m.label + ":" + fn + ":" + o.kind + cat + (o.err.empty() ? "" : ":" + o.err));
      R.stat("probe_cycles");
      continue;
    }
    R.cls("family:" + fam.name + ":" + fn + ":" + o.kind);
    if (o.kind == "ok") {
      R.stat("cycles_ok");
      if (is_expr) {
        std::set<std::string> ops;
        note_ops(m.cons[0].e, fn, true, ops);
        for (auto& s : ops) R.cls(s);
      }
      if (fam.name == "numbers") R.cls(std::string("num:") + m.label.substr(7) + ":" + fn + ":ok");
      continue;
    }
    // ---- violation
    std::string sig = "C03 " + m.label + " " + fn;
    std::string nl = cfg.binary ? "<binary>" : slurp(stub + ".nl");
    if (o.kind == "mismatch") {
      std::string a = o.missing.empty() ? "" : o.missing[0], b = o.unexpected.empty() ? "" : o.unexpected[0];
      // pair up items of the same category when possible
      for (auto& u : o.unexpected) if (!a.empty() && u.substr(0, u.find(' ')) == a.substr(0, a.find(' '))) { b = u; break; }
      sig += " " + item_cat(a, b) + " transcript!=model";
    } else sig += " " + o.kind + ": " + o.err;
    std::string detail = "{\"cfg\":\"" + cfg.str() + "\",\"outcome\":\"" + o.kind + "\",\"error\":\"" + vx::jesc(o.err) +
                         "\",\"expected_not_reported\":" + jarr(o.missing) + ",\"reported_not_expected\":" + jarr(o.unexpected) +
                         ",\"model_items\":" + jarr(expected_transcript(m, cfg), 60) + ",\"nl_file\":\"" + vx::jesc(nl) + "\"}";
    R.violation(sig, detail, trace_json(fam.name, trace, (int)ci));
    R.stat("cycles_violating");
  }
  long long n = n_text + n_bin;
  R.stat("cycles", n); R.stat("cycles_text", n_text); R.stat("cycles_binary", n_bin);
  if (!m.sufs.empty() || !m.sos_var.empty()) R.stat("cycles_with_suffixes", n);
  if (!m.dvs.empty()) R.stat("cycles_with_defvars", n);
  if (!m.funcs.empty()) R.stat("cycles_with_functions", n);
  if (!m.colnames.empty() || !m.rownames.empty()) R.stat("cycles_with_names", n);
}

static std::vector<int> parse_trace(const std::string& s) {
  std::vector<int> v; std::istringstream is(s); std::string t;
  while (std::getline(is, t, ',')) if (!t.empty()) v.push_back(std::atoi(t.c_str()));
  return v;
}

static void flush_partial() {
  std::printf("{\"type\":\"stat\"");
  for (auto& kv : R.stats) std::printf(",\"%s\":%lld", vx::jesc(kv.first).c_str(), kv.second);
  std::printf("}\n");
  for (auto& c : R.classes) std::printf("{\"type\":\"class\",\"v\":\"%s\"}\n", vx::jesc(c).c_str());
  std::fflush(stdout);
}

// Enumerate one family from model index `start`; runs in a forked child.
static void run_family(const Family& fam, long long start, const std::string& stub) {
  vx::Explorer ex;
  long long idx = 0; int samples = 0;
  ex.run_all([&] {
    Model m; fam.gen(ex, m);
    long long my = idx++;
    // multiplicative hash so that a shard does not own a fixed residue of the last choice points
    if (my < start || !S.mine((long long)(((unsigned long long)my * 0x9E3779B1ull >> 8) & 0xffffff))) return;
    if (m.label == "pair-illtyped") { R.stat("pairs_illtyped_skipped"); return; }
    std::string tr = ex.trace_str();
    g_sh->cur = my; std::snprintf(g_sh->trace, sizeof g_sh->trace, "%s", tr.c_str());
    std::snprintf(g_sh->label, sizeof g_sh->label, "%s", m.label.c_str());
    if (!fam.probe && fam.name != "numbers" && fam.name != "novars-probe") {
      std::string err;
      bool explicit_cls = fam.name == "varclasses";
      if (!explicit_cls) err = auto_classes(m);
      if (err.empty()) err = check_consistency(m);
      if (!err.empty() && m.label != "conbounds-dup-cvar") { R.broken("family " + fam.name + " trace " + tr + ": " + err); return; }
    } else { std::string e = auto_classes(m); (void)e; }
    R.stat("models"); R.stat("models_" + fam.name);
    judge(fam, m, tr, stub);
    if (S.i == 0 && samples++ < 1 && !fam.probe)
      R.sample("{\"family\":\"" + fam.name + "\",\"label\":\"" + vx::jesc(m.label) + "\",\"trace\":\"" + tr + "\",\"model_items\":" +
               jarr(expected_transcript(m, fam.cfgs[0]), 30) + "}");
  });
  if (S.i == 0 && start == 0) R.stat("family_size_" + fam.name, idx);
}

// ------------------------------------------------------------------ formatter-level lattice
// The writer's own number output routines (TextFormatter::nput -> apr("%g") -> g_fmt/dtoa;
// BinaryFormatter::nput with short/long packing) feed the reader's own
// NLReader<TextReader|BinaryReader>::ReadConstant.
struct MemFile {
  char* buf = nullptr; size_t len = 0; mp::File f;
  MemFile() { f.f_ = open_memstream(&buf, &len); }
  void finish() { std::fflush(f.f_); }
  ~MemFile() { f.Close(); std::free(buf); }
};
static void lattice_block(const std::vector<double>& xs, Quiet& utils) {
  // text
  {
    MemFile mf; mp::TextFormatter tf(utils, false, 0);
    for (double x : xs) tf.nput(mf.f, x);
    mf.finish();
    std::string data(mf.buf, mf.len);
    mp::internal::TextReader<> tr(mp::NLStringRef(data.c_str(), data.size()), "lattice");
    Recorder rec; mp::NLHeader h = mp::NLHeader();
    mp::internal::NLReader<mp::internal::TextReader<>, Recorder> rd(tr, h, rec, 0);
    for (double x : xs) {
      double y;
      try { y = rd.ReadConstant(); } catch (const std::exception& e) {
        R.violation(std::string("C03 formatter text number ") + num_class(x) + " reader-rejects", "{\"x\":\"" + numstr(x) + "\",\"error\":\"" + vx::jesc(e.what()) + "\"}",
                    "{\"lattice\":\"" + numstr(x) + "\"}");
        break;
      }
      R.stat("lattice_text");
      if (!(y == x && (x != 0 ? bits_of(x) == bits_of(y) : true)))
        R.violation(std::string("C03 formatter text number ") + num_class(x) + " value-changed",
                    "{\"written\":\"" + numstr(x) + "\",\"read\":\"" + numstr(y) + "\"}", "{\"lattice\":\"" + numstr(x) + "\"}");
    }
  }
  // binary
  {
    MemFile mf; mp::BinaryFormatter bf(utils, false, 0);
    for (double x : xs) bf.nput(mf.f, x);
    mf.finish();
    std::string data(mf.buf, mf.len);
    mp::internal::TextReader<> tr(mp::NLStringRef(data.c_str(), data.size()), "lattice");
    mp::internal::BinaryReader<> br(tr);
    Recorder rec; mp::NLHeader h = mp::NLHeader();
    mp::internal::NLReader<mp::internal::BinaryReader<>, Recorder> rd(br, h, rec, 0);
    for (double x : xs) {
      double y;
      try { y = rd.ReadConstant(); } catch (const std::exception& e) {
        R.violation(std::string("C03 formatter binary number ") + num_class(x) + " reader-rejects", "{\"x\":\"" + numstr(x) + "\",\"error\":\"" + vx::jesc(e.what()) + "\"}",
                    "{\"lattice\":\"" + numstr(x) + "\"}");
        break;
      }
      R.stat("lattice_binary");
      if (!(y == x && (x != 0 ? bits_of(x) == bits_of(y) : true)))
        R.violation(std::string("C03 formatter binary number ") + num_class(x) + " value-changed",
                    "{\"written\":\"" + numstr(x) + "\",\"read\":\"" + numstr(y) + "\"}", "{\"lattice\":\"" + numstr(x) + "\"}");
    }
    if (br.ptr() != data.c_str() + data.size())
      R.violation("C03 formatter binary stream length", "{\"consumed\":" + std::to_string(br.ptr() - data.c_str()) + ",\"written\":" + std::to_string(data.size()) + "}");
  }
}
static void run_lattice() {
  Quiet utils;
  // quick: all 2^24 doubles whose low 40 mantissa bits are zero; thorough: all 2^28 with low 36 zero
  const int shift = g_thorough ? 36 : 40;
  const uint64_t total = 1ull << (64 - shift);
  const uint64_t stride = 1;
  const uint64_t block = 4096;
  std::vector<double> xs;
  for (uint64_t b0 = 0, bi = 0; b0 < total; b0 += block * stride, ++bi) {
    if (!S.mine((long long)bi)) continue;
    xs.clear();
    for (uint64_t k = b0; k < b0 + block * stride && k < total; k += stride) {
      double x = from_bits(k << shift);
      if (std::isnan(x)) { R.stat("lattice_nan_skipped"); continue; }
      xs.push_back(x);
    }
    lattice_block(xs, utils);
  }
  // low-bit patterns per exponent + the whole-file number set
  if (S.i == 0) {
    xs.clear();
    static const uint64_t MANT[] = {0xFFFFFFFFFFFFFull, 0x5555555555555ull, 0xAAAAAAAAAAAAAull, 1ull, 0x8000000000001ull, 0x7FFFFFFFFFFFFull,
                                    0x3243F6A8885A3ull, 0x6A09E667F3BCDull};
    for (uint64_t e = 0; e < 2047; ++e) for (uint64_t mnt : MANT) for (uint64_t s = 0; s < 2; ++s)
      xs.push_back(from_bits((s << 63) | (e << 52) | mnt));
    for (double x : g_numbers) xs.push_back(x);
    lattice_block(xs, utils);
  }
}

// ------------------------------------------------------------------ self test of the oracle
static bool selftest(const std::string& stub) {
  // Not demanded by the property (writer and reader only have to agree), recorded as a note:
  for (int i = 0; i < NOPS; ++i)
    if (OPS[i].w->code != OPS[i].spec_code)
      R.cls(std::string("note:writer opcode ") + OPS[i].name + "=" + std::to_string(OPS[i].w->code) +
            " differs from the NL specification number " + std::to_string(OPS[i].spec_code));
  Model m = host(make_op(O_("SUM"), 3), TN);
  std::string e = auto_classes(m); if (e.empty()) e = check_consistency(m);
  if (!e.empty()) { R.broken("selftest model inconsistent: " + e); return false; }
  Cfg cfg;
  Outcome o = cycle(m, cfg, stub);
  if (o.kind != "ok") {     // a genuine defect would also show in the families; do not mask it here
    return true;
  }
  int rejected = 0, tried = 0;
  auto differs = [&](Model w) { ++tried; auto x = expected_transcript(w, cfg); if (x != o.got) ++rejected; };
  { Model w = m; w.cons[0].e.op = O_("MAX"); differs(w); }                                  // other operator
  { Model w = m; w.cons[0].e.args.push_back(N(1)); differs(w); }                            // other arity
  { Model w = m; w.cons[0].lin[0].coef = std::nextafter(1.5, 2.0); differs(w); }            // 1 ulp
  { Model w = m; w.vars[1].ub = INFINITY; differs(w); }                                     // bound kind
  { Model w = m; std::swap(w.cons[0].e.args[0], w.cons[0].e.args[1]); differs(w); }         // argument order
  { Model w = m; w.dvs[0].where = 1; differs(w); }                                          // V position
  { Model w = m; w.funcs[0].type = 0; differs(w); }                                         // function type
  if (rejected != tried) { R.broken("oracle self-test: a deliberately wrong expectation was accepted"); return false; }
  R.stat("selftest_wrong_expectations_rejected", rejected);
  return true;
}

int main(int argc, char** argv) {
  S.parse(argc, argv);
  g_thorough = vx::has_flag(argc, argv, "--thorough");
  g_work = vx::arg_value(argc, argv, "--work", "build/work/C03");
  std::string dir = g_work + "/shard" + std::to_string(S.i);
  std::string cmd = "mkdir -p '" + dir + "'";
  if (std::system(cmd.c_str()) != 0) { R.broken("cannot create work dir"); R.done(); return 0; }
  std::string stub = dir + "/m";
  build_numbers();
  std::vector<Family> fams = families();

  if (vx::has_flag(argc, argv, "--replay-one")) {
    int a = 1; while (std::strcmp(argv[a], "--replay-one")) ++a;
    std::string fname = argv[a + 1], trace = argv[a + 2]; int cfg = std::atoi(argv[a + 3]);
    for (auto& fam : fams) if (fam.name == fname) {
      vx::Explorer ex; Model m;
      ex.run_one(parse_trace(trace), [&] { fam.gen(ex, m); });
      auto_classes(m);
      Family one = fam;
      if (cfg >= 0 && cfg < (int)fam.cfgs.size()) one.cfgs = {fam.cfgs[cfg]};
      std::printf("model %s\n", m.label.c_str());
      for (auto& s : expected_transcript(m, one.cfgs[0])) std::printf("  model item: %s\n", s.c_str());
      judge(one, m, trace, stub, true);
    }
    R.done();
    return 0;
  }

  g_sh = (Shared*)mmap(nullptr, sizeof(Shared), PROT_READ | PROT_WRITE, MAP_SHARED | MAP_ANONYMOUS, -1, 0);
  if (g_sh == MAP_FAILED) { R.broken("mmap failed"); R.done(); return 0; }
  if (!selftest(stub)) { R.done(); return 0; }
  const char* only = vx::arg_value(argc, argv, "--family");

  for (auto& fam : fams) {
    if (only && fam.name != only) continue;
    long long start = 0; int restarts = 0;
    for (;;) {
      std::fflush(stdout);
      g_sh->cur = -1; g_sh->cfg = -1; g_sh->trace[0] = 0; g_sh->label[0] = 0;
      pid_t pid = fork();
      if (pid < 0) { R.broken("fork failed"); break; }
      if (pid == 0) {
        R = vx::Report();
        run_family(fam, start, stub);
        flush_partial();
        _exit(0);
      }
      int st = 0; waitpid(pid, &st, 0);
      if (WIFEXITED(st) && WEXITSTATUS(st) == 0) break;
      // the child died inside the writer or the reader (sanitizer report / signal)
      std::string how = WIFSIGNALED(st) ? "signal " + std::to_string(WTERMSIG(st)) : "exit " + std::to_string(WEXITSTATUS(st));
      if (g_sh->cur < 0) { R.broken("family " + fam.name + " child died before the first model: " + how); break; }
      const Cfg& c = fam.cfgs[g_sh->cfg >= 0 ? g_sh->cfg : 0];
      R.violation("C03 " + std::string(g_sh->label) + " " + (c.binary ? "binary" : "text") + " crash (sanitizer/signal) in write-read cycle",
                  "{\"how\":\"" + how + "\",\"cfg\":\"" + c.str() + "\",\"family\":\"" + fam.name + "\"}",
                  trace_json(fam.name, g_sh->trace, g_sh->cfg));
      R.stat("crashes");
      start = g_sh->cur + 1;
      if (++restarts > 200) { R.cap("family " + fam.name + ": more than 200 crashing models"); break; }
    }
  }
  if (!only || !std::strcmp(only, "lattice")) {
    std::fflush(stdout);
    pid_t pid = fork();
    if (pid == 0) { R = vx::Report(); run_lattice(); flush_partial(); _exit(0); }
    int st = 0; waitpid(pid, &st, 0);
    if (!(WIFEXITED(st) && WEXITSTATUS(st) == 0)) {
      R.violation("C03 formatter lattice crash (sanitizer/signal)", "{\"status\":" + std::to_string(st) + "}");
    }
  }
  R.done();
  return 0;
}
