// C03 ChoiceFeeder: an mp::NLFeeder whose content is a c03::Model (generated exhaustively by
// the harness).  It follows the implementation skeletons documented in nl-feeder.h.
#pragma once
#include "mp/nl-feeder.h"
#include "mp/nl-writer2.h"
#include "mp/nl-writer2.hpp"
#include "model.h"

namespace c03 {

class ChoiceFeeder : public mp::NLFeeder<ChoiceFeeder, const Ex*> {
 public:
  const Model& m;
  Cfg cfg;
  ChoiceFeeder(const Model& mm, const Cfg& c) : m(mm), cfg(c) {}

  mp::NLHeader Header() { return make_header(m, cfg.binary); }
  bool WantNLComments() const { return cfg.comments; }
  int OutputPrecision() const { return 0; }
  bool WantBoundsFirst() const { return cfg.bounds_first; }
  int WantColumnSizes() const { return cfg.colsizes; }

  const char* ObjDescription(int) { return "objective  descr"; }
  int ObjType(int i) { return m.objs[i].type; }

  template <class F> void sparse(F& f, const std::vector<Term>& lin) {
    if (lin.size()) {
      auto w = f.MakeVectorWriter(lin.size());
      for (auto& t : lin) w.Write(t.var, t.coef);
    }
  }
  template <class F> void FeedObjGradient(int i, F& f) { sparse(f, m.objs[i].lin); }
  template <class W> void FeedObjExpression(int i, W& ew) {
    if (m.objs[i].has_e) put(m.objs[i].e, ew); else ew.NPut(0.0);
  }

  template <class DVWF> void FeedDefinedVariables(int i, DVWF& dvw) {
    for (size_t k = 0; k < m.dvs.size(); ++k) {
      const DefVar& d = m.dvs[k];
      if (d.where != i) continue;
      auto dv = dvw.StartDefVar(m.nv() + (int)k, (int)d.lin.size(), "defvar");
      auto linw = dv.GetLinExprWriter();
      for (auto& t : d.lin) linw.Write(t.var, t.coef);
      auto ew = dv.GetExprWriter();
      put(d.e, ew);
    }
  }

  template <class VBW> void FeedVarBounds(VBW& vbw) {
    for (auto& v : m.vars) vbw.WriteLbUb(v.lb, v.ub);
  }
  template <class CBW> void FeedConBounds(CBW& cbw) {
    for (auto& c : m.cons) {
      AlgConRange bnd;
      if (c.k > 0) { bnd.k = c.k; bnd.cvar = c.cvar; }
      else { bnd.L = c.lb; bnd.U = c.ub; }
      cbw.WriteAlgConRange(bnd);
    }
  }
  const char* ConDescription(int) { return "con descr"; }
  template <class F> void FeedLinearConExpr(int i, F& f) { sparse(f, m.cons[i].lin); }
  template <class W> void FeedConExpression(int i, W& ew) {
    int nac = (int)m.cons.size();
    if (i < nac) { if (m.cons[i].has_e) put(m.cons[i].e, ew); else ew.NPut(0.0); }
    else put(m.lcons[i - nac].e, ew);
  }

  // EPut() path: the writer calls back here
  template <class EW> void FeedExpr(Expr e, EW& ew) { put(*e, ew); }

  template <class EW> void child(const Ex& e, EW& ew) {
    if (cfg.eput && (e.k == Ex::OP || e.k == Ex::CALL)) ew.EPut(&e); else put(e, ew);
  }
  // write node e as the next argument of ew
  template <class EW> void put(const Ex& e, EW& ew) {
    switch (e.k) {
      case Ex::NUM: ew.NPut(e.num); return;
      case Ex::VAR: ew.VPut(e.var, "var"); return;
      case Ex::STR: ew.StrPut(e.str.c_str()); return;
      case Ex::CALL: {
        auto a = ew.FuncPut(e.func, (int)e.args.size(), "call");
        for (auto& c : e.args) child(c, a);
        return;
      }
      case Ex::PL: {
        int ns = (int)e.slopes.size();
        auto a = ew.OPutN(*e_pl(), 2 * ns);
        for (int i = 0; i + 1 < ns; ++i) { a.NPut(e.slopes[i]); a.NPut(e.bps[i]); }
        a.NPut(e.slopes[ns - 1]);
        a.VPut(e.var, "pl arg");
        return;
      }
      case Ex::OP: break;
    }
    const mp::nl::Opcode& oc = *e.op->w;
    int n = (int)e.args.size();
    if (variadic(e.op->cat)) {
      auto a = ew.OPutN(oc, n);
      for (auto& c : e.args) child(c, a);
    } else if (n == 1) {
      auto a = ew.OPut1(oc);
      child(e.args[0], a);
    } else if (n == 2) {
      auto a = ew.OPut2(oc);
      child(e.args[0], a); child(e.args[1], a);
    } else {
      auto a = ew.OPut3(oc);
      child(e.args[0], a); child(e.args[1], a); child(e.args[2], a);
    }
  }
  static const mp::nl::Opcode* e_pl() { return &mp::nl::PLTERM; }

  template <class PLSOS> void FeedPLSOS(PLSOS& plsos) {
    if (m.sos_var.empty() && m.sos_con.empty() && m.sosref_var.empty()) return;
    { auto w = plsos.StartSOSVars((int)m.sos_var.size()); for (auto& p : m.sos_var) w.Write(p.first, p.second); }
    if (m.sos_con.size()) { auto w = plsos.StartSOSCons((int)m.sos_con.size()); for (auto& p : m.sos_con) w.Write(p.first, p.second); }
    { auto w = plsos.StartSOSREFVars((int)m.sosref_var.size()); for (auto& p : m.sosref_var) w.Write(p.first, p.second); }
  }

  struct FuncDef {
    const Func* f;
    const char* Name() { return f->name.c_str(); }
    int NumArgs() { return f->nargs; }
    int Type() { return f->type; }
  };
  FuncDef Function(int i) { return FuncDef{&m.funcs[i]}; }

  template <class CSW> void FeedColumnSizes(CSW& csw) {
    if (WantColumnSizes()) {
      std::vector<int> cs(m.nv(), 0);
      for (auto& c : m.cons) for (auto& t : c.lin) ++cs[t.var];
      for (int j = 0; j + 1 < m.nv(); ++j) csw.Write(cs[j]);
    }
  }
  template <class IGW> void FeedInitialGuesses(IGW& igw) {
    if (m.have_x0 && m.x0.size()) {
      auto w = igw.MakeVectorWriter(m.x0.size());
      for (auto& p : m.x0) w.Write(p.first, p.second);
    }
  }
  template <class IGW> void FeedInitialDualGuesses(IGW& igw) {
    if (m.have_d0 && m.d0.size()) {
      auto w = igw.MakeVectorWriter(m.d0.size());
      for (auto& p : m.d0) w.Write(p.first, p.second);
    }
  }
  template <class SWF> void FeedSuffixes(SWF& swf) {
    for (auto& s : m.sufs) {
      if (s.real) {
        auto sw = swf.StartDblSuffix(s.name.c_str(), s.kind | 4, (int)s.dvals.size());
        for (auto& p : s.dvals) sw.Write(p.first, p.second);
      } else {
        auto sw = swf.StartIntSuffix(s.name.c_str(), s.kind, (int)s.ivals.size());
        for (auto& p : s.ivals) sw.Write(p.first, p.second);
      }
    }
  }
  template <class W> void FeedRowAndObjNames(W& wrt) {
    if (m.rownames.size() && wrt) for (auto& n : m.rownames) wrt << n.c_str();
  }
  template <class W> void FeedColNames(W& wrt) {
    if (m.colnames.size() && wrt) for (auto& n : m.colnames) wrt << n.c_str();
  }
};

}  // namespace c03
