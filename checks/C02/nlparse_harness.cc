// C02 layer P: the real parser mp::internal::NLReader<Reader, Handler> instantiated with a ChoiceReader
// whose answers come from vx::Explorer.  Independent of the text/binary lexers: every request of the
// parser (char, unsigned, int<T>, double, string, name) is a choice point whose default is the next
// token of a valid script and whose alternatives are a per-request alphabet; <= 1 (quick) / 2 (thorough)
// non-default answers per execution.  The answers form a tape, so the copies of the reader that the
// READ_BOUNDS_FIRST mode makes re-read exactly the same input.
//
// Process structure: one forked child per unit (a small header + its script) runs the whole explorer
// loop; every choice is mirrored into a shared-memory trace, so that when a child dies the parent
// knows the exact choice sequence, confirms it alone in a fresh (symbolising) process, records the
// observation, advances the explorer past it and forks the next child.
#include "c02_common.h"
#include "nl_bases.h"

using namespace nlb;

static vx::Shard S;
static bool g_thorough = false;
static std::string g_work;
static int g_out = -1;

// ------------------------------------------------------------------------------------------ shared trace
struct Shm {
  volatile int ntrace, overflow, cfg, unit_done;
  volatile long long execs, reads, complete, errors, refused, nested, mismatch_bugs;
  int n[4096], chosen[4096];
};
static Shm *g_shm = nullptr;
static vx::Explorer EX;

// A unit explored with two deviations is split into slices by the position of the *first* deviation
// (choice-point index mod g_nsplit): until a deviation has been taken, points of other slices offer
// only their default.
static int g_slice = 0, g_nsplit = 1, g_devs = 0;
static int choose(int n, const char *label) {
  int k = g_shm->ntrace;
  if (g_devs == 0 && g_nsplit > 1 && (k % g_nsplit) != g_slice) n = 1;
  int c = EX.choose(n, label);
  if (c) ++g_devs;
  if (k < 4096) { g_shm->n[k] = n; g_shm->chosen[k] = c; g_shm->ntrace = k + 1; } else g_shm->overflow = 1;
  return c;
}

// ------------------------------------------------------------------------------------------ tape + reader
struct TapeTok {
  char type;            // c char, u uint, i int, d double, s string, n name, e end-of-line, X script mismatch
  long long iv; double dv; const std::string *str; bool eof;
};
static const std::string STR_EMPTY = "", STR_A = "a", STR_Q16 = std::string(16, 'q');

struct Tape {
  std::vector<TapeTok> toks;
  const std::vector<Tok> *script; size_t sc;   // script cursor (moves only when the tape is extended)
  std::vector<std::string> owned;              // storage for script strings
  Tape(const std::vector<Tok> *s, size_t start) : script(s), sc(start) { owned.reserve(64); }
  const Tok *peek() { while (sc < script->size() && (*script)[sc].k == K_NAMELEN) ++sc; return sc < script->size() ? &(*script)[sc] : nullptr; }
};

class ChoiceReader {
  Tape *tape_; size_t pos_; bool last_eof_;

  const TapeTok &next(char want, int int_bits = 32) {
    if (pos_ < tape_->toks.size()) {           // re-reading decided input (a copy of the reader)
      const TapeTok &t = tape_->toks[pos_++];
      if (t.type != want && t.type != 'X') { g_shm->mismatch_bugs++; ReportError("tape type mismatch"); }
      if (t.type == 'X') ReportError("unexpected token");
      return t;
    }
    TapeTok t{want, 0, 0, &STR_EMPTY, false};
    const Tok *s = tape_->peek();
    bool match = false;
    switch (want) {
      case 'c': {
        static const char AL[] = {'C', 'L', 'O', 'V', 'F', 'G', 'J', 'S', 'b', 'r', 'K', 'k', 'x', 'd', 'o', 'v', 'n', 's', 'l', 'f', 'h',
                                  '0', '1', '2', '3', '4', '5', 'z', (char)0x80};
        const int NA = sizeof AL;
        match = s && s->k == K_CH;
        // default: the script's char; at the end of the script: NUL at EOF
        int c = choose(1 + NA + 2, "char");
        if (c == 0) { if (match) t.iv = s->iv; else if (!s) { t.iv = 0; t.eof = true; } else t.type = 'X'; }
        else if (c <= NA) t.iv = (unsigned char)AL[c - 1];
        else { t.iv = 0; t.eof = c == NA + 1; }   // NUL at EOF / NUL not at EOF
        break;
      }
      case 'u': {
        static const long long AL[] = {0, 1, 2, 3, 4, 5, 82, 83, INT_MAX - 1, INT_MAX};
        match = s && s->k == K_UINT;
        int c = choose(1 + 10, "uint");
        if (c == 0) { if (match) t.iv = s->iv; else t.type = 'X'; } else t.iv = AL[c - 1];
        break;
      }
      case 'i': {
        long long lo = int_bits == 16 ? SHRT_MIN : INT_MIN, hi = int_bits == 16 ? SHRT_MAX : INT_MAX;
        const long long AL[] = {-1, 0, 1, lo, hi};
        match = s && (s->k == K_INT || s->k == K_SHORT);
        int c = choose(1 + 5, "int");
        if (c == 0) { if (match) t.iv = s->iv; else t.type = 'X'; } else t.iv = AL[c - 1];
        break;
      }
      case 'd': {
        static const double AL[] = {0, 1.5, -INFINITY, NAN};
        match = s && s->k == K_DBL;
        int c = choose(1 + 4, "double");
        if (c == 0) { if (match) t.dv = s->dv; else t.type = 'X'; } else t.dv = AL[c - 1];
        break;
      }
      case 's': case 'n': {
        const std::string *AL[] = {&STR_EMPTY, &STR_A, &STR_Q16};
        if (want == 's') {   // script: K_UINT(len) K_STRBODY K_EOL
          match = s && s->k == K_UINT && tape_->sc + 1 < tape_->script->size() && (*tape_->script)[tape_->sc + 1].k == K_STRBODY;
        } else match = s && s->k == K_NAME;
        int c = choose(1 + 3, want == 's' ? "string" : "name");
        if (c == 0) {
          if (match) { tape_->owned.push_back(want == 's' ? (*tape_->script)[tape_->sc + 1].s : s->s); t.str = &tape_->owned.back(); }
          else t.type = 'X';
        } else t.str = AL[c - 1];
        if (match && want == 's') { tape_->sc += 2; if (tape_->peek() && tape_->peek()->k == K_EOL) ++tape_->sc; match = false; }
        break;
      }
      case 'e': {   // like a text reader: skip the rest of the script line
        size_t k = tape_->sc;
        while (k < tape_->script->size() && (*tape_->script)[k].k != K_EOL) ++k;
        tape_->sc = k < tape_->script->size() ? k + 1 : k;
        break;
      }
    }
    if (match) ++tape_->sc;   // a substituted answer replaces the script token
    tape_->toks.push_back(t); ++pos_;
    if (t.type == 'X') ReportError("unexpected token");
    return tape_->toks.back();
  }

 public:
  explicit ChoiceReader(Tape *t) : tape_(t), pos_(0), last_eof_(false) {}

  void ReportError(fmt::CStringRef format_str, const fmt::ArgList &args) {
    throw mp::ReadError(FNAME, 1, (int)pos_, format_str, args);
  }
  FMT_VARIADIC(void, ReportError, fmt::CStringRef)

  char ReadChar() { const TapeTok &t = next('c'); last_eof_ = t.eof; return (char)t.iv; }
  int ReadUInt() { return (int)next('u').iv; }
  template <typename Int> Int ReadInt() { return (Int)next('i', sizeof(Int) == 2 ? 16 : 32).iv; }
  double ReadDouble() { return next('d').dv; }
  fmt::StringRef ReadString() { const std::string *s = next('s').str; return fmt::StringRef(s->empty() ? 0 : s->data(), s->size()); }
  fmt::StringRef ReadName() { const std::string *s = next('n').str; return fmt::StringRef(s->data(), s->size()); }
  void ReadTillEndOfLine() { next('e'); }
  const char *ptr() const { return nullptr; }
  bool IsEOF() const { return last_eof_; }
};

// ------------------------------------------------------------------------------------------ units
struct Unit { Base base; mp::NLHeader header; std::string name; size_t body; };

static Base make_unit_base(int nv, int nc, int nlc, int no, int nf, int nce) {
  char nm[64]; std::snprintf(nm, sizeof nm, "v%dc%dl%do%df%de%d", nv, nc, nlc, no, nf, nce);
  BB bb(nm);
  int nref = nv + nce;
  bb.H10(nv, nc, no, nlc, nf, {0, nce, 0, 0, 0}, nc ? 1 : 0, no ? 1 : 0, {}, nc ? nv : 0, no ? nv : 0, (nc && no) ? nv : 0,
         {0, 0, 0, 0, 0}, nc ? nv : 0, no ? nv : 0);
  int rk = 0;
  auto ref = [&]() { if (nref > 0) bb.v(rk++ % nref); else bb.n(1 + rk++); };
  auto Lsmall = [&]() { bb.o(22); ref(); bb.n(1); };
  auto Enum_ = [&](bool use_ce) {   // a numeric expression touching every numeric operator class
    int save = nref; if (!use_ce) nref = nv;   // a common expression may not reference itself
    bb.o(54).cnt(nf ? 4 : 3);
    bb.o(16); ref();
    bb.o(11).cnt(2).n(1).o(60).cnt(2).s(1); ref();
    bb.o(35); Lsmall(); bb.o(59).cnt(1); Lsmall();
    if (nref > 0) { bb.o(64).cnt(2).n(1).l(0).n(2); ref(); } else bb.o(0).n(1).n(2);
    if (nf) { bb.f(0, 2).h("a").o(65); Lsmall(); bb.h("b").o(61).cnt(2).h("c"); ref(); }
    nref = save;
  };
  auto Llog = [&]() {
    bb.o(21).o(34); Lsmall();
    bb.o(70).cnt(3).n(1).o(62).n(1).o(59).cnt(1); Lsmall();
    bb.o(72).o(74).cnt(2); ref(); ref(); bb.o(73).n(0).n(1).o(20).n(0).n(1);
  };
  if (nf) bb.F(0, 1, -1, "f");
  if (nce) { bb.V(nv, nv ? 1 : 0, 0); if (nv) bb.term(0, 1.5); Enum_(false); }
  if (nv) bb.S(4, "vs", {{nv - 1, 0.5}});
  if (nc + nlc) bb.S(1, "cs", {{nc + nlc - 1, 3}});
  if (no) bb.S(2, "os", {{0, 1}});
  bb.S(7, "ps", {{0, 2.5}});
  for (int i = 0; i < nc; ++i) { bb.C(i); Enum_(true); }
  for (int i = 0; i < nlc; ++i) { bb.L(i); Llog(); }
  for (int i = 0; i < no; ++i) { bb.O(i, i); if (i == 0) Enum_(true); else bb.n(0); }
  if (nv) bb.init('x', {{0, 1}});
  if (nc) bb.init('d', {{0, 1}});
  if (nc) bb.bounds('r', nv ? std::vector<std::vector<double>>{{5, 1, (double)nv}} : std::vector<std::vector<double>>{{0, 0, 1}});
  { std::vector<std::vector<double>> b; for (int i = 0; i < nv; ++i) b.push_back(i ? std::vector<double>{2, 0} : std::vector<double>{0, 0, 1}); bb.bounds('b', b); }
  if (nv) { std::vector<int> k; for (int i = 0; i + 1 < nv; ++i) k.push_back(i + 1); bb.K('k', k); }
  if (nc && nv) bb.lin('J', 0, {{0, 1}});
  for (int i = 0; i < no && nv; ++i) bb.lin('G', i, {{nv - 1, 2}});
  return bb.done();
}

static std::vector<Unit> make_units() {
  std::vector<Unit> U;
  for (int nv = 0; nv <= 2; ++nv) for (int nc = 0; nc <= 1; ++nc) for (int nlc = 0; nlc <= 1; ++nlc)
    for (int no = 0; no <= 2; ++no) for (int nf = 0; nf <= 1; ++nf) for (int nce = 0; nce <= 1; ++nce) {
      Unit u; u.base = make_unit_base(nv, nc, nlc, no, nf, nce); u.name = u.base.name; u.body = (size_t)header_end(u.base);
      std::string htxt; for (size_t i = 0; i < u.body; ++i) htxt += render_tok(u.base.t[i], TEXT);
      u.header = mp::NLHeader();
      mp::internal::TextReader<> tr(htxt, "unit-header"); tr.ReadHeader(u.header);
      U.push_back(u);
    }
  return U;
}

// ------------------------------------------------------------------------------------------ one execution
static void wr(const std::string &line) {
  std::string s = line; s += '\n';
  const char *p = s.data(); size_t n = s.size();
  while (n) { ssize_t k = ::write(g_out, p, n); if (k <= 0) { if (errno == EINTR) continue; _exit(97); } p += k; n -= (size_t)k; }
}
static std::string tabsafe(std::string s) { for (char &c : s) if (c == '\t' || c == '\n') c = ' '; return s; }
static std::set<std::string> g_sent;
static void send_once(const char *tag, const std::string &v) { if (g_sent.insert(std::string(tag) + v).second) wr(std::string(tag) + "\t" + tabsafe(v)); }

static std::string replay_json(int unit) {
  std::string s = "{\"layer\":\"P\",\"unit\":" + std::to_string(unit) + ",\"slice\":" + std::to_string(g_slice) + ",\"nsplit\":" +
                  std::to_string(g_nsplit) + ",\"prefix\":[";
  for (int i = 0; i < g_shm->ntrace; ++i) { if (i) s += ','; s += std::to_string(g_shm->chosen[i]); }
  return s + "]}";
}
static std::string tape_desc(const Tape &t) {
  std::string s;
  for (auto &k : t.toks) {
    switch (k.type) {
      case 'c': s += k.iv >= 0x21 && k.iv < 0x7f ? std::string(1, (char)k.iv) : (k.iv == 0 ? (k.eof ? "<EOF>" : "<NUL>") : "<80>"); break;
      case 'u': case 'i': s += std::to_string(k.iv); break;
      case 'd': s += dtoa17(k.dv); break;
      case 's': case 'n': s += "\"" + *k.str + "\""; break;
      case 'e': s += "/"; break;
      default: s += "<X>";
    }
    s += ' ';
  }
  if (s.size() > 700) s = "..." + s.substr(s.size() - 700);
  return s;
}

template <class H> static void parse(Tape &tape, const mp::NLHeader &h, H &handler, int flags) {
  ChoiceReader rd(&tape);
  handler.OnHeader(h);
  mp::internal::NLReader<ChoiceReader, H>(rd, h, handler, flags).Read();
}

static void run_execution(int ui, const Unit &u, bool is_default) {
  Tape tape(&u.base.t, u.body);
  Res R[6];
  bool all_complete = true;
  for (int c = 0; c < 6; ++c) {
    int handler = c / 2, flags = c % 2;
    g_shm->cfg = c;
    Res &r = R[c];
    if (handler == H_REC) {
      pnl::Recorder h; h.record_model = false;
      guarded(r, [&] { parse(tape, u.header, h, flags); });
      r.log.swap(h.log); r.perr = h.errors; r.maxdepth = h.max_depth; r.ended = h.ended;
      if (is_default && c == 0) r.events = h.event_names();
      if (r.kind == 0 && !h.ended) r.perr.push_back("order:read returned without EndInput");
    } else if (handler == H_NULL) {
      mp::NullNLHandler<int> h;
      guarded(r, [&] { parse(tape, u.header, h, flags); });
    } else {
      mp::Problem p; mp::internal::NLProblemBuilder<mp::Problem> h(p);
      guarded(r, [&] { parse(tape, u.header, h, flags); });
    }
    g_shm->reads++;
    if (r.kind == 0) g_shm->complete++; else if (r.kind == 3) g_shm->refused++; else g_shm->errors++;
    if (r.kind) all_complete = false;
    if (r.maxdepth >= 2) g_shm->nested++;
    std::string cn = std::string(HNAME[handler]) + "/flags" + std::to_string(flags);
    auto viol = [&](const std::string &sig, const std::string &detail) {
      wr("V\t" + tabsafe(sig) + "\t{\"unit\":\"" + u.name + "\",\"cfg\":\"" + cn + "\",\"tape\":" + jstr(tape_desc(tape)) + ",\"detail\":" +
         jstr(detail) + "}\t" + replay_json(ui));
    };
    for (auto &e : r.perr) viol("C02 protocol " + norm_msg(e), e + " outcome=" + KNAME[r.kind] + " " + r.msg);
    if (r.kind == 4 || r.kind == 5) viol(std::string("C02 unexpected exception type ") + r.etype + " handler=" + HNAME[handler], r.msg);
    if (r.kind == 2 && handler != H_PROB) viol(std::string("C02 unlocated error from reader ") + r.etype + ": " + norm_msg(r.msg), r.msg);
    if (flags == 0) send_once("C", std::string("P|") + HNAME[handler] + "|" + KNAME[r.kind] + "|" + (r.kind ? r.etype + ":" + norm_msg(r.msg) : ""));
    if (handler == H_REC && flags == 1) {
      Res &a = R[0];
      if (a.kind != r.kind || a.msg != r.msg)
        viol("C02 flags differential: outcome differs between flags 0 and READ_BOUNDS_FIRST (parser level)",
             std::string("flags0=") + KNAME[a.kind] + ":" + a.msg + " boundsfirst=" + KNAME[r.kind] + ":" + r.msg);
      else if (!flags_transcripts_agree(a.log, r.log, r.kind == 0))
        viol("C02 flags differential: callbacks differ beyond the position of OnVarBounds (parser level)", "");
    }
  }
  if (is_default) {
    if (!all_complete) {
      std::string why; for (int c = 0; c < 6; ++c) if (R[c].kind) { why = std::string(HNAME[c / 2]) + ": " + R[c].msg; break; }
      wr("B\tlayer P unit " + u.name + ": the unmodified script does not complete: " + tabsafe(why));
    } else {
      wr("G\t" + u.name);
      for (auto &e : R[0].events) send_once("F", "ev:" + e);
      for (auto &f : u.base.feats) send_once("F", f);
    }
  }
}

// ------------------------------------------------------------------------------------------ child / parent
static vx::Report Rp;
static std::vector<Unit> g_units;

static void child_unit(int out_fd, int ui, bool single) {
  g_out = out_fd;
  if (chdir(g_work.c_str()) != 0) _exit(95);
  int efd = ::open("stderr.txt", O_WRONLY | O_CREAT | O_TRUNC, 0644);
  if (efd >= 0) { dup2(efd, 2); ::close(efd); }
  signal(SIGALRM, SIG_DFL);
  const Unit &u = g_units[ui];
  for (;;) {
    EX.trace.clear(); EX.pos = 0; g_shm->ntrace = 0; g_devs = 0;
    bool is_default = EX.prefix.empty() && g_slice == 0;
    alarm(single ? 120 : 10);
    run_execution(ui, u, is_default);
    alarm(0);
    g_shm->execs++;
    if (single) break;
    if (!EX.advance()) { g_shm->unit_done = 1; break; }
  }
  _exit(0);
}

struct Run { int status; };
static char **g_argv; static int g_argc;

static int spawn(int ui, bool single) {
  int fds[2]; if (pipe(fds) != 0) { Rp.broken("pipe failed"); Rp.done(); exit(0); }
  fflush(stdout);
  pid_t pid = fork();
  if (pid == 0) {
    ::close(fds[0]);
    if (!single) child_unit(fds[1], ui, false);
    std::string ao = getenv("ASAN_OPTIONS") ? getenv("ASAN_OPTIONS") : ""; ao += ":symbolize=1"; setenv("ASAN_OPTIONS", ao.c_str(), 1);
    std::string uo = getenv("UBSAN_OPTIONS") ? getenv("UBSAN_OPTIONS") : ""; uo += ":symbolize=1"; setenv("UBSAN_OPTIONS", uo.c_str(), 1);
    std::vector<std::string> a(g_argv, g_argv + g_argc);
    std::string pre; for (size_t i = 0; i < EX.prefix.size(); ++i) { if (i) pre += ','; pre += std::to_string(EX.prefix[i]); }
    a.push_back("--single-unit"); a.push_back(std::to_string(ui)); a.push_back("--prefix"); a.push_back(pre.empty() ? "-" : pre);
    a.push_back("--slice"); a.push_back(std::to_string(g_slice)); a.push_back("--nsplit"); a.push_back(std::to_string(g_nsplit));
    a.push_back("--out-fd"); a.push_back(std::to_string(fds[1]));
    std::vector<char *> av; for (auto &x : a) av.push_back(&x[0]); av.push_back(nullptr);
    execv("/proc/self/exe", av.data());
    _exit(94);
  }
  ::close(fds[1]);
  FILE *in = fdopen(fds[0], "r");
  char *line = nullptr; size_t cap = 0; ssize_t n;
  while ((n = getline(&line, &cap, in)) > 0) {
    if (line[n - 1] != '\n') break;
    line[n - 1] = 0;
    std::vector<std::string> f; { char *p = line; for (;;) { char *t = strchr(p, '\t'); if (!t) { f.push_back(p); break; } f.emplace_back(p, t - p); p = t + 1; } }
    const std::string &t = f[0];
    if (t == "V" && f.size() >= 4) Rp.violation(f[1], f[2], f[3]);
    else if (t == "C" && f.size() >= 2) Rp.classes.insert(f[1]);
    else if (t == "F" && f.size() >= 2) printf("{\"type\":\"feature\",\"v\":\"%s\"}\n", vx::jesc(f[1]).c_str());
    else if (t == "G" && f.size() >= 2) Rp.stats["p_units_completing"]++;
    else if (t == "B" && f.size() >= 2) Rp.broken(f[1]);
  }
  free(line); fclose(in);
  int status = 0; while (waitpid(pid, &status, 0) < 0 && errno == EINTR) {}
  return status;
}

static std::map<std::string, Crash> g_confirmed;

// two deviations (thorough) on 4 headers (2 vars + common expr + function with one constraint / one logical
// constraint / one objective; 0 vars with one of each); one deviation everywhere else
static bool two_dev_unit(const Unit &u) {
  const mp::NLHeader &h = u.header;
  if (h.num_vars == 1 || h.num_funcs != 1 || (h.num_common_exprs() == 1) != (h.num_vars > 0)) return false;
  int a = h.num_algebraic_cons, l = h.num_logical_cons, o = h.num_objs;
  if (h.num_vars == 0) return a == 1 && l == 1 && o == 1;
  return (a == 1 && l == 0 && o == 0) || (a == 0 && l == 1 && o == 0) || (a == 0 && l == 0 && o == 1);
}
enum { NSPLIT2 = 16 };

static void run_unit(int ui, int slice, int nsplit, int maxdev) {
  EX = vx::Explorer(); EX.max_deviations = maxdev;
  g_slice = slice; g_nsplit = nsplit;
  EX.prefix.clear();
  for (long guard = 0; guard < 10000000; ++guard) {
    g_shm->unit_done = 0; g_shm->ntrace = 0;
    int status = spawn(ui, false);
    bool clean = WIFEXITED(status) && WEXITSTATUS(status) == 0;
    if (clean && g_shm->unit_done) return;
    if (clean) { Rp.broken("layer P child ended without finishing unit " + g_units[ui].name); return; }
    // ---- the child died in the execution whose choices are in the shared trace
    std::vector<int> seq(g_shm->chosen, g_shm->chosen + g_shm->ntrace);
    int cfg = g_shm->cfg;
    std::string cn = std::string(HNAME[cfg / 2]) + "/flags" + std::to_string(cfg % 2);
    std::string rep1 = read_file(g_work + "/stderr.txt");
    Crash c1 = classify(status, rep1);
    std::string key = crash_key(c1, rep1);
    std::string replay = replay_json(ui);
    Crash c2; std::string rep2 = rep1;
    auto known = key.empty() ? g_confirmed.end() : g_confirmed.find(key);
    bool skip = false;
    if (c1.resource) { Rp.stats["asan_allocation_refusals"]++; skip = true; }
    else if (known != g_confirmed.end()) { c2 = known->second; Rp.stats["crashes_matched_to_confirmed_root_cause"]++; }
    else {
      vx::Explorer saved = EX; EX.prefix = seq;
      int st2 = spawn(ui, true);
      EX = saved;
      rep2 = read_file(g_work + "/stderr.txt");
      Rp.stats["crash_confirmation_runs"]++;
      if (WIFEXITED(st2) && WEXITSTATUS(st2) == 0) {
        if (c1.timeout) Rp.stats["slow_inputs_over_10s"]++;
        else Rp.broken("layer P crash not reproduced alone: unit " + g_units[ui].name + " " + c1.kind + " " + rep1.substr(0, 300));
        skip = true;
      } else {
        c2 = classify(st2, rep2);
        if (c2.resource) { Rp.stats["asan_allocation_refusals"]++; skip = true; }
        else if (!key.empty()) g_confirmed[key] = c2;
      }
    }
    if (!skip) {
      if (c2.site.compare(0, 7, "HARNESS") == 0 && !c2.stack) Rp.broken("sanitizer report inside the harness/oracle: " + c2.kind + " " + c2.site);
      else {
        Rp.stats["crashing_inputs"]++;
        std::string detail = "{\"unit\":" + jstr(g_units[ui].name) + ",\"cfg\":" + jstr(cn) + ",\"kind\":" + jstr(c2.kind) + ",\"site\":" + jstr(c2.site) +
                             ",\"loc\":" + jstr(c2.loc) + ",\"summary\":" + jstr(c2.summary) + ",\"report_head\":" + jstr(rep2.substr(0, 1500)) + "}";
        std::string sig = c2.timeout ? "C02 hang (no termination within 120 s) parser level" : "C02 " + c2.kind + " " + c2.site;
        Rp.violation(sig, detail, replay);
        Rp.classes.insert("P|crash|" + c2.kind + "|" + c2.site);
      }
    }
    // advance the explorer past the execution that died (its trace ends where it died)
    EX.trace.clear();
    for (int i = 0; i < g_shm->ntrace; ++i) EX.trace.push_back({g_shm->n[i], g_shm->chosen[i], ""});
    if (!EX.advance()) return;
  }
  Rp.broken("layer P parent loop guard");
}

int main(int argc, char **argv) {
  g_argv = argv; g_argc = argc;
  S.parse(argc, argv);
  g_thorough = vx::has_flag(argc, argv, "--thorough");
  const char *w = vx::arg_value(argc, argv, "--work", "build/work/C02");
  g_work = std::string(w) + "/p" + std::to_string(S.i);
  if (const char *r = vx::arg_value(argc, argv, "--repo")) g_repo = r;
  g_units = make_units();
  g_shm = (Shm *)mmap(nullptr, sizeof(Shm), PROT_READ | PROT_WRITE, MAP_SHARED | MAP_ANONYMOUS, -1, 0);
  if (g_shm == MAP_FAILED) { Rp.broken("mmap failed"); Rp.done(); return 0; }
  memset((void *)g_shm, 0, sizeof(Shm));
  if (const char *su = vx::arg_value(argc, argv, "--single-unit")) {
    std::string pre = vx::arg_value(argc, argv, "--prefix", "-");
    EX.max_deviations = -1; EX.prefix.clear();
    g_slice = atoi(vx::arg_value(argc, argv, "--slice", "0")); g_nsplit = atoi(vx::arg_value(argc, argv, "--nsplit", "1"));
    if (pre != "-") { size_t p = 0; while (p < pre.size()) { EX.prefix.push_back(atoi(pre.c_str() + p)); p = pre.find(',', p); if (p == std::string::npos) break; ++p; } }
    child_unit(atoi(vx::arg_value(argc, argv, "--out-fd", "1")), atoi(su), true);
    return 0;
  }
  if (vx::has_flag(argc, argv, "--dump-units")) {
    for (auto &u : g_units) { std::vector<std::vector<Alt>> A(u.base.t.size()); printf("=== %s\n%s", u.name.c_str(), render(u.base, TEXT, {}, A).c_str()); }
    return 0;
  }
  { std::string cmd = "mkdir -p '" + g_work + "'"; if (system(cmd.c_str()) != 0) { Rp.broken("cannot create work dir"); Rp.done(); return 0; } }
  if (const char *rp = vx::arg_value(argc, argv, "--replay")) {   // {"layer":"P","unit":U,"prefix":[...]}
    std::string r = rp; int ui = atoi(r.c_str() + r.find("\"unit\":") + 7);
    if (r.find("\"slice\":") != std::string::npos) { g_slice = atoi(r.c_str() + r.find("\"slice\":") + 8); g_nsplit = atoi(r.c_str() + r.find("\"nsplit\":") + 9); }
    EX.prefix.clear(); size_t p = r.find("\"prefix\":[");
    if (p != std::string::npos) { p += 10; while (p < r.size() && r[p] != ']') { EX.prefix.push_back(atoi(r.c_str() + p)); p = r.find_first_of(",]", p); if (r[p] == ',') ++p; } }
    int st = spawn(ui, true);
    if (!(WIFEXITED(st) && WEXITSTATUS(st) == 0)) {
      std::string rep = read_file(g_work + "/stderr.txt"); Crash c = classify(st, rep);
      Rp.violation("C02 " + c.kind + " " + c.site, jstr(rep.substr(0, 1500)), "null");
    }
    Rp.done();
    return 0;
  }
  {
    long long item = 0;
    for (int ui = 0; ui < (int)g_units.size(); ++ui) {
      bool two = g_thorough && two_dev_unit(g_units[ui]);
      int ns = two ? NSPLIT2 : 1;
      for (int sl = 0; sl < ns; ++sl) if (S.mine(item++)) { run_unit(ui, sl, ns, two ? 2 : 1); Rp.stats["p_work_items"]++; }
      if (S.i == 0) { Rp.stats["p_units"]++; if (two) Rp.stats["p_units_two_deviations"]++; }
    }
  }
  Rp.stats["p_executions"] = g_shm->execs; Rp.stats["p_reads"] = g_shm->reads; Rp.stats["p_reads_complete"] = g_shm->complete;
  Rp.stats["p_reads_error"] = g_shm->errors; Rp.stats["p_reads_refused"] = g_shm->refused;
  Rp.stats["p_reads_with_nested_begin_end"] = g_shm->nested;
  if (g_shm->mismatch_bugs) Rp.broken("layer P: a re-read of the tape requested a different token type (" + std::to_string(g_shm->mismatch_bugs) + ")");
  if (g_shm->overflow) Rp.broken("layer P: trace longer than 4096 choice points");
  Rp.done();
  return 0;
}
