// C02: bounded-exhaustive exploration of the NL reader.
//   layer L  whole byte strings: deviations (0/1/2) from ~36 small valid files in text, binary
//            native and binary byte-swapped form, lexer-level strings, nesting-depth ladders;
//   layer P  the real NLReader<ChoiceReader, Handler> driven by vx::Explorer (see parser part).
// Every input is executed in a forked child (batches; the child reports progress through a pipe, so
// the parent knows the exact (input, configuration) that was running when a child dies); a crash, a
// sanitizer report or a time-out is an observation, confirmed by re-running that single case alone.
#include "c02_common.h"
#include "nl_bases.h"

using namespace nlb;

// ------------------------------------------------------------------------------------------ globals
static vx::Shard S;
static bool g_thorough = false;
static std::string g_work;            // per-shard scratch directory (cwd of the children)
static long PAGE = 4096;
static int g_out = -1;                // child: pipe to the parent
static int g_batch = 4000;

// Progress of the running child, mirrored into shared memory (no system call per read): the parent
// learns from it which (input, configuration) was running when a child died.
struct LShm {
  volatile long long idx; volatile int cfg, in_flight;
  volatile long long inputs, reads, complete, errors, refused, nested, alloc_ref;
  volatile long long next; volatile int ended; volatile long long total, pruned;
  volatile int mode, raw_len, has_replay;
  char desc[600], ladder[80], key[700], replay[600], raw[1 << 15];
};
static LShm *g_shm = nullptr;

enum { P_MEM = 0, P_FILE = 1 };
enum { M_FULL = 0, M_LEX = 1, M_PAIR = 2, M_LADDER = 3, M_NAT = 4 };
static const char *VNAME[] = {"natural", "page", "page-1", "page+1"};

template <class H> static void read_into(H &h, const std::string &bytes, int path, int flags) {
  if (path == P_FILE) { mp::ReadNLFile(FNAME, h, flags); return; }
  // exact-size heap copy: the byte after the terminating NUL is an ASan redzone
  struct Buf { char *p; ~Buf() { std::free(p); } } b{(char *)std::malloc(bytes.size() + 1)};
  std::memcpy(b.p, bytes.data(), bytes.size()); b.p[bytes.size()] = 0;
  mp::ReadNLString(mp::NLStringRef(b.p, bytes.size()), h, FNAME, flags);
}

static Res run_one(const std::string &bytes, int handler, int path, int flags, bool light, bool want_events = false) {
  Res r;
  if (handler == H_REC) {
    pnl::Recorder h; h.record_model = false; if (light) h.record_log = false;
    guarded(r, [&] { read_into(h, bytes, path, flags); });
    r.log.swap(h.log); r.perr = h.errors; r.maxdepth = h.max_depth; r.ended = h.ended;
    if (want_events) r.events = h.event_names();
    if (r.kind == 0 && !h.ended) r.perr.push_back("order:read returned without EndInput");
  } else if (handler == H_NULL) {
    mp::NullNLHandler<int> h;
    guarded(r, [&] { read_into(h, bytes, path, flags); });
  } else {
    mp::Problem p;
    guarded(r, [&] { read_into(p, bytes, path, flags); });
  }
  return r;
}

// ------------------------------------------------------------------------------------------ inputs
struct InputData {
  int mode = M_FULL;
  std::string bytes;
  std::string desc;       // human readable: base/fmt/deviation
  std::string cls;        // class prefix: layer|fmt|devkind
  std::string replay;     // JSON value; default {"hex":...,"mode":..}
  bool is_base = false; const Base *base = nullptr; int fmt = 0;
  std::string ladder; long depth = 0;
  std::string key;        // single-token deviations: base/fmt/token/hex(alternative) (pruning key for stage 2)
};

static void wr(const std::string &line) {   // child -> parent
  std::string s = line; s += '\n';
  const char *p = s.data(); size_t n = s.size();
  while (n) { ssize_t k = ::write(g_out, p, n); if (k <= 0) { if (errno == EINTR) continue; _exit(97); } p += k; n -= (size_t)k; }
}
static std::string tabsafe(std::string s) { for (char &c : s) if (c == '\t' || c == '\n') c = ' '; return s; }

static std::string pad_to(const std::string &b, size_t target) {
  if (b.size() >= target) return std::string();
  size_t k = target - b.size();
  std::string pad = k == 1 ? " " : "\t#" + std::string(k - 2, 'p');
  size_t nl = b.find('\n');
  if (nl == std::string::npos) return b + std::string(k, ' ');
  return b.substr(0, nl) + pad + b.substr(nl);
}
static bool write_file(const std::string &bytes) {
  int fd = ::open(FNAME, O_WRONLY | O_CREAT | O_TRUNC, 0644);
  if (fd < 0) return false;
  const char *p = bytes.data(); size_t n = bytes.size();
  while (n) { ssize_t k = ::write(fd, p, n); if (k <= 0) { ::close(fd); return false; } p += k; n -= (size_t)k; }
  ::close(fd);
  return true;
}

static bool cfg_enabled(int mode, int fmt, int vi, int flags, int handler, int path) {
  switch (mode) {
    case M_FULL:
      if (g_thorough || vi == 0) return true;
      // quick: the padded sizes exercise how the buffer is obtained, which does not depend on the handler
      if (fmt == SWAP && vi != 1) return false;
      return handler == H_REC || (path == P_FILE && flags == 0);
    case M_NAT: return vi == 0;
    case M_LADDER: return vi == 0;
    case M_LEX: if (vi) return false; if (path == P_MEM) return handler == H_REC || flags == 0; return handler == H_REC && flags == 0;
    case M_PAIR: return vi == 0 && path == P_MEM && !(handler == H_NULL && flags == 1);
  }
  return false;
}
static int cfg_index(int vi, int flags, int handler, int path) { return ((vi * 2 + flags) * 3 + handler) * 2 + path; }
static std::string cfg_name(int c) {
  int path = c % 2, handler = (c / 2) % 3, flags = (c / 6) % 2, vi = c / 12;
  return std::string(HNAME[handler]) + "/" + (path ? "file" : "mem") + "/flags" + std::to_string(flags) + "/" + VNAME[vi];
}

struct ChildStats { long long reads = 0, complete = 0, errors = 0, refused = 0, nested = 0; };
static std::set<std::string> g_sent_classes, g_sent_feats;
static int g_samples_sent = 0;

static std::string replay_of(const InputData &d) {
  return d.replay.empty() ? "{\"hex\":\"" + hexs(d.bytes) + "\",\"mode\":" + std::to_string(d.mode) + "}" : d.replay;
}
static void violation(const InputData &d, const std::string &sig, const std::string &detail) {
  wr("V\t" + tabsafe(sig) + "\t{\"input\":" + jstr(d.desc) + ",\"detail\":" + jstr(detail) + "}\t" + replay_of(d));
}
static void cpy(char *dst, size_t cap, const std::string &s) { size_t n = std::min(cap - 1, s.size()); std::memcpy(dst, s.data(), n); dst[n] = 0; }
static void send_class(const std::string &c) { if (g_sent_classes.insert(c).second) wr("C\t" + tabsafe(c)); }
static void send_feat(const std::string &f) { if (g_sent_feats.insert(f).second) wr("F\t" + tabsafe(f)); }

// Runs every enabled configuration of one input (from start_cfg on; only that one if single).
static void execute(long long idx, const InputData &d, int start_cfg, bool single, ChildStats &st) {
  g_shm->idx = idx; g_shm->cfg = -1; g_shm->mode = d.mode;
  cpy(g_shm->desc, sizeof g_shm->desc, d.desc); cpy(g_shm->key, sizeof g_shm->key, d.key.empty() ? "-" : d.key);
  cpy(g_shm->ladder, sizeof g_shm->ladder, d.ladder.empty() ? std::string("-") : d.ladder + ":" + std::to_string(d.depth));
  g_shm->has_replay = !d.replay.empty(); cpy(g_shm->replay, sizeof g_shm->replay, d.replay);
  g_shm->raw_len = d.bytes.size() <= sizeof g_shm->raw ? (int)d.bytes.size() : -1;
  if (g_shm->raw_len >= 0) std::memcpy(g_shm->raw, d.bytes.data(), d.bytes.size());
  g_shm->in_flight = 1;
  alarm(single ? 120 : 10);
  const bool light = d.mode == M_LADDER && d.depth > 20000;
  std::string variants[4];
  variants[0] = d.bytes;
  if (d.mode == M_FULL) { variants[1] = pad_to(d.bytes, PAGE); variants[2] = pad_to(d.bytes, PAGE - 1); variants[3] = pad_to(d.bytes, PAGE + 1); }
  Res R[48];
  bool all_complete = true; int nrun = 0;
  for (int vi = 0; vi < 4; ++vi) {
    if (vi && variants[vi].empty()) continue;
    bool file_written = false;
    for (int flags = 0; flags < 2; ++flags) for (int handler = 0; handler < 3; ++handler) for (int path = 0; path < 2; ++path) {
      if (!cfg_enabled(d.mode, d.fmt, vi, flags, handler, path)) continue;
      int c = cfg_index(vi, flags, handler, path);
      if (c < start_cfg || (single && c != start_cfg)) continue;
      if (path == P_FILE && !file_written) {
        if (!write_file(variants[vi])) { wr("B\tcannot write scratch file"); _exit(96); }
        file_written = true;
      }
      g_shm->cfg = c;
      Res &r = R[c];
      r = run_one(variants[vi], handler, path, flags, light, d.is_base && c == 0);
      ++nrun; ++st.reads;
      if (r.kind == 0) ++st.complete; else if (r.kind == 3) ++st.refused; else ++st.errors;
      if (r.kind != 0) all_complete = false;
      if (r.maxdepth >= 2) ++st.nested;
      std::string cn = cfg_name(c);
      // --- per-read oracle
      for (auto &e : r.perr)
        violation(d, "C02 protocol " + norm_msg(e), "cfg=" + cn + " error=" + e + " outcome=" + KNAME[r.kind] + " " + r.msg);
      if (r.kind == 4 || r.kind == 5)
        violation(d, std::string("C02 unexpected exception type ") + r.etype + " handler=" + HNAME[handler], "cfg=" + cn + " what=" + r.msg);
      if (r.kind == 2 && handler != H_PROB)   // the recording / null handlers never throw: the reader did
        violation(d, std::string("C02 unlocated error from reader ") + r.etype + ": " + norm_msg(r.msg), "cfg=" + cn + " what=" + r.msg);
      if (vi == 0 && path == P_MEM && flags == 0)
        send_class(d.cls + "|" + HNAME[handler] + "|" + KNAME[r.kind] + "|" + (r.kind ? r.etype + ":" + norm_msg(r.msg) : ""));
      // --- file vs memory differential
      if (path == P_FILE) {
        Res &m = R[cfg_index(vi, flags, handler, P_MEM)];
        if (m.have) {
          if (m.kind != r.kind || m.etype != r.etype || m.msg != r.msg)
            violation(d, std::string("C02 file-vs-memory differential: outcome differs handler=") + HNAME[handler] + " size=" + VNAME[vi],
                      "cfg=" + cn + " mem=" + KNAME[m.kind] + ":" + m.msg + " file=" + KNAME[r.kind] + ":" + r.msg);
          else if (handler == H_REC && m.log != r.log)
            violation(d, std::string("C02 file-vs-memory differential: callback transcript differs size=") + VNAME[vi], "cfg=" + cn);
        }
      }
      // --- flags differential (recorder, memory path): same outcome, same bounds, same other callbacks
      if (handler == H_REC && path == P_MEM && flags == 1 && !light) {
        Res &a = R[cfg_index(vi, 0, H_REC, P_MEM)];
        if (a.have) {
          if (a.kind != r.kind || a.msg != r.msg)
            violation(d, "C02 flags differential: outcome differs between flags 0 and READ_BOUNDS_FIRST",
                      "cfg=" + cn + " flags0=" + KNAME[a.kind] + ":" + a.msg + " boundsfirst=" + KNAME[r.kind] + ":" + r.msg);
          else {
            if (!flags_transcripts_agree(a.log, r.log, r.kind == 0)) violation(d, "C02 flags differential: callbacks differ beyond the position of OnVarBounds", "cfg=" + cn);
          }
        }
      }
    }
  }
  alarm(0);
  if (d.is_base && !single && start_cfg == 0) {
    if (!all_complete) {
      std::string why;
      for (int c = 0; c < 48; ++c) if (R[c].have && R[c].kind) { why = cfg_name(c) + ": " + R[c].msg; break; }
      wr("B\tbase file " + tabsafe(d.desc) + " does not complete: " + tabsafe(why));
    } else {
      wr("G\t" + d.base->name + "/" + fmt_name(d.fmt));
      for (auto &f : d.base->feats) send_feat(f);
      for (auto &e : R[cfg_index(0, 0, H_REC, P_MEM)].events) send_feat("ev:" + e);
      if (R[cfg_index(0, 0, H_REC, P_MEM)].maxdepth >= 2) send_feat("nested-begin-end");
      if (g_samples_sent < 2 && d.fmt == TEXT) { ++g_samples_sent; wr("M\t{\"base\":" + jstr(d.desc) + ",\"bytes\":" + jstr(d.bytes) + "}"); }
    }
  } else if (g_samples_sent < 3 && !d.is_base && d.bytes.size() < 400 && (idx % 977) == 0) {
    ++g_samples_sent; wr("M\t{\"input\":" + jstr(d.desc) + ",\"hex\":" + jstr(hexs(d.bytes)) + "}");
  }
  g_shm->in_flight = 0;
  if (!single) {
    g_shm->inputs++; g_shm->reads += st.reads; g_shm->complete += st.complete; g_shm->errors += st.errors; g_shm->refused += st.refused;
    g_shm->nested += st.nested; g_shm->alloc_ref += g_alloc_refusals;
  }
  st = ChildStats(); g_alloc_refusals = 0; (void)nrun;
}

// ------------------------------------------------------------------------------------------ enumeration
struct Stop {};
typedef std::function<void(InputData &)> Maker;
// Inputs are numbered in a fixed enumeration order; a (re)started child skips whole blocks that lie
// before its start index without enumerating their members.
struct Enum {
  long long idx = 0, start = 0;
  std::function<void(long long, int, const Maker &)> on;
  bool counting = false; std::map<std::string, long long> counts; const char *family = "";
  long long npruned = 0;
  void pruned() { ++idx; ++npruned; }
  bool skip(long long n) { if (counting) return false; if (idx + n <= start) { idx += n; return true; } return false; }
  void operator()(int mode, const Maker &m) {
    long long my = idx++;
    if (counting) { counts[family]++; return; }
    if (my < start || !S.mine(my)) return; on(my, mode, m); }
};
typedef Enum &Visitor;


static int g_stage = 1;                       // 1: deviations 0/1, lexer level, ladders; 2: pairs of deviations
static std::set<std::string> g_prune;         // stage 2: single substitutions that already crash on their own
static long long g_pruned = 0;

static void enumerate_bases(Visitor visit) {
  static const std::vector<Base> bases = make_bases();
  const char *only = getenv("C02_ONLY_BASE");
  for (const Base &b : bases) {
    if (only && b.name != only) continue;
    for (int f = 0; f < 3; ++f) {
      if (f == SWAP && !b.has_arith) continue;
      std::vector<std::vector<Alt>> A(b.t.size()), AR(b.t.size()), AT(b.t.size());
      for (size_t i = 0; i < b.t.size(); ++i) { A[i] = alphabet(b.t[i], f, 0); AR[i] = alphabet(b.t[i], f, 1); AT[i] = alphabet(b.t[i], f, 2); }
      std::string tag = b.name + "/" + fmt_name(f);
      std::string basebytes = render(b, f, {}, A);
      auto tokdesc = [&](int i, const std::vector<std::vector<Alt>> &al, int a) {
        return "tok" + std::to_string(i) + "(" + b.t[i].role + ")" + al[i][a].label;
      };
      int ns = (int)segments(b).size();
      long long ntok = 0; for (size_t i = 0; i < b.t.size(); ++i) ntok += (long long)A[i].size();
      if (g_stage == 1) {
      // deviation 0
      visit.family = "base";
      visit(M_FULL, [&](InputData &d) { d.bytes = basebytes; d.desc = tag + " base"; d.cls = std::string("L|") + fmt_name(f) + "|base";
                                        d.is_base = true; d.base = &b; d.fmt = f; });
      // one token substituted
      visit.family = "tok";
      if (!visit.skip(ntok))
      for (size_t i = 0; i < b.t.size(); ++i) for (size_t a = 0; a < A[i].size(); ++a)
        visit(M_FULL, [&](InputData &d) {
          d.bytes = render(b, f, {{(int)i, (int)a}}, A); d.desc = tag + " " + tokdesc((int)i, A, (int)a);
          d.cls = std::string("L|") + fmt_name(f) + "|tok:" + (b.t[i].hdr ? "hdr" : b.t[i].role); d.base = &b; d.fmt = f;
          d.key = tag + "/" + std::to_string(i) + "/" + hexs(A[i][a].bytes); });
      // two header counts pushed to 2^30 together: each fits, their sum (with whatever is accumulated before) does not
      visit.family = "hdr+hdr";
      {
        std::vector<std::vector<Alt>> H(b.t.size());
        std::vector<int> hi;
        for (size_t i = 0; i < b.t.size(); ++i)
          if (b.t[i].hdr && (b.t[i].k == K_UINT || b.t[i].k == K_INT) && !b.t[i].special) {
            H[i].push_back(Alt{std::string(b.t[i].sp ? " " : "") + "1073741824", "=2^30"}); hi.push_back((int)i); }
        if (!visit.skip((long long)hi.size() * ((long long)hi.size() - 1) / 2))
        for (size_t x = 0; x < hi.size(); ++x) for (size_t y = x + 1; y < hi.size(); ++y)
          visit(M_PAIR, [&](InputData &d) {
            d.bytes = render(b, f, {{hi[x], 0}, {hi[y], 0}}, H);
            d.desc = tag + " " + tokdesc(hi[x], H, 0) + " + " + tokdesc(hi[y], H, 0);
            d.cls = std::string("L|") + fmt_name(f) + "|hdr+hdr"; d.base = &b; d.fmt = f; });
      }
      // truncation at every byte offset
      visit.family = "trunc";
      if (!visit.skip((long long)basebytes.size()))
      for (size_t n = 0; n < basebytes.size(); ++n)
        visit(M_FULL, [&](InputData &d) { d.bytes = basebytes.substr(0, n); d.desc = tag + " trunc@" + std::to_string(n);
                                          d.cls = std::string("L|") + fmt_name(f) + "|trunc"; d.base = &b; d.fmt = f; });
      // segments moved / deleted / duplicated
      visit.family = "seg";
      if (!visit.skip((long long)ns * (ns - 1) + 2 * ns))
      for (int i = 0; i < ns; ++i) {
        for (int j = 0; j < ns; ++j) if (j != i)
          visit(M_FULL, [&](InputData &d) { SegOp op; op.k = SEG_MOVE; op.a = i; op.b = j; d.bytes = render(b, f, {}, A, op);
            d.desc = tag + " seg" + std::to_string(i) + "->pos" + std::to_string(j); d.cls = std::string("L|") + fmt_name(f) + "|segmove"; d.base = &b; d.fmt = f; });
        for (int k : {SEG_DEL, SEG_DUP})
          visit(M_FULL, [&](InputData &d) { SegOp op; op.k = k; op.a = i; d.bytes = render(b, f, {}, A, op);
            d.desc = tag + " seg" + std::to_string(i) + (k == SEG_DEL ? " deleted" : " duplicated");
            d.cls = std::string("L|") + fmt_name(f) + (k == SEG_DEL ? "|segdel" : "|segdup"); d.base = &b; d.fmt = f; });
      }
      // lines deleted / duplicated (text form; in binary files this hits the text header)
      visit.family = "line";
      {
        std::vector<size_t> ls{0};
        for (size_t p = 0; p < basebytes.size(); ++p) if (basebytes[p] == '\n' && p + 1 < basebytes.size()) ls.push_back(p + 1);
        size_t nl = f == TEXT ? ls.size() : std::min<size_t>(ls.size(), 10);
        for (size_t k = 0; k < nl; ++k) for (int dup = 0; dup < 2; ++dup)
          visit(M_FULL, [&](InputData &d) {
            size_t s = ls[k], e = k + 1 < ls.size() ? ls[k + 1] : basebytes.size();
            if (f != TEXT && k + 1 == nl) e = basebytes.find('\n', s) + 1;
            d.bytes = dup ? basebytes.substr(0, e) + basebytes.substr(s) : basebytes.substr(0, s) + basebytes.substr(e);
            d.desc = tag + " line" + std::to_string(k) + (dup ? " duplicated" : " deleted");
            d.cls = std::string("L|") + fmt_name(f) + (dup ? "|linedup" : "|linedel"); d.base = &b; d.fmt = f; });
      }
      }
      if (g_stage != 2) continue;
      // single substitutions that crash on their own are not extended (the shorter input already violates)
      std::vector<std::vector<char>> bad(b.t.size());
      for (size_t i = 0; i < b.t.size(); ++i) { bad[i].assign(AR[i].size(), 0);
        for (size_t a = 0; a < AR[i].size(); ++a) bad[i][a] = g_prune.count(tag + "/" + std::to_string(i) + "/" + hexs(AR[i][a].bytes)) ? 1 : 0; }
      // ---- two deviations (thorough): pairs of token substitutions over the reduced alphabet ...
      visit.family = "tok+tok";
      long long npairs = 0; { long long acc = 0; for (size_t i = 0; i < b.t.size(); ++i) { npairs += acc * (long long)AR[i].size(); acc += (long long)AR[i].size(); } }
      if (!visit.skip(npairs))
      for (size_t i = 0; i < b.t.size(); ++i) for (size_t j = i + 1; j < b.t.size(); ++j)
        for (size_t a = 0; a < AR[i].size(); ++a) for (size_t c = 0; c < AR[j].size(); ++c)
          if (bad[i][a] || bad[j][c]) visit.pruned(); else
          visit(M_PAIR, [&](InputData &d) {
            d.bytes = render(b, f, {{(int)i, (int)a}, {(int)j, (int)c}}, AR);
            d.desc = tag + " " + tokdesc((int)i, AR, (int)a) + " + " + tokdesc((int)j, AR, (int)c);
            d.cls = std::string("L|") + fmt_name(f) + "|tok+tok"; d.base = &b; d.fmt = f; });
      // ... one substitution (tiny alphabet: count/index pushed just past its bound, INT_MAX) followed by
      // truncation at every later offset (shorter prefixes equal truncations of the base)
      visit.family = "tok+trunc";
      std::vector<std::vector<char>> badt(b.t.size());
      long long ntokt = 0;
      for (size_t i = 0; i < b.t.size(); ++i) { badt[i].assign(AT[i].size(), 0); ntokt += (long long)AT[i].size();
        for (size_t a = 0; a < AT[i].size(); ++a) badt[i][a] = g_prune.count(tag + "/" + std::to_string(i) + "/" + hexs(AT[i][a].bytes)) ? 1 : 0; }
      std::vector<size_t> tok_off(b.t.size() + 1, 0);
      for (size_t i = 0; i < b.t.size(); ++i) tok_off[i + 1] = tok_off[i] + render_tok(b.t[i], f).size();
      long long ntt = 0;
      for (size_t i = 0; i < b.t.size(); ++i) for (size_t a = 0; a < AT[i].size(); ++a) {
        size_t mbs = basebytes.size() - render_tok(b.t[i], f).size() + AT[i][a].bytes.size();
        if (mbs > tok_off[i] + 1) ntt += (long long)(mbs - tok_off[i] - 1);
      }
      if (!visit.skip(ntt))
      for (size_t i = 0; i < b.t.size(); ++i) for (size_t a = 0; a < AT[i].size(); ++a) {
        std::string mb = render(b, f, {{(int)i, (int)a}}, AT);
        for (size_t n = tok_off[i] + 1; n < mb.size(); ++n)
          if (badt[i][a]) visit.pruned(); else
          visit(M_PAIR, [&](InputData &d) { d.bytes = mb.substr(0, n); d.desc = tag + " " + tokdesc((int)i, AT, (int)a) + " + trunc@" + std::to_string(n);
                                            d.cls = std::string("L|") + fmt_name(f) + "|tok+trunc"; d.base = &b; d.fmt = f; });
      }
      // ... and segment move + one substitution (tiny alphabet)
      visit.family = "segmove+tok";
      if (!visit.skip((long long)ns * (ns - 1) * ntokt))
      for (int si = 0; si < ns; ++si) for (int sj = 0; sj < ns; ++sj) if (si != sj)
        for (size_t i = 0; i < b.t.size(); ++i) for (size_t a = 0; a < AT[i].size(); ++a)
          if (badt[i][a]) visit.pruned(); else
          visit(M_PAIR, [&](InputData &d) { SegOp op; op.k = SEG_MOVE; op.a = si; op.b = sj;
            d.bytes = render(b, f, {{(int)i, (int)a}}, AT, op);
            d.desc = tag + " seg" + std::to_string(si) + "->pos" + std::to_string(sj) + " + " + tokdesc((int)i, AT, (int)a);
            d.cls = std::string("L|") + fmt_name(f) + "|segmove+tok"; d.base = &b; d.fmt = f; });
    }
  }
}

// lexer level: every string of length <= maxlen over the alphabet, in every context, with and without a valid rest
static void enumerate_lex(Visitor visit) {
  static const char AL[] = {'0', '9', '+', '-', '.', 'e', ' ', '\t', '\n', '\r', '\0', 'x', (char)0x80, ':'};
  const int NA = sizeof AL;
  const std::string L1 = "g3 1 1 0\n";
  const std::string HR = " 1 1 0 0 0\n 0 0\n 0 0\n 0 0 0\n 0 1 0 1\n 0 0 0 0 0\n 1 1\n 0 0\n 0 0 0 0 0\n";
  const std::string HDR = L1 + " 1" + HR;
  const std::string TAIL = "b\n3\n";
  struct Ctx { const char *name; std::string pre, post; };
  const std::vector<Ctx> ctxs = {
      {"hdr-uint", L1 + " ", HR + "C0\nn0\n" + TAIL},
      {"hdr-options", "g", "\n 1" + HR + "C0\nn0\n" + TAIL},
      {"seg-index", HDR + "C", "\nn0\n" + TAIL},
      {"expr-double", HDR + "C0\nn", "\n" + TAIL},
      {"suffix-name", HDR + "S0 1 ", "\n0 1\n" + TAIL},
      {"string", HDR + "F0 1 -1 f\nC0\nf0 1\nh", "\n" + TAIL},
      {"short", HDR + "C0\ns", "\n" + TAIL},
      {"func-int", HDR + "F0 0 ", " f\n" + TAIL},
      {"bound", HDR + "b\n", "\n"},
      {"init-double", HDR + "x1\n0 ", "\n" + TAIL},
      {"segment-letter", HDR, TAIL},
  };
  const int maxlen = 4;
  visit.family = "lex";
  for (const Ctx &c : ctxs) {
    for (int rest = 0; rest < 2; ++rest) {
      for (int len = 0; len <= maxlen; ++len) {
        // quick: length 4 only in the three richest lexer contexts, followed by a valid rest
        if (len == 4 && !g_thorough && !(rest && (!strcmp(c.name, "expr-double") || !strcmp(c.name, "string") || !strcmp(c.name, "hdr-options")))) continue;
        long long n = 1; for (int i = 0; i < len; ++i) n *= NA;
        if (visit.skip(n)) continue;
        for (long long k = 0; k < n; ++k)
          visit(M_LEX, [&](InputData &d) {
            std::string s; long long x = k; for (int i = 0; i < len; ++i) { s += AL[x % NA]; x /= NA; }
            d.bytes = c.pre + s + (rest ? c.post : std::string());
            d.desc = std::string("lex ") + c.name + (rest ? " +rest " : " +EOF ") + hexs(s);
            d.cls = std::string("X|") + c.name + (rest ? "|rest" : "|eof"); });
      }
    }
  }
}

static void enumerate_ladders(Visitor visit) {
  std::vector<long> depths = {10, 100, 1000, 10000};
  if (g_thorough) { depths.push_back(100000); depths.push_back(1000000); }
  visit.family = "ladder";
  for (int k = 0; k < NUM_LADDERS; ++k) for (long dep : depths) for (int f = 0; f < 2; ++f)
    visit(M_LADDER, [&](InputData &d) {
      d.bytes = ladder(LADDERS[k], dep, f); d.ladder = LADDERS[k]; d.depth = dep; d.fmt = f;
      d.desc = std::string("ladder ") + LADDERS[k] + " depth=" + std::to_string(dep) + " " + fmt_name(f);
      d.cls = std::string("D|") + fmt_name(f) + "|" + LADDERS[k];
      d.replay = "{\"ladder\":\"" + d.ladder + "\",\"depth\":" + std::to_string(dep) + ",\"fmt\":" + std::to_string(f) + "}"; });
}

static std::string g_replay_hex, g_replay_ladder; static int g_replay_mode = M_FULL, g_replay_fmt = 0; static long g_replay_depth = 0;

static void enumerate_all(Visitor visit) {
  if (!g_replay_hex.empty() || !g_replay_ladder.empty()) {
    if (!g_replay_ladder.empty())
      visit(M_LADDER, [&](InputData &d) { d.bytes = ladder(g_replay_ladder, g_replay_depth, g_replay_fmt); d.ladder = g_replay_ladder;
        d.depth = g_replay_depth; d.desc = "replay ladder"; d.cls = "R"; d.replay = "null"; });
    else
      visit(g_replay_mode, [&](InputData &d) { d.bytes = g_replay_hex == "-" ? std::string() : unhex(g_replay_hex); d.desc = "replay"; d.cls = "R"; });
    return;
  }
  const char *skip = getenv("C02_SKIP");   // debugging aid only (check.py never sets it)
  auto want = [&](const char *w) { return !skip || !strstr(skip, w); };
  if (want("ladders") && g_stage == 1) enumerate_ladders(visit);
  if (want("bases")) enumerate_bases(visit);
  if (want("lex") && g_stage == 1) enumerate_lex(visit);
}

// ------------------------------------------------------------------------------------------ child
static void child_main(int out_fd, long long start_idx, int start_cfg, bool single) {
  g_out = out_fd;
  if (chdir(g_work.c_str()) != 0) _exit(95);
  int efd = ::open("stderr.txt", O_WRONLY | O_CREAT | O_TRUNC, 0644);
  if (efd >= 0) { dup2(efd, 2); ::close(efd); }
  signal(SIGALRM, SIG_DFL);
  ChildStats st; int done = 0; bool ended = false;
  Enum en; en.start = start_idx;
  try {
    en.on = [&](long long my, int mode, const Maker &make) {
      if (done >= g_batch && !single) { g_shm->next = my; throw Stop(); }
      InputData d; d.mode = mode; make(d);
      execute(my, d, my == start_idx ? start_cfg : 0, single, st);
      ++done;
      if (single) throw Stop();
    };
    enumerate_all(en);
    ended = true;
  } catch (const Stop &) {}
  if (ended) { g_shm->total = en.idx; g_shm->pruned = en.npruned; g_shm->ended = 1; }
  _exit(0);
}

// ------------------------------------------------------------------------------------------ parent
static vx::Report R;

struct ChildRun {
  long long last_idx = -1; int last_cfg = -1; bool in_flight = false;   // a P line without a following P/D
  long long next = -1; bool ended = false; long long total = -1;
  std::string desc, replay, ladder, key;
  long long pruned = 0;
  int status = 0;
};

static std::set<std::string> g_feats, g_good_bases;

static char **g_argv = nullptr; static int g_argc = 0;

static ChildRun run_child(long long start_idx, int start_cfg, bool single) {
  ChildRun cr;
  int fds[2]; if (pipe(fds) != 0) { R.broken("pipe failed"); R.done(); exit(0); }
  fflush(stdout);
  g_shm->in_flight = 0; g_shm->idx = -1; g_shm->cfg = -1; g_shm->next = -1; g_shm->ended = 0;
  pid_t pid = fork();
  if (pid == 0) {
    ::close(fds[0]);
    if (!single) { child_main(fds[1], start_idx, start_cfg, false); _exit(0); }
    // confirmation run: a fresh process image with symbolisation switched on
    std::string ao = getenv("ASAN_OPTIONS") ? getenv("ASAN_OPTIONS") : ""; ao += ":symbolize=1";
    setenv("ASAN_OPTIONS", ao.c_str(), 1);
    std::string uo = getenv("UBSAN_OPTIONS") ? getenv("UBSAN_OPTIONS") : ""; uo += ":symbolize=1";
    setenv("UBSAN_OPTIONS", uo.c_str(), 1);
    std::vector<std::string> a(g_argv, g_argv + g_argc);
    a.push_back("--single"); a.push_back(std::to_string(start_idx)); a.push_back("--single-cfg"); a.push_back(std::to_string(start_cfg));
    a.push_back("--out-fd"); a.push_back(std::to_string(fds[1]));
    std::vector<char *> av; for (auto &x : a) av.push_back(&x[0]); av.push_back(nullptr);
    execv("/proc/self/exe", av.data());
    _exit(94);
  }
  ::close(fds[1]);
  FILE *in = fdopen(fds[0], "r");
  char *line = nullptr; size_t cap = 0; ssize_t n;
  while ((n = getline(&line, &cap, in)) > 0) {
    if (line[n - 1] != '\n') break;   // torn last line of a dying child
    line[n - 1] = 0;
    std::vector<std::string> f; { char *p = line; for (;;) { char *t = strchr(p, '\t'); if (!t) { f.push_back(p); break; } f.emplace_back(p, t - p); p = t + 1; } }
    const std::string &t = f[0];
    if (false) {}
    else if (t == "V" && f.size() >= 4) R.violation(f[1], f[2], f[3]);
    else if (t == "C" && f.size() >= 2) R.classes.insert(f[1]);
    else if (t == "F" && f.size() >= 2) g_feats.insert(f[1]);
    else if (t == "G" && f.size() >= 2) g_good_bases.insert(f[1]);
    else if (t == "M" && f.size() >= 2) R.sample(f[1]);
    else if (t == "B" && f.size() >= 2) R.broken(f[1]);
  }
  free(line); fclose(in);
  int status = 0; while (waitpid(pid, &status, 0) < 0 && errno == EINTR) {}
  cr.status = status;
  if (!single) {
    cr.in_flight = g_shm->in_flight; cr.last_idx = g_shm->idx; cr.last_cfg = g_shm->cfg; cr.next = g_shm->next;
    cr.ended = g_shm->ended; cr.total = g_shm->total; cr.pruned = g_shm->pruned;
    cr.desc = (const char *)g_shm->desc; cr.ladder = (const char *)g_shm->ladder; cr.key = (const char *)g_shm->key;
    if (g_shm->has_replay) cr.replay = (const char *)g_shm->replay;
    else if (g_shm->raw_len >= 0) cr.replay = "{\"hex\":\"" + hexs(std::string((const char *)g_shm->raw, g_shm->raw_len)) + "\",\"mode\":" + std::to_string(g_shm->mode) + "}";
    else cr.replay = "null";
  }
  return cr;
}

static void flush_counters() {
  R.stats["inputs"] = g_shm->inputs; R.stats["reads"] = g_shm->reads; R.stats["reads_complete"] = g_shm->complete;
  R.stats["reads_error"] = g_shm->errors; R.stats["reads_refused"] = g_shm->refused;
  R.stats["reads_with_nested_begin_end"] = g_shm->nested; R.stats["allocation_refusals_bad_alloc"] = g_shm->alloc_ref;
}

static std::map<std::string, Crash> g_confirmed;   // crash key -> symbolised classification

static void run_all() {
  long long start = 0; int cfg = 0;
  long long guard = 0;
  for (;;) {
    if (++guard > 5000000) { R.broken("parent loop guard"); break; }
    ChildRun cr = run_child(start, cfg, false);
    bool clean = WIFEXITED(cr.status) && WEXITSTATUS(cr.status) == 0;
    if (clean && cr.ended) { if (S.i == 0) { R.stats["enumerated_total"] = cr.total; R.stats["pruned_after_crashing_single"] = cr.pruned; } break; }
    if (clean && cr.next >= 0) { start = cr.next; cfg = 0; continue; }
    if (clean) { R.broken("child exited cleanly without end marker"); break; }
    if (!cr.in_flight || cr.last_idx < 0) {
      R.broken("child died outside an input: status=" + std::to_string(cr.status) + " " + read_file(g_work + "/stderr.txt", 600)); break;
    }
    // ---- a crash / abort / time-out while running (last_idx, last_cfg)
    long long idx = cr.last_idx; int c = cr.last_cfg;
    if (c < 0) { R.broken("child died while preparing input " + cr.desc + " status=" + std::to_string(cr.status)); start = idx + 1; cfg = 0; continue; }
    std::string rep1 = read_file(g_work + "/stderr.txt");
    Crash c1 = classify(cr.status, rep1);
    std::string cn = cfg_name(c);
    if (c1.resource) {   // the sanitizer's allocator refused a request (not routed through operator new)
      R.stats["asan_allocation_refusals"]++; R.classes.insert("abort|asan-allocation-refused|" + cn.substr(0, cn.find('/')));
      start = idx; cfg = c + 1; continue;
    }
    std::string key = crash_key(c1, rep1);
    Crash c2; std::string rep2;
    auto known = key.empty() ? g_confirmed.end() : g_confirmed.find(key);
    if (known != g_confirmed.end()) { c2 = known->second; rep2 = rep1; R.stats["crashes_matched_to_confirmed_root_cause"]++; }
    else {
      // confirm alone in a fresh process (120 s horizon, symbolised report)
      ChildRun again = run_child(idx, c, true);
      bool clean2 = WIFEXITED(again.status) && WEXITSTATUS(again.status) == 0;
      rep2 = read_file(g_work + "/stderr.txt");
      R.stats["crash_confirmation_runs"]++;
      if (clean2) {
        if (c1.timeout) R.stats["slow_inputs_over_10s"]++;
        else R.broken("crash not reproduced alone: " + cr.desc + " cfg=" + cn + " first=" + c1.kind + " " + rep1.substr(0, 300));
        start = idx; cfg = c + 1; continue;
      }
      c2 = classify(again.status, rep2);
      if (c2.resource) { R.stats["asan_allocation_refusals"]++; start = idx; cfg = c + 1; continue; }
      if (!key.empty()) g_confirmed[key] = c2;
    }
    if (c2.site.compare(0, 7, "HARNESS") == 0 && !c2.stack) {
      R.broken("sanitizer report inside the harness/oracle: " + c2.kind + " " + c2.site + " on " + cr.desc);
      start = idx + 1; cfg = 0; continue;
    }
    R.stats["crashing_inputs"]++;
    std::string detail = "{\"input\":" + jstr(cr.desc) + ",\"cfg\":" + jstr(cn) + ",\"kind\":" + jstr(c2.kind) + ",\"site\":" + jstr(c2.site) +
                         ",\"loc\":" + jstr(c2.loc) + ",\"summary\":" + jstr(c2.summary) + ",\"report_head\":" + jstr(rep2.substr(0, 1500)) + "}";
    std::string sig;
    if (cr.ladder != "-" && (c2.stack || c2.kind.find("SEGV") != std::string::npos)) {
      std::string kind = cr.ladder.substr(0, cr.ladder.find(':')); std::string dep = cr.ladder.substr(cr.ladder.find(':') + 1);
      printf("{\"type\":\"ladder_crash\",\"kind\":\"%s\",\"depth\":%s,\"cfg\":\"%s\",\"site\":\"%s\",\"replay\":%s,\"detail\":%s}\n",
             kind.c_str(), dep.c_str(), cn.c_str(), vx::jesc(c2.site).c_str(), cr.replay.c_str(), detail.c_str());
      sig = "stack overflow ladder " + kind;
    } else if (c2.timeout) {
      sig = "C02 hang (no termination within 120 s) " + cr.desc.substr(0, cr.desc.find(' '));
      R.violation(sig, detail, cr.replay);
    } else {
      sig = "C02 " + c2.kind + " " + c2.site;
      R.violation(sig, detail, cr.replay);
    }
    printf("{\"type\":\"crash_input\",\"key\":\"%s\",\"desc\":\"%s\",\"cfg\":\"%s\",\"sig\":\"%s\"}\n", vx::jesc(cr.key).c_str(),
           vx::jesc(cr.desc).c_str(), cn.c_str(), vx::jesc(sig).c_str());
    R.classes.insert("crash|" + c2.kind + "|" + c2.site);
    // the input already violates the property: its remaining configurations are skipped
    start = idx + 1; cfg = 0;
  }
}

int main(int argc, char **argv) {
  g_argv = argv; g_argc = argc;
  S.parse(argc, argv);
  g_thorough = vx::has_flag(argc, argv, "--thorough");
  PAGE = sysconf(_SC_PAGESIZE);
  const char *w = vx::arg_value(argc, argv, "--work", "build/work/C02");
  g_work = std::string(w) + "/s" + std::to_string(S.i);
  if (const char *b = vx::arg_value(argc, argv, "--batch")) g_batch = atoi(b);
  if (const char *r = vx::arg_value(argc, argv, "--repo")) g_repo = r;
  g_stage = atoi(vx::arg_value(argc, argv, "--stage", "1"));
  g_shm = (LShm *)mmap(nullptr, sizeof(LShm), PROT_READ | PROT_WRITE, MAP_SHARED | MAP_ANONYMOUS, -1, 0);
  if (g_shm == MAP_FAILED) { R.broken("mmap failed"); R.done(); return 0; }
  std::memset((void *)g_shm, 0, sizeof(LShm));
  if (const char *pf = vx::arg_value(argc, argv, "--prune-file")) {
    FILE *f = fopen(pf, "r"); char buf[4096];
    if (f) { while (fgets(buf, sizeof buf, f)) { std::string k = buf; while (!k.empty() && (k.back() == '\n' || k.back() == '\r')) k.pop_back(); if (!k.empty()) g_prune.insert(k); } fclose(f); }
  }
  if (const char *h = vx::arg_value(argc, argv, "--replay-hex")) { g_replay_hex = h; g_replay_mode = atoi(vx::arg_value(argc, argv, "--mode", "0")); }
  if (const char *l = vx::arg_value(argc, argv, "--replay-ladder")) {
    g_replay_ladder = l; g_replay_depth = atol(vx::arg_value(argc, argv, "--depth", "10")); g_replay_fmt = atoi(vx::arg_value(argc, argv, "--fmt", "0"));
  }
  if (const char *si = vx::arg_value(argc, argv, "--single")) {   // confirmation run of one (input, configuration)
    child_main(atoi(vx::arg_value(argc, argv, "--out-fd", "1")), atoll(si), atoi(vx::arg_value(argc, argv, "--single-cfg", "0")), true);
    return 0;
  }
  if (vx::has_flag(argc, argv, "--bench")) {   // debugging aid: cost of one read per handler / path
    if (chdir(g_work.c_str()) != 0) return 1;
    Base b = make_bases()[1]; std::vector<std::vector<Alt>> A(b.t.size());
    std::string good = render(b, TEXT, {}, A), bad = good.substr(0, good.size() / 2);
    write_file(good);
    for (int h = 0; h < 3; ++h) for (int path = 0; path < 2; ++path) for (int e = 0; e < 2; ++e) {
      if (path == 1 && e == 1) continue;
      struct timespec t0, t1; clock_gettime(CLOCK_MONOTONIC, &t0);
      int N = 5000; for (int i = 0; i < N; ++i) { Res r = run_one(e ? bad : good, h, path, 0, false); if (r.kind == 5) return 1; }
      clock_gettime(CLOCK_MONOTONIC, &t1);
      printf("%s %s %s: %.1f us/read\n", HNAME[h], path ? "file" : "mem", e ? "error" : "complete", ((t1.tv_sec - t0.tv_sec) * 1e9 + (t1.tv_nsec - t0.tv_nsec)) / 1e3 / N);
    }
    return 0;
  }
  if (vx::has_flag(argc, argv, "--count")) {   // size of the enumerated space per family
    Enum en; en.counting = true; enumerate_all(en);
    for (auto &kv : en.counts) printf("%-14s %lld\n", kv.first.c_str(), kv.second);
    printf("total %lld pruned %lld\n", en.idx, en.npruned);
    return 0;
  }
  if (vx::has_flag(argc, argv, "--dump-bases")) {   // debugging aid: print the text form of every base
    for (const Base &b : make_bases()) {
      std::vector<std::vector<Alt>> A(b.t.size());
      printf("=== %s\n%s", b.name.c_str(), render(b, TEXT, {}, A).c_str());
    }
    return 0;
  }
  { std::string cmd = "mkdir -p '" + g_work + "'"; if (system(cmd.c_str()) != 0) { R.broken("cannot create work dir"); R.done(); return 0; } }
  if (S.i == 0 && g_stage == 1) {
    std::string st = pnl::selftest();
    if (!st.empty()) R.broken("proto_nl self-test failed: " + st);
    R.stats["oracle_selftests"] = 15;
    R.stats["base_files"] = (long long)make_bases().size();
  }
  run_all();
  flush_counters();
  if (S.i == 0 && g_stage == 2 && g_replay_hex.empty() && g_replay_ladder.empty()) {   // exact size of the pruned part of the space
    Enum en; en.counting = true; enumerate_all(en); R.stats["pruned_after_crashing_single"] = en.npruned;
  }
  for (auto &f : g_feats) printf("{\"type\":\"feature\",\"v\":\"%s\"}\n", vx::jesc(f).c_str());
  for (auto &b : g_good_bases) printf("{\"type\":\"good_base\",\"v\":\"%s\"}\n", vx::jesc(b).c_str());
  R.done();
  return 0;
}
