"""C02 NL reader: total, memory-safe, reports only validated data.

Layer L (checks/C02/nlread_harness.cc): every 0/1(/2)-deviation of ~36 small valid NL files in text,
binary native and binary byte-swapped form, lexer-level strings of length <= 4, nesting-depth ladders;
each input through ReadNLString and ReadNLFile (natural size, exactly one page, one page +-1) x flags
{0, READ_BOUNDS_FIRST} x handlers {protocol-checking recorder ref/proto_nl.h, mp::Problem builder,
NullNLHandler} in forked children of an ASan+UBSan (-DNDEBUG) build.
Layer P (checks/C02/nlparse_harness.cc): the real NLReader<ChoiceReader, Handler> driven by vx::Explorer.
"""
import json, os, re, resource, shutil, subprocess, sys
import vbuild, vcheck

PID = 'C02'
MP_SRCS = ['src/format.cc', 'src/posix.cc', 'src/os.cc', 'src/nl-reader.cc', 'src/problem.cc',
           'src/expr-info.cc', 'src/expr.cc']
ASAN = ('detect_leaks=0:abort_on_error=0:allocator_may_return_null=1:max_allocation_size_mb=1024:symbolize=0:'
        'quarantine_size_mb=8:malloc_context_size=8:handle_abort=0')
WORK = os.path.join(vcheck.VERIF, 'build', 'work', 'C02', 'run%d' % os.getpid())   # concurrent runs do not collide

REQUIRED_FEATURES = (
    # segment kinds
    ['seg:' + c for c in 'CLOVFGJSbrKkxd'] + ['seg:S%d' % k for k in range(8)] + ['seg:r-compl'] +
    # operator classes (callbacks seen by the recorder in completed reads of unmodified base files)
    ['ev:' + e for e in (
        'OnUnary', 'OnBinary', 'BeginVarArg', 'BeginSum', 'BeginCount', 'BeginNumberOf',
        'BeginSymbolicNumberOf', 'OnIf', 'OnSymbolicIf', 'BeginPLTerm', 'BeginCall', 'OnString',
        'OnNumber', 'OnVariableRef', 'OnCommonExprRef', 'OnNot', 'OnBinaryLogical', 'OnRelational',
        'OnImplication', 'BeginIteratedLogical', 'BeginPairwise', 'OnLogicalCount', 'OnBool',
        'OnAlgebraicCon', 'OnLogicalCon', 'OnObj', 'BeginCommonExpr', 'EndCommonExpr', 'OnFunction',
        'OnLinearObjExpr', 'OnLinearConExpr', 'OnIntSuffix', 'OnDblSuffix', 'OnVarBounds', 'OnConBounds',
        'OnComplementarity', 'OnColumnSizes', 'OnInitialValue', 'OnInitialDualValue', 'EndInput')] +
    ['nested-begin-end'])


def build():
    return vbuild.build_program('c02_nlread', 'san', ['checks/C02/nlread_harness.cc'], mp_srcs=MP_SRCS)


def build_p():
    return vbuild.build_program('c02_nlparse', 'san', ['checks/C02/nlparse_harness.cc'], mp_srcs=MP_SRCS)


def _env():
    return {'ASAN_OPTIONS': ASAN, 'UBSAN_OPTIONS': 'print_stacktrace=1:halt_on_error=1'}


def _fix_stack():
    # deterministic stack size for the nesting-depth ladders.  Frames of the ASan+UBSan build are several
    # times larger than production frames (redzones, no tail calls, -O1): 64 MiB here corresponds to
    # roughly the usual 8 MiB of a production build.
    try:
        soft, hard = resource.getrlimit(resource.RLIMIT_STACK)
        want = 64 << 20
        if hard != resource.RLIM_INFINITY and hard < want:
            want = hard
        resource.setrlimit(resource.RLIMIT_STACK, (want, hard))
    except (ValueError, OSError):
        pass


def _cleanup():
    shutil.rmtree(WORK, ignore_errors=True)
    try:
        os.rmdir(os.path.dirname(WORK))
    except OSError:
        pass


def _absorb_extra(chk, results):
    """Lines the generic absorb does not know: features, good bases, ladder crashes, crashing inputs."""
    feats, good, ladders, crashes = set(), set(), [], []
    for rc, out, err in results:
        for r in vcheck.parse_jsonl(out):
            t = r.get('type')
            if t == 'feature':
                feats.add(r['v'])
            elif t == 'good_base':
                good.add(r['v'])
            elif t == 'ladder_crash':
                ladders.append(r)
            elif t == 'crash_input':
                crashes.append(r)
    return feats, good, ladders, crashes


def _count_by(rows, key):
    out = {}
    for r in rows:
        out[r.get(key)] = out.get(r.get(key), 0) + 1
    return out


def _depth_str(d):
    e = len(str(d)) - 1
    return '1e%d' % e if d == 10 ** e else str(d)


def main(tier, seed):
    chk = vcheck.Check(PID, tier, 'exploration', seed)
    _fix_stack()
    shutil.rmtree(WORK, ignore_errors=True)
    os.makedirs(WORK, exist_ok=True)
    binary = build()
    args = ['--work', WORK, '--repo', vbuild.REPO] + (['--thorough'] if tier == 'thorough' else [])
    res = vcheck.run_shards(binary, 16, args + ['--stage', '1'], env=_env(), timeout=7200)
    vcheck.absorb(chk, res, 'layer L')
    feats, good, ladders, crashes = _absorb_extra(chk, res)
    chk.set('crashing_inputs_by_signature', _count_by(crashes, 'sig'))
    if tier == 'thorough':
        # stage 2: pairs of deviations; a single substitution that already crashes is not extended
        prune = os.path.join(WORK, 'prune.txt')
        with open(prune, 'w') as f:
            for k in sorted(set(c['key'] for c in crashes if c.get('key') and c['key'] != '-')):
                f.write(k + '\n')
        res2 = vcheck.run_shards(binary, 16, args + ['--stage', '2', '--prune-file', prune], env=_env(), timeout=7200)
        vcheck.absorb(chk, res2, 'layer L stage 2')
        _, _, lad2, crashes2 = _absorb_extra(chk, res2)
        ladders += lad2
        chk.set('crashing_inputs_by_signature_stage2', _count_by(crashes2, 'sig'))

    # one signature per ladder kind: the smallest depth that overflowed the stack
    by_kind = {}
    for l in ladders:
        k = l['kind']
        if k not in by_kind or l['depth'] < by_kind[k]['depth']:
            by_kind[k] = l
    for k, l in sorted(by_kind.items()):
        n = sum(1 for x in ladders if x['kind'] == k)
        chk.violation('C02 stack overflow nesting depth>=%s %s' % (_depth_str(l['depth']), k),
                      {'smallest_failing': l['detail'], 'crashing_runs_of_this_kind': n,
                       'note': 'unbounded recursion in NLReader::Read*Expr: stack use grows linearly with the '
                               'nesting depth of the input expression'}, l['replay'])
    chk.set('ladder_crash_runs', len(ladders))

    # ---- layer P
    p_built = os.path.exists(os.path.join(vcheck.VERIF, 'checks', 'C02', 'nlparse_harness.cc'))
    if p_built:
        pbin = build_p()
        pres = vcheck.run_shards(pbin, 16, ['--work', WORK, '--repo', vbuild.REPO] +
                                 (['--thorough'] if tier == 'thorough' else []), env=_env(), timeout=7200)
        vcheck.absorb(chk, pres, 'layer P')
        f2 = _absorb_extra(chk, pres)[0]
        feats |= set('P:' + f for f in f2)

    # ---- vacuity guards
    nbases = len(set(g.split('/')[0] for g in good))
    chk.set('base_files_completing', nbases)
    chk.set('base_file_encodings_completing', len(good))
    if nbases < 25:
        chk.broken.append('only %d base files complete (need >= 25)' % nbases)
    missing = [f for f in REQUIRED_FEATURES if f not in feats]
    if missing:
        chk.broken.append('segment kinds / operator classes never seen in a completed read: %s' % missing)
    if chk.cov.get('reads_error', 0) == 0:
        chk.broken.append('zero error outcomes')
    if chk.cov.get('reads_with_nested_begin_end', 0) == 0:
        chk.broken.append('the protocol recorder never saw a nested Begin/End')
    chk.set('features_covered', sorted(feats))

    chk.cov['evaluations'] = chk.cov.get('reads', 0) + chk.cov.get('p_reads', 0)
    vcheck.finalize_classes(chk)
    chk.set('rule',
            'Layer L: for each of the base files (every segment kind C L O V F G J S(4 kinds x int/real) b r(+compl) K k x d, '
            'every operator class) in text / binary native / binary byte-swapped form: the file itself; every numeric token '
            '<- {0,1,2,v-1,v+1,ub-1,ub,ub+1,INT_MAX,2147483648,99999999999,-1,"",x,1e300,1e-400,nan} (binary: 4-byte ints '
            '<- {0,1,2,v+-1,ub-1,ub,ub+1,INT_MAX,INT_MIN,-1}, doubles <- {0,1e300,NaN,inf,denormal,-1}, shorts, string/name '
            'length prefixes); every expression/segment/bound letter <- 16 letters incl. NUL and 0x80; names; truncation at '
            'every byte offset; every segment moved to every other position / deleted / duplicated; every line deleted / '
            'duplicated; every pair of header counts <- 2^30 together; thorough adds all pairs of token substitutions, substitution+truncation at every offset and '
            'segment-move+substitution over a reduced alphabet. Lexer level: all strings of length <= 4 over '
            '{0,9,+,-,.,e,space,tab,LF,CR,NUL,x,0x80,:} in 11 token contexts, followed by a valid rest and by EOF. '
            'Nesting ladders (6 shapes) of depth 10..1e4 (1e5, 1e6 thorough). Each input: ReadNLString and ReadNLFile '
            '(natural size, exactly one page, page-1, page+1) x flags {0, READ_BOUNDS_FIRST} x {protocol recorder, '
            'mp::Problem, NullNLHandler}. A class is (layer, format, deviation kind, handler, outcome, normalised message).')
    chk.set('bounds', {'deviations': 2 if tier == 'thorough' else 1, 'lexer_string_length': 4,
                       'ladder_depth_max': 10 ** 6 if tier == 'thorough' else 10 ** 4,
                       'alarm_s': 10, 'confirm_alone_s': 120, 'stack_limit': '64 MiB (sanitizer build)',
                       'asan_max_allocation_mb': 1024})
    chk.assumptions += [
        'oracle for exceptions: with the recording/null handlers (which never throw) every exception must be a located '
        'mp::ReadError / mp::BinaryReadError; with mp::Problem any mp::Error, mp::OverflowError, std::bad_alloc or '
        'std::length_error is accepted (handler-side validation / resource refusal)',
        'an allocation request above 1 GiB (hostile count) is refused by the ASan allocator and aborts the child: classified '
        'resource_refusal (counted as asan_allocation_refusals), not a violation',
        'flags differential is judged with the recording handler only: same outcome and error text, identical OnVarBounds '
        'sequence, and the remaining callbacks of the bounds-first read are equal to (complete read) or a prefix of (error) '
        'those of the flags=0 read',
        'file-vs-memory differential compares reads of the same bytes, with the file name passed as the input name',
        'stack limit fixed at 64 MiB for the sanitizer build (its frames are several times larger than production frames; '
        'with the default 8 MiB the mp::Problem configuration already overflows at depth 1e4 under ASan); the defect shown '
        'by the ladders is the linear growth of stack use with nesting depth, not a particular threshold',
        'padding to a page multiple inserts a comment before the first line feed (appended spaces if there is none)',
    ]
    _cleanup()
    return chk.finish()


def replay(path):
    r = json.load(open(path))['replay']
    _fix_stack()
    os.makedirs(WORK, exist_ok=True)
    if isinstance(r, dict) and r.get('layer') == 'P':
        binary = build_p()
        args = ['--work', WORK, '--repo', vbuild.REPO, '--replay', json.dumps(r)]
    else:
        binary = build()
        args = ['--work', WORK, '--repo', vbuild.REPO]
        if 'ladder' in r:
            args += ['--replay-ladder', r['ladder'], '--depth', str(r['depth']), '--fmt', str(r['fmt'])]
        else:
            args += ['--replay-hex', r['hex'] or '-', '--mode', str(r.get('mode', 0))]
    e = dict(os.environ)
    e.update(_env())
    p = subprocess.run([binary] + args, capture_output=True, text=True, env=e)
    print(p.stdout[-6000:])
    _cleanup()
    return 1 if ('"violation"' in p.stdout or '"ladder_crash"' in p.stdout) else 0
