// C02 layer L: token-level model of small valid NL files, encoders (text / binary native / binary
// byte-swapped) and the deviation alphabets.  No dependency on mp (own, independent encoder).
#pragma once
#include <climits>
#include <cmath>
#include <cstdint>
#include <cstdio>
#include <cstring>
#include <set>
#include <string>
#include <vector>

namespace nlb {

enum Fmt { TEXT = 0, BIN = 1, SWAP = 2 };
inline const char *fmt_name(int f) { return f == TEXT ? "text" : f == BIN ? "bin" : "binswap"; }

enum TK { K_CH, K_UINT, K_INT, K_SHORT, K_DBL, K_NAMELEN, K_NAME, K_STRBODY, K_EOL };

struct Tok {
  TK k = K_CH;
  long long iv = 0;
  double dv = 0;
  std::string s;
  long long ub = -1;       // the declared count this index/count is checked against (-1: none)
  bool sp = false;         // text: preceded by one space
  bool hdr = false;        // header token: rendered as text in every format
  bool segstart = false;   // first token of a body segment
  int special = 0;         // 1 = format letter (g/b), 2 = arith kind (0 text, 1 LE, 2 BE)
  const char *role = "";   // for reports
};

struct Base {
  std::string name;
  std::vector<Tok> t;
  std::set<std::string> feats;
  bool has_arith = false;
  int nv = 0, nc = 0, no = 0, nlc = 0, nf = 0, nce = 0;
};

// ------------------------------------------------------------------------------------------ builder
struct BB {
  Base b;
  bool in_hdr = true;
  explicit BB(const char *name) { b.name = name; }
  Tok &push(TK k) { b.t.emplace_back(); Tok &t = b.t.back(); t.k = k; t.hdr = in_hdr; return t; }

  // Header: line 0 = {nopts, opt...}, optional vbtol; lines 1..9 as in the NL format.
  // In line 5 the third entry (if present) is the arith kind placeholder.
  BB &H(const std::vector<std::vector<long long>> &L, double vbtol = NAN) {
    { Tok &t = push(K_CH); t.iv = 'g'; t.special = 1; t.role = "format"; }
    for (size_t i = 0; i < L[0].size(); ++i) { Tok &t = push(K_UINT); t.iv = L[0][i]; t.sp = i > 0; t.role = "hdr0"; }
    if (!std::isnan(vbtol)) { Tok &t = push(K_DBL); t.dv = vbtol; t.sp = true; t.role = "vbtol"; }
    push(K_EOL);
    static const char *roles[] = {"hdr0", "hdr1", "hdr2", "hdr3", "hdr4", "hdr5", "hdr6", "hdr7", "hdr8", "hdr9"};
    for (size_t ln = 1; ln < L.size(); ++ln) {
      for (size_t i = 0; i < L[ln].size(); ++i) {
        Tok &t = push(K_UINT); t.iv = L[ln][i]; t.sp = true; t.role = roles[ln < 10 ? ln : 9];
        if (ln == 5 && i == 2) { t.special = 2; b.has_arith = true; }
      }
      push(K_EOL);
    }
    b.nv = (int)L[1][0]; b.nc = (int)L[1][1]; b.no = (int)L[1][2];
    b.nlc = L[1].size() > 5 ? (int)L[1][5] : 0;
    b.nf = L[5].size() > 1 ? (int)L[5][1] : 0;
    b.nce = 0; for (long long v : L[9]) b.nce += (int)v;
    in_hdr = false;
    return *this;
  }
  // the usual modern header
  BB &H10(int nv, int nc, int no, int nlc = 0, int nf = 0, std::vector<long long> ce = {0, 0, 0, 0, 0},
          int nlcons = 0, int nlobjs = 0, std::vector<long long> compl_ = {}, int nlvc = 0, int nlvo = 0,
          int nlvb = 0, std::vector<long long> ints = {0, 0, 0, 0, 0}, long long nzc = 0, long long nzo = 0,
          int nr = 0, int ne = 0) {
    std::vector<long long> l2 = {nlcons, nlobjs};
    for (long long v : compl_) l2.push_back(v);
    return H({{3, 1, 1, 0}, {nv, nc, no, nr, ne, nlc}, l2, {0, 0}, {nlvc, nlvo, nlvb}, {0, nf, 0, 1}, ints,
              {nzc, nzo}, {0, 0}, ce});
  }
  BB &feat(const std::string &f) { b.feats.insert(f); return *this; }
  BB &seg(char c) { Tok &t = push(K_CH); t.iv = (unsigned char)c; t.segstart = true; t.role = "segment";
                    b.feats.insert(std::string("seg:") + c); return *this; }
  BB &ch(char c, bool sp = false, const char *role = "char") { Tok &t = push(K_CH); t.iv = (unsigned char)c; t.sp = sp; t.role = role; return *this; }
  BB &u(long long v, long long ub = -1, bool sp = false, const char *role = "uint") {
    Tok &t = push(K_UINT); t.iv = v; t.ub = ub; t.sp = sp; t.role = role; return *this; }
  BB &i(long long v, bool sp = false, const char *role = "int") { Tok &t = push(K_INT); t.iv = v; t.sp = sp; t.role = role; return *this; }
  BB &sh(int v) { Tok &t = push(K_SHORT); t.iv = v; t.role = "short"; return *this; }
  BB &d(double v, bool sp = false, const char *role = "double") { Tok &t = push(K_DBL); t.dv = v; t.sp = sp; t.role = role; return *this; }
  BB &nm(const char *s) { { Tok &t = push(K_NAMELEN); t.iv = (long long)std::strlen(s); t.role = "namelen"; }
                          Tok &t = push(K_NAME); t.s = s; t.sp = true; t.role = "name"; return *this; }
  BB &nl() { push(K_EOL); return *this; }
  // expressions
  BB &o(int op) { ch('o', false, "expr"); u(op, 83, false, "opcode"); return nl(); }
  BB &v(int idx) { ch('v', false, "expr"); u(idx, b.nv + b.nce, false, "varref"); return nl(); }
  BB &n(double x) { ch('n', false, "expr"); d(x); return nl(); }
  BB &s(int x) { ch('s', false, "expr"); sh(x); return nl(); }
  BB &l(long long x) { ch('l', false, "expr"); i(x, false, "long"); return nl(); }
  BB &cnt(int n) { u(n, -1, false, "nargs"); return nl(); }
  BB &f(int idx, int nargs) { ch('f', false, "expr"); u(idx, b.nf, false, "funcidx"); u(nargs, -1, true, "nargs"); return nl(); }
  BB &h(const char *str) { ch('h', false, "expr"); u((long long)std::strlen(str), -1, false, "strlen");
                           Tok &t = push(K_STRBODY); t.s = str; t.role = "string"; return nl(); }
  // segments
  BB &C(int idx) { seg('C'); u(idx, b.nc, false, "conidx"); return nl(); }
  BB &L(int idx) { seg('L'); u(idx, b.nlc, false, "lconidx"); return nl(); }
  BB &O(int idx, int type) { seg('O'); u(idx, b.no, false, "objidx"); u(type, -1, true, "objtype"); return nl(); }
  BB &V(int idx, int nlin, int pos) { seg('V'); u(idx, b.nv + b.nce, false, "ceidx"); u(nlin, -1, true, "nlin");
                                      u(pos, -1, true, "cepos"); return nl(); }
  BB &F(int idx, int type, int nargs, const char *name) {
    seg('F'); u(idx, b.nf, false, "funcidx"); u(type, 2, true, "functype"); i(nargs, true, "funcnargs"); nm(name); return nl(); }
  BB &lin(char c, int idx, std::vector<std::pair<int, double>> terms) {
    seg(c); u(idx, c == 'G' ? b.no : b.nc, false, "rowidx"); u((long long)terms.size(), b.nv + 1, true, "nterms"); nl();
    for (auto &t : terms) { u(t.first, b.nv, false, "varidx"); d(t.second, true); nl(); }
    return *this; }
  BB &term(int var, double c) { u(var, b.nv, false, "varidx"); d(c, true); return nl(); }
  BB &S(int kind, const char *name, std::vector<std::pair<int, double>> vals) {
    seg('S'); feat("seg:S" + std::to_string(kind));
    int items = (kind & 3) == 0 ? b.nv : (kind & 3) == 1 ? b.nc + b.nlc : (kind & 3) == 2 ? b.no : 1;
    u(kind, 8, false, "sufkind"); u((long long)vals.size(), items + 1, true, "nvalues"); nm(name); nl();
    for (auto &p : vals) { u(p.first, items, false, "sufidx"); if (kind & 4) d(p.second, true); else i((long long)p.second, true, "sufval"); nl(); }
    return *this; }
  // bounds: each entry {type, a, b}; type 5: a = flags, b = var (1-based)
  BB &bounds(char c, std::vector<std::vector<double>> e) {
    seg(c); nl();
    for (auto &x : e) {
      int ty = (int)x[0];
      ch((char)('0' + ty), false, "boundtype");
      if (ty == 0) { d(x[1], true); d(x[2], true); }
      else if (ty == 1 || ty == 2 || ty == 4) d(x[1], true);
      else if (ty == 5) { feat("seg:r-compl"); i((long long)x[1], true, "complflags"); u((long long)x[2], b.nv + 1, true, "complvar"); }
      nl();
    }
    return *this; }
  BB &K(char c, std::vector<int> sizes) { seg(c); u((long long)sizes.size(), b.nv, false, "ncols"); nl();
                                          for (int s : sizes) { u(s, -1, false, "colsize"); nl(); } return *this; }
  BB &init(char c, std::vector<std::pair<int, double>> vals) {
    seg(c); u((long long)vals.size(), (c == 'x' ? b.nv : b.nc) + 1, false, "ninit"); nl();
    for (auto &p : vals) { u(p.first, c == 'x' ? b.nv : b.nc, false, "initidx"); d(p.second, true); nl(); }
    return *this; }
  Base done() { return b; }
};

// ------------------------------------------------------------------------------------------ bases
inline std::vector<Base> make_bases() {
  std::vector<Base> R;
  typedef std::vector<long long> VL;
  // 1 minimal linear program
  R.push_back(BB("lin1").H10(1, 1, 1, 0, 0, {0, 0, 0, 0, 0}, 0, 0, {}, 0, 0, 0, {0, 0, 0, 0, 0}, 1, 1)
      .C(0).n(0).O(0, 0).n(0).bounds('r', {{4, 1}}).bounds('b', {{0, 0, 10}}).K('k', {})
      .lin('J', 0, {{0, 1}}).lin('G', 0, {{0, 2}}).done());
  // 2 all bound kinds, K segment, ranges
  R.push_back(BB("bounds5").H10(5, 3, 1, 0, 0, {0, 0, 0, 0, 0}, 0, 0, {}, 0, 0, 0, {0, 0, 0, 0, 0}, 5, 2, 1, 1)
      .C(0).n(0).C(1).n(0).C(2).n(0).O(0, 1).n(0)
      .bounds('r', {{0, -1, 1}, {1, 5}, {2, -5}}).bounds('b', {{0, 0, 1}, {1, 2.5}, {2, -2.5}, {3}, {4, 7}})
      .K('K', {1, 1, 1, 1}).lin('J', 0, {{0, 1}, {1, 1}}).lin('J', 1, {{2, 1}, {3, -1}}).lin('J', 2, {{4, 3}})
      .lin('G', 0, {{0, 1}, {4, 1}}).done());
  // 3 cumulative column sizes, free row
  R.push_back(BB("kcum").H10(3, 2, 0, 0, 0, {0, 0, 0, 0, 0}, 0, 0, {}, 0, 0, 0, {0, 0, 0, 0, 0}, 3, 0)
      .C(0).n(0).C(1).n(0).bounds('b', {{3}, {3}, {3}}).bounds('r', {{3}, {4, 0}})
      .K('k', {1, 3}).lin('J', 0, {{0, 1}, {1, 2}}).lin('J', 1, {{1, 1}}).done());
  // 4 complementarity
  R.push_back(BB("compl").H10(2, 2, 0, 0, 0, {0, 0, 0, 0, 0}, 0, 0, {2, 0, 0, 0}, 0, 0, 0, {0, 0, 0, 0, 0}, 2, 0)
      .C(0).n(0).C(1).n(0).bounds('b', {{2, 0}, {0, 0, 5}}).bounds('r', {{5, 1, 1}, {5, 3, 2}})
      .K('k', {1}).lin('J', 0, {{0, 1}}).lin('J', 1, {{1, 1}}).done());
  // 5 unary operators
  R.push_back(BB("unary").H10(1, 1, 1, 0, 0, {0, 0, 0, 0, 0}, 1, 1, {}, 1, 1, 1)
      .C(0).o(16).o(15).o(13).o(14).v(0)
      .O(0, 0).o(39).o(43).o(44).o(41).o(46).o(77).o(37).o(38).o(40).o(42).o(45).o(47).o(49).o(50).o(51).o(52).o(53).v(0)
      .bounds('r', {{1, 0}}).bounds('b', {{0, 1, 2}}).K('k', {}).lin('J', 0, {{0, 0}}).lin('G', 0, {{0, 0}}).done());
  // 6 binary operators
  R.push_back(BB("binary").H10(2, 1, 1, 0, 0, {0, 0, 0, 0, 0}, 1, 1, {}, 2, 2, 2)
      .C(0).o(0).o(1).o(2).v(0).v(1).o(3).v(0).n(2).o(5).o(4).v(1).n(3).o(6).v(0).v(1)
      .O(0, 0).o(48).o(55).v(0).v(1).o(56).o(57).v(0).n(1).o(58).o(76).v(1).n(2).o(78).n(2).v(0)
      .bounds('r', {{1, 0}}).bounds('b', {{0, 1, 2}, {0, 1, 2}}).K('k', {1})
      .lin('J', 0, {{0, 0}, {1, 0}}).lin('G', 0, {{0, 0}, {1, 0}}).done());
  // 7 varargs min/max
  R.push_back(BB("varargs").H10(2, 1, 0, 0, 0, {0, 0, 0, 0, 0}, 1, 0, {}, 2, 0, 0)
      .C(0).o(11).cnt(2).v(0).o(12).cnt(3).v(1).n(1).o(11).cnt(1).v(0)
      .bounds('r', {{1, 0}}).bounds('b', {{3}, {3}}).K('k', {1}).lin('J', 0, {{0, 0}, {1, 0}}).done());
  // 8 sum
  R.push_back(BB("sum").H10(2, 1, 0, 0, 0, {0, 0, 0, 0, 0}, 1, 0, {}, 2, 0, 0)
      .C(0).o(54).cnt(3).v(0).o(54).cnt(4).n(1).v(1).v(0).n(2).v(1)
      .bounds('r', {{1, 0}}).bounds('b', {{3}, {3}}).K('k', {1}).lin('J', 0, {{0, 0}, {1, 0}}).done());
  // 9 count
  R.push_back(BB("count").H10(2, 1, 0, 0, 0, {0, 0, 0, 0, 0}, 1, 0, {}, 2, 0, 0)
      .C(0).o(59).cnt(2).o(22).v(0).n(1).o(24).v(1).n(0)
      .bounds('r', {{1, 1}}).bounds('b', {{3}, {3}}).K('k', {1}).lin('J', 0, {{0, 0}, {1, 0}}).done());
  // 10 numberof
  R.push_back(BB("numberof").H10(2, 1, 0, 0, 0, {0, 0, 0, 0, 0}, 1, 0, {}, 2, 0, 0)
      .C(0).o(60).cnt(3).n(1).v(0).v(1)
      .bounds('r', {{1, 1}}).bounds('b', {{3}, {3}}).K('k', {1}).lin('J', 0, {{0, 0}, {1, 0}}).done());
  // 11 symbolic numberof
  R.push_back(BB("numberofsym").H10(1, 1, 0, 0, 0, {0, 0, 0, 0, 0}, 1, 0, {}, 1, 0, 0)
      .C(0).o(61).cnt(3).h("a").h("bc").v(0)
      .bounds('r', {{1, 1}}).bounds('b', {{3}}).K('k', {}).lin('J', 0, {{0, 0}}).done());
  // 12 if expression
  R.push_back(BB("ifexpr").H10(1, 1, 0, 0, 0, {0, 0, 0, 0, 0}, 1, 0, {}, 1, 0, 0)
      .C(0).o(35).o(22).v(0).n(0).v(0).o(16).v(0)
      .bounds('r', {{1, 1}}).bounds('b', {{3}}).K('k', {}).lin('J', 0, {{0, 0}}).done());
  // 13 symbolic if inside a call with a symbolic function
  R.push_back(BB("ifsym").H10(1, 1, 0, 0, 1, {0, 0, 0, 0, 0}, 1, 0, {}, 1, 0, 0)
      .F(0, 1, -1, "sfun").C(0).f(0, 2).o(65).o(23).v(0).n(0).h("lo").h("high").o(65).o(28).v(0).n(1).n(1).v(0)
      .bounds('r', {{1, 1}}).bounds('b', {{3}}).K('k', {}).lin('J', 0, {{0, 0}}).done());
  // 14 piecewise-linear term with all constant spellings
  R.push_back(BB("plterm").H10(1, 1, 0, 0, 0, {0, 0, 0, 0, 0}, 1, 0, {}, 1, 0, 0)
      .C(0).o(64).cnt(3).n(-1).s(0).n(0).l(1).n(1).v(0)
      .bounds('r', {{1, 1}}).bounds('b', {{3}}).K('k', {}).lin('J', 0, {{0, 0}}).done());
  // 15 call with numeric arguments
  R.push_back(BB("callnum").H10(1, 1, 0, 0, 1, {0, 0, 0, 0, 0}, 1, 0, {}, 1, 0, 0)
      .F(0, 0, 2, "myfun").C(0).f(0, 2).v(0).n(1.5)
      .bounds('r', {{1, 1}}).bounds('b', {{3}}).K('k', {}).lin('J', 0, {{0, 0}}).done());
  // 16 call with string arguments, nested call, two functions
  R.push_back(BB("callstr").H10(1, 1, 1, 0, 2, {0, 0, 0, 0, 0}, 1, 1, {}, 1, 1, 1)
      .F(0, 1, -1, "sfun").F(1, 0, 0, "zero").C(0).f(0, 3).h("abc").v(0).f(1, 0)
      .O(0, 0).f(0, 1).h("")
      .bounds('r', {{1, 1}}).bounds('b', {{3}}).K('k', {}).lin('J', 0, {{0, 0}}).lin('G', 0, {{0, 0}}).done());
  // 17 logical operators
  R.push_back(BB("logical").H10(2, 0, 0, 3, 0, {0, 0, 0, 0, 0}, 0, 0, {}, 0, 0, 0)
      .L(0).o(21).o(20).o(22).v(0).n(1).o(23).v(1).n(2).o(34).o(24).v(0).v(1)
      .L(1).o(73).o(28).v(0).n(0).o(72).o(29).v(1).n(0).o(30).v(0).n(3).n(1)
      .L(2).o(70).cnt(3).o(22).v(0).n(5).n(1).o(71).cnt(3).n(0).s(1).l(0)
      .bounds('b', {{0, 0, 9}, {0, 0, 9}}).done());
  // 18 alldiff
  R.push_back(BB("alldiff").H10(3, 0, 0, 2, 0, {0, 0, 0, 0, 0}, 0, 0, {}, 0, 0, 0)
      .L(0).o(74).cnt(3).v(0).v(1).v(2).L(1).o(75).cnt(2).v(0).o(0).v(1).n(1)
      .bounds('b', {{0, 0, 9}, {0, 0, 9}, {0, 0, 9}}).done());
  // 19 atleast family
  R.push_back(BB("atleast").H10(2, 0, 0, 6, 0, {0, 0, 0, 0, 0}, 0, 0, {}, 0, 0, 0)
      .L(0).o(62).n(1).o(59).cnt(2).o(22).v(0).n(1).o(22).v(1).n(1)
      .L(1).o(63).v(0).o(59).cnt(1).o(24).v(1).n(1)
      .L(2).o(66).n(1).o(59).cnt(1).o(24).v(1).n(2)
      .L(3).o(67).n(1).o(59).cnt(1).o(24).v(1).n(3)
      .L(4).o(68).n(1).o(59).cnt(1).o(24).v(1).n(4)
      .L(5).o(69).n(1).o(59).cnt(1).o(24).v(1).n(5)
      .bounds('b', {{0, 0, 9}, {0, 0, 9}}).done());
  // 20 common expression with linear part, referenced from a constraint
  R.push_back(BB("cexpr").H10(1, 1, 0, 0, 0, {0, 1, 0, 0, 0}, 1, 0, {}, 1, 0, 0)
      .V(1, 1, 0).term(0, 2).o(2).v(0).v(0).C(0).v(1)
      .bounds('r', {{1, 1}}).bounds('b', {{3}}).K('k', {}).lin('J', 0, {{0, 0}}).done());
  // 21 two common expressions, one referencing the other, no linear part, used in objective
  R.push_back(BB("cexpr2").H10(2, 1, 1, 0, 0, {1, 0, 0, 0, 1}, 1, 1, {}, 2, 2, 2)
      .V(2, 0, 0).o(0).v(0).v(1).V(3, 2, 1).term(0, 1).term(1, -1).o(16).v(2).C(0).v(2).O(0, 0).v(3)
      .bounds('r', {{1, 1}}).bounds('b', {{3}, {3}}).K('k', {1}).lin('J', 0, {{0, 0}, {1, 0}}).lin('G', 0, {{0, 0}}).done());
  // 22-25 suffixes: 4 kinds x int/real
  R.push_back(BB("suf_var").H10(2, 0, 1, 0, 0, {0, 0, 0, 0, 0}, 0, 0, {}, 0, 0, 0, {0, 0, 0, 0, 0}, 0, 1)
      .S(0, "answer", {{0, 42}, {1, -7}}).S(4, "rel", {{1, 0.5}}).O(0, 0).n(0).bounds('b', {{2, 0}, {3}}).K('k', {0})
      .lin('G', 0, {{0, 1}}).done());
  R.push_back(BB("suf_con").H10(1, 1, 0, 1, 0, {0, 0, 0, 0, 0}, 0, 0, {}, 0, 0, 0, {0, 0, 0, 0, 0}, 1, 0)
      .S(1, "prio", {{0, 1}, {1, 2}}).S(5, "slack", {{1, 1e-3}}).C(0).n(0).L(0).o(22).v(0).n(1)
      .bounds('r', {{1, 1}}).bounds('b', {{3}}).K('k', {}).lin('J', 0, {{0, 1}}).done());
  R.push_back(BB("suf_obj").H10(1, 0, 2, 0, 0, {0, 0, 0, 0, 0}, 0, 0, {}, 0, 0, 0, {0, 0, 0, 0, 0}, 0, 2)
      .S(2, "objpriority", {{1, 3}}).S(6, "objweight", {{0, 2.5}, {1, -1}}).O(0, 0).n(0).O(1, 1).n(1)
      .bounds('b', {{3}}).K('k', {}).lin('G', 0, {{0, 1}}).lin('G', 1, {{0, -1}}).done());
  R.push_back(BB("suf_prob").H10(1, 0, 0, 0, 0, {0, 0, 0, 0, 0}, 0, 0, {}, 0, 0, 0)
      .S(3, "pi", {{0, 7}}).S(7, "pr", {{0, 0.25}}).bounds('b', {{3}}).done());
  // 26 initial primal and dual values
  R.push_back(BB("xd").H10(2, 1, 0, 0, 0, {0, 0, 0, 0, 0}, 0, 0, {}, 0, 0, 0, {0, 0, 0, 0, 0}, 2, 0)
      .C(0).n(0).init('x', {{0, 1.5}, {1, -2}}).init('d', {{0, 3}}).bounds('r', {{1, 1}}).bounds('b', {{3}, {3}})
      .K('k', {1}).lin('J', 0, {{0, 1}, {1, 1}}).done());
  // 27 integer variable classes
  R.push_back(BB("intvars").H10(6, 1, 1, 0, 0, {0, 0, 0, 0, 0}, 1, 1, {}, 3, 4, 2, {1, 1, 1, 1, 1}, 6, 6)
      .C(0).o(2).v(0).v(2).O(0, 0).o(2).v(1).v(3)
      .bounds('r', {{1, 1}}).bounds('b', {{3}, {3}, {3}, {3}, {0, 0, 1}, {0, 0, 5}}).K('k', {1, 1, 1, 1, 1})
      .lin('J', 0, {{0, 0}, {1, 0}, {2, 0}, {3, 0}, {4, 1}, {5, 1}}).lin('G', 0, {{0, 0}, {1, 0}, {2, 0}, {3, 0}, {4, 1}, {5, 1}}).done());
  // 28 constants in all spellings
  R.push_back(BB("consts").H10(1, 1, 1, 0, 0, {0, 0, 0, 0, 0}, 1, 1, {}, 1, 1, 1)
      .C(0).o(0).o(0).s(5).l(100000).o(2).n(1e-5).v(0).O(0, 1).o(0).s(-32768).l(-2147483647)
      .bounds('r', {{1, 1}}).bounds('b', {{3}}).K('k', {}).lin('J', 0, {{0, 0}}).lin('G', 0, {{0, 0}}).done());
  // 29 deeper mixed nesting
  R.push_back(BB("nested").H10(2, 1, 0, 0, 0, {0, 0, 0, 0, 0}, 1, 0, {}, 2, 0, 0)
      .C(0).o(54).cnt(3).o(11).cnt(2).o(15).v(0).o(35).o(21).o(22).v(0).n(1).o(34).o(24).v(1).n(0).o(12).cnt(2).v(0).v(1).n(0)
      .o(60).cnt(2).v(0).o(59).cnt(1).o(29).v(1).n(0).o(5).v(0).o(16).v(1)
      .bounds('r', {{1, 1}}).bounds('b', {{3}, {3}}).K('k', {1}).lin('J', 0, {{0, 0}, {1, 0}}).done());
  // 30 no variables at all
  R.push_back(BB("empty").H10(0, 0, 0).bounds('b', {}).done());
  // 31 logical constants
  R.push_back(BB("logconst").H10(1, 0, 0, 2, 0, {0, 0, 0, 0, 0}, 0, 0, {}, 0, 0, 0)
      .L(0).n(1).L(1).o(34).s(0).bounds('b', {{3}}).done());
  // 32 several segment kinds in one file, bounds segment first
  R.push_back(BB("mix").H10(2, 2, 1, 1, 1, {0, 1, 0, 0, 0}, 1, 1, {0, 0, 0, 0}, 2, 2, 2, {0, 0, 0, 0, 0}, 4, 2, 1, 1)
      .bounds('b', {{0, 0, 1}, {2, 0}}).F(0, 0, -2, "g").S(0, "sv", {{1, 1}}).S(5, "sc", {{2, 1.5}})
      .V(2, 1, 0).term(1, 1).o(15).v(0).C(0).o(0).v(2).f(0, 1).v(1).C(1).n(0).L(0).o(20).o(22).v(0).n(1).o(28).v(1).n(1)
      .O(0, 0).o(2).v(0).v(1).init('x', {{0, 1}}).init('d', {{1, 1}}).bounds('r', {{0, 0, 1}, {4, 2}})
      .K('K', {2}).lin('J', 0, {{0, 1}, {1, 1}}).lin('J', 1, {{0, 1}, {1, -1}}).lin('G', 0, {{0, 1}, {1, 1}}).done());
  // 33 header with vbtol option and 9 options
  { BB bb("opts9");
    bb.H({{9, 1, 3, 0, 4, 5, 6, 7, 8, 9}, {1, 0, 1, 0, 0, 0}, {0, 0}, {0, 0}, {0, 0, 0}, {0, 0, 0, 1}, {0, 0, 0, 0, 0}, {0, 1},
          {0, 0}, {0, 0, 0, 0, 0}}, 1e-6);
    R.push_back(bb.O(0, 0).n(0).bounds('b', {{3}}).K('k', {}).lin('G', 0, {{0, 1}}).done()); }
  // 34 old-style header (optional fields absent, no arith kind) -> text and native binary only
  { BB bb("oldhdr");
    bb.H({{0}, {1, 1, 1}, {0, 0}, {0, 0}, {0, 0}, {0, 0}, {0, 0}, {1, 1}, {0, 0}, {0, 0, 0, 0, 0}});
    R.push_back(bb.C(0).n(0).O(0, 0).n(0).bounds('r', {{4, 1}}).bounds('b', {{3}}).K('k', {}).lin('J', 0, {{0, 1}})
                  .lin('G', 0, {{0, 1}}).done()); }
  // 35 maximisation with nonlinear objective only, Jacobian-free
  R.push_back(BB("nlobj").H10(2, 0, 1, 0, 0, {0, 0, 0, 0, 0}, 0, 1, {}, 0, 2, 0, {0, 0, 0, 0, 0}, 0, 2)
      .O(0, 1).o(1).o(5).v(0).n(2).o(2).n(3).v(1).bounds('b', {{0, -1, 1}, {0, -1, 1}}).K('k', {0})
      .lin('G', 0, {{0, 0}, {1, 1}}).done());
  // 36 repeated segments for the same item (accepted by the reader: later one wins / appends)
  R.push_back(BB("repeat").H10(1, 1, 1, 0, 0, {0, 0, 0, 0, 0}, 0, 0, {}, 0, 0, 0, {0, 0, 0, 0, 0}, 1, 1)
      .C(0).n(0).C(0).n(1).O(0, 0).n(0).O(0, 1).n(2).bounds('r', {{4, 1}}).bounds('r', {{4, 2}}).bounds('b', {{3}})
      .K('k', {}).lin('J', 0, {{0, 1}}).lin('J', 0, {{0, 2}}).lin('G', 0, {{0, 1}}).init('x', {}).done());
  (void)sizeof(VL);
  return R;
}

// ------------------------------------------------------------------------------------------ rendering
inline void put_int(std::string &o, long long v, int f) {
  uint32_t u = (uint32_t)(int32_t)v; char b[4]; std::memcpy(b, &u, 4);
  if (f == SWAP) { std::swap(b[0], b[3]); std::swap(b[1], b[2]); }
  o.append(b, 4);
}
inline void put_short(std::string &o, long long v, int f) {
  uint16_t u = (uint16_t)(int16_t)v; char b[2]; std::memcpy(b, &u, 2);
  if (f == SWAP) std::swap(b[0], b[1]);
  o.append(b, 2);
}
inline void put_dbl(std::string &o, double d, int f) {
  char b[8]; std::memcpy(b, &d, 8);
  if (f == SWAP) for (int i = 0; i < 4; ++i) std::swap(b[i], b[7 - i]);
  o.append(b, 8);
}
inline std::string dtoa17(double d) { char b[40]; std::snprintf(b, sizeof b, "%.17g", d); return b; }

// is this token rendered as text in format f?
inline bool as_text(const Tok &t, int f) { return f == TEXT || t.hdr; }

inline std::string render_tok(const Tok &t, int f) {
  std::string o;
  if (as_text(t, f)) {
    if (t.sp) o += ' ';
    switch (t.k) {
      case K_CH: o += t.special == 1 ? (f == TEXT ? 'g' : 'b') : (char)t.iv; break;
      case K_UINT: case K_INT: case K_SHORT:
        o += std::to_string(t.special == 2 ? (long long)(f == TEXT ? 0 : f == BIN ? 1 : 2) : t.iv); break;
      case K_DBL: o += dtoa17(t.dv); break;
      case K_NAMELEN: o.clear(); break;
      case K_NAME: o += t.s; break;
      case K_STRBODY: o = ":" + t.s; break;
      case K_EOL: o = "\n"; break;
    }
  } else {
    switch (t.k) {
      case K_CH: o += (char)t.iv; break;
      case K_UINT: case K_INT: case K_NAMELEN: put_int(o, t.iv, f); break;
      case K_SHORT: put_short(o, t.iv, f); break;
      case K_DBL: put_dbl(o, t.dv, f); break;
      case K_NAME: case K_STRBODY: o += t.s; break;
      case K_EOL: break;
    }
  }
  return o;
}

struct Alt { std::string bytes; std::string label; };

// The deviation alphabet of one token in one format.  level 0: full (single deviations); 1: reduced
// (pairs of substitutions); 2: tiny (substitution combined with truncation / segment move).
inline std::vector<Alt> alphabet(const Tok &t, int f, int level) {
  const bool reduced = level >= 1, tiny = level >= 2;
  std::vector<Alt> A;
  std::set<std::string> seen;
  std::string orig = render_tok(t, f);
  seen.insert(orig);
  auto add = [&](const std::string &bytes, const std::string &label) {
    if (seen.insert(bytes).second) A.push_back(Alt{bytes, label});
  };
  bool text = as_text(t, f);
  std::string pre = (text && t.sp) ? " " : "";
  switch (t.k) {
    case K_EOL: case K_STRBODY: return A;
    case K_CH: {
      if (t.special == 1) { for (char c : {'g', 'b', 'x'}) add(std::string(1, c), std::string("fmt=") + c); add(std::string(1, '\0'), "fmt=NUL"); add("", "fmt=none"); return A; }
      const char full[] = {'o', 'v', 'n', 's', 'l', 'f', 'h', 'C', 'L', 'b', 'z', '5', '9'};
      const char red[] = {'o', 'z'};
      if (tiny) add(pre + 'z', "ch=z");
      else if (reduced) for (char c : red) add(pre + c, std::string("ch=") + c);
      else for (char c : full) add(pre + c, std::string("ch=") + c);
      if (!tiny) add(pre + std::string(1, '\0'), "ch=NUL");
      if (!reduced) { add(pre + std::string(1, (char)0x80), "ch=0x80"); add(pre, "ch=none"); }
      return A;
    }
    case K_NAME: {
      if (text) { add(pre, "name=empty"); if (!reduced) { add(pre + "a b", "name=a_b"); add(pre + std::string(16, 'n'), "name=16n"); add(pre + "\x80\xff", "name=hibytes"); } }
      else { add("", "name=nobytes"); if (!reduced) add(t.s + "Z", "name=extra"); }
      return A;
    }
    default: break;
  }
  // numeric tokens
  long long v = t.k == K_DBL ? (long long)t.dv : t.iv;
  if (t.special == 2) v = f == TEXT ? 0 : f == BIN ? 1 : 2;
  if (text) {
    std::vector<std::string> vals;
    if (tiny) vals = {std::to_string(t.ub >= 0 ? t.ub : v + 1), "2147483647"};
    else if (reduced) vals = {"0", std::to_string(t.ub >= 0 ? t.ub : v + 1), "2147483647", ""};
    else {
      vals = {"0", "1", "2", std::to_string(v - 1), std::to_string(v + 1)};
      if (t.ub >= 0) { vals.push_back(std::to_string(t.ub - 1)); vals.push_back(std::to_string(t.ub)); vals.push_back(std::to_string(t.ub + 1)); }
      for (const char *s : {"2147483647", "2147483648", "99999999999", "-1", "", "x", "1e300", "1e-400", "nan"}) vals.push_back(s);
    }
    for (auto &s : vals) add(pre + s, "=" + (s.empty() ? std::string("(empty)") : s));
    return A;
  }
  // binary numeric
  if (t.k == K_DBL) {
    std::vector<double> ds = tiny ? std::vector<double>{NAN} : reduced ? std::vector<double>{1e300, NAN}
                                     : std::vector<double>{0.0, 1e300, NAN, INFINITY, 4.9406564584124654e-324, -1.0};
    for (double d : ds) { std::string o; put_dbl(o, d, f); add(o, "=" + dtoa17(d)); }
    return A;
  }
  if (t.k == K_SHORT) {
    for (long long x : {0LL, 1LL, -1LL, 32767LL, -32768LL}) { if (tiny && x != 32767) continue; std::string o; put_short(o, x, f); add(o, "=" + std::to_string(x)); }
    return A;
  }
  std::vector<long long> iv;
  if (tiny) iv = {t.ub >= 0 ? t.ub : v + 1, INT_MAX};
  else if (reduced) iv = {0, t.ub >= 0 ? t.ub : v + 1, INT_MAX, -1};
  else {
    iv = {0, 1, 2, v - 1, v + 1, INT_MAX, (long long)INT_MIN, -1};
    if (t.ub >= 0) { iv.push_back(t.ub - 1); iv.push_back(t.ub); iv.push_back(t.ub + 1); }
  }
  for (long long x : iv) { std::string o; put_int(o, x, f); add(o, "=" + std::to_string(x)); }
  return A;
}

struct Sub { int tok; int alt; };
enum SegOpK { SEG_NONE, SEG_MOVE, SEG_DEL, SEG_DUP };
struct SegOp { int k = SEG_NONE, a = 0, b = 0; };

struct Rendered {
  std::string bytes;
  std::vector<size_t> seg_off;   // byte offset of each body segment start (in final order)
};

// segments of a base: [start,end) token ranges; header is everything before the first segment
inline std::vector<std::pair<int, int>> segments(const Base &b) {
  std::vector<std::pair<int, int>> S;
  for (int i = 0; i < (int)b.t.size(); ++i)
    if (b.t[i].segstart) { if (!S.empty()) S.back().second = i; S.push_back({i, (int)b.t.size()}); }
  return S;
}
inline int header_end(const Base &b) {
  for (int i = 0; i < (int)b.t.size(); ++i) if (b.t[i].segstart) return i;
  return (int)b.t.size();
}

inline std::string render(const Base &b, int f, const std::vector<Sub> &subs, const std::vector<std::vector<Alt>> &alph,
                          SegOp op = SegOp()) {
  std::vector<std::pair<int, int>> S = segments(b);
  std::vector<int> order;
  for (int i = 0; i < (int)S.size(); ++i) order.push_back(i);
  if (op.k == SEG_MOVE) { int s = order[op.a]; order.erase(order.begin() + op.a); order.insert(order.begin() + op.b, s); }
  else if (op.k == SEG_DEL) order.erase(order.begin() + op.a);
  else if (op.k == SEG_DUP) order.insert(order.begin() + op.a, op.a);
  std::string out;
  auto emit = [&](int i) {
    for (auto &s : subs) if (s.tok == i) { out += alph[i][s.alt].bytes; return; }
    out += render_tok(b.t[i], f);
  };
  int he = header_end(b);
  for (int i = 0; i < he; ++i) emit(i);
  for (int s : order) for (int i = S[s].first; i < S[s].second; ++i) emit(i);
  return out;
}

// ------------------------------------------------------------------------------------------ ladders
inline const char *const LADDERS[] = {"unary", "binary", "not", "sum", "call", "if"};
enum { NUM_LADDERS = 6 };
// A valid file whose single expression is nested `depth` levels deep.
inline std::string ladder(const std::string &kind, long depth, int f) {
  std::string o;
  bool logical = kind == "not";
  bool call = kind == "call";
  char hdr[400];
  std::snprintf(hdr, sizeof hdr,
      "%c3 1 1 0\n 1 %d 0 0 0 %d\n %d 0\n 0 0\n %d 0 0\n 0 %d %d 1\n 0 0 0 0 0\n %d 0\n 0 0\n 0 0 0 0 0\n",
      f == TEXT ? 'g' : 'b', logical ? 0 : 1, logical ? 1 : 0, logical ? 0 : 1, logical ? 0 : 1, call ? 1 : 0,
      f == TEXT ? 0 : f == BIN ? 1 : 2, logical ? 0 : 1);
  o = hdr;
  auto CH = [&](char c) { o += c; };
  auto U = [&](long long v) { if (f == TEXT) o += std::to_string(v); else put_int(o, v, f); };
  auto NL = [&]() { if (f == TEXT) o += '\n'; };
  auto D = [&](double d) { if (f == TEXT) o += dtoa17(d); else put_dbl(o, d, f); };
  auto SP = [&]() { if (f == TEXT) o += ' '; };
  if (call) { CH('F'); U(0); SP(); U(0); SP(); U(1); if (f == TEXT) o += " fn"; else { put_int(o, 2, f); o += "fn"; } NL(); }
  CH(logical ? 'L' : 'C'); U(0); NL();
  o.reserve(o.size() + (size_t)depth * 16 + 64);
  std::string tail;
  for (long i = 0; i < depth; ++i) {
    if (kind == "unary") { CH('o'); U(16); NL(); }
    else if (kind == "not") { CH('o'); U(34); NL(); }
    else if (kind == "binary") { CH('o'); U(0); NL(); CH('n'); D(1); NL(); }             // 1 + (1 + (...
    else if (kind == "sum") { CH('o'); U(54); NL(); U(3); NL(); CH('n'); D(1); NL(); CH('n'); D(2); NL(); }  // sum(1,2,sum(...
    else if (kind == "call") { CH('f'); U(0); SP(); U(1); NL(); }
    else if (kind == "if") { CH('o'); U(35); NL(); CH('n'); D(1); NL(); CH('n'); D(0); NL(); }  // if 1 then 0 else (if ...
  }
  if (logical) { CH('n'); D(1); NL(); } else { CH('v'); U(0); NL(); }
  CH('b'); NL(); CH('3'); NL();
  return o;
}

}  // namespace nlb
