// C02: pieces shared by the layer-L (nlread_harness.cc) and layer-P (nlparse_harness.cc) harnesses.
// Include from exactly one translation unit per binary (it defines the global operator new/delete).
#pragma once
#include <algorithm>
#include <csignal>
#include <cstdarg>
#include <fcntl.h>
#include <functional>
#include <map>
#include <new>
#include <stdexcept>
#include <sys/mman.h>
#include <sys/stat.h>
#include <sys/wait.h>
#include <typeinfo>
#include <unistd.h>
#include <cxxabi.h>

#include "mp/nl-reader.h"
#include "mp/problem.h"
#include "explore.h"
#include "proto_nl.h"

// ------------------------------------------------------------------------------------------ allocation
// The environment's answer to a hostile allocation request is a refusal: requests above 128 MiB throw
// std::bad_alloc exactly as a machine without that much memory would (a sanitizer abort would only
// say "out of memory").  Memory still comes from the ASan-instrumented malloc, so redzones, poisoning
// and use-after-free detection stay active for every block.
static const size_t ALLOC_LIMIT = 128u << 20;
static long long g_alloc_refusals = 0;
static void *c02_alloc(size_t n, size_t align = 0) {
  if (n > ALLOC_LIMIT) { ++g_alloc_refusals; return nullptr; }
  void *p = nullptr;
  if (align > alignof(std::max_align_t)) { if (posix_memalign(&p, align, n ? n : 1) != 0) p = nullptr; }
  else p = std::malloc(n ? n : 1);
  return p;
}
void *operator new(size_t n) { void *p = c02_alloc(n); if (!p) throw std::bad_alloc(); return p; }
void *operator new[](size_t n) { void *p = c02_alloc(n); if (!p) throw std::bad_alloc(); return p; }
void *operator new(size_t n, const std::nothrow_t &) noexcept { return c02_alloc(n); }
void *operator new[](size_t n, const std::nothrow_t &) noexcept { return c02_alloc(n); }
void *operator new(size_t n, std::align_val_t a) { void *p = c02_alloc(n, (size_t)a); if (!p) throw std::bad_alloc(); return p; }
void *operator new[](size_t n, std::align_val_t a) { void *p = c02_alloc(n, (size_t)a); if (!p) throw std::bad_alloc(); return p; }
void *operator new(size_t n, std::align_val_t a, const std::nothrow_t &) noexcept { return c02_alloc(n, (size_t)a); }
void *operator new[](size_t n, std::align_val_t a, const std::nothrow_t &) noexcept { return c02_alloc(n, (size_t)a); }
void operator delete(void *p) noexcept { std::free(p); }
void operator delete[](void *p) noexcept { std::free(p); }
void operator delete(void *p, size_t) noexcept { std::free(p); }
void operator delete[](void *p, size_t) noexcept { std::free(p); }
void operator delete(void *p, const std::nothrow_t &) noexcept { std::free(p); }
void operator delete[](void *p, const std::nothrow_t &) noexcept { std::free(p); }
void operator delete(void *p, std::align_val_t) noexcept { std::free(p); }
void operator delete[](void *p, std::align_val_t) noexcept { std::free(p); }
void operator delete(void *p, size_t, std::align_val_t) noexcept { std::free(p); }
void operator delete[](void *p, size_t, std::align_val_t) noexcept { std::free(p); }
void operator delete(void *p, std::align_val_t, const std::nothrow_t &) noexcept { std::free(p); }
void operator delete[](void *p, std::align_val_t, const std::nothrow_t &) noexcept { std::free(p); }

static std::string g_repo = "/repo";
static const char *FNAME = "in.nl";
enum { H_REC = 0, H_NULL = 1, H_PROB = 2 };
static const char *HNAME[] = {"rec", "null", "problem"};

static std::string hexs(const std::string &b) {
  static const char *d = "0123456789abcdef"; std::string o; o.reserve(b.size() * 2);
  for (unsigned char c : b) { o += d[c >> 4]; o += d[c & 15]; }
  return o;
}
static std::string unhex(const std::string &h) {
  std::string o; auto v = [](char c) { return c <= '9' ? c - '0' : (c | 32) - 'a' + 10; };
  for (size_t i = 0; i + 1 < h.size(); i += 2) o += (char)(v(h[i]) * 16 + v(h[i + 1]));
  return o;
}
static std::string jstr(const std::string &s) { return "\"" + vx::jesc(s) + "\""; }
static std::string demangle(const char *n) {
  int st = 0; char *p = abi::__cxa_demangle(n, nullptr, nullptr, &st);
  std::string r = (st == 0 && p) ? p : n; std::free(p); return r;
}
// normalise a message for classes/signatures: drop "name:line:col: " / "name:offset N: ", digits -> #
static std::string norm_msg(std::string m) {
  size_t p = m.find(FNAME);
  if (p == 0) { size_t q = m.find(": "); if (q != std::string::npos) m = m.substr(q + 2); }
  std::string o; bool ind = false;
  for (char c : m) {
    if (c >= '0' && c <= '9') { if (!ind) o += '#'; ind = true; }
    else { ind = false; o += ((unsigned char)c < 0x20 || (unsigned char)c >= 0x7f) ? '?' : c; }
  }
  if (o.size() > 90) o.resize(90);
  return o;
}

// ------------------------------------------------------------------------------------------ one read
struct Res {
  bool have = false;
  int kind = 0;   // 0 complete, 1 located read error, 2 other mp::Error, 3 resource/overflow refusal,
                  // 4 other std::exception, 5 unknown exception
  std::string etype, msg, log;
  std::vector<std::string> perr;
  int maxdepth = 0; bool ended = false;
  std::set<std::string> events;
};
static const char *KNAME[] = {"complete", "read-error", "mp-error", "refused", "std-exception", "unknown-exception"};

template <class Fn> static void guarded(Res &r, Fn fn) {
  try { fn(); r.kind = 0; }
  catch (const mp::ReadError &e) { r.kind = 1; r.etype = "mp::ReadError"; r.msg = e.what(); }
  catch (const mp::BinaryReadError &e) { r.kind = 1; r.etype = "mp::BinaryReadError"; r.msg = e.what(); }
  catch (const mp::Error &e) { r.kind = 2; r.etype = demangle(typeid(e).name()); r.msg = e.what(); }
  catch (const mp::OverflowError &e) { r.kind = 3; r.etype = "mp::OverflowError"; r.msg = e.what(); }
  catch (const std::bad_alloc &e) { r.kind = 3; r.etype = "std::bad_alloc"; r.msg = e.what(); }
  catch (const std::length_error &e) { r.kind = 3; r.etype = "std::length_error"; r.msg = e.what(); }
  catch (const std::exception &e) { r.kind = 4; r.etype = demangle(typeid(e).name()); r.msg = e.what(); }
  catch (...) { r.kind = 5; r.etype = "?"; }
  r.have = true;
}

// Transcript of the recorder without the OnVarBounds lines (those are collected in *bounds).
static std::string strip_bounds(const std::string &log, std::string *bounds) {
  std::string o; size_t i = 0;
  while (i < log.size()) {
    size_t e = log.find('\n', i); if (e == std::string::npos) e = log.size() - 1;
    bool b = log.compare(i, 12, "OnVarBounds ") == 0;
    (b ? *bounds : o).append(log, i, e - i + 1);
    i = e + 1;
  }
  return o;
}

// flags differential on recorder transcripts: identical OnVarBounds sequence; the other callbacks of the
// bounds-first read equal (complete read) or a prefix of (error) those of the flags=0 read.  Expression
// ids are allocated in callback order and OnVarBounds creates none, so the lines are directly comparable.
static bool flags_transcripts_agree(const std::string &log0, const std::string &log1, bool complete) {
  std::string ab, bb; std::string ao = strip_bounds(log0, &ab), bo = strip_bounds(log1, &bb);
  return ab == bb && (complete ? ao == bo : (bo.size() <= ao.size() && ao.compare(0, bo.size(), bo) == 0));
}

// ------------------------------------------------------------------------------------------ crash reports
static std::string read_file(const std::string &p, size_t cap = 200000) {
  std::string s; FILE *f = fopen(p.c_str(), "rb"); if (!f) return s;
  char buf[8192]; size_t n; while ((n = fread(buf, 1, sizeof buf, f)) > 0 && s.size() < cap) s.append(buf, n);
  fclose(f); return s;
}

// Short "Class::function" of the first stack frame that lies in the code under test.  *via_harness is set
// when frames of the harness / oracle lie above it (the fault was raised while a handler callback touched
// data the reader had passed to it, e.g. a name whose length reaches beyond the input buffer).
static std::string top_frame(const std::string &rep, std::string *loc, bool *via_harness = nullptr) {
  size_t p = 0; bool harness = false; std::string hframe;
  while ((p = rep.find("\n    #", p)) != std::string::npos) {
    size_t e = rep.find('\n', p + 1); std::string ln = rep.substr(p + 1, e - p - 1); p = e == std::string::npos ? rep.size() : e;
    size_t in = ln.find(" in "); if (in == std::string::npos) continue;
    if (ln.find("/checks/C02/") != std::string::npos || ln.find("/verif/ref/") != std::string::npos ||
        ln.find("/verif/engine/") != std::string::npos) { if (!harness) hframe = ln.substr(in + 4); harness = true; continue; }
    if (ln.find(" " + g_repo + "/") == std::string::npos) continue;
    std::string fn = ln.substr(in + 4);
    size_t sp = fn.rfind(' ');
    if (sp != std::string::npos && fn.find('/', sp) != std::string::npos) { if (loc) *loc = fn.substr(sp + 1); fn = fn.substr(0, sp); }
    // strip template arguments and the parameter list
    std::string o; int depth = 0;
    for (char c : fn) { if (c == '<') ++depth; else if (c == '>') { if (depth) --depth; } else if (c == '(' && depth == 0) break; else if (!depth) o += c; }
    while (!o.empty() && o.back() == ' ') o.pop_back();
    size_t sp2 = o.rfind(' '); if (sp2 != std::string::npos) o = o.substr(sp2 + 1);   // drop return type
    // keep the last two components
    size_t c1 = o.rfind("::"); if (c1 != std::string::npos) { size_t c2 = o.rfind("::", c1 - 1); if (c2 != std::string::npos) o = o.substr(c2 + 2); }
    if (via_harness) *via_harness = harness;
    return o;
  }
  if (harness) return "HARNESS " + hframe;
  return "?";
}

struct Crash { std::string kind; bool resource = false, stack = false, timeout = false; std::string site, loc, summary; };
static Crash classify(int status, const std::string &rep) {
  Crash c;
  if (WIFSIGNALED(status) && WTERMSIG(status) == SIGALRM) { c.timeout = true; c.kind = "timeout"; return c; }
  size_t a = rep.find("AddressSanitizer");
  if (rep.find("allocation-size-too-big") != std::string::npos || rep.find("out of memory") != std::string::npos ||
      rep.find("out-of-memory") != std::string::npos || rep.find("failed to allocate") != std::string::npos ||
      rep.find("requested allocation size") != std::string::npos) { c.resource = true; c.kind = "asan-allocation-refused"; return c; }
  if (rep.find("stack-overflow") != std::string::npos) { c.stack = true; c.kind = "ASan stack-overflow"; c.site = top_frame(rep, &c.loc); return c; }
  size_t u = rep.find("runtime error: ");
  if (u != std::string::npos && (a == std::string::npos || u < a)) {
    std::string m = rep.substr(u + 15, rep.find('\n', u) - u - 15);
    std::string k = "undefined-behaviour";
    if (m.find("outside the range of representable values") != std::string::npos) k = "float-cast-overflow";
    else if (m.find("signed integer overflow") != std::string::npos) k = "signed-integer-overflow";
    else if (m.find("negation of") != std::string::npos) k = "signed-integer-overflow(negation)";
    else if (m.find("shift") != std::string::npos) k = "shift";
    else if (m.find("null pointer") != std::string::npos) k = "null-pointer";
    else if (m.find("misaligned") != std::string::npos) k = "misaligned";
    else if (m.find("out of bounds") != std::string::npos) k = "index-out-of-bounds";
    else if (m.find("not a valid value for type") != std::string::npos) k = "invalid-enum-or-bool-load";
    else if (m.find("division by zero") != std::string::npos) k = "division-by-zero";
    else if (m.find("pointer") != std::string::npos) k = "pointer-overflow";
    c.kind = "UBSan " + k; c.summary = m; c.site = top_frame(rep.substr(u), &c.loc);
    { size_t ls = rep.rfind('\n', u); ls = ls == std::string::npos ? 0 : ls + 1;
      if (rep.compare(ls, g_repo.size() + 1, g_repo + "/") != 0) c.site = "HARNESS " + rep.substr(ls, u - ls); }
    if (c.site == "?") {   // no stack: take file:line from the report line
      size_t ls = rep.rfind('\n', u); std::string pre = rep.substr(ls == std::string::npos ? 0 : ls + 1, u - (ls == std::string::npos ? 0 : ls + 1));
      c.loc = pre;
    }
    return c;
  }
  if (a != std::string::npos) {
    size_t k = rep.find("AddressSanitizer: ", a);
    std::string kind = "error";
    if (k != std::string::npos) { size_t e = rep.find_first_of(" \n", k + 18); kind = rep.substr(k + 18, e - k - 18); }
    bool via = false;
    c.kind = "ASan " + kind; c.site = top_frame(rep.substr(a), &c.loc, &via);
    if (via) c.site += " (detected in the handler reading data passed by the reader)";
    size_t e = rep.find('\n', a); c.summary = rep.substr(a, e - a);
    return c;
  }
  if (WIFSIGNALED(status)) c.kind = "signal " + std::to_string(WTERMSIG(status));
  else c.kind = "exit code " + std::to_string(WEXITSTATUS(status));
  c.summary = rep.substr(0, 300);
  return c;
}

// Key of a crash taken from the (unsymbolised) report of a batch child: enough to recognise a root
// cause that was already confirmed and symbolised once.
static std::string crash_key(const Crash &c, const std::string &rep) {
  if (c.timeout) return "";
  if (c.stack) return "stack-overflow";
  size_t u = rep.find("runtime error: ");
  if (c.kind.compare(0, 5, "UBSan") == 0 && u != std::string::npos) {
    size_t ls = rep.rfind('\n', u); ls = ls == std::string::npos ? 0 : ls + 1;
    return c.kind + "@" + rep.substr(ls, u - ls);
  }
  std::string k = c.kind; size_t p = 0; int n = 0;
  while (n < 4 && (p = rep.find("+0x", p)) != std::string::npos) { size_t e = rep.find(')', p); k += "|" + rep.substr(p, e - p); p = e == std::string::npos ? rep.size() : e; ++n; }
  return k;
}

