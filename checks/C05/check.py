"""C05 .sol round trip: real mp::WriteSolFile -> real mp::ReadSOLFile, 1-way over full alphabets and
2-way over reduced alphabets of a 10-dimensional solution space (vx::Explorer, deviation bound 1/2)."""
import json, os, shutil, subprocess, sys
import vbuild, vcheck

PID = 'C05'
WORK = os.path.join(vcheck.VERIF, 'build', 'work', PID)

# the part of libmp that mp::Problem + SolutionAdapter + WriteSolFile need, plus all of nl-writer2
MP_SRCS = ['src/' + f for f in 'format.cc posix.cc os.cc expr.cc expr-info.cc problem.cc sol.cc nl-reader.cc '
           'utils_file.cc utils_string.cc'.split()] + vbuild.NLW2_SRCS


def build():
    return vbuild.build_program('c05_solrt', 'san', ['checks/C05/solrt_harness.cc'], mp_srcs=MP_SRCS)


def main(tier, seed):
    chk = vcheck.Check(PID, tier, 'exploration', seed)
    os.makedirs(WORK, exist_ok=True)
    binary = build()
    args = ['--thorough'] if tier == 'thorough' else []
    res = vcheck.run_shards(binary, 16, args, timeout=3000)
    vcheck.absorb(chk, res)
    spaces = [r['v'] for (_, out, _) in res for r in vcheck.parse_jsonl(out) if r.get('type') == 'space']
    chk.set('bounds', {'spaces': spaces,
                       'nvars': '0..3', 'ncons': '0..2', 'objs': 2,
                       'deviation_bound': {'passA_full_alphabets': 1, 'passB_reduced_alphabets': 2}})
    chk.cov['evaluations'] = chk.cov.get('roundtrips', 0)
    vcheck.finalize_classes(chk)
    chk.set('rule',
            'Solution = point of (nvars, ncons, primal present, dual present, values, solve code, objno, options, '
            'message, suffix set). Pass A: every alternative of every dimension with the others at default '
            '(all <=3-line messages over the 7-symbol alphabet + CR/long-line extension; the finite number lattice '
            'in the roles primal/dual/real suffix value, every non-finite value at every role; 0..9 options and the '
            'vbtol request form; 72 single-suffix configurations kind x int/real x none/sparse/dense x table lines '
            '0/1/3 and suffix sets). Pass B: every pair of alternatives of two different dimensions over reduced '
            'alphabets. Each point: real WriteSolFile(SolutionAdapter<mp::Problem>) -> file -> real ReadSOLFile with a '
            'recording handler -> field-wise comparison with the solution; the file is also compared with an '
            'independent encoder and re-parsed by an independent parser. A class is (deviated dimensions with coarse '
            'alternative class, outcome).')
    chk.assumptions += [
        'mp::WriteSolFile only writes the text format (no binary writer exists in the tree), so only text is round-tripped',
        'message comparison is line by line with CRLF and LF both counting as line ends (a trailing CR of a line is not '
        'content); an empty message line may come back as a single space (reserved terminator); backspaces at the very '
        'start of the message may be delivered as the count nbs instead of as characters; one trailing newline is not content',
        'objno is compared as written: the handler receives objno-1 (documented in sol-handler.h)',
        'suffix values are compared densely (an unwritten item is 0); -0.0 == 0.0; NaN sign and payload are not compared',
        'a non-finite value may make the reader return any documented error code for the whole file',
        'integral reals >= 1e15 and all other finite reals are compared with relative tolerance 1e-15',
    ]
    for k, why in (('files_with_suffixes', 'no file with suffixes was round-tripped'),
                   ('nonfinite_cases', 'no non-finite case was round-tripped'),
                   ('multiline_messages', 'no multi-line message was round-tripped'),
                   ('reader_ok', 'the reader never returned OK'),
                   ('pairwise_points', 'no 2-way point was executed')):
        if not chk.cov.get(k):
            chk.broken.append('vacuity guard: ' + why)
    if chk.cov.get('ref_encoder_bytes_differ_from_real_writer'):
        chk.assumptions.append('the independent encoder differed from the real writer on %d files (informational; '
                               'the verdict only uses the real writer)' % chk.cov['ref_encoder_bytes_differ_from_real_writer'])
    shutil.rmtree(WORK, ignore_errors=True)
    return chk.finish()


def replay(path):
    r = json.load(open(path))['replay']
    binary = build()
    args = [binary, '--one', r['one']] + (['--thorough'] if r.get('thorough') else [])
    env = dict(os.environ, ASAN_OPTIONS='detect_leaks=0', LC_ALL='C')
    p = subprocess.run(args, capture_output=True, text=True, env=env, errors='replace')
    print(p.stdout)
    sys.stderr.write(p.stderr[-3000:])
    return 1 if '"violation"' in p.stdout else 0
