// C05: bounded exhaustive round trip  mp::WriteSolFile  ->  mp::ReadSOLFile.
//
// A solution is a point in a 10-dimensional space (nvars, ncons, primal, dual, values, solve code,
// objno, options, message, suffixes).  vx::Explorer enumerates
//   pass A: every alternative of every dimension with all others at their default (max_deviations=1)
//   pass B: every pair of alternatives of two different dimensions over reduced alphabets (=2).
// Each point is written by the REAL writer (SolutionAdapter over an mp::Problem carrying the
// suffixes), read by the REAL reader into a recording handler and compared field by field.
#include "mp/problem.h"
#include "mp/solver-io.h"
#include "explore.h"
#include "sol_codec.h"
#include "sol_monitor.h"
#include <cfloat>
#include <climits>
#include <algorithm>

using solref::Sol;
static vx::Report R;
static vx::Shard S;
static bool THOROUGH = false;

// ------------------------------------------------------------------------------ case model
struct SufSpec {
  int kind = 0; bool real = false, iodecl = false; std::string name, table;
  int fill = 0;                       // 0 none (all zero), 1 sparse (last item only), 2 dense
  std::vector<double> override_vals;  // if non-empty: dense values to use (value dimension)
};
struct Case {
  int nvars = 3, ncons = 2; bool primal = true, dual = true;
  std::vector<double> pv{1.5, -2.25, 1e-3}, dv{0.5, -4};
  int code = 0, objno = 1; std::vector<long> options{1, 1, 0};
  std::string message = "abc";
  std::vector<SufSpec> sufs;
  std::string desc[10];               // description of the chosen alternative per dimension
};
static const int NOBJS = 2;
static const char* DIMNAME[10] = {"nvars", "ncons", "primal", "dual", "values", "code", "objno", "options", "message", "suffixes"};
// dimensions whose concrete alternative is part of a violation signature (small alphabets); for the
// others (values, message, suffixes) the failure description itself carries the class
static const bool DIM_IN_SIG[10] = {true, true, true, true, false, true, true, true, false, false};

static int entity_count(const Case& c, int kind) { return kind == 0 ? c.nvars : kind == 1 ? c.ncons : kind == 2 ? NOBJS : 1; }

static std::vector<double> suffix_dense_values(const Case& c, const SufSpec& s) {
  int n = entity_count(c, s.kind); std::vector<double> v(n, 0.0);
  static const double IV[] = {1, -1, 2147483647.0, -2147483648.0, 7};
  static const double RV[] = {0.5, -1e-7, 1e20, 3, -123456.789};
  for (int i = 0; i < n; ++i) {
    bool set = s.fill == 2 || (s.fill == 1 && i == n - 1);
    if (set) v[i] = s.real ? RV[i % 5] : IV[i % 5];
  }
  if (!s.override_vals.empty()) for (int i = 0; i < n; ++i) v[i] = i < (int)s.override_vals.size() ? s.override_vals[i] : 0.25;
  return v;
}

// ------------------------------------------------------------------------------ alphabets
static double bits2d(uint64_t b) { double d; std::memcpy(&d, &b, 8); return d; }
static uint64_t d2bits(double d) { uint64_t b; std::memcpy(&b, &d, 8); return b; }

// level 0: 2^12 subset of the "low 40 mantissa bits zero" lattice: every sign x every exponent with one
//          (exponent-dependent) 12-bit mantissa pattern;
// level 1: additionally ALL doubles whose low 48 mantissa bits are zero (2^16);
// level 2: ALL doubles whose low 44 mantissa bits are zero (2^20).   (non-finite exponents go to NONFINITE)
static std::vector<double> finite_lattice(int level) {
  std::vector<double> v;
  for (int sgn = 0; sgn < 2; ++sgn)
    for (int e = 0; e < 2047; ++e) {
      auto add = [&](int m12) { v.push_back(bits2d(((uint64_t)sgn << 63) | ((uint64_t)e << 52) | ((uint64_t)m12 << 40))); };
      add((e * 37 + 11) & 0xFFF);
      if (level == 1) for (int k = 0; k < 16; ++k) add(k << 8);
      if (level == 2) for (int k = 0; k < 256; ++k) add(k << 4);
    }
  bool thorough = level > 0;
  // (b) decade neighbours
  for (int k = -320; k <= 308; ++k) {
    char b[32]; std::snprintf(b, sizeof b, "1e%d", k); double p = std::strtod(b, nullptr);
    v.push_back(p); v.push_back(std::nextafter(p, INFINITY)); v.push_back(std::nextafter(p, -INFINITY));
    if (thorough) v.push_back(-p);
  }
  // (c) integral values up to 1e15 (must come back exactly) and just above
  for (int k = 0; k <= 15; ++k) { double p = std::pow(10.0, k); v.push_back(p - 1); v.push_back(p + 1); v.push_back(-(p - 1)); }
  for (int k = 1; k <= 53; ++k) { double p = std::ldexp(1.0, k); v.push_back(p); v.push_back(p - 1); v.push_back(p + 1); v.push_back(-p); }
  for (double x : {0.0, -0.0, 1.0, 2.0, 3.0, 123456789012345.0, 999999999999999.0, 1e15, -999999999999999.0,
                   4503599627370497.0, 9007199254740992.0, 9007199254740993.0, 1e16, 12345678901234567.0, 1e22})
    v.push_back(x);
  // (d) 17-significant-digit values and range ends
  for (double x : {0.1 + 0.2, 1.2345678901234567, 0.1, 1.0 / 3, 2.0 / 3, 3.141592653589793, 2.718281828459045,
                   DBL_MAX, -DBL_MAX, std::nextafter(DBL_MAX, 0.0), DBL_MIN, -DBL_MIN, std::nextafter(DBL_MIN, 0.0),
                   4.9406564584124654e-324, -4.9406564584124654e-324, 1.7976931348623155e308, 8.98846567431158e307,
                   5.0000000000000001e-1, 0.30000000000000004, 123456.78901234567, 9.999999999999999e22,
                   1.0000000000000002, 0.9999999999999999, 4.35, 2.675, 1e23, 5e-324})
    v.push_back(x);
  for (int k = 1; k <= 13; ++k) { v.push_back(k / 7.0); v.push_back(0.1 * k); v.push_back(-k / 7.0); }
  return v;
}
static const double NONFINITE[4] = {INFINITY, -INFINITY, NAN, -NAN};

struct ValueAlt { int role; std::vector<double> v; int pos = 0; };   // role 0 default,1 primal,2 dual,3 var-suffix,4 con-suffix
struct Alphabets {
  std::vector<int> nvars, ncons, primal, dual, code, objno;
  std::vector<ValueAlt> values;
  std::vector<std::vector<long>> options;
  std::vector<std::string> messages;
  std::vector<std::vector<SufSpec>> sufs;
};

static std::string join_lines(const std::vector<std::string>& l) { std::string s; for (size_t i = 0; i < l.size(); ++i) { if (i) s += '\n'; s += l[i]; } return s; }

static std::vector<std::string> all_sequences(const std::vector<std::string>& sym, int maxlen) {
  std::vector<std::string> out; std::vector<std::vector<std::string>> cur{{}};
  out.push_back("");
  for (int len = 1; len <= maxlen; ++len) {
    std::vector<std::vector<std::string>> nxt;
    for (auto& c : cur) for (auto& s : sym) { auto d = c; d.push_back(s); nxt.push_back(d); out.push_back(join_lines(d)); }
    cur = nxt;
  }
  return out;
}

static SufSpec mk_suf(int kind, bool real, int fill, int tablines, const std::string& name = "") {
  SufSpec s; s.kind = kind; s.real = real; s.fill = fill;
  static const char* KN[] = {"v", "c", "o", "p"};
  s.name = name.empty() ? std::string(KN[kind]) + (real ? "real" : "int") + std::to_string(fill) + "t" + std::to_string(tablines) : name;
  if (tablines == 1) s.table = "0 none";
  if (tablines == 3) s.table = "1 low lower bound\n2 upp upper bound\n3 equ equal";
  if (tablines == 4) s.table = "1 low lower bound\n2 upp upper bound\n";   // table text ending in a newline
  if (tablines == 5) s.table = "1 low lower bound\n\n3 equ equal";          // empty line inside the table
  return s;
}

static Alphabets full_alphabets() {
  Alphabets a;
  a.nvars = {3, 0, 1, 2}; a.ncons = {2, 0, 1}; a.primal = {1, 0}; a.dual = {1, 0};
  a.code = {0, -1, 99, 100, 200, 502, 999}; a.objno = {1, 0, 2};
  // values: default, then the finite lattice in every role, then every non-finite at every role/position
  a.values.push_back({0, {}});
  std::vector<double> L = finite_lattice(THOROUGH ? 1 : 0), L2 = THOROUGH ? finite_lattice(2) : L;
  auto chunks = [&](const std::vector<double>& L, int role, size_t w) { for (size_t i = 0; i < L.size(); i += w) { ValueAlt x; x.role = role; for (size_t k = i; k < i + w && k < L.size(); ++k) x.v.push_back(L[k]); a.values.push_back(x); } };
  chunks(L2, 1, 3); chunks(L, 2, 2); chunks(L, 3, 3); if (THOROUGH) chunks(L, 4, 2);
  for (double nf : NONFINITE) for (int role = 1; role <= 4; ++role) for (int pos : {0, 1}) { ValueAlt x; x.role = role; x.v = {nf}; x.pos = pos; a.values.push_back(x); }
  // options: 3 (default), then 0..9 options, the vbtol request form (second option == 3), big values
  a.options.push_back({1, 1, 0});
  for (int n = 0; n <= 9; ++n) { std::vector<long> o; for (int i = 0; i < n; ++i) o.push_back(i == 0 ? 1 : i == 1 ? 1 : i % 3); if (n != 3) a.options.push_back(o); }
  a.options.push_back({0, 0, 0}); a.options.push_back({1, 3, 0}); a.options.push_back({1, 3, 0, 0, 1});
  a.options.push_back({2147483647, -1, 5}); a.options.push_back({3, 1, 1, 0, 0, 0, 0, 0, 9}); a.options.push_back({1, 1, 3});
  // messages: default first, then all sequences of <= 3 lines over the 7-symbol alphabet, then the
  // extension alphabet (a bare CR line = blank line of a CRLF message; long lines around the reader's
  // 512-byte line buffer)
  std::vector<std::string> S7 = {"", "abc", " ", "\b\bxy", "a b\r", "Options", "objno 0 0"};
  a.messages.push_back("abc");
  for (auto& m : all_sequences(S7, 3)) if (m != "abc") a.messages.push_back(m);
  return a;
}
static size_t N_MSG_S7 = 0;
static void add_message_extensions(Alphabets& a) {
  N_MSG_S7 = a.messages.size();
  std::vector<std::string> S8 = {"", "abc", " ", "\b\bxy", "a b\r", "Options", "objno 0 0", "\r"};
  for (auto& m : all_sequences(S8, 3)) if (m.find("\r\n") == 0 || m.find("\n\r\n") != std::string::npos || m == "\r" ||
                                            (m.size() >= 2 && m.compare(m.size() - 2, 2, "\n\r") == 0)) a.messages.push_back(m);
  for (int len : {510, 511, 512, 513, 514, 1022, 1023}) {
    std::string l(len, 'x'); a.messages.push_back(l); a.messages.push_back(l + "\nabc"); a.messages.push_back("abc\n" + l + "\nxyz");
  }
}
static void add_suffix_alphabet(Alphabets& a) {
  a.sufs.push_back({});
  for (int kind = 0; kind < 4; ++kind) for (int real = 0; real < 2; ++real) for (int fill = 0; fill < 3; ++fill) for (int tl : {0, 1, 3, 4, 5})
    a.sufs.push_back({mk_suf(kind, real, fill, tl)});
  // sets of suffixes
  a.sufs.push_back({mk_suf(0, false, 2, 0, "a"), mk_suf(0, true, 1, 1, "b")});
  a.sufs.push_back({mk_suf(0, false, 1, 0, "dup"), mk_suf(1, true, 2, 3, "dup"), mk_suf(2, false, 2, 0, "dup"), mk_suf(3, true, 2, 0, "dup")});
  { std::vector<SufSpec> all; for (int kind = 0; kind < 4; ++kind) for (int real = 0; real < 2; ++real) all.push_back(mk_suf(kind, real, 2, real ? 3 : 0)); a.sufs.push_back(all); }
  { SufSpec s = mk_suf(0, false, 2, 0, "iodecl_int"); s.iodecl = true; SufSpec t = mk_suf(1, true, 2, 1, "iodecl_real"); t.iodecl = true; a.sufs.push_back({s, t}); }
  a.sufs.push_back({mk_suf(0, false, 2, 0, "x")});
  a.sufs.push_back({mk_suf(1, true, 2, 0, std::string(40, 'n'))});
  a.sufs.push_back({mk_suf(0, false, 2, 0, "zz"), mk_suf(0, false, 2, 0, "a.b_c"), mk_suf(0, true, 0, 3, "m")});
}

static Alphabets reduced_alphabets() {
  Alphabets a;
  a.nvars = {3, 0, 1}; a.ncons = {2, 0, 1}; a.primal = {1, 0}; a.dual = {1, 0};
  a.code = {0, -1, 502}; a.objno = {1, 0, 2};
  if (THOROUGH) { a.nvars = {3, 0, 1, 2}; a.code = {0, -1, 99, 100, 200, 502, 999}; }
  a.values.push_back({0, {}});
  std::vector<double> red = {0.1, -0.0, 123456789012345.0, 1.2345678901234567e300, 4.9406564584124654e-324, 1e-320, 0.30000000000000004, 1e15};
  if (THOROUGH) for (double x : {1.0 / 3, 999999999999999.0, 2.2250738585072014e-308, -7.0, 1e22, 8.98846567431158e307, 1e-7, 65536.0,
                                 -1.2345678901234567, 4503599627370497.0, 2.2250738585072009e-308, 1e300}) red.push_back(x);
  for (int role = 1; role <= 4; ++role) for (size_t i = 0; i < red.size(); i += 2) { ValueAlt x; x.role = role; x.v = {red[i]}; if (i + 1 < red.size()) x.v.push_back(red[i + 1]); a.values.push_back(x); }
  for (double nf : NONFINITE) for (int role = 1; role <= 4; ++role) { ValueAlt x; x.role = role; x.v = {nf}; x.pos = role == 1 ? 1 : 0; a.values.push_back(x); }
  a.options = {{1, 1, 0}, {}, {1}, {1, 1}, {1, 1, 0, 0, 0, 0, 0, 0, 1}, {1, 3, 0}};
  if (THOROUGH) for (int n = 4; n <= 8; ++n) a.options.push_back(std::vector<long>(n, 1));
  if (THOROUGH) a.options.push_back({1, 3, 0, 0, 1});
  if (!THOROUGH) a.messages = {"abc", "", "\nabc", "\b\bxy", "abc\n\b\bxy", "a b\r\nOptions", "objno 0 0\n \nabc", "abc\n\nxyz"};
  else {
    // every sequence of <= 2 lines over the 7-symbol alphabet, and a few 3-line ones
    std::vector<std::string> S7 = {"", "abc", " ", "\b\bxy", "a b\r", "Options", "objno 0 0"};
    a.messages.push_back("abc");
    for (auto& m : all_sequences(S7, 2)) if (m != "abc") a.messages.push_back(m);
    for (const char* m : {"objno 0 0\n \nabc", "abc\n\nxyz", "\b\bxy\n\n\b\bxy", "Options\nOptions\nOptions", "a b\r\na b\r\na b\r"}) a.messages.push_back(m);
  }
  a.sufs.push_back({});
  a.sufs.push_back({mk_suf(0, false, 1, 0)});
  a.sufs.push_back({mk_suf(1, true, 2, 1)});
  a.sufs.push_back({mk_suf(2, false, 2, 3)});
  a.sufs.push_back({mk_suf(3, true, 2, 0)});
  a.sufs.push_back({mk_suf(0, true, 0, 0)});
  a.sufs.push_back({mk_suf(1, true, 2, 4), mk_suf(0, false, 1, 0, "after_nl_table")});
  a.sufs.push_back({mk_suf(2, false, 1, 5), mk_suf(1, true, 1, 0, "after_gap_table")});
  { std::vector<SufSpec> all; for (int kind = 0; kind < 4; ++kind) for (int real = 0; real < 2; ++real) all.push_back(mk_suf(kind, real, 2, real ? 3 : 0)); a.sufs.push_back(all); }
  if (THOROUGH) for (int kind = 0; kind < 4; ++kind) for (int real = 0; real < 2; ++real) for (int fill = 0; fill < 3; ++fill)
    a.sufs.push_back({mk_suf(kind, real, fill, (kind + fill) % 2 ? 3 : 1, "t")});
  return a;
}

static std::string num_repr(double v) { char b[40]; std::snprintf(b, sizeof b, "%.17g", v); return b; }

static Case make_case(const Alphabets& a, const int c[10]) {
  Case k;
  k.nvars = a.nvars[c[0]]; k.ncons = a.ncons[c[1]]; k.primal = a.primal[c[2]]; k.dual = a.dual[c[3]];
  k.code = a.code[c[5]]; k.objno = a.objno[c[6]]; k.options = a.options[c[7]]; k.message = a.messages[c[8]]; k.sufs = a.sufs[c[9]];
  k.desc[0] = std::to_string(k.nvars); k.desc[1] = std::to_string(k.ncons); k.desc[2] = k.primal ? "present" : "absent"; k.desc[3] = k.dual ? "present" : "absent";
  k.desc[5] = std::to_string(k.code); k.desc[6] = std::to_string(k.objno);
  { std::string o = "n" + std::to_string(k.options.size()); if (k.options.size() >= 2 && k.options[1] == 3) o += "-vbtolform";
    o += "["; for (size_t i = 0; i < k.options.size(); ++i) { if (i) o += ","; o += std::to_string(k.options[i]); } o += "]"; k.desc[7] = o; }
  k.desc[8] = "\"" + vx::jesc(k.message.size() > 60 ? k.message.substr(0, 20) + "...(" + std::to_string(k.message.size()) + " bytes)" : k.message) + "\"";
  { std::string o; for (auto& s : k.sufs) { o += s.name + ":k" + std::to_string(s.kind) + (s.real ? "r" : "i") + "f" + std::to_string(s.fill) + "t" + std::to_string(solref::count_table_lines(s.table)) + " "; } k.desc[9] = o.empty() ? "none" : o; }
  // sizes
  static const double DP[] = {1.5, -2.25, 1e-3}, DD[] = {0.5, -4};
  k.pv.assign(DP, DP + k.nvars); k.dv.assign(DD, DD + k.ncons);
  const ValueAlt& va = a.values[c[4]];
  static const char* ROLE[] = {"default", "primal", "dual", "varsuffix", "consuffix"};
  { std::string o = ROLE[va.role]; o += "@" + std::to_string(va.pos) + "{"; for (size_t i = 0; i < va.v.size(); ++i) { if (i) o += ","; o += num_repr(va.v[i]); } o += "}"; k.desc[4] = o; }
  auto place = [&](std::vector<double>& dst) { for (size_t i = 0; i < va.v.size(); ++i) { size_t p = va.pos + i; if (va.v.size() == 1 && va.pos == 1) p = dst.empty() ? 0 : dst.size() - 1; if (p < dst.size()) dst[p] = va.v[i]; } };
  if (va.role == 1) place(k.pv);
  if (va.role == 2) place(k.dv);
  if (va.role == 3 || va.role == 4) {
    // the value alternative brings its own dense real suffix
    SufSpec s = mk_suf(va.role == 3 ? 0 : 1, true, 2, 0, "valcarrier");
    std::vector<double> d(entity_count(k, s.kind), 0.25); place(d); s.override_vals = d;
    if (!d.empty()) k.sufs.push_back(s);
  }
  return k;
}

// ------------------------------------------------------------------------------ write with the real writer
static solmon::MemFile* MF;

static std::string write_real(const Case& c, std::string& err) {
  try {
    mp::Problem p; mp::NLProblemInfo info; info.num_vars = c.nvars; info.num_algebraic_cons = c.ncons; info.num_objs = NOBJS;
    p.SetInfo(info);
    for (int i = 0; i < c.nvars; ++i) p.AddVar(0, 1);
    for (int i = 0; i < c.ncons; ++i) p.AddCon(0, 1);
    for (int i = 0; i < NOBJS; ++i) p.AddObj(mp::obj::MIN);
    for (auto& s : c.sufs) {
      std::vector<double> dv = suffix_dense_values(c, s);
      int kind = s.kind | (s.iodecl ? mp::suf::IODECL : 0);
      if (s.real) {
        mp::SuffixDef<double> def(s.name, kind, s.table);
        if (dv.empty()) p.FindOrCreateSuffix(def); else p.ReportSuffix(def, mp::ArrayRef<double>(dv));
      } else {
        std::vector<int> iv(dv.size()); for (size_t i = 0; i < dv.size(); ++i) iv[i] = (int)dv[i];
        mp::SuffixDef<int> def(s.name, kind, s.table);
        if (iv.empty()) p.FindOrCreateSuffix(def); else p.ReportSuffix(def, mp::ArrayRef<int>(iv));
      }
    }
    mp::SolutionAdapter<mp::Problem> sol(c.code, &p, c.message.c_str(),
        mp::MakeArrayRef(c.options.data(), c.options.size()),
        mp::MakeArrayRef(c.pv.data(), c.primal ? c.pv.size() : 0),
        mp::MakeArrayRef(c.dv.data(), c.dual ? c.dv.size() : 0), c.objno);
    mp::WriteSolFile(MF->path, sol);
  } catch (const std::exception& e) { err = std::string("writer threw: ") + e.what(); return ""; }
  return MF->get();
}

// the same solution for the reference encoder (expected file content)
static Sol to_ref(const Case& c) {
  Sol s; s.message = c.message; s.options = c.options; s.ncons = c.ncons; s.nvars = c.nvars;
  if (c.dual) s.dual = c.dv; if (c.primal) s.primal = c.pv;
  s.objno = c.objno - 1; s.solve_code = c.code;
  // writer order: kinds var, con, obj, problem; within a kind by (name length, name)
  std::vector<const SufSpec*> o; for (auto& x : c.sufs) o.push_back(&x);
  std::stable_sort(o.begin(), o.end(), [](const SufSpec* a, const SufSpec* b) {
    if (a->kind != b->kind) return a->kind < b->kind; if (a->name.size() != b->name.size()) return a->name.size() < b->name.size(); return a->name < b->name; });
  for (auto* x : o) {
    solref::Suffix f; f.kind = x->kind | (x->real ? 4 : 0) | (x->iodecl ? 8 : 0); f.name = x->name; f.table = x->table;
    std::vector<double> d = suffix_dense_values(c, *x);
    for (size_t i = 0; i < d.size(); ++i) { double v = x->real ? d[i] : (double)(int)d[i]; if (v != 0 || std::isnan(v)) f.values.push_back({(int)i, v}); }
    s.suffixes.push_back(f);
  }
  return s;
}

// ------------------------------------------------------------------------------ comparator
static const char* num_class(double v) {
  if (std::isnan(v)) return "nan"; if (std::isinf(v)) return "inf"; if (v == 0) return std::signbit(v) ? "negzero" : "zero";
  double a = std::fabs(v);
  if (a < DBL_MIN) return "subnormal";
  if (a > 1.797693134862315e308) return "within-1e-15-of-DBL_MAX";
  if (a == std::floor(a)) return a < 1e15 ? "integral<1e15" : "integral>=1e15";
  return "normal";
}
// returns nullptr if acceptable, else the kind of mismatch
static const char* cmp_num(double exp, double got) {
  if (std::isnan(exp)) return std::isnan(got) ? nullptr : "nan->different-number";
  if (std::isinf(exp)) return (std::isinf(got) && (exp > 0) == (got > 0)) ? nullptr : "inf->different-number";
  if (std::isnan(got)) return "finite->nan";
  if (std::isinf(got)) return "finite->inf";
  if (exp == got) return nullptr;
  if (exp == std::floor(exp) && std::fabs(exp) < 1e15) return "integral-below-1e15-not-exact";
  return std::fabs(got - exp) <= 1e-15 * std::fabs(exp) ? nullptr : "relative-error>1e-15";
}

struct Eval {
  std::vector<std::string> cores;     // failure descriptions (class level), empty = held
  std::string file, outcome, lib_msg, detail;
  bool lib_ok = false, has_nonfinite = false;
};

static std::string norm_msg(std::string m) {
  size_t nl = m.find('\n'); std::string first = nl == std::string::npos ? m : m.substr(0, nl);
  // drop the scratch file name and errno, collapse digit runs inside "Bad line" payloads
  size_t p;
  while ((p = first.find("/proc/self/fd/")) != std::string::npos) { size_t q = p + 14; while (q < first.size() && isdigit((unsigned char)first[q])) ++q; first.replace(p, q - p, "<file>"); }
  if ((p = first.find(" (errno=")) != std::string::npos) { size_t q = first.find(')', p); first.erase(p, q == std::string::npos ? std::string::npos : q - p + 1); }
  if (first.compare(0, 8, "Bad line") == 0 && (p = first.find("': ")) != std::string::npos) {
    // payload: every whitespace-separated token that is a number becomes N
    std::string head = first.substr(0, p + 3), pay = first.substr(p + 3), o; size_t i = 0;
    while (i < pay.size()) {
      if (pay[i] == ' ') { o += ' '; ++i; continue; }
      size_t j = i; while (j < pay.size() && pay[j] != ' ') ++j;
      std::string t = pay.substr(i, j - i); char* e2; std::strtod(t.c_str(), &e2);
      o += (!t.empty() && *e2 == 0) ? "N" : t; i = j;
    }
    first = head + o;
  }
  if (first.size() > 90) first = first.substr(0, 90) + "...";
  return first;
}

static std::vector<std::string> msg_lines(std::string m) {
  std::vector<std::string> l = solref::split_lines(m); if (!l.empty() && l.back().empty()) l.pop_back(); return l;
}
static std::string line_class(const std::string& l) {
  if (l.size() > 40) return "line of " + std::to_string(l.size()) + " chars";
  return "\"" + vx::jesc(l) + "\"";
}

// features of a message that explain a whole-file rejection (used to keep signatures at class level)
static std::string message_feature(const std::string& m) {
  for (auto& l : msg_lines(m)) {
    if (l == "\r") return "a bare-CR line";
    if (l.size() >= 511 && l.size() % 511 == 0) return "a line of k*511 chars";
  }
  return "";
}

static Eval evaluate(const Case& c) {
  Eval e; std::string werr;
  e.file = write_real(c, werr);
  if (!werr.empty()) { e.cores.push_back(werr); return e; }
  Sol ref = to_ref(c);
  for (double v : ref.dual) if (!std::isfinite(v)) e.has_nonfinite = true;
  for (double v : ref.primal) if (!std::isfinite(v)) e.has_nonfinite = true;
  for (auto& f : ref.suffixes) for (auto& v : f.values) if (!std::isfinite(v.second)) e.has_nonfinite = true;
  { std::string rb = solref::encode_text(ref); bool same = rb == e.file;
    R.stat(same ? "ref_encoder_bytes_equal_real_writer" : "ref_encoder_bytes_differ_from_real_writer");
    if (!same && std::getenv("C05_DEBUG")) std::fprintf(stderr, "REFDIFF real=[%s]\n         ref=[%s]\n", vx::jesc(e.file).c_str(), vx::jesc(rb).c_str()); }

  solmon::Monitor mon(c.nvars, c.ncons, NOBJS);
  solmon::Outcome o = solmon::read_sol(MF->path, mon);
  e.lib_msg = o.msg;
  if (!o.exc.empty()) { e.outcome = "exception"; e.cores.push_back("reader threw " + o.exc); return e; }
  e.outcome = solmon::code_name(o.code);
  if (o.code != NLW2_SOLRead_OK) {
    if (e.has_nonfinite && o.code >= 1 && o.code <= 7) { e.outcome += "(nonfinite rejected)"; return e; }
    std::string mf = message_feature(c.message);
    if (!mf.empty()) e.cores.push_back("message with " + mf + ": reader rejects the file (" + solmon::code_name(o.code) + ")");
    else e.cores.push_back(std::string("result ") + solmon::code_name(o.code) + " \"" + norm_msg(o.msg) + "\"");
    return e;
  }
  e.lib_ok = true;
  const solref::Parsed& g = mon.rec;
  // message, line by line (assumptions: CRLF == LF as line end; leading backspaces may be delivered as the count nbs)
  {
    std::vector<std::string> raw = msg_lines(c.message), ex = raw, got = msg_lines(g.has_message ? g.message : "");
    size_t nb = 0; if (!ex.empty()) { while (nb < ex[0].size() && ex[0][nb] == '\b') ++nb; }
    bool bs_ok = true;
    if (nb) { if ((int)nb == g.nbs) ex[0] = ex[0].substr(nb); else if (g.nbs != 0) bs_ok = false; }
    for (auto& l : ex) if (!l.empty() && l.back() == '\r') l.pop_back();
    if (!bs_ok) e.cores.push_back("message: leading backspace count delivered " + std::to_string(g.nbs) + " expected " + std::to_string(nb));
    // a bare-CR line at the very end is an empty last line of a CRLF text: it may be dropped like a trailing newline
    while (ex.size() > got.size() && !raw.empty() && raw.back() == "\r") { ex.pop_back(); raw.pop_back(); }
    auto same_line = [&](size_t i) { return ex[i] == got[i] || ((raw[i].empty() || raw[i] == "\r") && got[i] == " "); };
    size_t n = std::min(ex.size(), got.size()), i = 0;
    while (i < n && same_line(i)) ++i;
    if (i < n)
      e.cores.push_back("message: line " + line_class(raw[i]) + " delivered as " + line_class(got[i]) + (i ? " (not first line)" : " (first line)") +
                        (g.nbs ? " nbs=" + std::to_string(g.nbs) : ""));
    if (got.size() < ex.size()) {
      std::string mf = message_feature(c.message);
      if (!mf.empty()) e.cores.push_back("message with " + mf + ": the message ends early at the reader");
      else e.cores.push_back("message: lines lost from line " + line_class(raw[got.size()]) + (got.size() ? " (not first line)" : " (first line)") + " on");
    } else if (got.size() > ex.size()) e.cores.push_back("message: extra lines delivered");
  }
  // options + counts
  {
    std::vector<long> ex; ex.push_back((long)c.options.size()); for (long v : c.options) ex.push_back(v);
    ex.push_back(c.ncons); ex.push_back((long)ref.dual.size()); ex.push_back(c.nvars); ex.push_back((long)ref.primal.size());
    if (!g.has_options) e.cores.push_back("options: not delivered");
    else if (g.options_raw != ex || g.has_vbtol) e.cores.push_back(std::string("options: delivered differently") + (g.has_vbtol ? " (as vbtol form)" : ""));
  }
  auto cmp_vec = [&](const char* what, bool present, const std::vector<double>& ex, bool gpresent, const std::vector<double>& got) {
    if (!present || ex.empty()) { if (gpresent && !got.empty()) e.cores.push_back(std::string(what) + ": absent vector delivered with values"); return; }
    if (got.size() != ex.size()) { e.cores.push_back(std::string(what) + ": length differs"); return; }
    for (size_t i = 0; i < ex.size(); ++i) if (const char* k = cmp_num(ex[i], got[i])) {
      e.cores.push_back(std::string(what) + " value " + num_class(ex[i]) + " " + k);
      e.detail += std::string(what) + "[" + std::to_string(i) + "] expected " + num_repr(ex[i]) + " got " + num_repr(got[i]) + "; ";
    }
  };
  cmp_vec("dual", c.dual, ref.dual, g.has_dual, g.dual);
  cmp_vec("primal", c.primal, ref.primal, g.has_primal, g.primal);
  if (!g.has_objno || g.objno != c.objno - 1) e.cores.push_back("objno: delivered " + (g.has_objno ? std::to_string(g.objno) : std::string("nothing")) + " expected objno-1");
  if (!g.has_code || g.solve_code != c.code) e.cores.push_back("solve code: delivered differently");
  // suffixes: same set of (kind, name); kind bits, table, values equal
  {
    if (g.suffixes.size() != ref.suffixes.size()) e.cores.push_back("suffixes: count delivered " + std::to_string(g.suffixes.size()) + " expected " + std::to_string(ref.suffixes.size()));
    for (auto& x : ref.suffixes) {
      const solref::Suffix* m = nullptr; for (auto& y : g.suffixes) if ((y.kind & 3) == (x.kind & 3) && y.name == x.name) m = &y;
      std::string tag = std::string("suffix kind") + std::to_string(x.kind & 3) + (x.is_real() ? " real" : " int");
      if (!m) { e.cores.push_back(tag + ": not delivered (name/kind changed)"); continue; }
      if (m->kind != x.kind) e.cores.push_back(tag + ": kind flags differ");
      if (m->table != x.table) e.cores.push_back(tag + ": table differs (" + std::to_string(solref::count_table_lines(x.table)) + " lines)");
      int n = entity_count(c, x.kind & 3); std::vector<double> de(n, 0.0), dg(n, 0.0); bool bad_idx = false;
      for (auto& v : x.values) de[v.first] = v.second;
      for (auto& v : m->values) { if (v.first < 0 || v.first >= n) bad_idx = true; else dg[v.first] = v.second; }
      if (bad_idx) e.cores.push_back(tag + ": index out of range delivered");
      for (int i = 0; i < n; ++i) if (const char* k = x.is_real() ? cmp_num(de[i], dg[i]) : (de[i] == dg[i] ? nullptr : "int-value-differs")) {
        e.cores.push_back(tag + " value " + num_class(de[i]) + " " + k);
        e.detail += tag + "[" + std::to_string(i) + "] expected " + num_repr(de[i]) + " got " + num_repr(dg[i]) + "; ";
      }
    }
  }
  // second opinion: the reference parser must agree with the library on files both accept
  {
    solref::Parsed rp = solref::parse_text(e.file, c.nvars, c.ncons);
    if (rp.ok) {
      R.stat("ref_parser_accepts");
      auto strip_bs = [](std::string s) { s.erase(std::remove(s.begin(), s.end(), '\b'), s.end()); while (!s.empty() && s.back() == '\n') s.pop_back(); return s; };
      auto bits = [](const std::vector<double>& a, const std::vector<double>& b) { if (a.size() != b.size()) return false; for (size_t i = 0; i < a.size(); ++i) if (d2bits(a[i]) != d2bits(b[i]) && !(std::isnan(a[i]) && std::isnan(b[i]))) return false; return true; };
      bool same = strip_bs(rp.message) == strip_bs(g.has_message ? g.message : "") && rp.options_raw == g.options_raw && rp.has_vbtol == g.has_vbtol &&
                  bits(rp.dual, g.dual) && bits(rp.primal, g.primal) && rp.objno == g.objno && rp.solve_code == g.solve_code && rp.suffixes.size() == g.suffixes.size();
      if (same) for (size_t i = 0; i < rp.suffixes.size(); ++i) {
        const solref::Suffix &a = rp.suffixes[i], &b = g.suffixes[i];
        if (a.kind != b.kind || a.name != b.name || a.table != b.table || a.values.size() != b.values.size()) { same = false; break; }
        for (size_t k = 0; k < a.values.size(); ++k) if (a.values[k].first != b.values[k].first || (d2bits(a.values[k].second) != d2bits(b.values[k].second) && !(std::isnan(a.values[k].second) && std::isnan(b.values[k].second)))) same = false;
      }
      if (same) R.stat("ref_parser_agrees_with_library");
      else if (e.cores.empty()) R.broken("reference parser disagrees with the library reader on a file whose round trip held: " + vx::jesc(e.file).substr(0, 300));
      else R.stat("ref_parser_disagrees_on_failing_case");
    } else R.stat("ref_parser_rejects");
  }
  return e;
}

// ------------------------------------------------------------------------------ driver
static std::string case_json(const Case& c, const Eval& e) {
  std::string j = "{";
  for (int d = 0; d < 10; ++d) j += std::string("\"") + DIMNAME[d] + "\":\"" + vx::jesc(c.desc[d]) + "\",";
  std::string f = e.file.size() > 1500 ? e.file.substr(0, 1500) + "...(truncated, " + std::to_string(e.file.size()) + " bytes)" : e.file;
  j += "\"sol_file\":\"" + vx::jesc(f) + "\",\"reader_outcome\":\"" + vx::jesc(e.outcome) + "\",\"reader_message\":\"" + vx::jesc(e.lib_msg.substr(0, 300)) +
       "\",\"mismatch\":\"" + vx::jesc(e.detail.substr(0, 400)) + "\"}";
  return j;
}

struct Pass { const char* name; Alphabets a; int maxdev; };

static void account(const Case& c, const Eval& e, const int ch[10], int ndev) {
  R.stat("roundtrips");
  if (!c.sufs.empty()) R.stat("files_with_suffixes");
  if (e.has_nonfinite) R.stat("nonfinite_cases");
  if (msg_lines(c.message).size() > 1) R.stat("multiline_messages");
  if (e.lib_ok) R.stat("reader_ok"); else R.stat("reader_error_code");
  // observation classes: (dimension deviated, coarse alternative class, outcome)
  std::string cls;
  for (int d = 0; d < 10; ++d) if (ch[d]) {
    std::string alt;
    switch (d) {
      case 4: { const char* r = c.desc[4].c_str(); alt = std::string(r, std::strcspn(r, "@")); } break;
      case 8: alt = std::to_string(msg_lines(c.message).size()) + "lines" + (c.message.find('\b') != std::string::npos ? "+bs" : "") + (c.message.find('\r') != std::string::npos ? "+cr" : ""); break;
      case 9: alt = std::to_string(c.sufs.size()) + "suf"; break;
      default: alt = c.desc[d].substr(0, c.desc[d].find('['));
    }
    cls += std::string(DIMNAME[d]) + "=" + alt + " ";
  }
  if (cls.empty()) cls = "default ";
  R.cls(cls + "-> " + (e.cores.empty() ? e.outcome : "MISMATCH"));
  if (ndev <= 1) {
    for (double v : c.pv) R.cls(std::string("value class ") + num_class(v));
  }
}

int main(int argc, char** argv) {
  S.parse(argc, argv);
  THOROUGH = vx::has_flag(argc, argv, "--thorough");
  solmon::MemFile mf; MF = &mf;
  if (!mf.ok()) { R.broken("memfd_create failed"); R.done(); return 0; }

  // oracle self-test: deliberately wrong values must be rejected, right ones accepted
  {
    bool ok = cmp_num(1.0, 1.0000000000000002) != nullptr        // integral must be exact
           && cmp_num(0.1, 0.1000000000000002) != nullptr        // 2e-15 relative
           && cmp_num(0.1, 0.10000000000000002) == nullptr       // 1 ulp ~ 1.4e-16 relative
           && cmp_num(DBL_MAX, INFINITY) != nullptr && cmp_num(INFINITY, DBL_MAX) != nullptr
           && cmp_num(NAN, NAN) == nullptr && cmp_num(NAN, 0.0) != nullptr && cmp_num(-0.0, 0.0) == nullptr
           && cmp_num(3.0, 3.0) == nullptr && cmp_num(1e15 + 2, 1e15 + 2.125) == nullptr;
    // a corrupted file must be noticed by the comparator
    Case c; Eval e = evaluate(c);
    if (!e.cores.empty()) {} // reported through the normal path below (default case is execution 0)
    Case c2; c2.pv[1] = -2.2500000000001; Sol r2 = to_ref(c2);
    solmon::Monitor mon(3, 2, NOBJS); MF->put(solref::encode_text(to_ref(c))); solmon::read_sol(MF->path, mon);
    ok = ok && mon.rec.primal.size() == 3 && cmp_num(r2.primal[1], mon.rec.primal[1]) != nullptr && cmp_num(-2.25, mon.rec.primal[1]) == nullptr;
    if (!ok) R.broken("oracle self-test failed");
    R.stats.clear(); R.classes.clear();
  }

  std::vector<Pass> passes;
  { Pass p; p.name = "A"; p.a = full_alphabets(); add_message_extensions(p.a); add_suffix_alphabet(p.a); p.maxdev = 1; passes.push_back(p); }
  { Pass p; p.name = "B"; p.a = reduced_alphabets(); p.maxdev = 2; passes.push_back(p); }

  const char* one = vx::arg_value(argc, argv, "--one");
  if (one) {   // --one <pass>:<c0,c1,...,c9>
    std::string s(one); Pass& p = passes[s[0] == 'B' ? 1 : 0]; int ch[10] = {0}; const char* q = s.c_str() + 2;
    for (int d = 0; d < 10; ++d) { ch[d] = std::atoi(q); q = std::strchr(q, ','); if (!q) break; ++q; }
    Case c = make_case(p.a, ch); Eval e = evaluate(c);
    std::printf("%s\n", case_json(c, e).c_str());
    for (auto& k : e.cores) R.violation("C05 roundtrip " + k, case_json(c, e), "null");
    R.done(); return 0;
  }

  for (auto& p : passes) {
    vx::Explorer ex; ex.max_deviations = p.maxdev;
    const Alphabets& a = p.a;
    size_t sizes[10] = {a.nvars.size(), a.ncons.size(), a.primal.size(), a.dual.size(), a.values.size(), a.code.size(), a.objno.size(),
                        a.options.size(), a.messages.size(), a.sufs.size()};
    long long k = -1;
    ex.run_all([&] {
      int ch[10]; int ndev = 0;
      for (int d = 0; d < 10; ++d) { ch[d] = ex.choose((int)sizes[d], DIMNAME[d]); if (ch[d]) ++ndev; }
      ++k;
      if (!S.mine(k)) return;
      if (p.maxdev == 2 && ndev < 2 && k != 0) { /* 1-way points of the reduced alphabets are re-run too: cheap, keeps pass B self-contained */ }
      Case c = make_case(a, ch); Eval e = evaluate(c);
      account(c, e, ch, ndev);
      R.stat(std::string("pass") + p.name + "_executions");
      if (ndev == 2) R.stat("pairwise_points");
      if (k < 3 || (ndev == 2 && k % 997 == 0)) R.sample("{\"pass\":\"" + std::string(p.name) + "\",\"file\":\"" + vx::jesc(e.file.substr(0, 400)) + "\",\"outcome\":\"" + vx::jesc(e.outcome) + "\"}");
      if (e.cores.empty()) return;
      // attribute each failure to the smallest set of deviated dimensions that still shows it
      std::vector<int> dev; for (int d = 0; d < 10; ++d) if (ch[d]) dev.push_back(d);
      auto rejected = [](const Eval& x) { for (auto& k : x.cores) if (k.compare(0, 7, "result ") == 0 || k.find("rejects the file") != std::string::npos || k.find("threw") != std::string::npos) return true; return false; };
      auto has = [](const Eval& x, const std::string& k) { return std::find(x.cores.begin(), x.cores.end(), k) != x.cores.end(); };
      int c0[10] = {0}; Eval e0 = dev.empty() ? e : evaluate(make_case(a, c0));
      std::vector<Eval> single;
      if (dev.size() == 2) for (int keep : dev) { int c1[10] = {0}; c1[keep] = ch[keep]; single.push_back(evaluate(make_case(a, c1))); }
      for (auto& core : e.cores) {
        std::vector<int> culprit = dev;
        if (has(e0, core)) culprit.clear();
        else if (dev.size() == 2) {
          if (has(single[0], core)) culprit = {dev[0]};
          else if (has(single[1], core)) culprit = {dev[1]};
          else if (rejected(single[0]) || rejected(single[1])) { R.stat("pair_points_masked_by_a_rejected_single_deviation"); continue; }
        }
        std::string sig = "C05 roundtrip " + core;
        std::string where;
        for (int d : culprit) where += std::string(where.empty() ? "" : " & ") + DIMNAME[d] + (DIM_IN_SIG[d] ? "=" + c.desc[d].substr(0, c.desc[d].find('[')) : "");
        sig += culprit.empty() ? " [default solution]" : " [" + where + "]";
        std::string rp = "{\"one\":\"" + std::string(p.name) + ":";
        for (int d = 0; d < 10; ++d) rp += std::to_string(ch[d]) + (d < 9 ? "," : "");
        rp += std::string("\",\"thorough\":") + (THOROUGH ? "true" : "false") + "}";
        R.violation(sig, case_json(c, e), rp);
      }
    });
    R.stat(std::string("pass") + p.name + "_space", S.i == 0 ? ex.executions : 0);
    if (S.i == 0) {
      std::string b = "{\"pass\":\"" + std::string(p.name) + "\",\"alphabet_sizes\":{";
      for (int d = 0; d < 10; ++d) b += std::string("\"") + DIMNAME[d] + "\":" + std::to_string(sizes[d]) + (d < 9 ? "," : "");
      b += "},\"points\":" + std::to_string(ex.executions) + "}";
      std::printf("{\"type\":\"space\",\"v\":%s}\n", b.c_str());
      if (p.maxdev == 1) std::printf("{\"type\":\"space\",\"v\":{\"messages_7symbol_sequences\":%zu,\"messages_extension\":%zu,\"finite_lattice_values_primal_role\":%zu}}\n",
                                     N_MSG_S7, a.messages.size() - N_MSG_S7, finite_lattice(THOROUGH ? 2 : 0).size());
    }
  }
  R.done();
  return 0;
}
