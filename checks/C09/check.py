"""C09: every driver run ends in a well-formed result or a diagnosed failure.

Bounded-exhaustive, process-level exploration of the scripted full driver (checks/vdriver):
model families x option strings x invocation modes x names files x scripted solver answers x
output-path faults (every truncation point of the .sol via RLIMIT_FSIZE, unwritable .sol paths,
/dev/full).  No randomness.  One process per case, each in its own directory under
build/work/C09/.  See `RULE` below for the enumerated space and the oracle.
"""
import base64, json, os, re, resource, shutil, signal, subprocess, sys, time
from concurrent.futures import ProcessPoolExecutor

sys.path.insert(0, os.path.join(os.path.dirname(os.path.abspath(__file__)), '..', '..', 'lib'))
import vbuild, vcheck, vdriverlib, nlmodel, flatgen, flatcheck
from nlmodel import Model, INF

PID = 'C09'
WORK = os.path.join(vbuild.VERIF, 'build', 'work', PID)
HORIZON = 20          # seconds; a timeout is re-run alone with HORIZON_ALONE before it is called a hang
HORIZON_ALONE = 120
X, Y, B = flatgen.X, flatgen.Y, flatgen.B
N = flatgen.N
V3 = flatgen.V3

# opcodes missing in nlmodel (src/expr-info.cc)
nlmodel.NUM_OPS.update({'floor': 13, 'ceil': 14, 'mod': 4, 'less': 6, 'atan2': 48, 'intdiv': 55,
                        'precision': 56, 'round': 57, 'trunc': 58, 'log10': 42, 'tanh': 37,
                        'powce': 76, 'powcb': 78})

RULE = (
    'process-level runs of the scripted driver (real BackendApp/RunBackendApp path). Families: '
    '(a) one model per operator shape of the flat generator as constraint/objective/logical root; '
    '(b) models infeasible by bounds / fixed-false logic; (c) one model per construct the flattener does '
    'not support; (d) unbounded variables under big-M; (e) malformed .nl: for each base file every line '
    'deleted, every numeric token <- {-1,0,99999,2147483648,x}, truncation after every line and at a byte '
    'stride, empty/missing/binary files; (f) nesting-depth ladder; options from env and argv (each valid '
    'option once, unknown, ill-typed, unterminated quote, objno out of range, sol:chk:fail); invocation '
    'modes; names files x cvt:names; scripted solver answers; output faults: RLIMIT_FSIZE=k for EVERY byte '
    'offset k of the fault-free .sol of 3 representative runs, .sol path a directory / name too long / '
    'dangling / /dev/full. Oracle: terminates (20 s, re-run alone 120 s), no signal death, no sanitizer '
    'report, an existing .sol is accepted completely by the reference parser with n_con/n_var equal to the '
    'NL header and #duals in {0,n_con}, #primals in {0,n_var}; solve-code class matches the cause and the '
    'message names it; no .sol although requested => non-zero exit AND stderr diagnostic; never a '
    'truncated .sol. An observation class is (cause class -> outcome class).')


# ------------------------------------------------------------------------------------------------
# case construction
# ------------------------------------------------------------------------------------------------
def mkcase(cid, cls, kind, nl=None, **kw):
    """cid: unique id; cls: cause class (for observation classes); kind: expectation kind."""
    c = {'id': cid, 'cls': cls, 'kind': kind, 'nl': nl, 'pre': [], 'post': ['-AMPL'], 'stubmode': 'normal',
         'env_opts': None, 'script': None, 'col': None, 'row': None, 'fault': None, 'expect': {},
         'variant': 'plain'}
    c.update(kw)
    return c


def b(s):
    return s if isinstance(s, bytes) else s.encode('latin-1')


PLACE = 'n12345.678'


def raw_model(m, raw, nfunc=0, funcs=()):
    """NL text of model m where the placeholder number 12345.678 is replaced by hand-written NL lines."""
    t = m.nl().replace(PLACE, raw)
    if nfunc:
        L = t.split('\n')
        L[5] = ' 0 %d 0 1' % nfunc
        L[10:10] = list(funcs)
        t = '\n'.join(L)
    return t


PH = ('n', 12345.678)


def unsupported_models():
    """(name, NL text, regex the message must match)"""
    out = []
    def con(e): return Model(V3, acons=[(e, {}, -INF, 2.0)]).nl()
    out.append(('floor', con(('floor', Y)), r'floor'))
    out.append(('ceil', con(('ceil', Y)), r'ceil'))
    out.append(('atan2', con(('atan2', X, Y)), r'atan2'))
    out.append(('mod', con(('mod', X, N(2))), r'mod'))
    out.append(('intdiv', con(('intdiv', X, N(2))), r'div'))
    out.append(('round', con(('round', Y, N(0))), r'round'))
    out.append(('trunc', con(('trunc', Y, N(0))), r'trunc'))
    out.append(('precision', con(('precision', Y, N(3))), r'precision'))
    out.append(('less', con(('less', X, Y)), r'less'))
    out.append(('pow-var-var', con(('pow', Y, X)), r'\^|pow'))
    out.append(('nalldiff', Model(V3, lcons=[('nalldiff', X, B, N(1))]).nl(), r'(?i)alldiff'))
    out.append(('numberof-sym', raw_model(Model(V3, acons=[(PH, {}, -INF, 2.0)]), 'o61\n2\nh3:abc\nh3:abc'),
                r'(?i)numberof|symbolic|string'))
    out.append(('ifsym', raw_model(Model(V3, acons=[(PH, {}, -INF, 2.0)]),
                                   'o61\n2\no65\no28\nv2\nn1\nh1:a\nh1:b\nh1:a'), r'(?i)numberof|symbolic|if|string'))
    out.append(('call', raw_model(Model(V3, acons=[(PH, {}, -INF, 2.0)]), 'f0 1\nv0', 1, ['F0 0 1 myfunc']),
                r'(?i)call|function|myfunc'))
    out.append(('call-string-arg', raw_model(Model(V3, acons=[(PH, {}, -INF, 2.0)]), 'f0 2\nv0\nh3:abc', 1,
                                             ['F0 1 2 myfunc']), r'(?i)call|function|myfunc|string'))
    out.append(('floor-in-obj', Model(V3, acons=[(None, {0: 1.0}, -INF, 1.0)], obj=('min', ('floor', Y), {})).nl(),
                r'floor'))
    out.append(('ceil-in-logical', Model(V3, lcons=[('or', ('ge', ('ceil', Y), N(1)), ('ge', B, N(1)))]).nl(),
                r'ceil'))
    out.append(('mod-in-dvar', Model(V3, dvars=[({}, ('mod', X, N(2)))], acons=[(('d', 0), {}, -INF, 1.0)]).nl(),
                r'mod'))
    return out


def grid_feasible(m):
    """True iff some grid point of the (bounded) model is feasible; None if undecidable."""
    try:
        for p in m.grid():
            if any(v[2] and float(p[i]) != round(p[i]) for i, v in enumerate(m.vars)):
                continue
            if m.feasible(list(p)):
                return True
    except Exception:
        return None
    return False


def infeasible_models():
    out = []
    out.append(('lt(2,1)', Model(V3, lcons=[('lt', N(2), N(1))])))
    out.append(('not(1<=2)', Model(V3, lcons=[('not', ('le', N(1), N(2)))])))
    out.append(('and(x>=1,2<1)', Model(V3, lcons=[('and', ('ge', X, N(1)), ('lt', N(2), N(1)))])))
    out.append(('forall-false', Model(V3, lcons=[('forall', ('ge', N(0), N(1)), ('ge', N(0), N(1)), ('le', Y, N(1)))])))
    out.append(('x==3 (x<=2)', Model(V3, lcons=[('eq', X, N(3))])))
    out.append(('b>=2', Model(V3, lcons=[('ge', B, N(2))])))
    out.append(('second-logical-false', Model(V3, lcons=[('ge', X, N(1)), ('gt', N(0), N(1))])))
    out.append(('abs(x)<=-1', Model(V3, acons=[(('abs', X), {}, -INF, -1.0)])))
    out.append(('max(x,y)>=10', Model(V3, acons=[(('max', X, Y), {}, 10.0, INF)])))
    out.append(('min(x,y)<=-10', Model(V3, acons=[(('min', X, Y), {}, -INF, -10.0)])))
    out.append(('count>=5', Model(V3, acons=[(('count', ('ge', X, N(1)), ('ge', B, N(1))), {}, 5.0, INF)])))
    out.append(('x^2<=-1', Model(V3, acons=[(('pow2', X), {}, -INF, -1.0)])))
    out.append(('numberof>=4', Model(V3, acons=[(('numberof', N(1), X, B), {}, 4.0, INF)])))
    out.append(('if-both-out', Model(V3, acons=[(('if', ('ge', B, N(1)), N(5), N(7)), {}, -INF, 1.0)])))
    out.append(('lin y>=5', Model(V3, acons=[(None, {0: 1.0}, 5.0, INF)])))
    out.append(('lb>ub', Model([(0.0, 2.0, False, 0.5), (2.0, -2.0, True, 1.0), (0.0, 1.0, True, 1.0)],
                               acons=[(('abs', X), {}, -INF, 5.0)])))
    out.append(('int var in [0.2,0.8]', Model([(0.0, 2.0, False, 0.5), (0.2, 0.8, True, 1.0), (0.0, 1.0, True, 1.0)],
                                             lcons=[('or', ('ge', X, N(1)), ('ge', B, N(0)))])))
    out.append(('obj+false', Model(V3, lcons=[('ne', N(1), N(1))], obj=('min', ('abs', X), {}))))
    return out


VFREE = [(-INF, INF, False, 0.5), (-INF, INF, True, 1.0), (0.0, 1.0, True, 1.0)]
VHALF = [(0.0, INF, False, 0.5), (-INF, 2.0, True, 1.0), (0.0, 1.0, True, 1.0)]


def needbounds_models():
    out = []
    for vn, V in (('free', VFREE), ('half', VHALF)):
        out.append(('%s or' % vn, Model(V, lcons=[('or', ('ge', X, N(1)), ('le', Y, N(1)))])))
        out.append(('%s x*b' % vn, Model(V, acons=[(('mul', X, B), {}, -INF, 1.0)])))
        out.append(('%s y*x' % vn, Model(V, acons=[(('mul', Y, X), {}, -INF, 1.0)])))
        out.append(('%s if' % vn, Model(V, acons=[(('if', ('ge', B, N(1)), X, Y), {}, -INF, 1.0)])))
        out.append(('%s max' % vn, Model(V, acons=[(('max', X, Y), {}, 1.0, INF)])))
        out.append(('%s min-obj' % vn, Model(V, acons=[(None, {0: 1.0, 1: 1.0}, -INF, 3.0)], obj=('max', ('min', X, Y), {}))))
        out.append(('%s abs' % vn, Model(V, acons=[(('abs', X), {}, 1.0, INF)])))
        out.append(('%s iff' % vn, Model(V, lcons=[('iff', ('ge', X, N(1)), ('ge', B, N(1)))])))
        out.append(('%s impl' % vn, Model(V, lcons=[('impl', ('ge', B, N(1)), ('le', Y, N(1)), ('ge', X, N(0)))])))
        out.append(('%s count' % vn, Model(V, acons=[(('count', ('ge', X, N(1)), ('le', Y, N(1))), {}, 1.0, INF)])))
        out.append(('%s ne' % vn, Model(V, lcons=[('ne', X, N(1))])))
        out.append(('%s lt' % vn, Model(V, lcons=[('or', ('lt', Y, N(1)), ('ge', B, N(1)))])))
        out.append(('%s eq-reif' % vn, Model(V, lcons=[('or', ('eq', X, N(1)), ('ge', B, N(1)))])))
        out.append(('%s alldiff' % vn, Model(V, lcons=[('alldiff', X, B, N(1))])))
        out.append(('%s numberof' % vn, Model(V, acons=[(('numberof', X, B, N(1)), {}, 1.0, INF)])))
        out.append(('%s pl' % vn, Model(V, acons=[(('pl', (-1.0, 1.0, 2.0), (0.0, 1.0), X), {}, -INF, 1.0)])))
        out.append(('%s exp' % vn, Model(V, acons=[(('exp', Y), {}, -INF, 2.0)])))
        out.append(('%s log' % vn, Model(V, acons=[(('log', Y), {}, -INF, 2.0)])))
        out.append(('%s sin' % vn, Model(V, acons=[(('sin', Y), {}, -INF, 0.5)])))
        out.append(('%s div' % vn, Model(V, acons=[(('div', N(1), Y), {}, -INF, 2.0)])))
        out.append(('%s x^2' % vn, Model(V, acons=[(('pow2', X), {}, -INF, 4.0)])))
    return out


def base_models():
    """base files of the malformed-input family (all valid and convertible)."""
    Bm = []
    Bm.append(('lin+abs+obj', Model(V3, acons=[(('abs', X), {0: 1.0}, -INF, 2.0), (None, {0: 1.0, 1: 1.0, 2: -1.0}, -1.0, 3.0)],
                                    obj=('min', None, {0: 1.0, 1: 1.0}))))
    Bm.append(('logical', Model(V3, lcons=[('or', ('ge', X, N(1)), ('le', Y, N(1))), ('impl', ('ge', B, N(1)), ('le', X, N(0)), ('ge', X, N(-1)))])))
    Bm.append(('dvar', Model(V3, dvars=[({1: 1.0}, ('max', X, Y))], acons=[(('d', 0), {0: 1.0}, 0.0, 2.0)], obj=('min', ('d', 0), {}))))
    Bm.append(('suffixes', Model(V3, acons=[(None, {0: 1.0, 1: 2.0}, 1.0, 1.0)], obj=('max', ('mul', X, B), {2: 1.0}),
                                 suffixes=[(0, False, 'priority', {0: 3, 2: 1}), (1, True, 'myreal', {0: 1.5}), (0, False, 'sstatus', {0: 1, 1: 3, 2: 4}),
                                           (1, False, 'sstatus', {0: 1})])))
    Bm.append(('two-objs', Model(V3, acons=[(('min', X, Y, B), {}, -INF, 1.0)], objs=[('min', ('abs', X), {0: 1.0}), ('max', None, {1: 1.0, 2: 2.0})])))
    Bm.append(('pl+count', Model(V3, acons=[(('pl', (-1.0, 1.0, 2.0), (0.0, 1.0), X), {0: 1.0}, -INF, 1.5),
                                            (('count', ('ge', X, N(1)), ('le', Y, N(1)), ('ge', B, N(1))), {}, 1.0, 2.0)])))
    Bm.append(('compl', Model(V3, acons=[(None, {0: 1.0, 1: 1.0}, -INF, INF), (None, {1: 1.0, 2: 1.0}, 0.0, 3.0)], compl={0: 0},
                              obj=('min', None, {0: 1.0}))))
    Bm.append(('numberof+alldiff', Model(V3, acons=[(('numberof', X, B, N(1)), {}, -INF, 1.0)], lcons=[('alldiff', X, B)],
                                         obj=('max', ('if', ('ge', B, N(1)), X, Y), {}))))
    Bm.append(('quad+div', Model(V3, acons=[(('add', ('mul', X, Y), ('div', Y, N(2))), {2: 1.0}, -1.0, 4.0), (('pow2', X), {}, -INF, 4.0)],
                                 obj=('min', ('sum', X, Y, B), {}))))
    Bm.append(('exp+sin', Model(V3, acons=[(('exp', Y), {}, -INF, 3.0), (('sin', Y), {1: 1.0}, -2.0, 2.0)], obj=('max', None, {0: 1.0}))))
    return Bm


NUMTOK = re.compile(r'^([A-Za-z]?)(-?\d+(?:\.\d+)?(?:[eE][-+]?\d+)?)$')
MUTVALS = ['-1', '0', '99999', '2147483648', 'x']


def malformed_cases(tier):
    stride = 3 if tier == 'thorough' else 11
    bases = base_models()
    if tier == 'quick':
        bases = bases[:5]
    for bn, m in bases:
        text = m.nl()
        lines = text.split('\n')[:-1]
        yield mkcase('malformed/%s/valid' % bn, 'malformed:base-valid', 'ok', nl=text)
        for i in range(len(lines)):
            t = '\n'.join(lines[:i] + lines[i + 1:]) + '\n'
            yield mkcase('malformed/%s/del-line%d' % (bn, i), 'malformed:line-deleted:' + seg_of(lines, i), 'input', nl=t)
        # a whole segment missing (the header still announces it: an incomplete file), with and without the graph export,
        # which prints every NL item before the conversion looks at it
        starts = [i for i in range(10, len(lines)) if lines[i][:1] in 'CLOVrbkJGSdxF']
        for a, i in enumerate(starts):
            j = starts[a + 1] if a + 1 < len(starts) else len(lines)
            t = '\n'.join(lines[:i] + lines[j:]) + '\n'
            yield mkcase('malformed/%s/del-seg%d' % (bn, i), 'malformed:segment-deleted:' + seg_of(lines, i), 'input', nl=t)
            yield mkcase('malformed/%s/del-seg%d+graph' % (bn, i), 'malformed:segment-deleted+writegraph:' + seg_of(lines, i), 'input', nl=t,
                         env_opts='tech:writegraph=g.jsonl')
        for i in range(len(lines)):
            toks = re.split(r'(\s+)', lines[i])
            for j, tk in enumerate(toks):
                mt = NUMTOK.match(tk)
                if not mt:
                    continue
                for v in MUTVALS:
                    if v == mt.group(2):
                        continue
                    nt = toks[:j] + [mt.group(1) + v] + toks[j + 1:]
                    t = '\n'.join(lines[:i] + [''.join(nt)] + lines[i + 1:]) + '\n'
                    yield mkcase('malformed/%s/tok-l%d-t%d<-%s' % (bn, i, j, v),
                                 'malformed:token<-%s:%s' % (v, seg_of(lines, i)), 'input', nl=t)
        offs = set()
        pos = 0
        for ln in lines:
            pos += len(ln) + 1
            offs.add(pos)
            offs.add(pos - 1)
        offs.update(range(0, len(text), stride))
        for k in sorted(offs):
            if k >= len(text):
                continue
            yield mkcase('malformed/%s/trunc@%d' % (bn, k), 'malformed:truncated:' + seg_at(text, k), 'input', nl=text[:k])
    # defined variables defined through themselves (directly, and two referring to each other)
    dv = {n: m for f, n, m in flatgen.all_models('quick', ['dvars'])}
    L = dv['dvar abs twice'].nl().split('\n'); i = [k for k, l in enumerate(L) if l[:1] == 'V'][0]
    assert L[i] == 'V3 0 0' and L[i + 2] == 'v1'
    L[i + 2] = 'v3'
    L2 = dv['dvar chain'].nl().split('\n'); j = [k for k, l in enumerate(L2) if l[:1] == 'V'][0]
    assert L2[j] == 'V3 0 0' and L2[j + 2] == 'v1' and L2[j + 3] == 'V4 1 0'
    L2[j + 2] = 'v4'
    for nm, t in (('self', '\n'.join(L)), ('cycle', '\n'.join(L2))):
        yield mkcase('malformed/dvar-%s' % nm, 'malformed:defined-variable-through-itself:' + nm, 'input', nl=t)
        yield mkcase('malformed/dvar-%s+graph' % nm, 'malformed:defined-variable-through-itself+writegraph:' + nm, 'input', nl=t,
                     env_opts='tech:writegraph=g.jsonl')
    good = bases[0][1].nl()
    yield mkcase('malformed/empty-file', 'malformed:empty-file', 'input', nl='')
    yield mkcase('malformed/missing-file', 'malformed:missing-file', 'input', nl=None, stubmode='missing_nl')
    yield mkcase('malformed/binary-garbage-256', 'malformed:binary-garbage', 'input', nl=bytes(range(256)))
    yield mkcase('malformed/binary-zeros', 'malformed:binary-garbage', 'input', nl=b'\0' * 300)
    yield mkcase('malformed/header-then-garbage', 'malformed:binary-garbage', 'input',
                 nl=b('\n'.join(good.split('\n')[:10]) + '\n') + bytes(range(255, 0, -1)))
    yield mkcase('malformed/binary-header-text-body', 'malformed:binary-garbage', 'input', nl='b' + good[1:])
    yield mkcase('malformed/crlf', 'malformed:crlf', 'input', nl=good.replace('\n', '\r\n'))
    yield mkcase('malformed/no-final-newline', 'malformed:no-final-newline', 'input', nl=good[:-1])
    yield mkcase('malformed/nul-inside', 'malformed:nul-inside', 'input', nl=good[:60] + '\0' + good[60:])
    yield mkcase('malformed/dir-as-nl', 'malformed:nl-is-directory', 'input', nl=None, stubmode='nl_is_dir')


def seg_of(lines, i):
    if i < 10:
        return 'header'
    for j in range(i, 9, -1):
        if lines[j] and lines[j][0] in 'CLOVSrbkJGdxF':
            return lines[j][0]
    return '?'


def seg_at(text, k):
    return seg_of(text.split('\n'), text.count('\n', 0, k))


def ladder_cases(tier):
    depths = [10, 100, 1000, 10000] + ([100000] if tier == 'thorough' else [])
    head = Model(V3, acons=[(PH, {}, -INF, 2.0)])
    for opn, opc in (('neg', 'o16'), ('abs', 'o15')):
        for d in depths:
            yield mkcase('ladder/%s/%d' % (opn, d), 'nesting:%s:depth%d' % (opn, d), 'convert',
                         nl=None, gen=['ladder', opc, d])
    headl = Model(V3, lcons=[PH])
    for d in depths:
        yield mkcase('ladder/not/%d' % d, 'nesting:not:depth%d' % d, 'convert', nl=None, gen=['ladder_not', d])
        yield mkcase('ladder/add-left/%d' % d, 'nesting:add-left:depth%d' % d, 'convert', nl=None, gen=['ladder_add', d])


def gen_nl(gen):
    if gen[0] == 'ladder':
        return raw_model(Model(V3, acons=[(PH, {}, -INF, 2.0)]), (gen[1] + '\n') * gen[2] + 'v1')
    if gen[0] == 'ladder_not':
        return Model(V3, lcons=[('ge', X, N(1))]).nl().replace('L0\n', 'L0\n' + 'o34\n' * gen[1])
    if gen[0] == 'ladder_add':
        return raw_model(Model(V3, acons=[(PH, {}, -INF, 2.0)]), 'o0\n' * gen[1] + 'v1\n' + 'v0\n' * (gen[1] - 1) + 'v0')
    raise ValueError(gen)


OKM = Model(V3, acons=[(('abs', X), {0: 1.0}, -INF, 2.0)], obj=('min', None, {0: 1.0, 1: 1.0}))
OKM2 = Model(V3, acons=[(('abs', X), {0: 1.0}, -INF, 2.0), (None, {0: 1.0, 1: 1.0}, -INF, 3.0)], lcons=[('or', ('ge', X, N(1)), ('le', Y, N(1)))],
             obj=('min', ('max', X, Y), {0: 1.0}), suffixes=[(0, False, 'sstatus', {0: 1, 1: 3, 2: 4}), (1, False, 'sstatus', {0: 1, 1: 1})])
INFM = Model(V3, acons=[(None, {0: 1.0}, -INF, 1.0)], lcons=[('lt', N(2), N(1))], obj=('min', None, {0: 1.0}))
UNSM = Model(V3, acons=[(('floor', Y), {}, -INF, 2.0)], obj=('min', None, {0: 1.0}))
# a point violating OKM: y + |x| <= 2 with y=100,x=101 (the scripted default 'ramp' 100,101,102)

VALID_OPTS = [
    'acc:linle=2', 'alg:basis=3', 'alg:iisfind=1', 'alg:relax=1', 'alg:start=2', 'cvt:bigM=1000', 'cvt:expcones=1',
    'cvt:mip:eps=1e-3', 'cvt:names=3', 'cvt:plapprox:domain=100', 'cvt:plapprox:reltol=0.1', 'cvt:pre:all=0',
    'cvt:pre:eqbinary=0', 'cvt:pre:eqresult=0', 'cvt:pre:unnest=0', 'cvt:quadcon=0', 'cvt:quadobj=1', 'cvt:socp=2',
    'cvt:socp2qc=0', 'cvt:sos=0', 'cvt:sos2=0', 'cvt:uenc:negctx:max=2', 'cvt:uenc:ratio=1', 'mip:bestbound=1',
    'mip:lazy=3', 'mip:priorities=0', 'mip:return_gap=7', 'mip:round=7', 'mip:round_reptol=1e-3', 'obj:multi=1',
    'obj:no=0', 'obj:no=1', 'objno=1', 'sol:chk:feastol=1e-3', 'sol:chk:feastolrel=1e-3', 'sol:chk:infeas',
    'sol:chk:inttol=1e-3', 'sol:chk:mode=0', 'sol:chk:mode=1023', 'sol:chk:prec=6', 'sol:chk:round=3', 'sol:count=1',
    'sol:stub=ss', 'tech:debug=1', 'tech:int_example=5', 'tech:option_example=abc', "tech:option_example='a b'",
    'tech:option_example="a b"', 'tech:reporttimes=1', 'tech:timing=1', 'timing=1', 'tech:version', 'version',
    'tech:writegraph=g.jsonl', 'tech:writemodel=m.lp', 'tech:writemodelonly=m2.lp', 'tech:writesolution=s.sol',
    'tech:optionfile=opts.txt', 'outlev=1', 'timing=1 cvt:pre:all=0 objno=1', 'wantsol=1', 'cvt:names = 2', 'debug 1',
    'tech:option_example=run_{id}', 'tech:option_example={}', 'tech:option_example=a}b{0}', 'tech:writemodel=m{1}.lp', 'tech:option_example=100%s',
] + [
    # two valid assignments in one string, every ordered pair of an extreme-but-valid real value and an integer value: the
    # outcome of one assignment must not depend on the one parsed before it (subnormal / underflowing / huge reals, zero, +sign)
    '%s %s' % ((a, b) if order == 0 else (b, a))
    for a in ('cvt:mip:eps=1e-320', 'sol:chk:feastol=1e-400', 'cvt:plapprox:reltol=4e-324', 'cvt:bigM=1e300', 'cvt:mip:eps=0')
    for b in ('objno=1', 'tech:timing=0', 'sol:chk:mode=3', 'tech:int_example=7')
    for order in (0, 1)
]
# outlev is not an option of this driver => it belongs to the unknown-name class (handled below)
BAD_OPTS = [   # (name, option string, regex the diagnosis must match, strict?)
    # strict: the driver must diagnose; lenient: the parser's documented tolerance (declared ranges are "unused", an
    # unterminated quote ends at the end of the string, an empty value is 0) may also accept the string
    ('unknown-name', 'foo=1', r'foo', True), ('unknown-name-only', 'nosuchoption', r'nosuchoption', True),
    ('unknown-solver-option', 'outlev=1', r'outlev', True),
    ('ill-typed-int', 'tech:timing=abc', r'timing|abc', True), ('ill-typed-int2', 'cvt:pre:all=1.5', r'cvt:pre:all|\.5', True),
    ('ill-typed-dbl', 'cvt:mip:eps=abc', r'cvt:mip:eps|abc', True),
    ('int-overflow', 'tech:timing=99999999999999999999', r'timing|9999', True),
    ('flag-with-argument', 'sol:chk:fail=1', r'sol:chk:fail', True),
    ('objno-9', 'objno=9', r'objno|obj:no', True), ('objno-neg', 'objno=-1', r'objno|obj:no', True),
    ('valid-then-unknown', 'timing=1 foo=1', r'foo', True),
    ('optionfile-missing', 'tech:optionfile=nonexistent.opt', r'nonexistent|optionfile', True),
    ('optionfile-includes-itself', 'tech:optionfile=self.opt', r'self\.opt|option file', True),
    ('optionfiles-include-each-other', 'tech:optionfile=a.opt', r'[ab]\.opt|option file', True),
    ('lone-equals', '=', r'(?i)=|empty option name', True),
    ('out-of-range', 'tech:int_example=1000', r'int_example|1000', False),
    ('out-of-range-neg', 'cvt:names=-1', r'names|-1', False), ('out-of-range-big', 'cvt:socp=99', r'socp|99', False),
    ('missing-value', 'tech:timing=', r'timing', False),
    ('unterminated-squote', "tech:option_example='abc", r'option_example|quote|abc', False),
    ('unterminated-dquote', 'tech:option_example="abc', r'option_example|quote|abc', False),
    ('lone-quote', "'", r"'|quote", False),
]


def header_dims(nl):
    """reference reading of the NL header: (n_var, n_con) or None"""
    try:
        t = nl.decode('latin-1') if isinstance(nl, bytes) else nl
        L = t.split('\n')
        if not L[0] or L[0][0] not in 'gb':
            return None
        a = L[1].split()
        if len(a) < 3:
            return None
        nv, nc = int(a[0]), int(a[1])
        return (nv, nc)
    except (ValueError, IndexError, AttributeError):
        return None


def header_nopts(nl):
    try:
        t = nl.decode('latin-1') if isinstance(nl, bytes) else nl
        a = t.split('\n')[0]
        if a[0] not in 'gb': return None
        return int(a[1:].split()[0]) if a[1:].split() else 0
    except (ValueError, IndexError, AttributeError):
        return None


def enumerate_cases(tier):
    C = []
    # ---- (a) operator shapes ------------------------------------------------------------------
    if tier == 'thorough':
        gens = [('shapes', flatgen.family_shapes('quick')), ('sharing', flatgen.family_sharing()),
                ('alldiffcont', flatgen.family_alldiff_cont()), ('uenc', flatgen.family_uenc())]
    else:
        d1n, d1l = flatgen.depth1(False)
        def d1():
            for name, e in d1n:
                yield from flatgen.roots_numeric(name, e)
            for name, e in d1l:
                yield from flatgen.roots_logical(name, e)
        # ... and every (parent, slot, child) pair under a logical root (a nested logical operator receives its result bounds by
        # propagation from the parent: a feasible model must not come back as infeasible)
        def d2log():
            for name, m in flatgen.family_shapes('quick'):
                if name.startswith('log ') and '<-' in name: yield name, m
        gens = [('shapes', d1()), ('shapes', d2log()), ('alldiffcont', flatgen.family_alldiff_cont())]
    for fam, g in gens:
        for i, (name, m) in enumerate(g):
            root = name.split(' ')[0] if fam == 'shapes' else fam
            top = (nlmodel.ops_of(m.acons[0][0]) if m.acons and m.acons[0][0] else
                   nlmodel.ops_of(m.lcons[0]) if m.lcons else nlmodel.ops_of(m.objs[0][1]) if m.objs and m.objs[0][1] else ['lin'])
            if m.objs and m.objs[0][1]:
                top = nlmodel.ops_of(m.objs[0][1])
            C.append(mkcase('%s/%d/%s' % (fam, len(C), name), 'shape:%s:%s' % (root, top[0] if top else 'lin'), 'convert', nl=m.nl(),
                            expect={'grid_feasible': grid_feasible(m)}))
    # ---- (b) infeasible ------------------------------------------------------------------------
    for name, m in infeasible_models():
        gf = grid_feasible(m) if all(v[0] <= v[1] for v in m.vars) else False
        assert gf is False, name
        C.append(mkcase('infeasible/' + name, 'infeasible:' + name, 'infeas', nl=m.nl()))
    # ---- (c) unsupported -----------------------------------------------------------------------
    for name, text, rx in unsupported_models():
        C.append(mkcase('unsupported/' + name, 'unsupported:' + name, 'unsup', nl=text, expect={'msg': rx}))
    # ---- (c2) invalid suffix data: SOS sets whose weights repeat (the order of the set is undefined) -------------
    VS = [(0.0, 2.0, False, 0.5), (0.0, 2.0, False, 1.0), (0.0, 2.0, True, 1.0)]
    VL = [(0.0, 1.0, False, 0.5), (0.0, 1.0, False, 0.5), (0.0, 1.0, False, 0.5)]
    for sfx, rfx, V, rows in (('sosno', 'ref', VS, [(None, {0: 1.0, 1: 1.0, 2: 1.0}, 1.0, INF)]),
                              ('sos', 'sosref', VL, [(None, {0: 1.0, 1: 1.0, 2: 1.0}, 1.0, 1.0)])):
        for sn, so in (('sos1', {0: 1, 1: 1, 2: 1}), ('sos2', {0: -2, 1: -2, 2: -2}), ('two-sets', {0: 3, 1: 3, 2: 4})):
            if sfx == 'sos' and sn != 'sos1': continue     # .sos numbers are all SOS2 (AMPL's PL linearisation)
            for wn, rf, valid in (('distinct', {0: 1.0, 1: 2.0, 2: 3.0}, True), ('distinct-with-0', {1: 5.0, 2: 7.0}, True),
                                  ('repeated-nonzero', {0: 2.0, 1: 2.0, 2: 6.0}, False), ('repeated-zero', {2: 3.0}, False),
                                  ('repeated-last', {0: 1.0, 1: 4.0, 2: 4.0}, False), ('all-equal', {0: 1.0, 1: 1.0, 2: 1.0}, False)):
                if sn == 'two-sets':
                    bad_here = rf.get(0, 0.0) == rf.get(1, 0.0)     # only members 0 and 1 share a set
                else:
                    bad_here = not valid
                # mp documents one tolerance: repeated weight 0 in .sos/.sosref sets ("redundant PL linearization")
                lenient = bad_here and sfx == 'sos' and wn == 'repeated-zero'
                m = Model(V, acons=rows, obj=('max', None, {0: 1.0, 1: 2.0, 2: 1.0}),
                          suffixes=[(0, False, sfx, so), (0, True, rfx, rf)])
                # acceptance: the scripted solver takes SOS sets natively / the default table (no SOS: a valid general set is then
                # a construct the converter does not support, and says so; AMPL's PL sets are converted)
                for an, script in (('native', {'acc': 'default=2'}), ('converted', None)):
                    if not bad_here:
                        kind = 'unsup' if (an == 'converted' and sfx == 'sosno') else 'ok'
                    else:
                        kind = 'baddata_lenient' if lenient else 'baddata'
                    C.append(mkcase('sosdata/%s/.%s/%s/%s' % (an, sfx, sn, wn), 'sosdata(%s):.%s:%s:%s' % (an, sfx, sn, wn if bad_here else 'valid'), kind,
                                    nl=m.nl(), script=script, expect={'msg': r'SOS' if kind == 'unsup' else r'(?i)weight'}))
    # ---- (d) needs bounds ----------------------------------------------------------------------
    for name, m in needbounds_models():
        C.append(mkcase('needbounds/' + name, 'needbounds:' + name.split(' ', 1)[1] + ':' + name.split(' ')[0], 'needb', nl=m.nl(),
                        expect={'model': m}))
        if tier == 'thorough':
            C.append(mkcase('needbounds/bigM/' + name, 'needbounds+bigM:' + name.split(' ', 1)[1] + ':' + name.split(' ')[0], 'needb',
                            nl=m.nl(), env_opts='cvt:bigM=1e4'))
    # ---- (e) malformed -------------------------------------------------------------------------
    C.extend(malformed_cases(tier))
    # ---- (f) nesting ladder ----------------------------------------------------------------------
    C.extend(ladder_cases(tier))
    # ---- options ---------------------------------------------------------------------------------
    oknl = OKM.nl()
    for via in ('env', 'argv'):
        for o in VALID_OPTS:
            if o == 'outlev=1':
                continue
            kw = {'env_opts': o} if via == 'env' else {'post': ['-AMPL'] + ([o] if via == 'argv' else [])}
            if via == 'argv' and ' ' in o and '=' in o and "'" not in o and '"' not in o and o.count('=') > 1:
                kw = {'post': ['-AMPL'] + o.split(' ')}
            extra = {}
            if 'optionfile' in o:
                extra['files'] = {'opts.txt': 'tech:timing=1\ntech:optionfile=opts2.txt\n', 'opts2.txt': '# second level\ntech:debug=1'}
            exp = {}
            if 'writemodelonly' in o:
                exp['nosolve'] = True
            C.append(mkcase('option/%s/valid/%s' % (via, o), 'option:valid(%s):%s' % (via, o.split('=')[0].split(' ')[0]), 'ok',
                            nl=oknl, expect=exp, **kw, **extra))
        for name, o, rx, strict in BAD_OPTS:
            kw = {'env_opts': o} if via == 'env' else {'post': ['-AMPL', o]}
            if 'optionfile' in name and 'missing' not in name:
                kw['files'] = {'self.opt': 'tech:optionfile=self.opt\n', 'a.opt': 'tech:timing=1\ntech:optionfile=b.opt\n', 'b.opt': 'tech:optionfile=a.opt\n'}
            C.append(mkcase('option/%s/bad/%s' % (via, name), 'option:%s(%s)' % (re.sub('-[sd]quote', '-quote', name), via), 'badopt' if strict else 'badopt_lenient', nl=oknl,
                            expect={'msg': rx}, **kw))
        # the same bad options on a model whose conversion would also fail / be infeasible
        for name, o, rx, strict in BAD_OPTS[:3]:
            kw = {'env_opts': o} if via == 'env' else {'post': ['-AMPL', o]}
            C.append(mkcase('option/%s/bad+unsup/%s' % (via, name), 'option:%s(%s)+unsupported-model' % (name, via), 'badopt',
                            nl=UNSM.nl(), expect={'msg': rx}, **kw))
    # solution check with a violating scripted solution
    for o, kind in (('sol:chk:fail', 'chkfail'), ('sol:chk:fail sol:chk:mode=1023', 'chkfail'), ('sol:chk:mode=1023', 'ok')):
        C.append(mkcase('option/env/chkfail/' + o, 'option:' + o + ':violating-solution', kind, nl=oknl, env_opts=o))
    C.append(mkcase('option/env/chkfail/feasible-point', 'option:sol:chk:fail=1:feasible-solution', 'ok', nl=oknl, env_opts='sol:chk:fail',
                    script={'x': 'pad:0,0,0', 'obj': '0'}))
    # options that touch objectives / duals / extra solutions on models that lack those items
    NOOBJ = Model(V3, acons=[(None, {0: 1.0, 1: 1.0}, -INF, 3.0)])
    NOCON = Model(V3, obj=('min', None, {0: 1.0, 1: 1.0}))
    for mn, mm in (('noobj', NOOBJ), ('nocon', NOCON)):
        for o, scr in (('sol:count=1', {'altsols': 2}), ('sol:count=1 sol:stub=ss', {'altsols': 2}), ('sol:stub=ss', {'altsols': 2}), ('obj:multi=1', None),
                       ('objno=0', None), ('mip:bestbound=1', None), ('mip:return_gap=7', None), ('alg:iisfind=1', {'iis': 'ramp'}),
                       ('alg:sens=1', None), ('alg:rays=3', {'rays': 1, 'code': 300}), ('mip:round=7', None), ('alg:basis=3', {'basis': '1'})):
            if o.startswith('alg:sens'): continue       # not an option of this driver
            scr = dict(scr or {}, x='pad:0', y='pad:0', obj='0' if mn == 'nocon' else 'none')     # a feasible, consistent answer: the solution check stays silent
            C.append(mkcase('option/%s/%s' % (mn, o), 'option:valid-on-%s:%s' % (mn, o.split('=')[0]), 'ok', nl=mm.nl(), env_opts=o,
                            script=scr, expect={'nosolve': False}))
    C.append(mkcase('option/mp_options/bad', 'option:unknown-name(mp_options)', 'badopt', nl=oknl, extra_env={'mp_options': 'foo=1'},
                    expect={'msg': 'foo'}))
    C.append(mkcase('option/mp_options/valid', 'option:valid(mp_options)', 'ok', nl=oknl, extra_env={'mp_options': 'timing=1'}))
    # ---- modes x wantsol -------------------------------------------------------------------------
    for mn, m, kind, exp in (('ok', OKM, 'ok', {}), ('infeasible', INFM, 'infeas', {}), ('unsupported', UNSM, 'unsup', {'msg': 'floor'})):
        for ws in range(16):
            C.append(mkcase('mode/noAMPL/%s/wantsol=%d' % (mn, ws), 'mode:noAMPL:wantsol=%d:%s' % (ws, mn), kind, nl=m.nl(), post=['wantsol=%d' % ws], expect=exp))
            C.append(mkcase('mode/AMPL/%s/wantsol=%d' % (mn, ws), 'mode:AMPL:wantsol=%d:%s' % (ws, mn), kind, nl=m.nl(), post=['-AMPL', 'wantsol=%d' % ws], expect=exp))
        C.append(mkcase('mode/noAMPL/%s/plain' % mn, 'mode:noAMPL:%s' % mn, kind, nl=m.nl(), post=[], expect=exp))
        C.append(mkcase('mode/-s/%s' % mn, 'mode:-s:%s' % mn, kind, nl=m.nl(), pre=['-s'], post=[], expect=exp))
        C.append(mkcase('mode/-e/%s' % mn, 'mode:-e:%s' % mn, kind, nl=m.nl(), pre=['-e'], post=['-AMPL', 'timing=1'], expect=exp))
        C.append(mkcase('mode/-e-noAMPL/%s' % mn, 'mode:-e-noAMPL:%s' % mn, kind, nl=m.nl(), pre=['-e'], post=['timing=1'], expect=exp))
        C.append(mkcase('mode/--/%s' % mn, 'mode:--:%s' % mn, kind, nl=m.nl(), pre=['--'], post=['-AMPL'], expect=exp))
        C.append(mkcase('mode/-s-e/%s' % mn, 'mode:-s-e:%s' % mn, kind, nl=m.nl(), pre=['-s', '-e'], post=['timing=1'], expect=exp))
        C.append(mkcase('mode/stub.nl/%s' % mn, 'mode:stub-with-.nl:%s' % mn, kind, nl=m.nl(), stubmode='with_ext', expect=exp))
        C.append(mkcase('mode/relative-stub/%s' % mn, 'mode:relative-stub:%s' % mn, kind, nl=m.nl(), stubmode='relative', expect=exp))
        # dots elsewhere in the stub argument: only a final ".nl" is the extension
        for smode in ('dot_rel_ext', 'dotted_name', 'dotted_name_ext', 'dotted_dir_ext'):
            C.append(mkcase('mode/%s/%s' % (smode, mn), 'mode:stub-%s:%s' % (smode, mn), kind, nl=m.nl(), stubmode=smode, expect=exp))
        C.append(mkcase('mode/AMPL-not-second/%s' % mn, 'mode:-AMPL-not-first:%s' % mn, 'badopt', nl=m.nl(), post=['timing=1', '-AMPL'], expect={'msg': '-AMPL'}))
    for fl in ('-=', '-!', '-v', '-?', '-a', '-c'):
        C.append(mkcase('mode/info/%s' % fl, 'mode:info%s' % fl, 'info', nl=oknl, pre=[fl], post=[]))
        C.append(mkcase('mode/info-nostub/%s' % fl, 'mode:info-nostub%s' % fl, 'info', nl=None, pre=[fl], post=[], stubmode='none'))
    C.append(mkcase('mode/unknown-flag', 'mode:unknown-flag', 'info', nl=oknl, pre=['-z'], post=['-AMPL']))
    C.append(mkcase('mode/no-args', 'mode:no-stub', 'info', nl=None, pre=[], post=[], stubmode='none'))
    C.append(mkcase('mode/only-AMPL', 'mode:only--AMPL', 'info', nl=None, pre=[], post=['-AMPL'], stubmode='none'))
    C.append(mkcase('mode/stub-without-nl', 'mode:stub-without-nl', 'input', nl=None, stubmode='missing_nl'))
    C.append(mkcase('mode/stub-without-nl-noAMPL', 'mode:stub-without-nl-noAMPL', 'input', nl=None, stubmode='missing_nl', post=[]))
    C.append(mkcase('mode/empty-stub', 'mode:empty-stub', 'input', nl=None, stubmode='empty_stub'))
    # ---- names files -----------------------------------------------------------------------------
    col3 = ['yvar', 'xvar', 'bvar']; row2 = ['con1', 'obj1']
    NAMES = {
        'absent': (None, None), 'present': ('\n'.join(col3) + '\n', '\n'.join(row2) + '\n'),
        'short': ('yvar\n', 'con1\n'), 'empty': ('', ''), 'empty-first-line': ('\nxvar\nbvar\n', '\nobj1\n'),
        'all-empty-lines': ('\n\n\n', '\n\n'), 'no-final-newline': ('\n'.join(col3), '\n'.join(row2)),
        'crlf': ('\r\n'.join(col3) + '\r\n', '\r\n'.join(row2) + '\r\n'), 'long': ('\n'.join(col3 + ['extra1', 'extra2']) + '\n', '\n'.join(row2 + ['e']) + '\n'),
        'only-col': ('\n'.join(col3) + '\n', None), 'only-row': (None, '\n'.join(row2) + '\n'),
        'long-name': ('y' * 5000 + '\nxvar\nbvar\n', 'c' * 5000 + '\nobj1\n'), 'nul-bytes': ('yv\0ar\nxvar\nbvar\n', 'co\0n1\nobj1\n'),
        'spaces': ("y var\nx'var\nb\"var\n", 'con 1\nobj 1\n'), 'one-newline': ('\n', '\n'),
    }
    NM_MODELS = [('ok', OKM, 'ok', {}), ('infeasible', Model(V3, acons=[(None, {0: 1.0}, -INF, 1.0)], lcons=[('lt', N(2), N(1))]), 'infeas', {})]
    for nn, (col, row) in NAMES.items():
        wellformed = nn in ('absent', 'present', 'only-col', 'only-row', 'long')
        lab = 'names file with an empty first line' if (col or '').startswith('\n') else 'names file ' + nn
        for lvl in range(4):
            for mn, m, kind, exp in NM_MODELS:
                # a malformed names file read by the converter (cvt:names=1,2) is deviating input: any diagnosed outcome
                C.append(mkcase('names/%s/cvt:names=%d/%s' % (nn, lvl, mn), 'names:%s:cvt:names=%d:%s' % (nn, lvl, mn),
                                kind if (wellformed or lvl in (0, 3)) else 'input', nl=m.nl(),
                                env_opts='cvt:names=%d' % lvl, col=col, row=row, expect=exp, siglabel=lab))
        # the solution printer reads the names files itself (wantsol=2|4 without -AMPL)
        for ws in (2, 4, 6, 7):
            C.append(mkcase('names/%s/print-wantsol=%d' % (nn, ws), 'names:%s:print:wantsol=%d' % (nn, ws), 'ok' if wellformed else 'input',
                            nl=OKM.nl(), post=['wantsol=%d' % ws], col=col, row=row, siglabel=lab))
        C.append(mkcase('names/%s/writegraph' % nn, 'names:%s:writegraph' % nn, 'ok' if wellformed else 'input', nl=OKM.nl(),
                        env_opts='cvt:names=2 writegraph=g.jsonl', col=col, row=row, siglabel=lab))
    # ---- scripted solver answers -----------------------------------------------------------------
    for code in (0, 100, 200, 300, 400, 500, 999):
        for xs in ('ramp', 'none'):
            for ys in ('ramp', 'none'):
                for ob in ('auto', 'none'):
                    for ismip in ('1', '0'):
                        if ismip == '0' and (xs, ys, ob) != ('ramp', 'ramp', 'auto'):
                            continue
                        C.append(mkcase('answer/code=%d,x=%s,y=%s,obj=%s,mip=%s' % (code, xs, ys, ob, ismip),
                                        'answer:code=%d:x=%s,y=%s,obj=%s' % (code, xs, ys, ob), 'ok', nl=OKM2.nl(),
                                        script={'code': code, 'x': xs, 'y': ys, 'obj': ob, 'ismip': ismip, 'msg': 'scripted %d' % code}))
    for k, v in (('msg', ''),
                 ('msg', 'line1\\n\\nline3'), ('msg', 'x' * 3000), ('basis', '1'), ('iis', '1')):
        C.append(mkcase('answer/odd/%s=%s' % (k, v[:12]), 'answer:odd:%s=%s' % (k, v[:12]), 'answer_odd', nl=OKM2.nl(),
                        script={k: v}, env_opts='alg:iisfind=1' if k == 'iis' else None))
    # ---- output-path faults ----------------------------------------------------------------------
    for mn, m, kind, exp in (('ok', OKM2, 'ok', {}), ('infeasible', INFM, 'infeas', {}), ('unsupported', UNSM, 'unsup', {'msg': 'floor'})):
        nlm = m.nl()
        C.append(mkcase('fault/fsize/%s' % mn, 'fault:fsize:%s' % mn, kind, nl=nlm, expect=exp, fault={'type': 'fsize-all'}))
        for ft in ('sol-is-dir', 'sol-name-too-long', 'sol-dangling-symlink', 'sol-dev-full', 'sol-symlink-loop', 'sol-readonly-file-ok'):
            C.append(mkcase('fault/%s/%s' % (ft, mn), 'fault:%s:%s' % (ft, mn), kind, nl=nlm, expect=exp, fault={'type': ft}))
        C.append(mkcase('fault/%s/%s' % ('solstub-unwritable', mn), 'fault:solstub-unwritable:%s' % mn, kind, nl=nlm, expect=exp,
                        env_opts='sol:stub=nonexistentdir/ss sol:count=1'))
    C.append(mkcase('fault/stub-path-too-long', 'fault:stub-path-too-long', 'input', nl=oknl, stubmode='too_long'))
    C.append(mkcase('fault/stub-component-is-file', 'fault:stub-component-is-file', 'input', nl=None, stubmode='component_is_file'))
    ids = set()
    for c in C:
        assert c['id'] not in ids, c['id']
        ids.add(c['id'])
    return C


# ------------------------------------------------------------------------------------------------
# running one case
# ------------------------------------------------------------------------------------------------
def _preexec(fsize, variant):
    def f():
        resource.setrlimit(resource.RLIMIT_CORE, (0, 0))
        resource.setrlimit(resource.RLIMIT_STACK, (8 << 20, 8 << 20))
        if variant == 'plain':
            resource.setrlimit(resource.RLIMIT_AS, (6 << 30, 6 << 30))
        if fsize is not None:
            signal.signal(signal.SIGXFSZ, signal.SIG_IGN)
            resource.setrlimit(resource.RLIMIT_FSIZE, (fsize, fsize))
    return f


def run_once(binary, c, wd, timeout, fsize=None):
    """-> dict(rc, out, err, sol (bytes|None|'symlink'|'dir'), solpath)"""
    shutil.rmtree(wd, ignore_errors=True)
    os.makedirs(wd)
    sm = c['stubmode']
    stubname = 'm'
    ft = (c.get('fault') or {}).get('type')
    if ft == 'sol-name-too-long':
        stubname = 'a' * 252          # 'a'*252 + '.nl' = 255 = NAME_MAX ; + '.sol' = 256 > NAME_MAX
    if sm in ('dotted_name', 'dotted_name_ext'):
        stubname = 'm.v2'             # a dot inside the stub name itself
    stubp = os.path.join(wd, stubname)
    if sm == 'dotted_dir_ext':
        os.makedirs(os.path.join(wd, 'run.1'))
        stubp = os.path.join(wd, 'run.1', stubname)
    if sm == 'too_long':
        # the directories are not created: every open() of the path fails with ENAMETOOLONG (> PATH_MAX) anyway
        stubp = os.path.join(*([wd] + ['d' * 200] * 21 + ['m']))
    if sm == 'component_is_file':
        open(os.path.join(wd, 'f'), 'w').write('x')
        stubp = os.path.join(wd, 'f', 'm')
    nl = c['nl']
    if nl is None and c.get('gen'):
        nl = gen_nl(c['gen'])
    if sm == 'nl_is_dir':
        os.makedirs(stubp + '.nl')
    elif nl is not None and sm not in ('missing_nl', 'none', 'component_is_file'):
        try:
            with open(stubp + '.nl', 'wb') as f:
                f.write(b(nl))
        except OSError:
            pass                       # too_long: the file cannot be created either
    for ext, key in (('.col', 'col'), ('.row', 'row')):
        if c.get(key) is not None:
            with open(stubp + ext, 'wb') as f:
                f.write(b(c[key]))
    for fn, txt in (c.get('files') or {}).items():
        with open(os.path.join(wd, fn), 'w') as f:
            f.write(txt)
    solp = stubp + '.sol'
    if ft == 'sol-is-dir':
        os.makedirs(solp)
    elif ft == 'sol-dangling-symlink':
        os.symlink(os.path.join(wd, 'nodir', 'x.sol'), solp)
    elif ft == 'sol-dev-full':
        os.symlink('/dev/full', solp)
    elif ft == 'sol-symlink-loop':
        os.symlink(solp, solp)
    elif ft == 'sol-readonly-file-ok':
        open(solp, 'w').write('stale content of an earlier run\n' * 40)
    env = {'PATH': '/usr/bin:/bin', 'LC_ALL': 'C', 'HOME': wd,
           'ASAN_OPTIONS': 'detect_leaks=0:abort_on_error=0:detect_stack_use_after_return=0', 'UBSAN_OPTIONS': 'print_stacktrace=1'}
    if c.get('script') is not None:
        sp = os.path.join(wd, 'script.txt')
        with open(sp, 'w') as f:
            for k, v in c['script'].items():
                f.write('%s=%s\n' % (k, v))
        env['VDRIVER_SCRIPT'] = sp
    if c.get('env_opts') is not None:
        env['vdriver_options'] = c['env_opts']
    if c.get('extra_env'):
        env.update(c['extra_env'])
    dumpp = None
    if c.get('kind') == 'needb' and sm == 'normal':      # the delivered model is judged when the conversion succeeds
        dumpp = os.path.join(wd, 'delivered.dump'); env['VDRIVER_DUMP'] = dumpp
    argv = [binary] + list(c['pre'])
    if sm == 'none':
        pass
    elif sm in ('with_ext', 'dotted_name_ext', 'dotted_dir_ext'):
        argv.append(stubp + '.nl')
    elif sm == 'dot_rel_ext':
        argv.append('./' + stubname + '.nl')
    elif sm == 'relative':
        argv.append(stubname)
    elif sm == 'empty_stub':
        argv.append('')
    else:
        argv.append(stubp)
    argv += list(c['post'])
    try:
        p = subprocess.run(argv, capture_output=True, env=env, timeout=timeout, cwd=wd, stdin=subprocess.DEVNULL,
                           preexec_fn=_preexec(fsize, c.get('variant', 'plain')))
        rc, out, err = p.returncode, p.stdout, p.stderr
    except subprocess.TimeoutExpired as e:
        rc, out, err = 'timeout', e.stdout or b'', e.stderr or b''
    except OSError as e:
        rc, out, err = 'oserror', b'', str(e).encode()
    sol = None
    if os.path.islink(solp):
        sol = 'symlink'
        if ft == 'sol-dangling-symlink' and os.path.exists(solp):
            sol = open(solp, 'rb').read()
    elif os.path.isdir(solp):
        sol = 'dir'
    elif os.path.exists(solp):
        with open(solp, 'rb') as f:
            sol = f.read()
    dump = None
    if dumpp and os.path.exists(dumpp):
        try:
            import flatlib
            dump = flatlib.loads(open(dumpp).read())
        except ValueError:
            dump = None
        os.remove(dumpp)
    extra_files = sorted(f for f in os.listdir(wd)) if sm not in ('too_long',) else []
    return {'rc': rc, 'out': out.decode('latin-1'), 'err': err.decode('latin-1'), 'sol': sol, 'nl': nl, 'files': extra_files, 'dump': dump}


SAN_RX = re.compile(r'AddressSanitizer|runtime error:|UndefinedBehaviorSanitizer|LeakSanitizer|MemorySanitizer')


def codeclass(code):
    if code is None: return 'none'
    if code < 0: return 'negative'
    if code < 100: return '0-99'
    if code < 200: return '100-199'
    if code < 300: return '200-299'
    if code < 400: return '300-399'
    if code < 500: return '400-499'
    if code < 1000: return '500-999'
    return '>=1000'


def wants_sol(c):
    """does the invocation request a .sol file? (-AMPL directly after the stub, -s, or wantsol odd)"""
    if c['stubmode'] == 'none':
        return False
    if any(p in ('-=', '-!', '-v', '-?', '-a', '-c', '-z') for p in c['pre']):
        return False
    post = c['post']
    w = None
    if post and post[0] == '-AMPL':
        return True            # -AMPL: the .sol is written whatever wantsol says
    if '-s' in c['pre']:
        w = 1
    opts = []
    if c.get('env_opts'):
        opts.append(c['env_opts'])
    opts += [p for p in post if p != '-AMPL']
    for o in opts:
        for mt in re.finditer(r'(?:^|\s)(?:tech:)?wantsol\s*=\s*(\d+)', o):
            w = int(mt.group(1))
    return bool(w and (w & 1))


def is_ampl(c):
    return bool(c['post']) and c['post'][0] == '-AMPL' and c['stubmode'] != 'none'


def judge(c, r, fault_k=None):
    """-> (outcome class, [ (signature, detail) ... ])"""
    P = []
    fam = c['id'].split('/')[0]
    def bad(sig, **d):
        d.update({'case': c['id'], 'rc': r['rc'], 'stderr': r['err'][-400:], 'stdout': r['out'][-200:]})
        if fault_k is not None:
            d['fault_offset'] = fault_k
        P.append((sig, d))
    rc, sol = r['rc'], r['sol']
    cause = c['cls'].split(':')[0] + (':' + c['cls'].split(':')[1] if fam in ('ladder',) else '')
    if rc == 'timeout':
        bad('C09 hang (no termination within %d s alone): %s' % (HORIZON_ALONE, c['cls']))
        return 'hang', P
    if rc == 'oserror':
        return 'not-started(%s)' % r['err'][:40], P
    if rc < 0:
        try: sn = signal.Signals(-rc).name
        except ValueError: sn = 'SIG%d' % -rc
        what = c['cls'] if fam in ('ladder', 'option', 'names', 'mode', 'answer') else cause + ' ' + c['id'].split('/')[-1]
        bad('C09 %s %s' % (sn, sig_label(c)))
        return 'signal:' + sn, P
    if SAN_RX.search(r['err']):
        mt = re.search(r'(AddressSanitizer: [A-Za-z-]+|runtime error: [^\n]{0,60})', r['err'])
        kind = re.sub(r'0x[0-9a-f]+', 'ADDR', mt.group(1)) if mt else 'unknown'
        where = re.search(r'(/repo|/tmp/wt-[^/]*)/((?:include|src)/[^\s:]+:\d+)', r['err'])
        bad('C09 sanitizer report (%s at %s): %s' % (kind, where.group(2) if where else '?', c.get('siglabel') or c['cls'].split(':')[0]),
            report=r['err'][:1500])
        return 'sanitizer', P
    want = wants_sol(c)
    hd = header_dims(r['nl']) if r['nl'] is not None else None
    ft = (c.get('fault') or {}).get('type')
    faulted = (fault_k is not None and fault_k < (c.get('fault') or {}).get('n', 1 << 60)) or ft in ('sol-is-dir', 'sol-name-too-long', 'sol-dangling-symlink', 'sol-dev-full', 'sol-symlink-loop')
    sol_written = isinstance(sol, bytes)
    if ft == 'sol-readonly-file-ok':
        pass
    if sol in ('symlink', 'dir'):
        sol_written = False
    # ------------------------------------------------------------------ no .sol
    if not sol_written:
        if rc == 0:
            if want and c['expect'].get('nosolve') and not faulted:
                return 'nosol,exit0,writemodelonly', P
            if want:
                if faulted:
                    bad('C09 exit status 0 although the .sol could not be written (%s)' % (ft or 'fsize'), stderr_full=r['err'][-300:])
                else:
                    bad('C09 exit status 0 without a .sol although one was requested: ' + sig_label(c))
                return 'nosol,exit0', P
            # no .sol requested: informational modes, or a terminal run (message goes to stdout)
            if c['kind'] == 'info':
                if not (r['out'].strip() or r['err'].strip()):
                    bad('C09 informational mode printed nothing: ' + c['cls'])
                return 'nosol,exit0,info', P
            ws = wantsol_value(c)
            if c['kind'] in ('unsup', 'infeas', 'badopt', 'input', 'needb', 'convert') and not (ws & 8):
                txt = r['out'] + r['err']
                rx = c['expect'].get('msg') if c['kind'] in ('unsup', 'badopt') else ('(?i)infeasib' if c['kind'] == 'infeas' else None)
                if c['kind'] in ('unsup', 'infeas', 'badopt') and not re.search(rx, txt):
                    bad('C09 terminal run: cause not named in the output: ' + sig_label(c), expected=rx)
            if not (ws & 8) and not (r['out'].strip() or r['err'].strip()):
                bad('C09 terminal run printed nothing: ' + sig_label(c))
            return 'nosol,exit0,terminal', P
        # non-zero exit: a diagnostic on stderr is required
        if not r['err'].strip():
            bad('C09 non-zero exit without a .sol and without a diagnostic on stderr: ' + sig_label(c))
            return 'nosol,exit!=0,silent', P
        if want and not faulted:
            # stderr is only the fallback "if no file can be written": legitimate when the .nl cannot be opened or the error
            # is located in the NL header (lines 1-10: no dimensions known yet)
            loc = re.search(r'\.nl:(\d+):\d+:', r['err'])
            unreadable = c['stubmode'] in ('missing_nl', 'nl_is_dir', 'too_long', 'component_is_file', 'empty_stub', 'none') or r['nl'] is None
            if not unreadable and not (loc and int(loc.group(1)) <= 10):
                bad('C09 no .sol although the NL header was readable (failure only on stderr, exit %s): %s' % (rc, nosol_label(c, r['err'])))
                return 'nosol,exit!=0,stderr,header-readable', P
        return 'nosol,exit!=0,stderr', P
    # ------------------------------------------------------------------ a .sol exists
    text = sol.decode('latin-1')
    try:
        ps = vdriverlib.parse_sol(text)
        perr = None
    except (ValueError, IndexError) as e:
        ps, perr = None, '%s: %s' % (type(e).__name__, str(e)[:80])
    fz = c.get('fault') or {}
    # under RLIMIT_FSIZE=k<n a file that is a proper prefix of the fault-free .sol is truncated even if it happens to parse
    short = fz.get('type') == 'fsize' and fault_k is not None and len(sol) < fz['n'] and fz['ref'].startswith(sol.decode('latin-1'))
    if ps is None or (not text.endswith('\n')) or short:
        if faulted:
            if rc == 0:
                bad('C09 truncated .sol with exit 0 (write failure at offset k)', sol_len=len(sol), parse_error=perr)
            else:
                bad('C09 truncated .sol left behind after a write failure (exit status non-zero)', sol_len=len(sol), parse_error=perr)
            return 'truncated-sol,exit%s' % ('0' if rc == 0 else '!=0'), P
        bad('C09 .sol not accepted by the reference parser: ' + sig_label(c), parse_error=perr, sol_head=text[:300])
        return 'badsol', P
    oc = 'sol:' + codeclass(ps['code'])
    if rc != 0:
        oc += ',exit!=0'
    if ft == 'sol-readonly-file-ok' and 'stale content' in text:
        bad('C09 stale .sol content survived: ' + sig_label(c))
    code, msg = ps['code'], ps['message']
    rep = failure_kind(msg)
    scripted = int((c.get('script') or {}).get('code', 0))
    if rep is None and code is not None and code != scripted and not (200 <= code <= 299) and c['kind'] not in ('answer_odd',):
        rep = 'other failure'
    # dimensions
    if hd is not None:
        nv, nc = hd
        dimbad = (ps['nvars'] != nv or ps['ncons'] != nc or ps['nprimals'] not in (0, nv) or ps['nduals'] not in (0, nc))
        if dimbad:
            zero = ps['nvars'] == 0 and ps['ncons'] == 0 and (nv or nc)
            bad('C09 dimensionally wrong .sol (%s) reporting: %s' % (
                'n_con=0 n_var=0 instead of the NL header counts' if zero else 'counts differ from the NL header',
                rep or ('solve code class ' + codeclass(code))),
                sol_counts=[ps['ncons'], ps['nduals'], ps['nvars'], ps['nprimals']], header_ncon_nvar=[nc, nv], message=msg[:200])
            oc += ',dims-wrong'
    if code is None:
        bad('C09 .sol without objno/solve-code line: ' + sig_label(c))
        return oc, P
    scripted = int((c.get('script') or {}).get('code', 0))
    k = c['kind']
    def code_in(lo, hi): return lo <= code <= hi
    # ---- the code class must match the cause named by the message itself ----------------------
    if rep == 'infeasibility proven during conversion':
        oc += ',infeasible'
        if not code_in(200, 299):
            direct = any(re.match(r'^(x-VDRIVER [\d.]+:\s+)?Model infeasible', ln) for ln in msg.split('\n'))
            bad('C09 infeasibility proven during conversion (%s) reported with solve code class %s (expected 200-299)' % (
                'raised directly' if direct else 'raised inside a conversion wrapper', codeclass(code)),
                code=code, message=msg[-300:])
    elif rep == 'solution check violation':
        oc += ',solution-check'
        if not code_in(150, 159):
            bad('C09 solution check violation (sol:chk:fail) reported with solve code class %s (documented: 150)' % codeclass(code), code=code, message=msg[-300:])
    elif rep is not None:
        oc += ',' + rep.replace(' ', '-')
        if not code_in(500, 999):
            bad('C09 %s reported with solve code %s (expected 500-999)' % (rep, code if code < 200 else codeclass(code)), code=code, message=msg[-300:])
    elif code_in(200, 299) and k != 'ok' and k != 'answer_odd':
        bad('C09 code 200-299 without a message naming infeasibility: ' + sig_label(c), message=msg[:300])
    elif code_in(500, 999) and code != scripted and len(msg.strip()) < 20:
        bad('C09 failure code without a diagnostic message: ' + sig_label(c), message=msg)
    if faulted and rep == 'other failure' and code_in(500, 999) and re.search(r'(?i)cannot (close|write|open)|No space|too large|write', msg):
        return oc + ',write-failure-reported', P
    # ---- the cause must be the one the input has ---------------------------------------------
    succeeded = (rep is None and code == scripted)
    if k == 'ok':
        if not succeeded and not c['expect'].get('nosolve'):
            bad('C09 convertible model not solved as scripted: %s: reports %s, code class %s' % (sig_label(c), rep, codeclass(code)), code=code, message=msg[:300])
    elif k == 'answer_odd':
        if not (succeeded or (rep and code_in(500, 999))):
            bad('C09 wrong solve code for an odd scripted answer: %s: %s' % (sig_label(c), codeclass(code)), code=code, message=msg[:300])
    elif k == 'chkfail':
        if not (code_in(150, 159) and rep == 'solution check violation'):
            bad('C09 sol:chk:fail with a violating solution not reported as 150-159: code class %s' % codeclass(code), code=code, message=msg[:300])
    elif k == 'convert':
        if rep == 'infeasibility proven during conversion' and c['expect'].get('grid_feasible') is True:
            bad('C09 feasible model reported infeasible: ' + sig_label(c), message=msg[:300])
        if not succeeded and rep is None:
            bad('C09 solve code of an unexpected class %s for %s' % (codeclass(code), sig_label(c)), code=code, message=msg[:300])
    elif k == 'infeas':
        if succeeded:
            oc += ',not-proven'
        elif rep != 'infeasibility proven during conversion':
            bad('C09 infeasible model: other outcome (%s, code class %s): %s' % (rep, codeclass(code), sig_label(c)), code=code, message=msg[:300])
    elif k == 'unsup':
        if rep != 'unsupported construct' or not re.search(c['expect']['msg'], msg.split(':', 1)[-1]):
            bad('C09 message does not name the unsupported construct: ' + sig_label(c), message=msg[:300], expected=c['expect']['msg'])
    elif k == 'needb':
        if succeeded:
            oc += ',converted'
            # converted without a diagnostic: then the delivered model (recorded by the scripted solver) must agree with
            # the NL model on the explored window of the unbounded domain (C01's point-wise oracle, Python version)
            mm = c['expect'].get('model'); d = r.get('dump')
            if mm is not None and d and 'vars' in d and 'PLApprox' not in (r.get('out') or ''):
                try:
                    v = flatcheck.judge(mm, {'status': 'ok', 'vars': [vv[:3] + [None] for vv in d['vars']], 'objs': d.get('objs', []),
                                             'cons': d.get('cons', []), 'warnings': ''})
                except Exception as e:
                    v = {'verdict': 'undecided', 'why': str(e)}
                oc += ',equiv-' + v['verdict']
                if v['verdict'] == 'violation':
                    bad('C09 model lacking bounds converted without a diagnostic into a different model: ' + sig_label(c),
                        kind=v.get('kind'), point=v.get('point'))
        elif not (rep and re.search(r'(?i)bound|big-?M|finite|infinite|unbounded', msg)):
            bad('C09 failure on a model lacking bounds without naming bounds/big-M: ' + sig_label(c), message=msg[:300])
    elif k in ('badopt', 'badopt_lenient'):
        if succeeded and k == 'badopt_lenient':
            oc += ',accepted'
        elif succeeded:
            bad('C09 invalid option not diagnosed (run succeeded with the scripted code): ' + sig_label(c), message=msg[:200])
        elif not re.search(c['expect']['msg'], msg.split(':', 1)[-1] + r['err']):
            bad('C09 message does not name the invalid option: ' + sig_label(c), message=msg[:300], expected=c['expect']['msg'])
    elif k in ('baddata', 'baddata_lenient'):
        if succeeded and k == 'baddata_lenient':
            oc += ',accepted'
        elif succeeded:
            bad('C09 invalid suffix data not diagnosed (run succeeded with the scripted code): ' + sig_label(c), message=msg[:200])
        elif not (code_in(500, 999) and re.search(c['expect']['msg'], msg)):
            bad('C09 message does not name the invalid suffix data: ' + sig_label(c), message=msg[:300], code=code)
    elif k == 'input':
        if not succeeded and rep is None:
            bad('C09 malformed/deviating input: solve code class %s without a diagnosis: %s' % (codeclass(code), c['cls']), code=code, message=msg[:300])
    elif k == 'info':
        bad('C09 informational mode wrote a .sol: ' + c['cls'])
    return oc, P


def failure_kind(msg):
    """the cause a .sol message names (None: an ordinary solver result)"""
    out, inw = [], False
    for ln in msg.split('\n'):
        if ln.startswith('------------ WARNINGS'):
            inw = True
            continue
        if inw and ln.startswith('x-VDRIVER'):
            inw = False
        if not inw:
            out.append(ln)
    body = '\n'.join(out).strip()
    if not body:
        ne = [l for l in msg.split('\n') if l.strip()]
        body = ne[-1] if ne else ''
    if re.search(r'MaxAbs \[Name\]', body): return 'solution check violation'
    if re.search(r'Model infeasible', body): return 'infeasibility proven during conversion'
    if re.search(r'\.(nl|col|row):\d+:\d+: |\.nl: |duplicate suffix', body): return 'NL read error'
    if re.search(r'(?i)\bunsupported\b|not implemented|nor is conversion implemented', body): return 'unsupported construct'
    if re.search(r'(?i)unknown option|invalid value|for option|Option "[^"]*" doesn|option name|option file|obj(no|:no)', body): return 'invalid option'
    if re.search(r'(?i)\bbound|big-?M|finite', body): return 'missing bounds'
    if re.search(r'(?i)error|fail|cannot|not supported|exception|bad_alloc|invalid|expected', body): return 'other failure'
    return None


def nosol_label(c, err):
    fam = c['id'].replace('san:', '').split('/')[0]
    e = re.sub(r'/\S*/', '', err.strip().split('\n')[-1])
    e = re.sub(r'\d+', 'N', e)[:70]
    if fam == 'malformed':
        return 'malformed input: ' + e
    if fam == 'option':
        return 'invalid option' if c['kind'].startswith('badopt') else 'valid option'
    return sig_label(c) + ': ' + e


def wantsol_value(c):
    w = 0
    for o in ([c['env_opts']] if c.get('env_opts') else []) + list(c['post']):
        for mt in re.finditer(r'(?:^|\s)(?:tech:)?wantsol\s*=\s*(\d+)', o):
            w = int(mt.group(1))
    return w


def sig_label(c):
    """stable label of the failing input class for signatures"""
    if c.get('siglabel'):
        return c['siglabel']
    fam = c['id'].split('/')[0]
    if fam == 'malformed':
        return c['cls']
    if fam in ('shapes', 'sharing', 'uenc', 'alldiffcont'):
        return c['cls']
    if fam == 'ladder':
        return 'nesting depth %s' % c['cls'].split('depth')[1]
    return c['cls']


def dim_label(c, ps):
    fam = c['id'].split('/')[0]
    if fam == 'option':
        return 'invalid option' if c['kind'] == 'badopt' else c['cls']
    if fam == 'malformed':
        return 'malformed input'
    return c['cls']


# ------------------------------------------------------------------------------------------------
# worker
# ------------------------------------------------------------------------------------------------
_BIN = {}


def work(args):
    idx, c, tier, bins = args
    binary = bins[c.get('variant', 'plain')]
    wd = os.path.join(WORK, tier, '%06d' % idx)
    try:
        f = c.get('fault') or {}
        k = f.get('k') if f.get('type') == 'fsize' else None
        r = run_once(binary, c, wd, HORIZON, fsize=k)
        oc, P = judge(c, r, fault_k=k)
        res = {'id': c['id'], 'cls': c['cls'], 'oc': oc, 'P': P, 'rc': r['rc'], 'timeout': r['rc'] == 'timeout',
               'fault': is_fault(c), 'code': sol_code(r), 'sol_len': len(r['sol']) if isinstance(r['sol'], bytes) else None,
               'sample': {'case': c['id'], 'argv': c['pre'] + ['<stub>'] + c['post'], 'options': c.get('env_opts'), 'rc': r['rc'], 'outcome': oc,
                          'sol_message': (sol_msg(r) or '')[:160]}}
    finally:
        shutil.rmtree(wd, ignore_errors=True)
    return idx, res


def is_fault(c):
    f = c.get('fault') or {}
    if f.get('type') == 'fsize':
        return f['k'] < f['n']
    return bool(f.get('type')) or c['id'].replace('san:', '').startswith('fault/')


def expand_fsize(cases, tier, bins):
    """for every 'fsize-all' case: one fault-free run gives the length n of the .sol; then one case per byte offset k in 0..n"""
    out = []
    for c in cases:
        if (c.get('fault') or {}).get('type') != 'fsize-all':
            out.append(c)
            continue
        c0 = dict(c, fault=None, cls=c['cls'] + ':fault-free')
        wd = os.path.join(WORK, tier, 'fsize-ref')
        r0 = run_once(bins[c.get('variant', 'plain')], c0, wd, HORIZON_ALONE)
        shutil.rmtree(wd, ignore_errors=True)
        n = len(r0['sol']) if isinstance(r0['sol'], bytes) else 0
        out.append(c0)
        for k in range(n + 1):
            out.append(dict(c, id='%s@%d' % (c['id'], k), cls=c['cls'] + (':k<len' if k < n else ':k=len'),
                            fault={'type': 'fsize', 'k': k, 'n': n, 'ref': r0['sol'].decode('latin-1') if n else ''}))
    return out


def sol_code(r):
    if isinstance(r['sol'], bytes):
        try: return vdriverlib.parse_sol(r['sol'].decode('latin-1'))['code']
        except (ValueError, IndexError): return None
    return None


def sol_msg(r):
    if isinstance(r['sol'], bytes):
        try: return vdriverlib.parse_sol(r['sol'].decode('latin-1'))['message']
        except (ValueError, IndexError): return None
    return None


def build_driver(variant):
    """vdriverlib.build with two differences: (1) a scratch tree ($VERIF_REPO) gets its own binary name -- the shared
    build/bin/<variant>/vdriver is used by other checks and must never be replaced by a mutated driver; (2) the sanitizer build
    of the driver TU switches off UBSan's vptr check: mp's CRTP base constructors downcast `this` to the not yet constructed
    implementation class (converter.h FlatConverter ctor), which would abort every single run before main() does anything"""
    if vbuild.REPO == '/repo' and variant == 'plain':
        return vdriverlib.build(variant)
    import hashlib
    extra = ('-fno-sanitize=vptr',) if variant == 'san' else ()
    jobs = [(os.path.join(vbuild.VERIF, 'checks/vdriver/vdriver.cc'), 'plain0' if variant == 'plain' else variant, extra, 'c09' if extra else '')]
    jobs += [(s_, variant, (), '') for s_ in vbuild.LIBMP_SRCS]
    objs = vbuild.compile_many(jobs)
    return vbuild.link('vdriver_c09_' + hashlib.sha1(vbuild.REPO.encode()).hexdigest()[:8], objs, variant)


def build(variants=('plain',)):
    return {v: build_driver(v) for v in variants}


def selftest(chk):
    """the oracle must reject a truncated .sol, a dimension mismatch, and a wrong code class"""
    c = mkcase('selftest', 'selftest', 'unsup', nl=OKM.nl(), expect={'msg': 'floor'})
    good = 'drv: unsupported: floor\n\nOptions\n3\n1\n1\n0\n1\n0\n3\n0\nobjno -1 500\n'
    def j(sol, rc=0, k=None, cc=c):
        return judge(cc, {'rc': rc, 'out': '', 'err': '', 'sol': sol.encode() if sol is not None else None, 'nl': OKM.nl()}, fault_k=k)[1]
    ok = (not j(good)) and j(good[:40], k=40) and j(good.replace('\n3\n0\nobjno', '\n4\n0\nobjno')) and j(good.replace('500', '1')) \
        and j(good.replace('floor', 'flour')) and j(None, rc=0) and j(None, rc=1)
    r1 = judge(dict(c, kind='input'), {'rc': 1, 'out': '', 'err': 'Error: /d/m.nl:2:1: expected unsigned integer', 'sol': None, 'nl': ''})[1]
    r2 = judge(dict(c, kind='input'), {'rc': 1, 'out': '', 'err': 'Error: /d/m.nl:14:1: expected expression', 'sol': None, 'nl': ''})[1]
    if not ok or r1 or not r2:
        chk.broken.append('oracle self-test failed')


def main(tier, seed):
    chk = vcheck.Check(PID, tier, 'exploration', seed)
    t0 = time.time()
    variants = ('plain', 'san') if tier == 'thorough' else ('plain',)
    bins = build(variants)
    selftest(chk)
    cases = enumerate_cases(tier)
    if tier == 'thorough':
        # sanitizer build over everything except the operator shapes and the byte-offset faults
        for c in list(cases):
            fam = c['id'].split('/')[0]
            if fam in ('shapes', 'sharing', 'uenc') or (c.get('fault') or {}).get('type') == 'fsize-all':
                continue
            if fam == 'ladder' and int(c['id'].split('/')[-1]) > 1000:
                continue          # ASan frames are several times larger: the ladder is judged on the production-like build
            if fam == 'malformed' and re.search(r'/(tok|trunc@)', c['id']) and not c['id'].startswith('malformed/' + base_models()[0][0]) \
                    and not c['id'].startswith('malformed/' + base_models()[3][0]):
                continue
            c2 = dict(c); c2['id'] = 'san:' + c['id']; c2['variant'] = 'san'
            cases.append(c2)
    shutil.rmtree(os.path.join(WORK, tier), ignore_errors=True)
    os.makedirs(os.path.join(WORK, tier), exist_ok=True)
    cases = expand_fsize(cases, tier, bins)
    results = run_all(cases, tier, bins)
    absorb(chk, cases, results, tier, bins)
    shutil.rmtree(os.path.join(WORK, tier), ignore_errors=True)
    try: os.rmdir(WORK)
    except OSError: pass
    chk.set('rule', RULE)
    chk.set('bounds', {'tier': tier, 'horizon_s': HORIZON, 'horizon_alone_s': HORIZON_ALONE, 'malformed_base_files': 5 if tier == 'quick' else 10,
                       'token_values': MUTVALS, 'truncation_byte_stride': 11 if tier == 'quick' else 3,
                       'nesting_depths': [10, 100, 1000, 10000] + ([100000] if tier == 'thorough' else []),
                       'builds': list(variants), 'fsize_fault_runs': 'every k in 0..len(.sol) for 3 runs'})
    chk.assumptions += ASSUMPTIONS
    return chk.finish()


ASSUMPTIONS = [
    '"dimensions equal those of the NL header": the .sol lines n_con and n_var equal the header counts of algebraic constraints and '
    'variables (logical constraints are not counted, as sol.h writes num_algebraic_cons); the numbers of dual/primal values are 0 or '
    'n_con / n_var. This is demanded of EVERY .sol the driver leaves, including failure reports (statement: "never ... dimensionally wrong").',
    'without -AMPL and without wantsol&1 / -s no .sol is requested: the message on stdout and exit status 0 are accepted, also for failures '
    '(documented terminal mode); with wantsol&8 (documented "suppress solution message") silence is accepted',
    'informational modes (-v -= -? -! -a -c, no stub, unknown flag) only have to terminate normally and print something',
    'sol:chk:fail with a violating scripted solution: the documented code 150 (class 100-199 "solved?") is accepted',
    'a deviating .nl (one deleted line / replaced token / truncation) may still be a valid model: any complete, dimensionally right .sol with '
    'the scripted code, 200-299 or 500-999, or a non-zero exit with a stderr diagnostic is accepted; for 200-299 the message must name infeasibility',
    'models lacking bounds: a correct conversion (scripted code) or a 500-999 failure naming bounds/big-M is accepted',
    'infeasible-by-construction models that the converter does not prove infeasible (e.g. a linear row outside the variable bounds) may be passed to the solver',
    'a model of the operator-shape family reported infeasible (200-299) must have no feasible point on its grid (reference evaluator)',
    'child limits: stack 8 MiB, address space 6 GiB (plain build), core 0; horizon 20 s, re-run alone with 120 s',
    'a .sol path that is a symlink to /dev/full or a directory counts as "no file can be written"',
    'environment options are given through vdriver_options (executable-name variable) and mp_options',
    'an NL header with 0 AMPL options makes mp write the keyword "Options" without a count; that .sol format question belongs to C05 '
    'and is not judged here (the reference parser is given the count)',
    'the scripted solver obeys the backend contract (primal vector of the delivered model\'s length or absent); codes {0,100,200,300,400,500,999}',
    'which option strings are invalid: unknown names, ill-typed values, a flag given a value, objno outside 0..n_obj, unreadable option file '
    'must be diagnosed; out-of-declared-range numbers, an empty value and an unterminated quote may also be accepted, because solver-opt.h '
    'documents declared ranges as unused and the parser is lenient there (C11 judges the parser itself)',
    'sanitizer build (thorough): ASan+UBSan without the vptr check (mp\'s CRTP constructors downcast `this` before the implementation '
    'class is constructed; that pattern is outside this property); operator shapes and byte-offset faults run on the production-like build only',
    'no .sol although requested is accepted only when the .nl cannot be opened or the stderr diagnostic locates the error in the NL header '
    '(lines 1-10, before any dimension is known); otherwise the failure has to be reported in the .sol',
]


def run_all(cases, tier, bins):
    jobs = [(i, c, tier, bins) for i, c in enumerate(cases)]
    out = {}
    with ProcessPoolExecutor(max_workers=vcheck.NCPU) as ex:
        for idx, res in ex.map(work, jobs, chunksize=8):
            out[idx] = [res]
    # timeouts: re-run alone with the long horizon before calling it a hang
    for idx, res in sorted(out.items()):
        r = res[0]
        if r['timeout']:
            c = cases[idx]
            wd = os.path.join(WORK, tier, 'alone')
            f = c.get('fault') or {}
            k = f.get('k') if f.get('type') == 'fsize' else None
            rr = run_once(bins[c.get('variant', 'plain')], c, wd, HORIZON_ALONE, fsize=k)
            oc, P = judge(c, rr, fault_k=k)
            r.update({'oc': oc + ',slow', 'P': P, 'rc': rr['rc'], 'timeout': rr['rc'] == 'timeout', 'code': sol_code(rr)})
            shutil.rmtree(wd, ignore_errors=True)
    return out


def absorb(chk, cases, results, tier, bins):
    classes = set()
    nrun = 0; n2 = n5 = nnz = nfault = nsig = 0
    agg = {}
    fam_counts = {}
    for idx in sorted(results):
        c = cases[idx]
        for r in results[idx]:
            nrun += 1
            fam = c['id'].replace('san:', '').split('/')[0] + (':san' if c.get('variant') == 'san' else '')
            fam_counts[fam] = fam_counts.get(fam, 0) + 1
            classes.add('%s -> %s' % (re.sub(r'^(malformed:[^:]+(?::[^:]+)?).*', r'\1', r['cls']), r['oc']))
            code = r.get('code')
            if code is not None and 200 <= code <= 299 and ',infeasible' in r['oc']: n2 += 1
            if code is not None and 500 <= code <= 999 and re.search(r',(invalid-option|unsupported-construct|NL-read-error|missing-bounds|other-failure)', r['oc']): n5 += 1
            if isinstance(r['rc'], int) and r['rc'] != 0: nnz += 1
            if r['fault']: nfault += 1
            if r.get('sample') and (nrun % 97 == 1 or r['P']):
                chk.sample(r['sample'], cap=10)
            for sig, det in r['P']:
                a = agg.setdefault(sig, {'n': 0, 'cases': [], 'first': det, 'first_case': c['id']})
                a['n'] += 1
                if len(a['cases']) < 8:
                    a['cases'].append(r['id'])
                if det.get('fault_offset') is not None:
                    a.setdefault('offsets', []).append(det['fault_offset'])
    for sig, a in sorted(agg.items()):
        det = dict(a['first']); det['count'] = a['n']; det['cases'] = a['cases']
        if 'offsets' in a:
            det['fault_offsets'] = '%d offsets, min %d max %d' % (len(a['offsets']), min(a['offsets']), max(a['offsets']))
            det.pop('fault_offset', None)
        chk.violation(sig, det, {'tier': tier, 'case': a['first_case']})
    chk.cov['_classes'] = classes
    chk.set('evaluations', nrun)
    chk.set('runs_per_family', fam_counts)
    chk.set('cases', len(cases))
    chk.set('runs_infeasible_by_conversion_200_299', n2); chk.set('runs_diagnosed_failure_500_999', n5); chk.set('runs_nonzero_exit', nnz)
    chk.set('fault_injected_runs', nfault)
    chk.set('states', len(classes)); chk.set('transitions', nrun)
    chk.set('traces_validated_against_impl', nrun)
    chk.set('violating_runs', sum(a['n'] for a in agg.values()))
    vcheck.finalize_classes(chk)
    if n2 == 0: chk.broken.append('vacuous: no conversion-proven infeasibility ended with a 200-299 code')
    if n5 == 0: chk.broken.append('vacuous: no driver-diagnosed failure ended with a 500-999 code')
    if nnz == 0: chk.broken.append('vacuous: no run ended with a non-zero exit status')
    if nfault == 0: chk.broken.append('vacuous: no fault-injected run')
    if chk.cov['distinct_nontrivial'] < 30: chk.broken.append('vacuous: fewer than 30 observation classes')


def replay(path):
    rp = json.load(open(path))['replay']
    tier = rp['tier']
    cid = rp['case']
    variant = 'san' if cid.startswith('san:') else 'plain'
    bins = build((variant,))
    base = cid.replace('san:', '')
    mk = re.match(r'^(fault/fsize/[^@]+)@(\d+)$', base)
    cs = [c for c in enumerate_cases(tier) if c['id'] == (mk.group(1) if mk else base)]
    if not cs:
        print('case not found: ' + cid); return 2
    os.makedirs(os.path.join(WORK, 'replay'), exist_ok=True)
    if mk:
        cs = [c for c in expand_fsize(cs, 'replay', bins) if c['id'] == base]
    c = dict(cs[0]); c['variant'] = variant
    wd = os.path.join(WORK, 'replay', 'run')
    f = c.get('fault') or {}
    k = f.get('k') if f.get('type') == 'fsize' else None
    r = run_once(bins[variant], c, wd, HORIZON_ALONE, fsize=k)
    oc, P = judge(c, r, fault_k=k)
    shutil.rmtree(os.path.join(WORK, 'replay'), ignore_errors=True)
    print(json.dumps({'case': cid, 'argv': c['pre'] + ['<stub>'] + c['post'], 'options': c.get('env_opts'), 'fault': f or None, 'rc': r['rc'], 'outcome': oc,
                      'stdout': r['out'][-500:], 'stderr': r['err'][-1500:], 'sol': r['sol'].decode('latin-1')[:1500] if isinstance(r['sol'], bytes) else r['sol'],
                      'problems': [p_[0] for p_ in P]}, indent=1))
    return 1 if P else 0


if __name__ == '__main__':
    # exploration helper:  python3 checks/C09/check.py <tier> <id-regex> [variant]
    tier, rx = sys.argv[1], sys.argv[2]
    variant = sys.argv[3] if len(sys.argv) > 3 else 'plain'
    bins = build((variant,))
    cs = [dict(c, variant=variant) for c in enumerate_cases(tier) if re.search(rx, c['id'])]
    print(len(cs), 'cases')
    os.makedirs(os.path.join(WORK, 'x'), exist_ok=True)
    cs = expand_fsize(cs, 'x', bins)
    out = run_all(cs, 'x', bins)
    tab = {}
    for idx in sorted(out):
        for r in out[idx]:
            key = (r['oc'], tuple(p[0] for p in r['P']))
            tab.setdefault(key, []).append((r['id'], r['P'][0][1] if r['P'] else None))
    for (oc, sigs), ids in sorted(tab.items()):
        print('%5d  %-32s %s' % (len(ids), oc, ' | '.join(sigs)))
        for i, d in ids[:int(os.environ.get('SHOW', '3'))]:
            print('         ', i, (json.dumps({k: v for k, v in d.items() if k in ('message', 'stderr', 'parse_error', 'sol_counts', 'code', 'sol_head')})[:400] if d else ''))
    shutil.rmtree(os.path.join(WORK, 'x'), ignore_errors=True)
