"""C20: the exported reformulation graph (cvt:writegraph) is well-formed and complete.
Driver runs (scripted full driver) over exact-fragment models x acceptance configs x names modes
x name alphabets incl. characters that need JSON escaping; every line must parse with a strict JSON
parser, all NL and delivered items must appear, each stored constraint has exactly one creation and
one final-status record, links refer to existing items, and the constraints marked final equal
the constraints recorded by the solver API in the same run."""
import json, os, sys, collections, shutil, importlib.util
from concurrent.futures import ThreadPoolExecutor
import vcheck, vbuild, vdriverlib, flatgen, graphlib, nlmodel

PID = 'C20'
WORK = os.path.join(vbuild.BUILD, 'work', 'C20')
_spec = importlib.util.spec_from_file_location('c19lib', os.path.join(vbuild.VERIF, 'checks', 'C19', 'check.py'))
c19 = importlib.util.module_from_spec(_spec); _spec.loader.exec_module(c19)


def name_sets(m):
    nv = len(m.vars) + len(m.dvars); nc = len(m.acons) + len(m.lcons); no = len(m.objs)
    yield ('absent', None, None)
    yield ('plain', ['x%d' % (i + 1) for i in range(nv)], ['c%d' % (i + 1) for i in range(nc)] + ['obj%d' % (i + 1) for i in range(no)])
    yield ('quotes', ["x['a',%d]" % (i + 1) for i in range(nv)], ['c["q",%d]' % (i + 1) for i in range(nc)] + ['o"bj'] * no)
    yield ('backslash', ['x\\%d' % (i + 1) for i in range(nv)], ['c\\n%d' % (i + 1) for i in range(nc)] + ['obj\\'] * no)
    yield ('tab-utf8', ['x\t%d' % (i + 1) for i in range(nv)], ['cé%d' % (i + 1) for i in range(nc)] + ['obj\x01'] * no)


def one(job):
    binary, idx, fam, name, m, accname, mode, label, col, row = job
    wd = os.path.join(WORK, 'r%06d' % idx)
    colt = None if col is None else ''.join(n + '\n' for n in col)
    rowt = None if row is None else ''.join(n + '\n' for n in row)
    gfile = os.path.join(wd, 'g.jsonl')
    # the export path already holds the output of an earlier run: it must be replaced, not continued
    os.makedirs(wd, exist_ok=True)
    with open(gfile, 'w') as f: f.write('{"stale": "record of an earlier run"}\nLEFT OVER FROM AN EARLIER RUN, NOT JSON\n')
    run = vdriverlib.run(binary, wd, nl_text=m.nl(), script={'acc': c19.ACC[accname], 'code': 0},
                         env_opts={'vdriver_options': 'cvt:names=%d cvt:writegraph=%s' % (mode, gfile)}, col=colt, row=rowt)
    out = []; cls = set()
    try:
        text = open(gfile, 'rb').read().decode('utf-8', errors='strict')
    except UnicodeDecodeError:
        text = open(gfile, 'rb').read().decode('latin-1'); out.append(('C20 graph file is not valid UTF-8', {}))
    except OSError:
        text = None
    d = run['dump']
    converted = d is not None and '_unparsable' not in d and (d.get('vars') or d.get('cons'))
    if text is None:
        if converted: out.append(('C20 no graph file written although the model was converted', {'rc': run['rc']}))
        shutil.rmtree(wd, ignore_errors=True)
        return out, cls, (fam, name, m.describe(), accname, mode, label), 0
    recs, probs = graphlib.parse(text)
    for kind, ln, what in probs[:3]:
        out.append(('C20 graph line is not a JSON object: %s (names %s)' % (kind, label if label in ('quotes', 'backslash', 'tab-utf8') else 'plain'),
                    {'line': ln, 'what': what}))
    if not probs and converted:
        nl_counts = {'vars': len(m.vars), 'algcons': len(m.acons), 'logcons': len(m.lcons), 'objs': len(m.objs), 'dvars': len(m.dvars)}
        tmap = d.get('types', {})
        for c in d['cons']: c['short'] = tmap.get(c['type'], c['type'])
        eqops = sorted(set(o for e in [c[0] for c in m.acons if c[0]] + list(m.lcons) + [o[1] for o in m.objs if o[1]]
                           for o in nlmodel.ops_of(e)) & {'eq', 'ne', 'numberof', 'alldiff', 'nalldiff', 'count', 'exactly', 'nexactly', 'iff'})
        for sig, det in graphlib.validate(recs, d, nl_counts):
            if 'destination of no link record' in sig: sig += ' [equality-type operators in the model: %s]' % (','.join(eqops) or 'none')
            out.append((sig, det))
    cls.add('%s|mode%d|%s|%s|links=%s' % (accname, mode, label, 'ok' if not probs else 'badjson',
                                          'y' if any('link_index' in r for r in recs) else 'n'))
    shutil.rmtree(wd, ignore_errors=True)
    return out, cls, (fam, name, m.describe(), accname, mode, label), len(recs)


def build():
    return vdriverlib.build('plain')


def main(tier, seed):
    chk = vcheck.Check(PID, tier, 'exploration', seed)
    binary = build()
    shutil.rmtree(WORK, ignore_errors=True); os.makedirs(WORK, exist_ok=True)
    jobs = []
    for fam, name, m in c19.models(tier):
        for accname in c19.ACC:
            for mode in (0, 2):
                for (label, col, row) in name_sets(m):
                    if mode == 0 and label != 'absent': continue
                    jobs.append((binary, len(jobs), fam, name, m, accname, mode, label, col, row))
    # one long model: 100 consecutive constraints abs(x_i) + x_{i+1} <= 3, each reformulated into several rows by the same
    # link object (more than 256 link entries in a row)
    from nlmodel import Model, INF
    chain = Model([(-2.0, 2.0, False, 1.0)] * 101, acons=[(('abs', ('v', i)), {i + 1: 1.0}, -INF, 3.0) for i in range(100)],
                  obj=('min', None, {0: 1.0}))
    for accname in ('mip', 'all'):
        jobs.append((binary, len(jobs), 'chain', 'chain of 100 abs constraints', chain, accname, 0, 'absent', None, None))
    # a free row (both bounds infinite), alone and next to a range row; a convex quadratic objective next to a cone-shaped
    # row for an API that accepts cones and quadratic objectives (the conic pass may reformulate the objective)
    free = Model([(0.0, 2.0, False, 0.5), (-2.0, 2.0, True, 1.0)], acons=[(None, {0: 1.0, 1: 1.0}, -INF, INF), (None, {0: 1.0, 1: -1.0}, -1.0, 2.0),
                                                                         (('abs', ('v', 1)), {0: 1.0}, -INF, INF)], obj=('min', None, {0: 1.0}))
    sq = lambda e: ('pow2', e)
    V4c = [(-1.5, 1.5, False, 0.5), (0.0, 3.0, False, 0.5), (-2.0, 2.0, False, 1.0)]
    socp = Model(V4c, acons=[(('sub', ('add', sq(('v', 0)), sq(('v', 2))), sq(('v', 1))), {}, -INF, 0.0)],
                 obj=('min', ('add', sq(('v', 0)), ('mul', ('n', 2), sq(('v', 2)))), {1: 1.0}))
    c19.ACC['cones+qobj'] = 'default=2;quadobj=1'
    for accname in ('mip', 'all'):
        for mode in (0, 2):
            jobs.append((binary, len(jobs), 'free', 'free rows', free, accname, mode, 'absent' if mode == 0 else 'plain',
                         None if mode == 0 else ['x1', 'x2'], None if mode == 0 else ['c1', 'c2', 'c3', 'obj1']))
    for accname in ('cones+qobj', 'all', 'mip'):
        jobs.append((binary, len(jobs), 'socp', 'quadratic objective + cone row', socp, accname, 0, 'absent', None, None))
        jobs.append((binary, len(jobs), 'socp', 'quadratic objective + cone row', socp, accname, 2, 'plain', ['x1', 'x2', 'x3'], ['c1', 'obj1']))
    # objectives without terms: AMPL's "minimize Feas: 0;" of a feasibility problem, and a constant-only objective
    for on, ob in (('empty objective', ('min', None, {})), ('constant objective', ('max', ('n', 3.0), {}))):
        feas = Model([(0.0, 2.0, False, 0.5), (-2.0, 2.0, True, 1.0)], acons=[(None, {0: 1.0, 1: -1.0}, -1.0, 2.0), (('abs', ('v', 1)), {0: 1.0}, -INF, 2.0)], obj=ob)
        for accname in ('mip', 'all'):
            jobs.append((binary, len(jobs), 'feas', on, feas, accname, 0, 'absent', None, None))
            jobs.append((binary, len(jobs), 'feas', on, feas, accname, 2, 'plain', ['x1', 'x2'], ['c1', 'c2', 'Feas']))
    classes = set(); n = 0; nrec = 0
    with ThreadPoolExecutor(max_workers=vcheck.NCPU) as ex:
        for out, cls, ident, k in ex.map(one, jobs):
            n += 1; nrec += k; classes |= cls
            for sig, det in out:
                det = dict(det); det['case'] = ident
                chk.violation(sig, det, {'case': ident})
            if n % 700 == 0: chk.sample({'case': ident, 'records': k})
    chk.set('evaluations', n); chk.set('graph_records_parsed', nrec)
    chk.cov['_classes'] = classes
    vcheck.finalize_classes(chk)
    chk.set('rule', 'driver runs with cvt:writegraph over the C19 model set x acceptance configs x cvt:names {0,2} x name alphabets {absent, plain, '
            'quotes, backslashes, TAB/control/UTF-8}; strict JSON parse of every line, completeness of NL and delivered items, exactly one '
            'creation and one final-status record per stored constraint with consistent flags, link references inside item classes, '
            'final==1 records equal the AddConstraint calls recorded by RecAPI; every NL constraint is the source and every stored constraint the destination of at least one link record; the export path holds stale content of an earlier run before every run (it must be replaced); one chain model with 100 consecutive reformulated constraints (> 256 link entries of one link object in a row); objectives without terms (empty, constant only). A class = (config, names mode, alphabet, parse result, links present).')
    chk.assumptions += ['the rules "every NL constraint starts a link / every stored constraint ends one" go beyond the letter of the statement (which asks that every item appears and links refer to existing items); it holds on every model and configuration of the set and is what makes a silently truncated link export visible',
                        'the k-th delivered constraint of a type corresponds to the k-th final==1 record of that type (push order)']
    if nrec < 1000: chk.broken.append('vacuous: almost no graph records parsed')
    shutil.rmtree(WORK, ignore_errors=True)
    return chk.finish()


def replay(path):
    print(open(path).read()[:3000]); return 0
