// C14: totality / memory safety / delivery protocol of the real mp::ReadSOLFile on hostile files.
//
// Inputs = (bytes, declared nvars/ncons, handler).  Families (all enumerated exhaustively):
//   base      valid text and binary files from the reference codec (same solution shapes as C05)
//   dev       0/1/2 deviations of a base file (vx::Explorer, deviation bound): every numeric token
//             <- {0,1,-1,n+1,n-1,INT_MAX,2^31,1e300,"",x}; every line deleted / duplicated; binary:
//             every int/double field, every record length (open/close) <- {0,len+1,len-1,INT_MAX},
//             record deleted / duplicated / closing length missing, raw fields emptied/x-filled/+-1 byte
//   trunc     every proper prefix of every base file
//   sufhead   suffix header lattice kind x n x namelen x tablen x tablines (text) / 4 fields (binary)
//   longline  every line of a text base replaced by lines of 510..514, 1022..1024 characters
//   misc      missing file, empty file, every 1-byte file, magic fragments
// crossed with declared sizes {0, smaller, equal, larger} and handlers {read_all, stop_after_one,
// read_none, set_error, reject_options, SOLHandler_Easy via NLSolver::ReadSolution (reversed var permutation)}.
//
// Every input runs in a forked child (batches; the child announces each input before running it, so a
// crash / sanitizer abort / hang is attributed to exactly one input, which is then re-run alone).
#include "mp/nl-solver.h"
#include "mp/nl-solver.hpp"
#include "explore.h"
#include "sol_codec.h"
#include "sol_monitor.h"
#include <climits>
#include <csignal>
#include <sys/wait.h>
#include <sys/stat.h>
#include <fcntl.h>
#include <algorithm>
#include <functional>
#include <regex>
#include <map>

using solref::Sol;
static vx::Report R;
static vx::Shard S;
static bool THOROUGH = false, COUNT_ONLY = false;

// ---------------------------------------------------------------- resource policy: refuse giant allocations
static const size_t ALLOC_LIMIT = (size_t)256 << 20;
void* operator new(size_t n) { if (n > ALLOC_LIMIT) throw std::bad_alloc(); void* p = std::malloc(n ? n : 1); if (!p) throw std::bad_alloc(); return p; }
void* operator new[](size_t n) { return operator new(n); }
void operator delete(void* p) noexcept { std::free(p); }
void operator delete[](void* p) noexcept { std::free(p); }
void operator delete(void* p, size_t) noexcept { std::free(p); }
void operator delete[](void* p, size_t) noexcept { std::free(p); }

// ---------------------------------------------------------------- inputs
enum { H_EASY = solmon::N_POLICIES, N_HANDLERS };
static const char* handler_name(int h) { return h == H_EASY ? "SOLHandler_Easy" : solmon::policy_name(h); }

struct Input {
  std::string bytes; int nvars = 0, ncons = 0, handler = 0;
  std::string family;        // class label
  bool missing_file = false;
  bool valid_base = false;   // valid file, equal sizes: must be accepted with all values delivered
};
static const int NOBJS = 2;

// ---------------------------------------------------------------- independent scan for stated suffix headers
struct Stated { long long kind, n, namelen, tablen; };
static std::vector<Stated> scan_headers(const std::string& b, bool binary) {
  std::vector<Stated> v;
  if (binary) {
    for (size_t p = b.find("\nSuffix\n"); p != std::string::npos; p = b.find("\nSuffix\n", p + 1))
      if (p + 24 <= b.size()) { int32_t h[4]; std::memcpy(h, b.data() + p + 8, 16); v.push_back({h[0], h[1], h[2], h[3]}); }
  } else {
    for (size_t p = 0; p < b.size();) {
      size_t q = b.find('\n', p); std::string l = b.substr(p, q == std::string::npos ? std::string::npos : q - p);
      if (l.compare(0, 7, "suffix ") == 0) {
        long long f[5]; int k = 0; const char* s = l.c_str() + 7;
        while (k < 5) { while (*s == ' ') ++s; if (*s < '0' || *s > '9') break; long long x = 0; while (*s >= '0' && *s <= '9') { if (x < (1LL << 40)) x = x * 10 + (*s - '0'); ++s; } f[k++] = x; }
        if (k == 5) v.push_back({f[0], f[1], f[2], f[3]});
      }
      if (q == std::string::npos) break; p = q + 1;
    }
  }
  return v;
}
static bool looks_binary(const std::string& b) { return b.size() >= 4 && b[0] == 6 && b[1] == 0 && b[2] == 0 && b[3] == 0; }

// ---------------------------------------------------------------- run one input in the current process, judge it
struct Verdict { std::string cls; std::vector<std::string> viol; long values_delivered = 0; bool error_code = false, ok = false, refusal = false; };

static std::string easy_link;   // build/work/C14/shard<i>.sol -> /proc/self/fd/N  (NLSolver appends ".sol" to a stub)
static solmon::MemFile* MF;

static Verdict run_one(const Input& in) {
  Verdict v;
  std::string path = in.missing_file ? std::string("/proc/self/fd/999999") : MF->path;
  if (!in.missing_file) MF->put(in.bytes);
  bool binary = looks_binary(in.bytes);
  if (in.handler == H_EASY) {
    mp::NLSolver nls; solmon::QuietUtils qu; nls.SetNLUtils(&qu);
    nls.SetFileStub(in.missing_file ? "/proc/self/fd/999999" : easy_link.substr(0, easy_link.size() - 4));
    nls.p_nlheader_.reset(new mp::NLHeader());
    nls.p_nlheader_->num_vars = in.nvars; nls.p_nlheader_->num_algebraic_cons = in.ncons; nls.p_nlheader_->num_objs = NOBJS;
    for (int i = 0; i < in.nvars; ++i) { nls.pd_.vperm_inv_.push_back(in.nvars - 1 - i); nls.pd_.vperm_.push_back(in.nvars - 1 - i); }
    std::string exc;
    try {
      mp::NLSolution sol = nls.ReadSolution();
      std::string err = nls.GetErrorMessage();
      v.ok = err.empty(); v.error_code = !v.ok;
      v.values_delivered = (long)sol.x_.size() + (long)sol.y_.size();
      if ((int)sol.x_.size() > in.nvars) v.viol.push_back("SOLHandler_Easy: more primal values stored than variables");
      if (in.valid_base && !binary) {   // permutation check on a valid file
        solref::Parsed rp = solref::parse_text(in.bytes, in.nvars, in.ncons);
        if (rp.ok && v.ok && rp.has_primal) for (int i = 0; i < (int)rp.primal.size(); ++i)
          if (!(sol.x_[in.nvars - 1 - i] == rp.primal[i])) v.viol.push_back("SOLHandler_Easy: primal value not stored at vperm_inv position");
      }
      v.cls = std::string("easy:") + (v.ok ? "ok" : "error");
    } catch (const std::bad_alloc&) { v.refusal = true; v.cls = "easy:bad_alloc"; }
    catch (const std::exception& e) { v.viol.push_back(std::string("escaping exception ") + typeid(e).name() + " (SOLHandler_Easy)"); v.cls = "easy:exception"; }
    return v;
  }
  solmon::Monitor mon(in.nvars, in.ncons, NOBJS, in.handler);
  solmon::Outcome o = solmon::read_sol(path, mon);
  if (o.exc == "bad_alloc") { v.refusal = true; v.cls = "resource_refusal(bad_alloc)"; return v; }
  if (!o.exc.empty()) { v.viol.push_back("escaping exception " + o.exc.substr(0, o.exc.find(':'))); v.cls = "exception"; return v; }
  v.cls = solmon::code_name(o.code);
  v.ok = o.code == NLW2_SOLRead_OK; v.error_code = !v.ok;
  if (o.code < 0 || o.code > 7) v.viol.push_back(std::string("undocumented result code ") + std::to_string(o.code));
  if (o.code != 0 && o.msg.empty()) v.viol.push_back(std::string("error code ") + solmon::code_name(o.code) + " returned with an empty message");
  if (o.code == NLW2_SOLRead_Fail_Open && !in.missing_file) v.viol.push_back("Fail_Open for an existing file");
  bool incomplete = false;
  for (auto& x : mon.vecs) {
    v.values_delivered += x.read;
    if (x.what == "dual" && x.offered > in.ncons) v.viol.push_back("more dual values offered than the problem has constraints");
    if (x.what == "primal" && x.offered > in.nvars) v.viol.push_back("more primal values offered than the problem has variables");
    if (x.offered < 0) v.viol.push_back("negative number of values offered (" + x.what + ")");
    if (x.read_failed || x.left_unfinished || x.set_error) incomplete = true;
  }
  if (incomplete && v.ok) {
    std::string w; for (auto& x : mon.vecs) if (x.read_failed || x.left_unfinished || x.set_error) { w = x.what + (x.read_failed ? " read failed" : x.set_error ? " handler SetError" : " left unfinished"); break; }
    v.viol.push_back("result OK although vector " + w);
  }
  if (!mon.sufs.empty()) {
    std::vector<Stated> st = scan_headers(in.bytes, binary);
    for (auto& d : mon.sufs) {
      bool name_ok = false, table_ok = false, any = false;
      for (auto& h : st) if (h.kind == d.kind && h.n == d.offered) {
        any = true;
        // text: the name line must have exactly namelen-1 characters; binary: namelen/tablen bytes are stated
        bool nm = binary ? (long long)d.name.size() <= h.namelen : (long long)d.name.size() == h.namelen - 1;
        bool tb = binary ? (long long)d.table.size() <= h.tablen : (long long)d.table.size() <= std::max(0LL, h.tablen - 1);
        if (nm && tb) { name_ok = table_ok = true; break; }
        if (nm) name_ok = true; if (tb) table_ok = true;
      }
      if (!any) v.viol.push_back("suffix delivered whose kind/count no header in the file states");
      else if (!name_ok) v.viol.push_back(binary ? "suffix name delivered longer than the namelen bytes stated in the binary header"
                                                 : "suffix name delivered with a length different from the stated namelen-1 (text)");
      else if (!table_ok) v.viol.push_back(std::string("suffix table delivered longer than the stated tablen (") + (binary ? "binary" : "text") + ")");
      if (name_ok && table_ok) for (auto& h : st) if (h.kind == d.kind && h.n == d.offered && (long long)d.table.size() < h.tablen - 1 && h.tablen > 0) { v.cls += "+table_shorter_than_stated"; break; }
    }
  }
  if (in.valid_base && in.handler == solmon::READ_ALL) {
    solref::Parsed rp = binary ? solref::parse_binary(in.bytes, in.nvars, in.ncons) : solref::parse_text(in.bytes, in.nvars, in.ncons);
    bool same = rp.ok && v.ok && rp.dual == mon.rec.dual && rp.primal == mon.rec.primal && rp.suffixes.size() == mon.rec.suffixes.size() &&
                rp.has_objno == mon.rec.has_objno && (!rp.has_objno || rp.objno == mon.rec.objno);
    if (same) for (size_t i = 0; i < rp.suffixes.size(); ++i) if (rp.suffixes[i].name != mon.rec.suffixes[i].name || rp.suffixes[i].table != mon.rec.suffixes[i].table || rp.suffixes[i].values != mon.rec.suffixes[i].values) same = false;
    v.cls += same ? "+valid_base_delivered_as_reference" : (rp.ok ? "+VALID_BASE_NOT_DELIVERED" : "+reference_parser_rejects_base");
  }
  return v;
}

// ---------------------------------------------------------------- forked batch execution
struct Result { int idx; bool done = false; std::string line; };
static std::string sanitize_line(std::string s) { for (auto& c : s) if (c == '\n' || c == '\r' || c == '\t') c = ' '; return s; }

static int make_memfd(const char* n) { return memfd_create(n, 0); }
static std::string slurp_fd(int fd) { std::string o; char b[8192]; off_t off = 0; for (;;) { ssize_t r = pread(fd, b, sizeof b, off); if (r <= 0) break; o.append(b, (size_t)r); off += r; } return o; }

// ---- symbolization in the parent (children run with symbolize=0: no symbolizer process per report)
static std::string EXE;
static std::map<std::string, std::vector<std::pair<std::string, std::string>>> SYMCACHE;   // "0xoff" -> [(function, file)] innermost first
static std::string short_function(std::string f) {
  // drop parameters, template arguments and a leading return type
  std::string o; int depth = 0;
  for (char c : f) { if (c == '<') { ++depth; continue; } if (c == '>') { if (depth) --depth; continue; } if (depth) continue; if (c == '(') break; o += c; }
  size_t sp = o.rfind(' '); if (sp != std::string::npos) o = o.substr(sp + 1);
  return o;
}
static void symbolize(const std::vector<std::string>& offs) {
  std::string cmd = "llvm-symbolizer --obj=" + EXE + " -f -C -i"; bool need = false;
  for (auto& o : offs) if (!SYMCACHE.count(o)) { cmd += " " + o; need = true; }
  if (!need) return;
  cmd += " 2>/dev/null";
  FILE* p = popen(cmd.c_str(), "r"); if (!p) return;
  std::string out; char b[4096]; size_t n; while ((n = fread(b, 1, sizeof b, p)) > 0) out.append(b, n); pclose(p);
  std::vector<std::string> L = solref::split_lines(out); size_t li = 0;
  for (auto& o : offs) if (!SYMCACHE.count(o)) {
    std::vector<std::pair<std::string, std::string>> fr;
    while (li + 1 < L.size() && !L[li].empty()) {
      std::string file = L[li + 1]; size_t sl = file.rfind('/'); if (sl != std::string::npos) file = file.substr(sl + 1); size_t co = file.find(':'); if (co != std::string::npos) file = file.substr(0, co);
      fr.push_back({short_function(L[li]), file}); li += 2;
    }
    while (li < L.size() && L[li].empty()) ++li;
    SYMCACHE[o] = fr;
  }
}

// classify a dead child from its stderr text
static std::string classify_death(int status, const std::string& err) {
  auto is_lib = [](const std::string& file) { return file.find("sol-reader2") != std::string::npos || file.find("nl-solver") != std::string::npos || file.find("nl-utils") != std::string::npos || file.find("sol-handler") != std::string::npos; };
  auto frame_func = [&](size_t from) -> std::string {
    // first stack frame (inlined frames included) that lies in the library sources, else the innermost frame
    std::vector<std::string> offs; std::vector<std::pair<std::string, std::string>> frames;   // symbolized frames in order
    size_t p = from;
    for (int k = 0; k < 10; ++k) {
      p = err.find("\n    #", p); if (p == std::string::npos) break; size_t e = err.find('\n', p + 1); std::string l = err.substr(p + 1, e == std::string::npos ? std::string::npos : e - p - 1);
      size_t in = l.find(" in ");
      if (in != std::string::npos) {          // already symbolized (symbolize=1)
        std::string rest = l.substr(in + 4); size_t fp = rest.rfind(" /"); std::string fn = fp == std::string::npos ? rest : rest.substr(0, fp); std::string file = fp == std::string::npos ? "" : rest.substr(fp + 1);
        size_t sl = file.rfind('/'); if (sl != std::string::npos) file = file.substr(sl + 1); size_t co = file.find(':'); if (co != std::string::npos) file = file.substr(0, co);
        frames.push_back({short_function(fn), file});
      } else {
        size_t m = l.find(EXE.empty() ? std::string("\1") : EXE + "+0x");
        if (m != std::string::npos) { size_t a = m + EXE.size() + 1; size_t z = l.find(')', a); std::string off = l.substr(a, z - a); offs.push_back(off); frames.push_back({"@" + off, ""}); }
      }
      p = e == std::string::npos ? err.size() : e - 1;
    }
    if (!offs.empty()) symbolize(offs);
    std::string first;
    for (auto& f : frames) {
      std::vector<std::pair<std::string, std::string>> fr; if (f.first[0] == '@') fr = SYMCACHE[f.first.substr(1)]; else fr.push_back(f);
      for (auto& x : fr) { std::string d = x.first + " (" + x.second + ")"; if (first.empty()) first = d; if (is_lib(x.second)) return d; }
    }
    return first.empty() ? "?" : first;
  };
  // numbers outside quoted type names become N
  auto norm_digits = [](const std::string& s) {
    static const std::regex hexnum("0x[0-9a-fA-F]+");
    static const std::regex num("[0-9]+(\\.[0-9]+)?(e[+-]?[0-9]+)?");   // a leading '-' is kept: -N is a different class
    std::string o; size_t i = 0; bool quoted = false;
    while (i <= s.size()) {
      size_t q = s.find('\'', i); std::string part = s.substr(i, q == std::string::npos ? std::string::npos : q - i);
      o += quoted ? part : std::regex_replace(std::regex_replace(part, hexnum, "0xN"), num, "N");
      if (q == std::string::npos) break; o += '\''; quoted = !quoted; i = q + 1;
    }
    return o; };
  size_t p;
  if ((p = err.find("runtime error: ")) != std::string::npos) {
    size_t e = err.find('\n', p); std::string m = err.substr(p + 15, e == std::string::npos ? std::string::npos : e - p - 15);
    if (m.compare(0, 24, "signed integer overflow:") == 0) { size_t t = m.find("in type "); m = "signed integer overflow " + (t == std::string::npos ? std::string() : m.substr(t)); }
    return "UBSan " + norm_digits(m) + " in " + frame_func(p);
  }
  if ((p = err.find("ERROR: AddressSanitizer: ")) != std::string::npos) {
    size_t e = err.find_first_of(" \n", p + 25); std::string kind = err.substr(p + 25, e - p - 25);
    return "ASan " + kind + " in " + frame_func(p);
  }
  if (WIFSIGNALED(status)) {
    int sg = WTERMSIG(status);
    if (sg == SIGALRM) return "hang (no result within the 20 s horizon)";
    return std::string("killed by signal ") + std::to_string(sg) + " " + sanitize_line(err.substr(0, 120));
  }
  return "child exited with status " + std::to_string(WEXITSTATUS(status)) + " " + sanitize_line(err.substr(0, 160));
}

struct BatchOut { std::vector<Verdict> verdicts; std::vector<char> have; int crashed_at = -1; std::string death; std::string err_tail; };

// runs inputs[from..) in one child until it finishes or dies; fills verdicts for completed ones
static void run_child(const std::vector<Input>& inputs, size_t from, BatchOut& out) {
  int rfd = make_memfd("res"), efd = make_memfd("err");
  std::fflush(stdout);
  pid_t pid = fork();
  if (pid == 0) {
    dup2(efd, 2);
    for (size_t k = from; k < inputs.size(); ++k) {
      char b[32]; int n = std::snprintf(b, sizeof b, "S %zu\n", k); if (write(rfd, b, n) < 0) {}
      alarm(20);
      Verdict v = run_one(inputs[k]);
      alarm(0);
      std::string l = "R " + std::to_string(k) + "\t" + sanitize_line(v.cls) + "\t" + std::to_string(v.values_delivered) + "\t" + (v.ok ? "1" : "0") + (v.error_code ? "1" : "0") + (v.refusal ? "1" : "0");
      for (auto& x : v.viol) l += "\t" + sanitize_line(x);
      l += "\n";
      if (write(rfd, l.data(), l.size()) < 0) {}
    }
    _exit(0);
  }
  int status = 0; waitpid(pid, &status, 0);
  std::string res = slurp_fd(rfd), err = slurp_fd(efd);
  close(rfd); close(efd);
  long started = -1;
  for (auto& l : solref::split_lines(res)) {
    if (l.compare(0, 2, "S ") == 0) started = std::atol(l.c_str() + 2);
    else if (l.compare(0, 2, "R ") == 0) {
      std::vector<std::string> f; size_t p = 2; for (;;) { size_t q = l.find('\t', p); f.push_back(l.substr(p, q == std::string::npos ? std::string::npos : q - p)); if (q == std::string::npos) break; p = q + 1; }
      size_t k = (size_t)std::atol(f[0].c_str()); Verdict v; v.cls = f[1]; v.values_delivered = std::atol(f[2].c_str());
      v.ok = f[3][0] == '1'; v.error_code = f[3][1] == '1'; v.refusal = f[3][2] == '1';
      for (size_t i = 4; i < f.size(); ++i) v.viol.push_back(f[i]);
      out.verdicts[k] = v; out.have[k] = 1; if ((long)k == started) started = -1;
    }
  }
  bool clean = WIFEXITED(status) && WEXITSTATUS(status) == 0 && started < 0;
  if (!clean) { out.crashed_at = started >= 0 ? (int)started : (int)from; out.death = classify_death(status, err); out.err_tail = err.substr(0, 1800); }
}

static std::string input_replay_json(const Input& in) {
  return "{\"hex\":\"" + solref::hex_encode(in.bytes) + "\",\"nvars\":" + std::to_string(in.nvars) + ",\"ncons\":" + std::to_string(in.ncons) +
         ",\"handler\":" + std::to_string(in.handler) + ",\"missing\":" + (in.missing_file ? "1" : "0") + "}";
}
static std::string input_detail_json(const Input& in, const std::string& extra) {
  std::string shown = in.bytes.size() > 700 ? in.bytes.substr(0, 700) : in.bytes;
  return "{\"family\":\"" + vx::jesc(in.family) + "\",\"file_bytes\":\"" + vx::jesc(shown) + "\",\"file_size\":" + std::to_string(in.bytes.size()) +
         ",\"declared_nvars\":" + std::to_string(in.nvars) + ",\"declared_ncons\":" + std::to_string(in.ncons) + ",\"handler\":\"" + handler_name(in.handler) +
         "\",\"observation\":\"" + vx::jesc(extra) + "\"}";
}

static std::vector<Input> BATCH;
static long long N_INPUTS = 0;

static void account(const Input& in, const Verdict& v) {
  R.stat("inputs"); R.stat("family_" + in.family.substr(0, in.family.find(':')));
  if (v.ok) R.stat("outcome_ok"); if (v.error_code) R.stat("outcome_error_code"); if (v.refusal) R.stat("outcome_resource_refusal");
  R.stat("values_delivered_to_handlers", v.values_delivered);
  R.stat(std::string("handler_") + handler_name(in.handler));
  R.cls(in.family.substr(0, in.family.find(':')) + " / " + handler_name(in.handler) + " / " + v.cls);
  if (in.valid_base && in.handler == solmon::READ_ALL) { if (v.cls.find("+valid_base_delivered_as_reference") != std::string::npos) R.stat("valid_base_files_delivered_as_reference"); else R.stat("valid_base_files_not_delivered"); }
  for (auto& x : v.viol) R.violation("C14 " + x, input_detail_json(in, v.cls), input_replay_json(in));
  static std::set<std::string> sampled;     // one concrete input per family prefix (evidence samples)
  if (S.i < 2 && sampled.insert(in.family.substr(0, in.family.find(':'))).second) R.sample(input_detail_json(in, v.cls));
}

static void flush_batch() {
  if (BATCH.empty()) return;
  BatchOut out; out.verdicts.resize(BATCH.size()); out.have.assign(BATCH.size(), 0);
  size_t from = 0;
  while (from < BATCH.size()) {
    out.crashed_at = -1;
    run_child(BATCH, from, out);
    if (out.crashed_at < 0) break;
    size_t k = (size_t)out.crashed_at;
    // confirm alone in a fresh child (the batch child has history); after a signature has been confirmed
    // CONFIRM_FIRST times in this shard, further deaths with the same signature are taken as observed
    static std::map<std::string, int> confirmed;
    BatchOut o2; o2.verdicts.resize(1); o2.have.assign(1, 0);
    if (confirmed[out.death] < 3) { std::vector<Input> solo{BATCH[k]}; run_child(solo, 0, o2); if (o2.crashed_at == 0 && o2.death == out.death) ++confirmed[out.death]; R.stat("deaths_confirmed_alone"); }
    else { o2.crashed_at = 0; o2.death = out.death; o2.err_tail = out.err_tail; }
    R.stat("inputs"); R.stat("outcome_crash_or_hang"); R.stat("family_" + BATCH[k].family.substr(0, BATCH[k].family.find(':')));
    R.stat(std::string("handler_") + handler_name(BATCH[k].handler));
    if (o2.crashed_at == 0) {
      R.cls(BATCH[k].family.substr(0, BATCH[k].family.find(':')) + " / " + handler_name(BATCH[k].handler) + " / DIED: " + o2.death);
      R.violation("C14 " + o2.death, input_detail_json(BATCH[k], o2.err_tail), input_replay_json(BATCH[k]));
    } else
      R.broken("input died inside a batch (" + out.death + ") but not when run alone: " + input_replay_json(BATCH[k]).substr(0, 300));
    out.have[k] = 2;
    from = k + 1;
  }
  for (size_t k = 0; k < BATCH.size(); ++k) if (out.have[k] == 1) account(BATCH[k], out.verdicts[k]);
  BATCH.clear();
}
static long long COUNTER = 0;     // global input index over the index-sharded families
static void emit(const Input& in, bool sharded_by_index = true) {
  if (sharded_by_index) { long long k = COUNTER++; if (!S.mine(k)) return; }
  ++N_INPUTS; BATCH.push_back(in);
  if (BATCH.size() >= 1024) flush_batch();
}

// ---------------------------------------------------------------- base solutions (same shapes as the C05 generator)
static solref::Suffix mk_suffix(int kind, const char* name, const char* table, std::vector<std::pair<int, double>> vals) {
  solref::Suffix f; f.kind = kind; f.name = name; f.table = table; f.values = vals; return f;
}
struct Base { std::string name; Sol s; };
static std::vector<Base> bases() {
  std::vector<Base> b;
  auto def = [] { Sol s; s.mp_zero_options_quirk = false; s.message = "abc"; s.options = {1, 1, 0}; s.nvars = 3; s.ncons = 2; s.primal = {1.5, -2.25, 1e-3}; s.dual = {0.5, -4}; s.objno = 0; s.solve_code = 0; return s; };
  { Sol s = def(); b.push_back({"default", s}); }
  { Sol s = def(); s.options_section = false; s.solve_code = 502; b.push_back({"no_options_section", s}); }
  { Sol s = def(); s.options = {1, 3, 0}; s.vbtol_form = true; s.vbtol = 1e-6; s.solve_code = 100; b.push_back({"vbtol_form", s}); }
  { Sol s = def(); s.options = {1, 1, 0, 0, 0, 0, 0, 0, 2}; s.objno = 1; s.solve_code = 999; b.push_back({"nine_options", s}); }
  { Sol s = def(); s.message = "\b\bxy 1.0: optimal\n\na b\r\nOptions\nobjno 0 0"; s.solve_code = -1; b.push_back({"multiline_message", s}); }
  { Sol s = def(); s.message = ""; b.push_back({"empty_message", s}); }
  { Sol s = def(); s.primal.clear(); s.dual.clear(); s.solve_code = 200; b.push_back({"no_vectors", s}); }
  { Sol s = def(); s.suffixes.push_back(mk_suffix(0, "sstatus", "", {{2, 1}})); b.push_back({"var_int_suffix_sparse", s}); }
  { Sol s = def(); s.suffixes.push_back(mk_suffix(1 | 4, "dualslack", "0 none", {{0, 0.5}, {1, -1e-7}})); b.push_back({"con_real_suffix_table1", s}); }
  { Sol s = def(); s.suffixes.push_back(mk_suffix(2, "objprio", "1 low lower bound\n2 upp upper bound\n3 equ equal", {{0, 1}, {1, 7}}));
    s.suffixes.push_back(mk_suffix(3 | 4, "relmipgap", "", {{0, 1e20}})); b.push_back({"obj_int_table3_and_problem_real", s}); }
  { Sol s = def(); const char* kn[] = {"v", "c", "o", "p"};
    for (int k = 0; k < 4; ++k) for (int r = 0; r < 2; ++r) s.suffixes.push_back(mk_suffix(k | (r ? 4 : 0), (std::string(kn[k]) + (r ? "real" : "int")).c_str(), r ? "1 a\n2 b" : "", {{0, r ? 0.25 : 3.0}}));
    b.push_back({"all_eight_suffixes", s}); }
  { Sol s = def(); s.has_objno = false; b.push_back({"no_objno_line", s}); }
  { Sol s = def(); s.nvars = 0; s.ncons = 0; s.primal.clear(); s.dual.clear(); s.suffixes.push_back(mk_suffix(3, "npool", "", {{0, 4}})); b.push_back({"empty_problem", s}); }
  { Sol s = def(); s.suffixes.push_back(mk_suffix(0 | 8, "iodecl", "", {})); s.suffixes.push_back(mk_suffix(1, "empty_with_table", "0 x", {})); b.push_back({"suffixes_without_values", s}); }
  return b;
}

struct Sizes { int nvars, ncons; const char* name; };
static std::vector<Sizes> size_variants(const Sol& s) {
  return {{s.nvars, s.ncons, "equal"}, {0, 0, "zero"}, {std::max(0, s.nvars - 1), std::max(0, s.ncons - 1), "smaller"}, {s.nvars + 2, s.ncons + 2, "larger"}};
}

// ---------------------------------------------------------------- deviations through vx::Explorer
static const char* TEXT_ALTS[] = {"0", "1", "-1", "+1", "-1n", "2147483647", "2147483648", "1e300", "", "x", "nan", "inf", "-inf", "-2147483649", "0.5"};
static std::string text_alt(const std::string& tok, int a) {
  if (a == 3 || a == 4) { char* e; double v = std::strtod(tok.c_str(), &e); double w = v + (a == 3 ? 1 : -1);
    if (tok.find_first_of(".eEn") == std::string::npos) return std::to_string((long long)w); return solref::fmt_g16(w); }
  return TEXT_ALTS[a];
}

// Sharding of the 2-deviation spaces: the subtree below the FIRST deviation at choice point p belongs to
// shard p mod n.  A shard that meets a foreign first deviation abandons the execution at once; the
// explorer then never sees the choice points below it, so the whole foreign subtree costs one partial run.
struct SkipSubtree {};
static bool FIRSTDEV_SHARDING = false;
static int NDEV = 0;
static int pick(vx::Explorer& ex, int n, const char* label) {
  size_t idx = ex.pos; int c = ex.choose(n, label);
  if (c != 0) { ++NDEV; if (FIRSTDEV_SHARDING && NDEV == 1 && !S.mine((long long)idx)) throw SkipSubtree(); }
  return c;
}

static std::string deviate_text(const Sol& s, vx::Explorer& ex) {
  solref::TextDoc d = solref::build_text(s), o;
  for (auto& l : d.lines) {
    int lc = pick(ex, 3, "line keep/delete/duplicate");
    if (lc == 1) continue;
    solref::Line m = l;
    if (lc == 0) for (auto& t : m.t) if (t.numeric) { int a = pick(ex, 16, "token"); if (a) t.s = text_alt(t.s, a - 1); }
    o.lines.push_back(m); if (lc == 2) o.lines.push_back(m);
  }
  return o.render();
}
static std::string deviate_binary(const Sol& s, vx::Explorer& ex) {
  solref::BinDoc d = solref::build_binary(s), o;
  for (auto& r0 : d.recs) {
    int rc = pick(ex, 3, "record keep/delete/duplicate");
    if (rc == 1) continue;
    solref::Record r = r0;
    if (rc == 0) {
      uint32_t len = (uint32_t)r.payload().size();
      int lo = pick(ex, 5, "open length"); if (lo) { r.open_override = true; r.open_len = lo == 1 ? 0 : lo == 2 ? len + 1 : lo == 3 ? len - 1 : 2147483647u; }
      int lc = pick(ex, 6, "close length"); if (lc == 5) r.no_close = true; else if (lc) { r.close_override = true; r.close_len = lc == 1 ? 0 : lc == 2 ? len + 1 : lc == 3 ? len - 1 : 2147483647u; }
      for (auto& f : r.f) {
        if (f.type == solref::Field::I32) { int a = pick(ex, 8, "int field");
          switch (a) { case 1: f.i = 0; break; case 2: f.i = 1; break; case 3: f.i = -1; break; case 4: f.i = (int32_t)((uint32_t)f.i + 1u); break;
                       case 5: f.i = (int32_t)((uint32_t)f.i - 1u); break; case 6: f.i = INT_MAX; break; case 7: f.i = INT_MIN; break; default: break; } }
        else if (f.type == solref::Field::F64) { int a = pick(ex, 7, "double field"); if (a) f.d = a == 1 ? 0 : a == 2 ? 1 : a == 3 ? -1 : a == 4 ? f.d + 1 : a == 5 ? 1e300 : NAN; }
        else { int a = pick(ex, 5, "raw field"); if (a == 1) f.raw.clear(); else if (a == 2) f.raw.assign(f.raw.size(), 'x'); else if (a == 3 && !f.raw.empty()) f.raw.pop_back(); else if (a == 4) f.raw += 'y'; }
      }
    }
    o.recs.push_back(r); if (rc == 2) o.recs.push_back(r);
  }
  return o.render();
}

// ---------------------------------------------------------------- families
static void family_base_and_dev(const std::vector<Base>& B) {
  // bound 1: combos (base, format, sizes, handler) are dealt to shards round-robin and every sequence
  // with <= 1 deviation is executed inside the combo.
  // bound 2 (thorough; read_all and SOLHandler_Easy at equal sizes): every shard walks the combo and owns
  // the subtrees below 'its' first-deviation points (see pick()).
  long long combo = 0;
  for (size_t bi = 0; bi < B.size(); ++bi) for (int binary = 0; binary < 2; ++binary) {
    auto SZ = size_variants(B[bi].s);
    for (size_t zi = 0; zi < SZ.size(); ++zi) for (int h = 0; h < N_HANDLERS; ++h) {
      // quick: all handlers at equal sizes, all sizes with read_all / Easy; thorough: full cross product
      bool wanted = THOROUGH || zi == 0 || h == solmon::READ_ALL || h == H_EASY;
      if (!wanted) continue;
      // 2 deviations (thorough, equal sizes): read_all on every base except the 8-suffix one (its 2-deviation
      // space alone is 1.1M; it stays in the 1-deviation family), SOLHandler_Easy on three bases
      int bound = 1;
      if (THOROUGH && zi == 0) {
        const std::string& bn = B[bi].name;
        if (h == solmon::READ_ALL && bn != "all_eight_suffixes") bound = 2;
        if (h == H_EASY && (bn == "default" || bn == "var_int_suffix_sparse" || bn == "con_real_suffix_table1")) bound = 2;
      }
      long long c = combo++;
      if (bound == 1 && !S.mine(c)) continue;
      vx::Explorer ex; ex.max_deviations = bound;
      FIRSTDEV_SHARDING = bound == 2;
      ex.run_all([&] {
        Input in; in.nvars = SZ[zi].nvars; in.ncons = SZ[zi].ncons; in.handler = h;
        NDEV = 0;
        try { in.bytes = binary ? deviate_binary(B[bi].s, ex) : deviate_text(B[bi].s, ex); }
        catch (const SkipSubtree&) { return; }
        int nd = NDEV;
        if (bound == 2 && nd == 0 && S.i != 0) return;
        in.family = std::string(nd == 0 ? "base" : nd == 1 ? "dev1" : "dev2") + (binary ? "_binary" : "_text") + ":" + B[bi].name + ":" + SZ[zi].name;
        in.valid_base = nd == 0 && zi == 0;
        if (!COUNT_ONLY) emit(in, false);
        if (nd) R.stat(nd == 1 ? "deviation1_inputs" : "deviation2_inputs");
      });
      R.stat("explorer_executions", ex.executions); R.stat("explorer_choice_points", ex.choice_points);
      if (COUNT_ONLY) std::fprintf(stderr, "combo %s %s %s %s bound=%d executions=%lld\n", B[bi].name.c_str(), binary ? "binary" : "text", SZ[zi].name, handler_name(h), bound, ex.executions);
    }
  }
}

static void family_truncation(const std::vector<Base>& B) {
  for (size_t bi = 0; bi < B.size(); ++bi) for (int binary = 0; binary < 2; ++binary) {
    std::string full = binary ? solref::encode_binary(B[bi].s) : solref::encode_text(B[bi].s);
    auto SZ = size_variants(B[bi].s);
    for (size_t zi = 0; zi < SZ.size(); ++zi) for (int h = 0; h < N_HANDLERS; ++h) {
      if (!(THOROUGH || zi == 0)) continue;
      for (size_t len = 0; len < full.size(); ++len) {
        Input in; in.nvars = SZ[zi].nvars; in.ncons = SZ[zi].ncons; in.handler = h; in.bytes = full.substr(0, len);
        in.family = std::string("trunc") + (binary ? "_binary" : "_text") + ":" + B[bi].name + ":" + SZ[zi].name;
        emit(in);
      }
    }
  }
}

static void family_sufhead() {
  std::vector<long> L = THOROUGH ? std::vector<long>{0, 1, 2, 7, 15, 16, 18, 511, 512, 100000} : std::vector<long>{0, 1, 2, 16, 18, 512, 100000};
  Sol pre; pre.mp_zero_options_quirk = false; pre.message = "m"; pre.options = {1, 1, 0}; pre.nvars = 3; pre.ncons = 2; pre.primal = {1, 2, 3}; pre.dual = {4, 5};
  std::string tpre = solref::encode_text(pre), bpre = solref::encode_binary(pre);
  std::vector<std::string> ttails = {"", "ab\n1 low\n2 up\n0 1\n1 2\n2 3\n", std::string(15, 'n') + "\n" + std::string(600, 't') + "\n0 1\n",
                                     std::string(511, 'n') + "\n" + std::string(14, 't') + "\n0 1\n1 2\n"};
  if (!THOROUGH) ttails.resize(2); else ttails.erase(ttails.begin() + 2);
  for (long kind : L) for (long n : L) for (long nl : L) for (long tl : L) for (long tn : L) for (size_t t = 0; t < ttails.size(); ++t) {
    Input in; in.nvars = 3; in.ncons = 2; in.handler = solmon::READ_ALL;
    in.bytes = tpre + "suffix " + std::to_string(kind) + " " + std::to_string(n) + " " + std::to_string(nl) + " " + std::to_string(tl) + " " + std::to_string(tn) + "\n" + ttails[t];
    in.family = "sufhead_text:tail" + std::to_string(t);
    emit(in);
  }
  std::vector<std::string> btails = {"", std::string("ab\0t\0", 5) + std::string(59, '\1'), std::string(1100, 'z')};
  if (!THOROUGH) btails.erase(btails.begin());
  for (long kind : L) for (long n : L) for (long nl : L) for (long tl : L) for (size_t t = 0; t < btails.size(); ++t) for (int lenmode = 0; lenmode < 2; ++lenmode) {
    Input in; in.nvars = 3; in.ncons = 2; in.handler = solmon::READ_ALL;
    solref::Record r; r.f.push_back(solref::Field::R("\nSuffix\n", "m"));
    for (long v : {kind, n, nl, tl}) r.f.push_back(solref::Field::I((int32_t)v, "h"));
    r.f.push_back(solref::Field::R(btails[t], "tail"));
    if (lenmode) { r.open_override = r.close_override = true; r.open_len = r.close_len = 24 + (uint32_t)nl + (uint32_t)tl + (uint32_t)n * ((kind & 4) ? 12 : 8); }
    in.bytes = bpre + r.render();
    in.family = "sufhead_binary:tail" + std::to_string(t);
    emit(in);
  }
}

static void family_longline(const std::vector<Base>& B) {
  for (size_t bi = 0; bi < B.size(); ++bi) {
    solref::TextDoc d = solref::build_text(B[bi].s);
    for (size_t li = 0; li < d.lines.size(); ++li) for (int len : {510, 511, 512, 513, 514, 1022, 1023, 1024}) for (int style = 0; style < 3; ++style)
      for (int h : {(int)solmon::READ_ALL, (int)H_EASY}) {
        solref::TextDoc m = d; std::string cur; for (size_t i = 0; i < m.lines[li].t.size(); ++i) { if (i) cur += ' '; cur += m.lines[li].t[i].s; }
        std::string nl = style == 0 ? cur + std::string((size_t)len > cur.size() ? len - cur.size() : 0, ' ') : std::string(len, style == 1 ? 'x' : '1');
        m.lines[li].t = {{nl, false}};
        Input in; in.nvars = B[bi].s.nvars; in.ncons = B[bi].s.ncons; in.handler = h; in.bytes = m.render();
        in.family = "longline:" + B[bi].name + ":" + d.lines[li].role;
        emit(in);
      }
  }
}

static void family_misc() {
  for (int h = 0; h < N_HANDLERS; ++h) {
    { Input in; in.missing_file = true; in.handler = h; in.nvars = 1; in.ncons = 1; in.family = "misc:missing_file"; emit(in); }
    { Input in; in.handler = h; in.nvars = 1; in.ncons = 1; in.family = "misc:empty_file"; emit(in); }
    for (int c = 0; c < 256; ++c) for (int rep : {1, 2, 600}) { Input in; in.handler = h; in.nvars = 1; in.ncons = 1; in.bytes = std::string(rep, (char)c); in.family = "misc:single_byte_value"; emit(in); }
    for (const char* frag : {"\n", "\n\n", "\nO", "\nOptions", "\nOptions\n", "\n\nobjno", "\nobjno 0 0\nsuffix", "\n1\n1\nobjno 1e300 1e300\n", "\n1\n1\nobjno -1e300 0\n", "\n1\n1\nobjno 0 1e300\n",
                             "\nOptions\n3\n1\n1\n0\n1\n1\n1\n1\n1\n1\nobjno 0 0\nsuffix 0 0 2147483647 0 0\n", "\nOptions\n3\n1\n1\n0\n1\n1\n1\n1\n1\n1\nobjno 0 0\nsuffix 0 0 2 2147483647 1\n",
                             "\nOptions\n3\n1\n1\n0\n1\n1\n1\n1\n1\n1\nobjno 0 0\nsuffix 0 0 2 2147483000 1\nab\n", "\nOptions\n3\n1\n1\n0\n1\n1\n1\n1\n1\n1\nobjno 0 0\nsuffix 0 99999999999 2 0 0\n",
                             "\nOptions\n3\n1\n1\n0\n1\n1\n1\n1\n1\n1\nobjno 0 0\nsuffix 0 0 513 0 0\nab\n", "\nOptions\n3\n1\n1\n0\n1\n1\n1\n1\n1\n1\nobjno 0 0\nsuffix 0 0 514 0 0\nab\n"})
      { Input in; in.handler = h; in.nvars = 1; in.ncons = 1; in.bytes = frag; in.family = "misc:fragment"; emit(in); }
    std::string magic("\6\0\0\0binary\6\0\0\0", 14);
    for (size_t l = 0; l <= magic.size(); ++l) { Input in; in.handler = h; in.nvars = 1; in.ncons = 1; in.bytes = magic.substr(0, l) + std::string("\377\377\377\177", 4); in.family = "misc:binary_magic_then_huge_length"; emit(in); }
  }
}

int main(int argc, char** argv) {
  S.parse(argc, argv);
  THOROUGH = vx::has_flag(argc, argv, "--thorough"); COUNT_ONLY = vx::has_flag(argc, argv, "--count-only");
  solmon::MemFile mf; MF = &mf;
  { char b[4096]; ssize_t n = readlink("/proc/self/exe", b, sizeof b - 1); if (n > 0) EXE.assign(b, (size_t)n); }
  const char* work = vx::arg_value(argc, argv, "--work", "build/work/C14");
  mkdir(work, 0777);
  easy_link = std::string(work) + "/shard" + std::to_string(S.i) + "_" + std::to_string((long)getpid()) + ".sol";
  unlink(easy_link.c_str());
  if (!mf.ok() || symlink(mf.path.c_str(), easy_link.c_str()) != 0) { R.broken("cannot create scratch memfd/symlink"); R.done(); return 0; }

  const char* one = vx::arg_value(argc, argv, "--one");
  if (one) {   // --one <hex> --nvars N --ncons M --handler H [--missing 1]
    Input in; in.bytes = solref::hex_decode(one); in.nvars = std::atoi(vx::arg_value(argc, argv, "--nvars", "0")); in.ncons = std::atoi(vx::arg_value(argc, argv, "--ncons", "0"));
    in.handler = std::atoi(vx::arg_value(argc, argv, "--handler", "0")); in.missing_file = std::atoi(vx::arg_value(argc, argv, "--missing", "0")) != 0; in.family = "replay:";
    BATCH.push_back(in); flush_batch(); unlink(easy_link.c_str()); R.done(); return 0;
  }

  // self-test of the monitor/oracle: a forged over-offer and a forged incomplete-but-OK must be flagged
  {
    std::vector<Stated> st = scan_headers("x\nsuffix 4 2 5 7 1\nname\n", false);
    bool ok = st.size() == 1 && st[0].kind == 4 && st[0].n == 2 && st[0].namelen == 5 && st[0].tablen == 7;
    std::string dead = classify_death(256, "x.hpp:542:13: runtime error: index 99999 out of bounds for type 'char[512]'\n    #0 0x55 in gsufread /repo/nl-writer2/include/mp/sol-reader2.hpp:542:13\n    #1 0x66 in main x.cc:1\n");
    ok = ok && dead == "UBSan index N out of bounds for type 'char[512]' in gsufread (sol-reader2.hpp)";
    if (!ok) R.broken("oracle self-test failed: " + dead);
  }

  std::vector<Base> B = bases();
  family_base_and_dev(B); flush_batch();
  family_truncation(B);
  family_sufhead();
  family_longline(B);
  family_misc();
  flush_batch();
  unlink(easy_link.c_str());
  R.stat("bases", S.i == 0 ? (long long)B.size() : 0);
  R.done();
  return 0;
}
