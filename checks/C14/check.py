"""C14 SOL reader totality/safety: valid files from the reference codec with 0/1/2 deviations, every
truncation, suffix-header lattice, long lines, declared sizes x handlers; each input in a forked child
under ASan+UBSan(+float-cast-overflow) with a delivery-protocol monitor."""
import json, os, shutil, subprocess, sys
import vbuild, vcheck

PID = 'C14'
WORK = os.path.join(vcheck.VERIF, 'build', 'work', PID)


def build():
    return vbuild.build_program('c14_solsafe', 'sanfc', ['checks/C14/solsafe_harness.cc'], mp_srcs=vbuild.NLW2_SRCS)


def main(tier, seed):
    chk = vcheck.Check(PID, tier, 'exploration', seed)
    os.makedirs(WORK, exist_ok=True)
    binary = build()
    args = ['--work', WORK] + (['--thorough'] if tier == 'thorough' else [])
    # children are forked from the shard process: no symbolizer process per sanitizer report (the harness
    # symbolizes distinct frames itself, once)
    env = {'ASAN_OPTIONS': 'detect_leaks=0:abort_on_error=0:allocator_may_return_null=1:symbolize=0',
           'UBSAN_OPTIONS': 'print_stacktrace=1:symbolize=0'}
    res = vcheck.run_shards(binary, 16, args, env=env, timeout=3000)
    vcheck.absorb(chk, res)
    chk.cov['evaluations'] = chk.cov.get('inputs', 0)
    vcheck.finalize_classes(chk)
    chk.set('bounds', {
        'base_solutions': 14, 'formats': ['text', 'binary (reference codec)'],
        'deviation_bound': '1 (quick: all handlers at equal sizes + all sizes for read_all/Easy; thorough: full cross product); 2 in thorough at equal sizes for read_all on 13 bases and SOLHandler_Easy on 3 bases',
        'token_alternatives': ['0', '1', '-1', 'n+1', 'n-1', '2147483647', '2147483648', '1e300', '(empty)', 'x', 'nan', 'inf', '-inf', '-2147483649', '0.5'],
        'binary_alternatives': {'int': ['0', '1', '-1', 'n+1', 'n-1', 'INT_MAX', 'INT_MIN'], 'double': ['0', '1', '-1', 'n+1', '1e300', 'NaN'],
                                'record_length_open_close': ['0', 'len+1', 'len-1', 'INT_MAX', 'closing length missing'],
                                'raw': ['emptied', 'x-filled', 'one byte shorter', 'one byte longer'], 'record': ['deleted', 'duplicated']},
        'suffix_header_lattice': [0, 1, 2, 7, 15, 16, 18, 511, 512, 100000] if tier == 'thorough' else [0, 1, 2, 16, 18, 512, 100000],
        'line_lengths': [510, 511, 512, 513, 514, 1022, 1023, 1024],
        'declared_sizes': ['equal', 'zero', 'smaller', 'larger'],
        'handlers': ['read_all', 'stop_after_one', 'read_none', 'set_error', 'reject_options', 'SOLHandler_Easy via NLSolver::ReadSolution (reversed permutation)'],
        'alloc_limit_bytes': 256 << 20, 'hang_horizon_s': 20})
    chk.set('rule',
            'Every member of the families base/dev1/dev2/trunc/sufhead/longline/misc (see bounds) x declared sizes x handlers is '
            'written to an in-memory file and read by the real mp::ReadSOLFile (or NLSolver::ReadSolution) in a forked child of an '
            'ASan+UBSan (non-recoverable) build; the child announces each input before running it, so a sanitizer abort, crash or '
            'alarm is attributed to one input, which is re-run alone. Oracle per input: terminates; no sanitizer report; result is '
            'a documented code, errors carry a message; no escaping exception (std::bad_alloc above the 256 MB allocation limit '
            'counts as resource_refusal); dual/primal values offered <= declared constraints/variables; a delivered suffix matches '
            'a header stated in the file (kind, count, name length; table not longer than stated); a failed/unfinished/refused '
            'vector implies result != OK. A class is (family, handler, outcome).')
    chk.assumptions += [
        'the library only writes text .sol; binary base files come from ref/sol_codec.h (ASL record layout as parsed by the reader: '
        '[len]payload[len] records, "binary" magic, one record per message line, empty record, Options record, duals, primals, objno, suffix records)',
        'suffix table length: delivery of a table SHORTER than the stated tablen is accepted (the reader only bounds the table by tablen; '
        'counted as class table_shorter_than_stated); a LONGER table or a name whose length differs from namelen-1 (text) / exceeds '
        'namelen-1 (binary) is a violation',
        'std::bad_alloc escaping from the reader for an allocation above 256 MB (operator new replaced in the harness) is resource_refusal, not a violation',
        'message contents are not judged here (C05 does); a valid base file that is not delivered like the reference parser sees it is only counted',
        'a handler never calls ReadNext() when Size()==0 and never returns before the reader allows it (the documented handler contract)',
    ]
    if not chk.cov.get('outcome_error_code'):
        chk.broken.append('vacuity guard: no input produced an error-code outcome')
    if not chk.cov.get('values_delivered_to_handlers'):
        chk.broken.append('vacuity guard: no handler was ever offered/delivered a value')
    if not chk.cov.get('valid_base_files_delivered_as_reference'):
        chk.broken.append('vacuity guard: no valid base file was read back completely')
    for h in ('read_all', 'stop_after_one', 'read_none', 'set_error', 'reject_options', 'SOLHandler_Easy'):
        if not chk.cov.get('handler_' + h):
            chk.broken.append('vacuity guard: handler %s never ran' % h)
    shutil.rmtree(WORK, ignore_errors=True)
    return chk.finish()


def replay(path):
    r = json.load(open(path))['replay']
    os.makedirs(WORK, exist_ok=True)
    binary = build()
    args = [binary, '--work', WORK, '--one', r['hex'] or '00'[:0], '--nvars', str(r['nvars']), '--ncons', str(r['ncons']),
            '--handler', str(r['handler']), '--missing', str(r.get('missing', 0))]
    env = dict(os.environ, ASAN_OPTIONS='detect_leaks=0:abort_on_error=0:allocator_may_return_null=1:symbolize=0',
               UBSAN_OPTIONS='print_stacktrace=1:symbolize=0', LC_ALL='C')
    p = subprocess.run(args, capture_output=True, text=True, env=env, errors='replace')
    print(p.stdout)
    sys.stderr.write(p.stderr[-3000:])
    shutil.rmtree(WORK, ignore_errors=True)
    return 1 if '"violation"' in p.stdout else 0
