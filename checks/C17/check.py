"""C17 SafeInt: all operand pairs (8-bit), all values x dense lattice (16-bit, thorough) + boundary lattices of wider types vs __int128."""
import json, os, subprocess, sys
import vbuild, vcheck

PID = 'C17'

def build():
    return vbuild.build_program('c17_safeint', 'san', ['checks/C17/safeint_harness.cc'],
                                mp_srcs=['src/format.cc', 'src/posix.cc'])

def main(tier, seed):
    chk = vcheck.Check(PID, tier, 'exploration', seed)
    binary = build()
    args = ['--thorough'] if tier == 'thorough' else []
    res = vcheck.run_shards(binary, 16, args, timeout=3600)
    vcheck.absorb(chk, res)
    chk.cov['evaluations'] = chk.cov.get('ops', 0) + chk.cov.get('conversions', 0) + chk.cov.get('mixed_ops', 0)
    vcheck.finalize_classes(chk)
    chk.set('rule', 'every operand pair of SafeInt<int8/uint8> x {+,-,*} (thorough adds, for int16/uint16, every value paired in both operand orders with a dense value lattice: all |v|<=300, 300 next to min/max, 2^k+-3, quotient neighbourhoods, every 61st value); full cross '
            'product of a boundary lattice (min,max,+-2^k+-1, sqrt and quotient neighbourhoods) for 16/32/64-bit '
            'types; converting constructor over all (U,T) pairs; mixed overloads. Oracle: __int128 exact result. '
            'A class is (type, op, outcome exact|overflow, operand sign pattern); distinct_nontrivial counts classes '
            'observed.')
    chk.set('bounds', {'exhaustive_pair_types': ['int8', 'uint8'], 'all_values_x_dense_lattice_types': (['int16', 'uint16'] if tier == 'thorough' else []),
                       'lattice_types': ['int16', 'uint16', 'int32', 'uint32', 'long', 'ulong', 'llong', 'ullong']})
    chk.assumptions += ['clang UBSan (-fno-sanitize-recover) active: any signed overflow inside SafeInt aborts the shard',
                        'mixed-operand overloads are only required to be exact-or-throw (operand conversion may throw)']
    return chk.finish()

def replay(path):
    r = json.load(open(path))['replay']
    binary = build()
    p = subprocess.run([binary, '--one', r['type'], r['op'], r['a'], r['b']], capture_output=True, text=True)
    print(p.stdout)
    return 1 if '"violation"' in p.stdout else 0
