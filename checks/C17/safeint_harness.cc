// C17: exhaustive operand-pair exploration of mp::SafeInt<T> against __int128 arithmetic.
#include "mp/safeint.h"
#include "explore.h"
#include <limits>
#include <type_traits>
#include <typeinfo>

typedef __int128 i128;
static vx::Report R;
static vx::Shard S;

template <class T> const char* tname();
#define TN(T, s) template <> const char* tname<T>() { return s; }
TN(signed char, "int8") TN(unsigned char, "uint8") TN(short, "int16") TN(unsigned short, "uint16")
TN(int, "int32") TN(unsigned, "uint32") TN(long, "long") TN(unsigned long, "ulong")
TN(long long, "llong") TN(unsigned long long, "ullong")

static std::string s128(i128 v) {
  if (v == 0) return "0";
  bool neg = v < 0; unsigned __int128 u = neg ? -(unsigned __int128)v : (unsigned __int128)v;
  std::string s; while (u) { s.insert(s.begin(), char('0' + (int)(u % 10))); u /= 10; }
  return neg ? "-" + s : s;
}

// exact result of x op y for |x|,|y| < 2^64; products are formed in unsigned __int128 (magnitudes
// < 2^128) so the oracle itself cannot overflow; a product of magnitude >= 2^127 is reported as
// not representable with a saturated value.
static i128 exact_op(char op, i128 x, i128 y, i128 lo, i128 hi, bool& representable) {
  i128 r;
  if (op == '+') r = x + y; else if (op == '-') r = x - y;
  else {
    typedef unsigned __int128 u128;
    bool neg = (x < 0) != (y < 0);
    u128 ux = x < 0 ? (u128)(-x) : (u128)x, uy = y < 0 ? (u128)(-y) : (u128)y;
    u128 m = ux * uy;
    if (m >> 126) { representable = false; return neg ? -((i128)1 << 126) : ((i128)1 << 126); }
    r = neg ? -(i128)m : (i128)m;
  }
  representable = r >= lo && r <= hi;
  return r;
}
template <class T> static const char* sgn(T v) { return v < 0 ? "n" : v == 0 ? "z" : "p"; }

static unsigned long long g_ops = 0;
static std::vector<void (*)()> g_flush;
template <class T> struct ClassTable {
  static ClassTable* self;
  char seen[3][2][3][3] = {};
  ClassTable() { self = this; g_flush.push_back(&ClassTable::flush); }
  static void flush() {
    static const char OPS[] = "+-*"; static const char* SG[] = {"n", "z", "p"};
    for (int o = 0; o < 3; ++o) for (int t = 0; t < 2; ++t) for (int x = 0; x < 3; ++x) for (int y = 0; y < 3; ++y)
      if (self->seen[o][t][x][y])
        R.classes.insert(std::string(tname<T>()) + OPS[o] + (t ? ":overflow:" : ":exact:") + SG[x] + SG[y]);
  }
};
template <class T> ClassTable<T>* ClassTable<T>::self = nullptr;
template <class T> static ClassTable<T>& class_table() { static ClassTable<T> t; return t; }

// one binary operation: compare against the exact result
template <class T, class F>
static inline void check_op(char op, T a, T b, F f) {
  bool representable; i128 exact = exact_op(op, (i128)a, (i128)b, (i128)std::numeric_limits<T>::min(),
                                             (i128)std::numeric_limits<T>::max(), representable);
  bool threw = false; T got = 0;
  try { got = val(f(mp::SafeInt<T>(a), mp::SafeInt<T>(b))); } catch (const mp::OverflowError&) { threw = true; }
  ++g_ops;
  const char* kind = nullptr;
  if (representable) {
    if (threw) kind = exact == (i128)std::numeric_limits<T>::min() && std::is_signed<T>::value
                      ? "spurious-overflow-exact-result-is-min" : "spurious-overflow";
    else if ((i128)got != exact) kind = "wrong-value";
  } else if (!threw) kind = "wrapped-no-overflow-error";
  if (kind) {
    std::string sig = std::string("SafeInt<") + tname<T>() + "> op" + op + " " + kind;
    R.violation(sig, "{\"a\":\"" + s128(a) + "\",\"b\":\"" + s128(b) + "\",\"exact\":\"" + s128(exact) +
                "\",\"threw\":" + (threw ? "true" : "false") + ",\"got\":\"" + s128(got) + "\"}",
                "{\"type\":\"" + std::string(tname<T>()) + "\",\"op\":\"" + op + "\",\"a\":\"" + s128(a) +
                "\",\"b\":\"" + s128(b) + "\"}");
  }
  // observation class (type, op, outcome, operand signs): counted in a flat table, named when flushed
  ClassTable<T>& tab = class_table<T>();
  tab.seen[op == '+' ? 0 : op == '-' ? 1 : 2][threw ? 1 : 0][a < 0 ? 0 : a == 0 ? 1 : 2][b < 0 ? 0 : b == 0 ? 1 : 2] = 1;
}

template <class T> static void all_ops(T a, T b) {
  check_op<T>('+', a, b, [](mp::SafeInt<T> x, mp::SafeInt<T> y) { return x + y; });
  check_op<T>('-', a, b, [](mp::SafeInt<T> x, mp::SafeInt<T> y) { return x - y; });
  check_op<T>('*', a, b, [](mp::SafeInt<T> x, mp::SafeInt<T> y) { return x * y; });
}

// all pairs of an 8-bit type; for a 16-bit type (thorough) every value paired with a dense lattice of values, in both
// operand orders (all 2^32 pairs cost ~7 CPU hours under the sanitizers because most of them throw)
template <class T> static std::vector<long> dense16() {
  long lo = std::numeric_limits<T>::min(), hi = std::numeric_limits<T>::max();
  std::set<long> s;
  auto add = [&](long v) { if (v >= lo && v <= hi) s.insert(v); };
  for (long d = 0; d <= 300; ++d) { add(d); add(-d); add(lo + d); add(hi - d); }
  for (int k = 1; k < 16; ++k) for (long d = -3; d <= 3; ++d) { add((1L << k) + d); add(-(1L << k) + d); }
  for (long q : {3L, 5L, 7L, 10L, 100L, 181L, 182L, 255L, 256L}) for (long d = -2; d <= 2; ++d) { add(hi / q + d); add(lo / q + d); }
  for (long v = lo; v <= hi; v += 61) add(v);
  return std::vector<long>(s.begin(), s.end());
}
template <class T> static void exhaustive_pairs() {
  long lo = std::numeric_limits<T>::min(), hi = std::numeric_limits<T>::max();
  long long npairs = 0;
  if (sizeof(T) == 1) {
    for (long a = lo; a <= hi; ++a) {
      if (!S.mine(a - lo)) continue;
      for (long b = lo; b <= hi; ++b) all_ops<T>((T)a, (T)b);
      npairs += hi - lo + 1;
    }
  } else {
    std::vector<long> D = dense16<T>(); std::vector<char> inD(hi - lo + 1, 0); for (long v : D) inD[v - lo] = 1;
    for (long a = lo; a <= hi; ++a) {
      if (!S.mine(a - lo)) continue;
      for (long b : D) { all_ops<T>((T)a, (T)b); ++npairs; if (!inD[a - lo]) { all_ops<T>((T)b, (T)a); ++npairs; } }
    }
    R.stats[std::string("dense16_values_") + tname<T>()] = (long long)D.size();
  }
  R.stats[std::string("pairs_exhaustive_") + tname<T>()] += npairs;
}

// boundary lattice of a wide type: min, min+1, +-2^k-1, +-2^k, +-2^k+1, -2..2, max-1, max,
// and floor(sqrt)-neighbourhoods (where multiplication overflow flips)
template <class T> static std::vector<T> lattice() {
  std::set<i128> s;
  i128 lo = std::numeric_limits<T>::min(), hi = std::numeric_limits<T>::max();
  auto add = [&](i128 v) { if (v >= lo && v <= hi) s.insert(v); };
  for (int d = -2; d <= 2; ++d) { add(d); add(lo + (d + 2)); add(hi - (d + 2)); }
  for (int k = 1; k < 64; ++k) for (int d = -1; d <= 1; ++d) { add(((i128)1 << k) + d); add(-((i128)1 << k) + d); }
  for (i128 q : {(i128)3, (i128)5, (i128)7, (i128)10, (i128)46340, (i128)46341, (i128)65535, (i128)65536,
                 (i128)3037000499LL, (i128)3037000500LL, (i128)4294967295LL, (i128)4294967296LL}) {
    add(q); add(-q); add(hi / q); add(hi / q + 1); add(lo / q); add(lo / q - 1); add(hi / q - 1); add(lo / q + 1);
  }
  std::vector<T> v; for (i128 x : s) v.push_back((T)x); return v;
}
template <class T> static void lattice_pairs() {
  auto L = lattice<T>();
  for (size_t i = 0; i < L.size(); ++i) {
    if (!S.mine((long long)i)) continue;
    for (size_t j = 0; j < L.size(); ++j) all_ops<T>(L[i], L[j]);
  }
}

// converting constructor SafeInt<T>(U)
template <class T, class U> static void conv_one(U u) {
  i128 exact = (i128)u;
  bool representable = exact >= (i128)std::numeric_limits<T>::min() && exact <= (i128)std::numeric_limits<T>::max();
  bool threw = false; T got = 0;
  try { got = val(mp::SafeInt<T>(u)); } catch (const mp::OverflowError&) { threw = true; }
  R.stats["conversions"]++;
  const char* kind = nullptr;
  if (representable) { if (threw) kind = "spurious-overflow"; else if ((i128)got != exact) kind = "wrong-value"; }
  else if (!threw) kind = "truncated-no-overflow-error";
  if (kind)
    R.violation(std::string("SafeInt<") + tname<T>() + ">(" + tname<U>() + ") " + kind,
                "{\"value\":\"" + s128(exact) + "\",\"got\":\"" + s128(got) + "\"}",
                "{\"conv\":[\"" + std::string(tname<T>()) + "\",\"" + tname<U>() + "\"],\"v\":\"" + s128(exact) + "\"}");
  R.classes.insert(std::string("conv:") + tname<T>() + "<-" + tname<U>() + (threw ? ":overflow" : ":exact"));
}
template <class T, class U> static void conv_pair(bool full16) {
  if (std::is_same<T, U>::value) return;
  if (sizeof(U) <= (full16 ? 2 : 1)) {
    long lo = std::numeric_limits<U>::min(), hi = std::numeric_limits<U>::max();
    for (long v = lo; v <= hi; ++v) conv_one<T, U>((U)v);
  } else {
    for (U v : lattice<U>()) conv_one<T, U>(v);
  }
}
template <class T> static void conv_all(bool full16) {
  conv_pair<T, signed char>(full16); conv_pair<T, unsigned char>(full16); conv_pair<T, short>(full16);
  conv_pair<T, unsigned short>(full16); conv_pair<T, int>(full16); conv_pair<T, unsigned>(full16);
  conv_pair<T, long>(full16); conv_pair<T, unsigned long>(full16); conv_pair<T, long long>(full16);
  conv_pair<T, unsigned long long>(full16);
}

// mixed-operand overloads SafeInt<T> op U / U op SafeInt<T>: whenever a value is returned it is
// exact; when U's value is representable in T the outcome equals the homogeneous operation.
template <class T, class U> static void mixed() {
  auto LT = lattice<T>(); auto LU = lattice<U>();
  for (size_t i = 0; i < LT.size(); i += 3) for (size_t j = 0; j < LU.size(); j += 3) {
    T a = LT[i]; U b = LU[j];
    for (int side = 0; side < 2; ++side) for (char op : {'+', '-', '*'}) {
      i128 x = side ? (i128)b : (i128)a, y = side ? (i128)a : (i128)b;
      bool rep; i128 exact = exact_op(op, x, y, (i128)std::numeric_limits<T>::min(), (i128)std::numeric_limits<T>::max(), rep);
      bool brep = (i128)b >= (i128)std::numeric_limits<T>::min() && (i128)b <= (i128)std::numeric_limits<T>::max();
      bool threw = false; T got = 0;
      try {
        mp::SafeInt<T> sa(a);
        got = side == 0 ? (op == '+' ? val(sa + b) : op == '-' ? val(sa - b) : val(sa * b))
                        : (op == '+' ? val(b + sa) : op == '-' ? val(b - sa) : val(b * sa));
      } catch (const mp::OverflowError&) { threw = true; }
      R.stats["mixed_ops"]++;
      const char* kind = nullptr;
      if (!threw && (!rep || (i128)got != exact)) kind = "wrapped-or-wrong-value";
      if (threw && rep && brep) kind = "spurious-overflow";
      if (kind)
        R.violation(std::string("mixed SafeInt<") + tname<T>() + "> op" + op + " " + tname<U>() + " " + kind,
                    "{\"a\":\"" + s128(a) + "\",\"b\":\"" + s128(b) + "\",\"side\":" + std::to_string(side) + "}");
    }
  }
}

int main(int argc, char** argv) {
  S.parse(argc, argv);
  bool thorough = vx::has_flag(argc, argv, "--thorough");
  if (const char* rp = vx::arg_value(argc, argv, "--one")) {   // replay: type op a b
    std::string t = rp; char op = argv[argc - 3][0]; long long a = atoll(argv[argc - 2]), b = atoll(argv[argc - 1]);
#define ONE(T) if (t == tname<T>()) { if (op=='+') check_op<T>('+',(T)a,(T)b,[](mp::SafeInt<T> x, mp::SafeInt<T> y){return x+y;}); \
      if (op=='-') check_op<T>('-',(T)a,(T)b,[](mp::SafeInt<T> x, mp::SafeInt<T> y){return x-y;}); \
      if (op=='*') check_op<T>('*',(T)a,(T)b,[](mp::SafeInt<T> x, mp::SafeInt<T> y){return x*y;}); }
    ONE(signed char) ONE(unsigned char) ONE(short) ONE(unsigned short) ONE(int) ONE(unsigned) ONE(long)
    ONE(unsigned long) ONE(long long) ONE(unsigned long long)
    R.stats["ops"] += g_ops; for (auto f : g_flush) f();
    R.done(); return 0;
  }
  exhaustive_pairs<signed char>(); exhaustive_pairs<unsigned char>();
  if (thorough) { exhaustive_pairs<short>(); exhaustive_pairs<unsigned short>(); }
  lattice_pairs<short>(); lattice_pairs<unsigned short>();
  lattice_pairs<int>(); lattice_pairs<unsigned>(); lattice_pairs<long>(); lattice_pairs<unsigned long>();
  lattice_pairs<long long>(); lattice_pairs<unsigned long long>();
  if (S.i == 0) {
    conv_all<signed char>(thorough); conv_all<unsigned char>(thorough); conv_all<short>(thorough);
    conv_all<unsigned short>(thorough); conv_all<int>(thorough); conv_all<unsigned>(thorough);
    conv_all<long>(thorough); conv_all<unsigned long>(thorough); conv_all<long long>(thorough);
    conv_all<unsigned long long>(thorough);
    mixed<int, long long>(); mixed<int, unsigned>(); mixed<unsigned, int>(); mixed<std::size_t, int>();
    mixed<int, std::size_t>(); mixed<long long, unsigned long long>(); mixed<short, int>();
    R.sample("{\"type\":\"int8\",\"op\":\"*\",\"a\":-2,\"b\":64,\"exact\":-128}");
    R.sample("{\"type\":\"uint8\",\"op\":\"-\",\"a\":3,\"b\":5,\"exact\":-2,\"expect\":\"OverflowError\"}");
    R.sample("{\"conv\":\"SafeInt<int>(unsigned long long)\",\"v\":\"18446744073709551615\"}");
  }
  R.stats["ops"] += g_ops; for (auto f : g_flush) f();
  R.done();
  return 0;
}
