"""C13 piecewise-linear approximation: 17 constraint types x parameters x argument intervals x tolerances x
integrality on the real mp::PLApproximate<Con>, judged by a long-double libm reference with per-segment
extremum search and a dense grid.  One forked child per case with a 10 s horizon; timed-out cases are re-run
with a 120 s horizon before they are called non-terminating (horizons are CPU time of the child)."""
import json, os, subprocess, sys
from concurrent.futures import ThreadPoolExecutor
import vbuild, vcheck

PID = 'C13'
NSHARDS = 16
FNS = ['Exp', 'Log', 'ExpA', 'LogA', 'Pow', 'Sin', 'Cos', 'Tan', 'Asin', 'Acos', 'Atan', 'Sinh', 'Cosh', 'Tanh',
       'Asinh', 'Acosh', 'Atanh']
MAX_RERUN_GROUPS = 6


def build():
    return vbuild.build_program('c13_plapprox', 'san', ['checks/C13/plapprox_harness.cc'],
                                mp_srcs=['src/format.cc', 'src/posix.cc', 'src/mp/flat/piecewise_linear.cpp'])


def case_args(c):
    return ['--one', '--fn', c['fn'], '--prm', repr(float(c['prm'])), '--lb', repr(float(c['lb'])),
            '--ub', repr(float(c['ub'])), '--ubErr', repr(float(c['ubErr'])), '--xint', '1' if c['xint'] else '0',
            '--ivc', c.get('ivc', 'pair')]


def sig_name(c):
    s = c['fn']
    if c['fn'] in ('ExpA', 'LogA', 'Pow'):
        s += '(%g)' % c['prm']
    return s


def merge_violations(results):
    """Shards report one line per signature with the worst case they saw; keep the globally worst one per
    signature (deterministic) and sum the case counts, then hand the merged lines to vcheck.absorb."""
    best = {}
    timeouts = []
    probes = []
    new_results = []
    for rc, out, err in results:
        keep = []
        for line in out.splitlines():
            t = line.strip()
            if t.startswith('{"type":"violation"'):
                try:
                    r = json.loads(t)
                except ValueError:
                    keep.append(line)
                    continue
                d = r.get('detail') or {}
                cur = best.get(r['sig'])
                rank = float(d.get('rank', 0) or 0)
                cases = int(d.get('cases', 1) or 1)
                if cur is None:
                    best[r['sig']] = [rank, r, cases]
                else:
                    cur[2] += cases
                    if rank > cur[0]:
                        cur[0], cur[1] = rank, r
                continue
            if t.startswith('{"type":"timeout"'):
                timeouts.append(json.loads(t)['case'])
                continue
            if t.startswith('{"type":"probe"'):
                probes.append(json.loads(t))
                continue
            keep.append(line)
        new_results.append((rc, '\n'.join(keep) + '\n', err))
    merged = []
    for sig in sorted(best):
        rank, r, cases = best[sig]
        r['detail']['cases'] = cases
        merged.append(json.dumps(r))
    if new_results:
        rc, out, err = new_results[0]
        new_results[0] = (rc, '\n'.join(merged) + '\n' + out, err)
    return new_results, timeouts, probes


def rerun_timeouts(chk, binary, timeouts):
    """The first timed-out case of every function instance is re-run with a 120 s (CPU) horizon."""
    if not timeouts:
        return
    groups = {}
    for c in timeouts:
        groups.setdefault(sig_name(c), []).append(c)
    keys = sorted(groups)
    chosen = keys[:MAX_RERUN_GROUPS]
    if len(keys) > MAX_RERUN_GROUPS:
        chk.not_exhaustive('more than %d distinct timeout groups (%d); only the first %d were re-run with the '
                           '120 s horizon' % (MAX_RERUN_GROUPS, len(keys), MAX_RERUN_GROUPS))

    def one(k):
        c = groups[k][0]
        p = subprocess.run([binary] + case_args(c) + ['--horizon', '120'], capture_output=True, text=True,
                           env=dict(os.environ, ASAN_OPTIONS='detect_leaks=0', LC_ALL='C'))
        return k, c, p
    # the horizon is CPU time of the child (setitimer ITIMER_PROF), so co-running re-runs do not shorten it
    with ThreadPoolExecutor(max_workers=MAX_RERUN_GROUPS) as ex:
        reruns = list(ex.map(one, chosen))
    for k, c, p in reruns:
        chk.add('timeouts_rerun_120s')
        recs = vcheck.parse_jsonl(p.stdout)
        status = [r for r in recs if r.get('type') == 'status']
        st = status[0]['v'] if status else 'no-status'
        if st == 'timeout':
            chk.violation('%s non-termination (120 s CPU horizon)' % k,
                          {'case': c, 'timed_out_cases_of_this_function': len(groups[k]), 'horizon_s': 120,
                           'tolerances': sorted(set(g['ubErr'] for g in groups[k]))}, c)
        else:
            chk.add('timeouts_finished_within_120s')
            for r in recs:
                if r.get('type') == 'violation':
                    chk.violation(r['sig'], r.get('detail'), r.get('replay'))
            # a case that needs more than 10 s alone is slow, not wrong; it is counted
            chk.cov.setdefault('slow_cases', []).append(c)


def main(tier, seed):
    chk = vcheck.Check(PID, tier, 'exploration', seed)
    binary = build()
    args = ['--horizon', '10']
    if tier == 'thorough':
        args += ['--thorough', '--probe-pow0']
    res = vcheck.run_shards(binary, NSHARDS, args, timeout=3000)
    res, timeouts, probes = merge_violations(res)
    vcheck.absorb(chk, res)
    rerun_timeouts(chk, binary, timeouts)
    chk.cov['evaluations'] = chk.cov.get('cases', 0)
    if probes:
        chk.set('unjudged_probes', probes)
    # ---- vacuity guards
    if chk.cov.get('cases', 0) + chk.cov.get('skipped_after_timeouts', 0) != chk.cov.get('space_cases', -1):
        chk.broken.append('executed %s (+%s skipped) cases of an enumerated space of %s'
                          % (chk.cov.get('cases'), chk.cov.get('skipped_after_timeouts', 0), chk.cov.get('space_cases')))
    for fn in FNS:
        if chk.cov.get('judged_' + fn, 0) == 0:
            chk.broken.append('constraint type %s produced zero judged approximations' % fn)
    if chk.cov.get('judged_periodic', 0) == 0:
        chk.broken.append('no periodic approximation was judged')
    if chk.cov.get('period_boundaries_checked', 0) == 0:
        chk.broken.append('no period boundary was checked for continuity')
    if chk.cov.get('judged_int_shortcut', 0) == 0:
        chk.broken.append('no integer-shortcut approximation was judged')
    if chk.cov.get('refusals', 0) == 0:
        chk.broken.append('no refusal (exception) path was executed')
    if chk.cov.get('stationary_points', 0) == 0 or chk.cov.get('probes', 0) == 0:
        chk.broken.append('the error oracle evaluated nothing')
    if chk.cov.get('oracle_selftests_passed', 0) == 0:
        chk.broken.append('oracle self-test did not run')
    chk.set('violation_signatures', sorted(v['sig'] for v in chk.violations))
    chk.set('violation_cases', {v['sig']: (v['detail'] or {}).get('cases') for v in chk.violations
                                if isinstance(v.get('detail'), dict)})
    vcheck.finalize_classes(chk)
    chk.set('rule', 'every case of: 17 PLApproximate<Con> instantiations (ExpA/LogA x bases {0.5,2,e,10}, Pow x exponents '
            '{-2,-1,-0.5,0.5,1.5,2,3,4}: 30 function instances) x argument intervals (all ordered pairs lb<ub of the interval '
            'alphabet + tiny [a,a+1e-5] + point [a,a]) x ubErr alphabet x is_x_int {false,true}; grDom y-range = +-1e6 '
            '(default cvt:plapprox:domain). One forked child per case, 10 s horizon. Oracle per delivered approximation: '
            'finite; breakpoints strictly increasing; first/last breakpoint == reported domain (1e-9 rel); on every segment '
            '|f-pl| <= ubErr*max(1,|f|)*(1+1e-6) at endpoints, 63 grid points, 76 geometric points towards both ends, bisected '
            'stationary points of the absolute and of the relative error on each monotone piece of f\', pre-images of +-1; '
            'periodic: the same for x = P*k + r over the reachable (k,r), coverage, continuity at period boundaries; integer '
            'argument: error at the integers of the domain, exactness when #points == #integers. A class is (function, mode, '
            'tightness band | refusal kind | violated clause).')
    chk.set('bounds', {
        'interval_alphabet': ('-1e6,-100,-7.3,-pi,-1,-1e-3,0,1e-3,0.1,1,pi,7.3,100,1e6' if tier == 'thorough'
                              else '-1e6,-7.3,-1,0,1e-3,0.1,1,pi,100,1e6'),
        'ubErr': [1e-1, 1e-2, 1e-3, 1e-4] + ([1e-5, 1e-6] if tier == 'thorough' else []),
        'bases': [0.5, 2, 'e', 10], 'exponents': [-2, -1, -0.5, 0.5, 1.5, 2, 3, 4],
        'horizon_s': 10, 'rerun_horizon_s': 120, 'grid_points_per_segment': 64 + 76,
        'period_boundaries_per_case': 'all when the factor range has <= 50 values, else 11 (both ends, around 0, middle)'})
    chk.assumptions += [
        'tolerance = ubErr exactly as passed in PLApproxParams: FuncConConverter_MIP_CRTP::Convert copies cvt:plapprox:reltol '
        'into laPrm.ubErr unchanged and the approximator never adjusts it',
        '"relative where |f| exceeds 1, absolute otherwise" is read as |f(x)-pl(x)| <= ubErr*max(1,|f(x)|) with f the true '
        'function (the same reading as maxErrorRelAbove1); 1e-6 relative slack on the bound',
        'the domain "reported as covered" is [grDomOut.lbx, grDomOut.ubx] (what Convert passes to NarrowVarBounds); for a '
        'periodic approximation it is the set {periodLength*k + r : k integer in periodicFactorRange, r in '
        'periodRemainderRange} intersected with [grDomOut.lbx, grDomOut.ubx] (the LinConEQ Convert adds); the margins around '
        'the poles of tan that this set leaves out are not demanded; first/last breakpoint are compared with '
        'periodRemainderRange',
        'periodLength is taken to stand for the exact period: the argument shift |k|*periodLength*2^-53 that its rounding to '
        'double causes k periods away is granted on top of the tolerance (|f\'(x)| times that shift)',
        'integer argument: the covered points are the integers of [grDomOut.lbx, grDomOut.ubx]; the error bound is demanded '
        'only there; when #points == #integers the first/last breakpoint are compared with ceil(lbx)/floor(ubx); no integer '
        'in the domain -> empty PL is counted (empty-int-domain), not judged',
        'a domain not wider than 1e-6 answered with one point (CheckDomainReturnFalseIfTrivial) is judged as a point '
        'approximation',
        'any C++ exception is an accepted refusal (mp::Error kinds and std::exception are counted separately); a crash or '
        'sanitizer abort is not',
        'the PL is evaluated with the semantics of ComputeValue(PLConstraint): linear interpolation, first/last slope outside',
        'exponent 0 is outside the judged alphabet (PreprocessConstraint(PowConstraint) fixes the result to 1 before '
        'conversion); thorough runs it once as an unjudged, horizon-bounded probe',
        'reference = glibc long double libm; samples can only under-estimate the true maximum error',
    ]
    work = os.path.join(vcheck.VERIF, 'build', 'work', PID)
    if os.path.isdir(work):
        import shutil
        shutil.rmtree(work, ignore_errors=True)
    return chk.finish()


def replay(path):
    r = json.load(open(path))['replay']
    binary = build()
    p = subprocess.run([binary] + case_args(r) + ['--horizon', '120', '--dump'], capture_output=True, text=True,
                       env=dict(os.environ, ASAN_OPTIONS='detect_leaks=0', LC_ALL='C'))
    print(p.stdout)
    if p.stderr.strip():
        print(p.stderr[-2000:])
    return 1 if ('"type":"violation"' in p.stdout or '"v":"timeout"' in p.stdout) else 0
