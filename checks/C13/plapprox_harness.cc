// C13: bounded exhaustive exploration of mp::PLApproximate<Con> (src/mp/flat/piecewise_linear.cpp)
// over 17 constraint types x parameters x argument intervals x tolerances x integrality, judged by
// an independent long-double reference (libm) with per-segment extremum search + dense grid.
//
// Every case runs in a forked child; the call of the code under test has a CPU-time horizon (10 s,
// setitimer(ITIMER_PROF); a wall-clock alarm of 30x behind it); the child serialises its verdict to a
// pipe; the parent aggregates and prints the vx::Report protocol.
#include "mp/flat/constr_std.h"
#include "mp/flat/redef/MIP/core/lin_approx_core.h"
#include "explore.h"

#include <unistd.h>
#include <signal.h>
#include <sys/wait.h>
#include <sys/types.h>
#include <sys/time.h>
#include <cmath>
#include <cfloat>
#include <climits>
#include <algorithm>
#include <exception>

typedef long double LD;
static const LD PI_L = 3.14159265358979323846264338327950288L;

// ------------------------------------------------------------------------------ function table
enum Fn { EXP, LOG, EXPA, LOGA, POW, SIN, COS, TAN, ASIN, ACOS, ATAN, SINH, COSH, TANH, ASINH,
          ACOSH, ATANH, NFN };
static const char* FN_NAME[NFN] = {"Exp", "Log", "ExpA", "LogA", "Pow", "Sin", "Cos", "Tan", "Asin",
                                   "Acos", "Atan", "Sinh", "Cosh", "Tanh", "Asinh", "Acosh", "Atanh"};
static bool has_param(int fn) { return fn == EXPA || fn == LOGA || fn == POW; }
static bool is_periodic_fn(int fn) { return fn == SIN || fn == COS || fn == TAN; }

// reference value (independent of the code under test: long double libm)
static LD f_ref(int fn, LD p, LD x) {
  switch (fn) {
    case EXP: return expl(x);
    case LOG: return logl(x);
    case EXPA: return powl(p, x);
    case LOGA: return logl(x) / logl(p);
    case POW: return powl(x, p);
    case SIN: return sinl(x);
    case COS: return cosl(x);
    case TAN: return tanl(x);
    case ASIN: return asinl(x);
    case ACOS: return acosl(x);
    case ATAN: return atanl(x);
    case SINH: return sinhl(x);
    case COSH: return coshl(x);
    case TANH: return tanhl(x);
    case ASINH: return asinhl(x);
    case ACOSH: return acoshl(x);
    case ATANH: return atanhl(x);
  }
  return NAN;
}
// reference first derivative
static LD d_ref(int fn, LD p, LD x) {
  switch (fn) {
    case EXP: return expl(x);
    case LOG: return 1 / x;
    case EXPA: return powl(p, x) * logl(p);
    case LOGA: return 1 / (x * logl(p));
    case POW: return p * powl(x, p - 1);
    case SIN: return cosl(x);
    case COS: return -sinl(x);
    case TAN: { LD c = cosl(x); return 1 / (c * c); }
    case ASIN: return 1 / sqrtl((1 - x) * (1 + x));
    case ACOS: return -1 / sqrtl((1 - x) * (1 + x));
    case ATAN: return 1 / (1 + x * x);
    case SINH: return coshl(x);
    case COSH: return sinhl(x);
    case TANH: { LD c = coshl(x); return 1 / (c * c); }
    case ASINH: return 1 / sqrtl(1 + x * x);
    case ACOSH: return 1 / sqrtl((x - 1) * (x + 1));
    case ATANH: return 1 / ((1 - x) * (1 + x));
  }
  return NAN;
}
// The harness's own table of points where f or f' stops being monotone (extrema and inflection
// points): multiples of pi/2 for sin/cos/tan, 0 for everything else that has one.
static std::vector<LD> special_points(int fn, LD a, LD b) {
  std::vector<LD> s;
  if (fn == SIN || fn == COS || fn == TAN) {
    long k0 = (long)floorl(a / (PI_L / 2)) - 1, k1 = (long)ceill(b / (PI_L / 2)) + 1;
    if (k1 - k0 > 64) k1 = k0 + 64;   // segments never span that many quarter periods
    for (long k = k0; k <= k1; ++k) { LD v = k * (PI_L / 2); if (v > a && v < b) s.push_back(v); }
  } else if (fn != EXP && fn != LOG && fn != EXPA && fn != LOGA && fn != ACOSH) {
    if (0 > a && 0 < b) s.push_back(0);
  }
  return s;
}

// ------------------------------------------------------------------------------ cases
struct Case {
  int fn; double prm; double lb, ub; double ubErr; bool xint; int ivc;   // ivc 0 pair 1 tiny 2 point
};
static const char* IVC[3] = {"pair", "tiny", "point"};

struct Out {                    // what PLApproximate delivered
  std::vector<double> x, y;
  double lbx, ubx, lby, uby;    // grDomOut
  bool per = false; double P = 0, klo = 0, khi = 0, rlo = 0, rhi = 0;
};

static std::string dstr(double v) { char b[40]; std::snprintf(b, sizeof b, "%.17g", v); return b; }
static std::string gstr(double v) { char b[40]; std::snprintf(b, sizeof b, "%g", v); return b; }
static std::string jnum(LD v) {
  if (!std::isfinite((double)v)) return std::string("\"") + (std::isnan((double)v) ? "nan" : (v > 0 ? "inf" : "-inf")) + "\"";
  char b[48]; std::snprintf(b, sizeof b, "%.17Lg", v); return b;
}
static std::string fname(const Case& c) {
  std::string s = FN_NAME[c.fn];
  if (has_param(c.fn)) {
    double e = std::exp(1.0);
    s += "(" + (c.prm == e ? std::string("e") : gstr(c.prm)) + ")";
  }
  return s;
}
static std::string case_json(const Case& c) {
  return std::string("{\"fn\":\"") + FN_NAME[c.fn] + "\",\"prm\":" + dstr(c.prm) + ",\"lb\":" + dstr(c.lb) +
         ",\"ub\":" + dstr(c.ub) + ",\"ubErr\":" + dstr(c.ubErr) + ",\"xint\":" + (c.xint ? "true" : "false") +
         ",\"ivc\":\"" + IVC[c.ivc] + "\"}";
}

struct Finding { std::string sig; double ratio; std::string detail; };
struct Verdict {
  std::string status;                         // ok | trivial | refusal | timeout | crash ...
  std::set<std::string> classes;
  std::map<std::string, long long> stats;
  std::vector<Finding> viol;
  double worst_ratio = 0; double worst_x = 0; int worst_seg = -1;
  void add(const std::string& sig, double ratio, const std::string& detail) {
    for (auto& f : viol) if (f.sig == sig) { if (ratio > f.ratio) { f.ratio = ratio; f.detail = detail; } return; }
    viol.push_back({sig, ratio, detail});
  }
};

// ------------------------------------------------------------------------------ the oracle
// value of the PL function at x with the semantics of ComputeValue(PLConstraint) (constr_eval.h):
// linear interpolation, extrapolation with the first/last slope, constant when one point.
static LD pl_eval(const Out& o, LD x) {
  size_t n = o.x.size();
  if (n == 1) return o.y[0];
  if (x <= o.x.front()) {
    LD s = ((LD)o.y[1] - o.y[0]) / ((LD)o.x[1] - o.x[0]);
    return o.y[0] - s * (o.x[0] - x);
  }
  if (x >= o.x.back()) {
    LD s = ((LD)o.y[n - 1] - o.y[n - 2]) / ((LD)o.x[n - 1] - o.x[n - 2]);
    return o.y[n - 1] + s * (x - o.x[n - 1]);
  }
  size_t i = std::upper_bound(o.x.begin(), o.x.end(), (double)x) - o.x.begin();   // x[i-1] <= x < x[i]
  if (i == 0) i = 1; if (i >= n) i = n - 1;
  return o.y[i - 1] + ((LD)o.y[i] - o.y[i - 1]) * (x - o.x[i - 1]) / ((LD)o.x[i] - o.x[i - 1]);
}

static bool close_rel(double a, double b, double rel) { return std::fabs(a - b) <= rel * std::max(1.0, std::fabs(b)); }

struct Worst { LD ratio = 0, x = 0, f = 0, pl = 0; int seg = -1; long k = 0; };

// sample abscissae of one segment [a,b] of the PL: endpoints, 64-point grid, geometric refinement
// towards both ends (infinite slopes), stationary points of f-pl (f'(x)=slope) by bisection on each
// monotone piece of f', pre-images of +-1 (switch between absolute and relative error).
static void segment_samples(int fn, LD p, LD a, LD b, LD ya, LD slope, std::vector<LD>& xs, long long& nstat) {
  xs.clear();
  LD w = b - a;
  xs.push_back(a); xs.push_back(b);
  for (int j = 1; j < 64; ++j) xs.push_back(a + w * j / 64);
  for (int j = 7; j <= 44; ++j) { LD d = ldexpl(w, -j); xs.push_back(a + d); xs.push_back(b - d); }
  std::vector<LD> cut; cut.push_back(a);
  for (LD s : special_points(fn, a, b)) { cut.push_back(s); xs.push_back(s); }
  cut.push_back(b);
  for (size_t i = 0; i + 1 < cut.size(); ++i) {
    LD c = cut[i], d = cut[i + 1];
    // f'(x) = slope
    {
      LD gc = d_ref(fn, p, c) - slope, gd = d_ref(fn, p, d) - slope;
      if (!std::isnan((double)gc) && !std::isnan((double)gd) && ((gc < 0) != (gd < 0))) {
        LD lo = c, hi = d; bool neglo = gc < 0;
        for (int it = 0; it < 70; ++it) {
          LD m = lo + (hi - lo) / 2; LD gm = d_ref(fn, p, m) - slope;
          if ((gm < 0) == neglo) lo = m; else hi = m;
        }
        xs.push_back(lo + (hi - lo) / 2); ++nstat;
      }
    }
    // stationary point of the relative error 1 - pl/f (where |f| > 1): slope*f(x) - pl(x)*f'(x) = 0
    {
      LD fc = f_ref(fn, p, c), fd = f_ref(fn, p, d);
      if (fabsl(fc) > 1 || fabsl(fd) > 1) {
        auto g2 = [&](LD x) { return slope * f_ref(fn, p, x) - (ya + slope * (x - a)) * d_ref(fn, p, x); };
        LD gc = g2(c), gd = g2(d);
        if (std::isfinite((double)gc) && std::isfinite((double)gd) && ((gc < 0) != (gd < 0))) {
          LD lo = c, hi = d; bool neglo = gc < 0;
          for (int it = 0; it < 70; ++it) {
            LD m = lo + (hi - lo) / 2; LD gm = g2(m);
            if ((gm < 0) == neglo) lo = m; else hi = m;
          }
          xs.push_back(lo + (hi - lo) / 2); ++nstat;
        }
      }
    }
    // f(x) = +-1
    for (int sg = -1; sg <= 1; sg += 2) {
      LD hc = f_ref(fn, p, c) - sg, hd = f_ref(fn, p, d) - sg;
      if (!std::isnan((double)hc) && !std::isnan((double)hd) && ((hc < 0) != (hd < 0))) {
        LD lo = c, hi = d; bool neglo = hc < 0;
        for (int it = 0; it < 70; ++it) {
          LD m = lo + (hi - lo) / 2; LD hm = f_ref(fn, p, m) - sg;
          if ((hm < 0) == neglo) lo = m; else hi = m;
        }
        xs.push_back(lo); xs.push_back(hi);
      }
    }
  }
}

// PLPoints::AddPoint drops every point closer than 1e-4 to its predecessor ("skip near points for Gurobi").
// A segment starting at a is *forced* over the tolerance by that rule when even the shortest segment the rule
// permits, the chord of f over [a, a+1e-4], already exceeds it.  Such violations get their own location
// class so that they are told apart from a failure of the step-size control on freely chosen segments.
static void segment_samples(int fn, LD p, LD a, LD b, LD ya, LD slope, std::vector<LD>& xs, long long& nstat);
// worst error ratio of the chord of f over [u,w] (argument offset off for the periodic case)
static LD chord_ratio(const Case& c, LD u, LD w, LD off) {
  LD p = c.prm;
  LD fu = f_ref(c.fn, p, u + off), fw = f_ref(c.fn, p, w + off);
  if (!std::isfinite((double)fu) || !std::isfinite((double)fw) || !(w > u)) return 0;
  LD slope = (fw - fu) / (w - u), worst = 0;
  std::vector<LD> xs; long long ns = 0;
  segment_samples(c.fn, p, u + off, w + off, fu, slope, xs, ns);
  for (LD x : xs) {
    if (x < u + off || x > w + off) continue;
    LD fx = f_ref(c.fn, p, x);
    if (!std::isfinite((double)fx)) continue;
    LD pl = fu + slope * (x - u - off);
    worst = std::max(worst, fabsl(fx - pl) / ((LD)c.ubErr * std::max((LD)1, fabsl(fx))));
  }
  return worst;
}
// Is the violation on segment [a,b] explained by the minimum spacing?  Yes when (i) even the shortest permitted
// segment [a,a+1e-4] exceeds the tolerance, or (ii) one extra breakpoint inside the forbidden zone (a,a+1e-4]
// would bring both parts within (1.1 x) the tolerance.  Only used to *name* a violation, never to excuse it.
static bool min_spacing_forced(const Case& c, LD a, LD b, LD off) {
  LD h = std::min((LD)1e-4L, b - a);
  if (chord_ratio(c, a, a + h, off) > 1) return true;
  for (int j = 1; j <= 32; ++j) {
    LD m = a + (LD)1e-4L * j / 32;
    if (m >= b) break;
    if (chord_ratio(c, a, m, off) <= 1.1L && chord_ratio(c, m, b, off) <= 1.1L) return true;
  }
  return false;
}
// off: argument offset P*k of the periodic case (0 otherwise); ratio: worst |e|/allowed seen on the segment
static std::string loc_class(const Case& c, const Out& o, int seg, LD off, LD ratio) {
  // the generator's own check looks at a few candidate points only: exceedances of a few percent are a
  // different phenomenon than a dropped breakpoint
  // (the ratio of the probe that found the violation may be far from the segment's maximum when only the
  // integers are probed: take the segment's own maximum)
  {
    LD a = o.x[seg], b = o.x[seg + 1], ya = o.y[seg], slope = ((LD)o.y[seg + 1] - ya) / (b - a);
    std::vector<LD> xs; long long ns = 0;
    segment_samples(c.fn, c.prm, a + off, b + off, ya, slope, xs, ns);
    for (LD x : xs) {
      if (x < a + off || x > b + off) continue;
      LD fx = f_ref(c.fn, c.prm, x);
      if (!std::isfinite((double)fx)) continue;
      ratio = std::max(ratio, fabsl(fx - (ya + slope * (x - a - off))) / ((LD)c.ubErr * std::max((LD)1, fabsl(fx))));
    }
  }
  if (ratio <= 1.1L) return "marginal(<=1.1x)";
  int nseg = (int)o.x.size() - 1;
  if (min_spacing_forced(c, o.x[seg], o.x[seg + 1], off)) return "min-spacing-forced";
  if (nseg <= 1) return "single-segment";
  if (seg == 0) return "first-segment";
  if (seg == nseg - 1) return "last-segment";
  // adjacent to one of the harness's special points (0 / k*pi/2)?
  LD a = o.x[seg], b = o.x[seg + 1];
  LD w = b - a;
  if (!special_points(c.fn, a - w * 1e-9L - 1e-12L, b + w * 1e-9L + 1e-12L).empty()) return "segment-at-special-point";
  return "interior";
}

static std::string err_detail(const Case& c, const Out& o, const Worst& w, const char* mode) {
  std::string s = "{\"case\":" + case_json(c) + ",\"mode\":\"" + mode + "\",\"x\":" + jnum(w.x) + ",\"f\":" + jnum(w.f) +
                  ",\"pl\":" + jnum(w.pl) + ",\"abs_err\":" + jnum(fabsl(w.f - w.pl)) +
                  ",\"allowed\":" + jnum((LD)c.ubErr * std::max((LD)1, fabsl(w.f))) + ",\"ratio\":" + jnum(w.ratio) +
                  ",\"npoints\":" + std::to_string(o.x.size());
  if (w.seg >= 0 && w.seg + 1 < (int)o.x.size())
    s += ",\"segment\":[" + dstr(o.x[w.seg]) + "," + dstr(o.x[w.seg + 1]) + "],\"segment_index\":" + std::to_string(w.seg);
  if (o.per) s += ",\"factor_k\":" + std::to_string(w.k) + ",\"period\":" + dstr(o.P) + ",\"factor_range\":[" + dstr(o.klo) + "," + dstr(o.khi) +
                  "],\"remainder_range\":[" + dstr(o.rlo) + "," + dstr(o.rhi) + "]";
  s += ",\"grDomOut\":[" + dstr(o.lbx) + "," + dstr(o.ubx) + "," + dstr(o.lby) + "," + dstr(o.uby) + "]}";
  return s;
}

static const LD SLACK = 1 + 1e-6L;

// Judge one delivered approximation.  Returns through v.
static void judge(const Case& c, const Out& o, Verdict& v) {
  const std::string F = fname(c), FN = FN_NAME[c.fn];
  const std::string ivc = IVC[c.ivc];
  LD p = c.prm;
  size_t n = o.x.size();
  v.status = "ok";
  // ---- clause 5b: NaN / inf
  bool finite = std::isfinite(o.lbx) && std::isfinite(o.ubx);
  for (size_t i = 0; i < n; ++i) finite = finite && std::isfinite(o.x[i]) && std::isfinite(o.y[i]);
  if (o.per) finite = finite && std::isfinite(o.P) && std::isfinite(o.klo) && std::isfinite(o.khi) && std::isfinite(o.rlo) && std::isfinite(o.rhi);
  if (!finite || o.x.size() != o.y.size()) {
    v.add(F + " non-finite breakpoint or domain [" + ivc + "]", 1e300, "{\"case\":" + case_json(c) + "}");
    v.classes.insert(FN + ":viol-nonfinite");
    return;
  }
  // ---- integer argument, no integer in the reported domain: the shortcut leaves an empty PL;
  //      the set of points "reported as covered" is empty, nothing to demand.
  if (n == 0) {
    if (c.xint && !o.per && std::ceil(o.lbx) > std::floor(o.ubx)) {
      v.status = "empty-int-domain"; v.classes.insert(FN + ":empty-int-domain"); v.stats["empty_int_domain"]++;
      return;
    }
    v.add(F + " empty PL for a non-empty domain [" + ivc + "]", 1e300, "{\"case\":" + case_json(c) + "}");
    v.classes.insert(FN + ":viol-empty");
    return;
  }
  // ---- clause 1a: strictly increasing
  for (size_t i = 0; i + 1 < n; ++i)
    if (!(o.x[i] < o.x[i + 1])) {
      v.add(F + " breakpoints not strictly increasing [" + ivc + "]", 1e300,
            "{\"case\":" + case_json(c) + ",\"i\":" + std::to_string(i) + ",\"x_i\":" + dstr(o.x[i]) + ",\"x_next\":" + dstr(o.x[i + 1]) + "}");
      v.classes.insert(FN + ":viol-order");
      return;                                  // the rest of the oracle needs an ordered PL
    }
  // domain of the PL's own argument
  double dlo = o.per ? o.rlo : o.lbx, dhi = o.per ? o.rhi : o.ubx;
  long long nint = 0; bool shortcut = false;
  if (c.xint && !o.per) {
    double i0 = std::ceil(o.lbx), i1 = std::floor(o.ubx);
    nint = (long long)(i1 - i0 + 1);
    shortcut = nint == (long long)n;           // "uses one breakpoint per integer"
    if (shortcut) { dlo = i0; dhi = i1; }      // integer argument: the covered points are the integers
  }
  if (!o.per && o.lbx > o.ubx) {      // CheckDomainReturnFalseIfTrivial lets lbx exceed ubx by up to 1e-6: nothing is covered
    v.status = "inverted-domain"; v.stats["inverted_domain_le_1e-6"]++; v.classes.insert(FN + ":inverted-domain");
    if (o.lbx > o.ubx + 1e-6 * (1 + 1e-9)) v.add(FN + " reported domain inverted by more than 1e-6 [" + ivc + "]", o.lbx - o.ubx, "{\"case\":" + case_json(c) + "}");
    return;
  }
  bool trivial = !o.per && n == 1 && (o.ubx - o.lbx) <= 1e-6 && !shortcut;   // documented: domain ~ single point
  // ---- clause 1b: first / last breakpoint = reported domain
  if (trivial) {
    v.status = "trivial"; v.stats["trivial_point"]++;
    if (!(o.x[0] >= o.lbx - 1e-9 * std::max(1.0, std::fabs(o.lbx)) && o.x[0] <= o.ubx + 1e-9 * std::max(1.0, std::fabs(o.ubx))))
      v.add(FN + " trivial point outside grDomOut [" + ivc + "]", 1e300, "{\"case\":" + case_json(c) + ",\"x\":" + dstr(o.x[0]) + "}");
  } else {
    for (int side = 0; side < 2; ++side) {
      double bp = side ? o.x.back() : o.x.front(), dom = side ? dhi : dlo;
      if (close_rel(bp, dom, 1e-9)) continue;
      // integer argument: the covered points are integers, a PL that starts/ends at the first/last integer of
      // the domain covers it (the shortcut does that; AddPoint may merge equal-valued points so that
      // #points < #integers)
      if (c.xint && !o.per && close_rel(bp, side ? std::floor(o.ubx) : std::ceil(o.lbx), 1e-9)) continue;
      const char* which = side ? "last" : "first"; const char* dn = o.per ? (side ? "periodRemainderRange.ub" : "periodRemainderRange.lb")
                                                                        : (side ? "grDomOut.ubx" : "grDomOut.lbx");
      std::string kind;
      if (bp == (double)(float)dom) kind = std::string("end breakpoint is float(bound) != ") + (o.per ? "periodRemainderRange bound" : "grDomOut.lbx/ubx") + " (std::set<float>)";
      else if (side == 1 && bp < dom && dom - bp <= 1e-4 * (1 + 1e-9)) kind = std::string("last breakpoint short of ") + dn + " by <=1e-4 (near-point skip) [" + ivc + "]";
      else if (side == 1 && bp < dom && dom - (double)(float)dom <= 1e-4 && (double)(float)dom - bp <= 1.0001e-4 && (double)(float)dom > bp)
        kind = std::string("last breakpoint short of float(") + dn + ") by <=1e-4 (near-point skip) [" + ivc + "]";
      else kind = std::string(which) + " breakpoint != " + dn + " [" + ivc + "]";
      // error the extrapolated / clipped PL makes at the reported end
      LD fx = f_ref(c.fn, p, dom), plx = pl_eval(o, dom);
      LD ratio_at_end = fabsl(fx - plx) / ((LD)c.ubErr * std::max((LD)1, fabsl(fx)));
      v.add(FN + " " + kind, std::fabs(bp - dom),
            "{\"case\":" + case_json(c) + ",\"breakpoint\":" + dstr(bp) + ",\"reported\":" + dstr(dom) + ",\"diff\":" + dstr(bp - dom) +
            ",\"npoints\":" + std::to_string(n) + ",\"err_ratio_at_reported_end\":" + jnum(ratio_at_end) + "}");
      v.classes.insert(FN + ":viol-domain-end");
    }
  }
  // ---- clause 2/3/4: error
  Worst worst;                                  // worst over the case
  std::map<std::string, Worst> worst_by_loc;    // per location class
  std::map<std::pair<int, long>, Worst> seg_over;   // violating segments (segment, period factor) -> worst probe
  long long probes = 0, nstat = 0;
  auto probe_np = [&](int seg, LD x) {          // non-periodic: x is the function argument
    LD fx = f_ref(c.fn, p, x);
    if (!std::isfinite((double)fx)) { v.stats["ref_nonfinite"]++; return; }
    LD pl = seg >= 0 ? o.y[seg] + ((LD)o.y[seg + 1] - o.y[seg]) * (x - o.x[seg]) / ((LD)o.x[seg + 1] - o.x[seg]) : pl_eval(o, x);
    LD r = fabsl(fx - pl) / ((LD)c.ubErr * std::max((LD)1, fabsl(fx)));
    ++probes;
    if (r > worst.ratio) worst = {r, x, fx, pl, seg, 0};
    if (r > SLACK) {
      Worst& wl = seg_over[std::make_pair(seg, 0L)];
      if (r > wl.ratio) wl = {r, x, fx, pl, seg, 0};
    }
  };
  std::vector<LD> xs;
  if (!o.per && !c.xint) {
    v.stats["judged_cont"]++;
    if (n == 1) {                               // constant PL over [lbx,ubx]
      for (int j = 0; j <= 64; ++j) probe_np(-1, (LD)o.lbx + ((LD)o.ubx - o.lbx) * j / 64);
    }
    for (size_t i = 0; i + 1 < n; ++i) {
      LD a = o.x[i], b = o.x[i + 1];
      LD slope = ((LD)o.y[i + 1] - o.y[i]) / (b - a);
      segment_samples(c.fn, p, a, b, (LD)o.y[i], slope, xs, nstat);
      // only points of the reported domain are demanded
      for (LD x : xs) if (x >= a && x <= b && x >= (LD)o.lbx && x <= (LD)o.ubx) probe_np((int)i, x);
    }
    v.stats["segments"] += (long long)n - 1;
    v.classes.insert(FN + ":cont");
  } else if (!o.per && c.xint) {
    // integer argument: the covered points are the integers of [grDomOut.lbx, grDomOut.ubx]
    double i0 = std::ceil(o.lbx), i1 = std::floor(o.ubx);
    std::set<double> ks;
    if (nint <= 20000) for (double k = i0; k <= i1; k += 1) ks.insert(k);
    else {
      for (int j = 0; j < 4000; ++j) { ks.insert(i0 + j); ks.insert(i1 - j); }
      for (double bx : o.x) for (double k : {std::floor(bx), std::ceil(bx), std::floor(bx) - 1, std::ceil(bx) + 1}) if (k >= i0 && k <= i1) ks.insert(k);
      for (size_t i = 0; i + 1 < n; ++i) { double m = std::round((o.x[i] + o.x[i + 1]) / 2); if (m >= i0 && m <= i1) ks.insert(m); }
      v.stats["int_domain_subsampled"]++;
    }
    for (double k : ks) {
      LD x = k;
      // segment index for the report
      int seg = -1;
      if (n >= 2 && k >= o.x.front() && k <= o.x.back()) {
        size_t i = std::upper_bound(o.x.begin(), o.x.end(), k) - o.x.begin();
        if (i >= n) i = n - 1; if (i == 0) i = 1; seg = (int)i - 1;
      }
      probe_np(seg, x);
    }
    v.stats["int_points_checked"] += (long long)ks.size();
    if (shortcut) {
      // clause 4: exact at every integer: breakpoints are the integers and y is f(k) up to libm rounding
      bool all = true; std::string bad;
      for (size_t i = 0; i < n; ++i) {
        LD fx = f_ref(c.fn, p, (LD)(i0 + (double)i));
        bool okx = o.x[i] == i0 + (double)i;
        bool oky = fabsl((LD)o.y[i] - fx) <= 1e-13L * std::max((LD)1, fabsl(fx));
        if (!okx || !oky) { all = false; bad = "{\"case\":" + case_json(c) + ",\"i\":" + std::to_string(i) + ",\"x\":" + dstr(o.x[i]) + ",\"y\":" + dstr(o.y[i]) + ",\"f\":" + jnum(fx) + "}"; break; }
      }
      if (!all) { v.add(F + " integer shortcut not exact at an integer [" + ivc + "]", 1e300, bad); v.classes.insert(FN + ":viol-int-exact"); }
      v.stats["judged_int_shortcut"]++; v.classes.insert(FN + ":int-shortcut");
    } else { v.stats["judged_int_noshortcut"]++; v.classes.insert(FN + ":int-noshortcut"); }
  } else {
    // ---- periodic, as FuncConConverter_MIP_CRTP::Convert uses it: x = P*k + r, k integer in
    // periodicFactorRange, r in periodRemainderRange, y = PL(r).  Demanded for every (k,r) with
    // x in [grDomOut.lbx, grDomOut.ubx].
    LD P = o.P; LD lbx = o.lbx, ubx = o.ubx;
    v.stats["judged_periodic"]++; v.classes.insert(FN + (c.xint ? ":periodic-int" : ":periodic"));
    auto probe_per = [&](int seg, LD r, long k) {
      LD x = (LD)k * P + r;
      LD fx = f_ref(c.fn, p, x);
      if (!std::isfinite((double)fx)) { v.stats["ref_nonfinite"]++; return; }
      LD pl = seg >= 0 ? o.y[seg] + ((LD)o.y[seg + 1] - o.y[seg]) * (r - o.x[seg]) / ((LD)o.x[seg + 1] - o.x[seg]) : pl_eval(o, r);
      // periodLength is the double nearest to the true period: k periods away the argument is off by up to
      // |k|*P*2^-53, which is not the approximator's doing
      LD rep = fabsl(d_ref(c.fn, p, x)) * fabsl((LD)k) * P * 1.2e-16L;
      LD rt = std::max((LD)0, fabsl(fx - pl) - rep) / ((LD)c.ubErr * std::max((LD)1, fabsl(fx)));
      ++probes;
      if (rt > worst.ratio) worst = {rt, r, fx, pl, seg, k};
      if (rt > SLACK) {
        Worst& wl = seg_over[std::make_pair(seg, k)];
        if (rt > wl.ratio) wl = {rt, r, fx, pl, seg, k};
      }
    };
    if (!(P > 0) || !(o.klo <= o.khi) || !(o.rlo < o.rhi)) {
      v.add(FN + " inconsistent period fields", 1e300, "{\"case\":" + case_json(c) + ",\"P\":" + dstr(o.P) + "}");
      return;
    }
    LD klo = o.klo, khi = o.khi;
    if (!c.xint) {
      for (size_t i = 0; i + 1 < n; ++i) {
        LD a = o.x[i], b = o.x[i + 1];
        LD slope = ((LD)o.y[i + 1] - o.y[i]) / (b - a);
        segment_samples(c.fn, p, a, b, (LD)o.y[i], slope, xs, nstat);
        for (LD r : xs) {
          if (!(r >= a && r <= b && r >= (LD)o.rlo && r <= (LD)o.rhi)) continue;
          LD k0 = std::max(klo, ceill((lbx - r) / P)), k1 = std::min(khi, floorl((ubx - r) / P));
          // guard the rounding of the division: make sure x is inside
          while (k0 <= k1 && k0 * P + r < lbx) k0 += 1;
          while (k0 <= k1 && k1 * P + r > ubx) k1 -= 1;
          if (k0 > k1) { v.stats["remainder_points_unreachable"]++; continue; }
          probe_per((int)i, r, (long)k0);
          if (k1 != k0) probe_per((int)i, r, (long)k1);
          if (k0 < 0 && k1 > 0) probe_per((int)i, r, 0);
        }
      }
      v.stats["segments"] += (long long)n - 1;
      // coverage of [lbx,ubx] by {P*k + r}: 4097 grid points + ends
      long long gaps = 0, covered = 0;
      for (int j = 0; j <= 4096; ++j) {
        LD x = lbx + (ubx - lbx) * j / 4096;
        LD k = floorl((x - (LD)o.rlo) / P);
        bool okc = false;
        for (LD kk : {k - 1, k, k + 1}) { LD r = x - kk * P; if (kk >= klo && kk <= khi && r >= (LD)o.rlo && r <= (LD)o.rhi) okc = true; }
        if (okc) ++covered; else ++gaps;
      }
      v.stats["periodic_cover_points"] += covered;
      if (gaps) {
        bool full_period = fabsl(((LD)o.rhi - o.rlo) - P) <= 1e-12L * P;
        if (full_period) v.add(FN + " periodic decomposition does not cover the argument domain", (double)gaps, "{\"case\":" + case_json(c) + ",\"gap_points\":" + std::to_string(gaps) + "}");
        else v.stats["periodic_pole_gap_points"] += gaps;      // tan: margins around the poles are not covered by construction
      }
      // continuity at the period boundaries P*k + rhi = P*(k+1) + rlo
      if (fabsl(((LD)o.rhi - o.rlo) - P) <= 1e-12L * P) {
        std::set<long> kset;
        long a = (long)klo, b = (long)khi;
        if (b - a <= 50) for (long k = a; k < b; ++k) kset.insert(k);
        else for (long k : {a, a + 1, a + 2, -2L, -1L, 0L, 1L, (a + b) / 2, b - 3, b - 2, b - 1}) if (k >= a && k < b) kset.insert(k);
        for (long k : kset) {
          LD xb = (LD)k * P + (LD)o.rhi;
          if (xb < lbx || xb > ubx) continue;
          LD fx = f_ref(c.fn, p, xb);
          LD yl = o.y.back(), yr = o.y.front();
          LD allowed = (LD)c.ubErr * std::max((LD)1, fabsl(fx)) * SLACK + fabsl(d_ref(c.fn, p, xb)) * (fabsl((LD)k) + 1) * P * 1.2e-16L;
          v.stats["period_boundaries_checked"]++;
          if (fabsl(yl - fx) > allowed || fabsl(yr - fx) > allowed || fabsl(yl - yr) > 2 * allowed)
            v.add(F + " discontinuity at a period boundary ubErr=" + gstr(c.ubErr), (double)fabsl(yl - yr),
                  "{\"case\":" + case_json(c) + ",\"k\":" + std::to_string(k) + ",\"x\":" + jnum(xb) + ",\"f\":" + jnum(fx) +
                  ",\"pl_left\":" + jnum(yl) + ",\"pl_right\":" + jnum(yr) + "}");
        }
      }
    } else {
      // integer x in a periodic approximation (the shortcut does not apply): integers of [lbx,ubx]
      double i0 = std::ceil(o.lbx), i1 = std::floor(o.ubx);
      std::set<double> ks;
      if (i1 - i0 + 1 <= 8000) for (double k = i0; k <= i1; k += 1) ks.insert(k);
      else { for (int j = 0; j < 4000; ++j) { ks.insert(i0 + j); ks.insert(i1 - j); } v.stats["int_domain_subsampled"]++; }
      for (double xi : ks) {
        LD x = xi;
        LD k = floorl((x - (LD)o.rlo) / P);
        bool done1 = false;
        for (LD kk : {k - 1, k, k + 1}) {
          LD r = x - kk * P;
          if (kk >= klo && kk <= khi && r >= (LD)o.rlo && r <= (LD)o.rhi) {
            int seg = -1;
            if (n >= 2) { size_t i = std::upper_bound(o.x.begin(), o.x.end(), (double)r) - o.x.begin(); if (i >= n) i = n - 1; if (i == 0) i = 1; seg = (int)i - 1; }
            // evaluate with the exact r (pl_eval on clamped segment)
            LD fx = f_ref(c.fn, p, x);
            if (!std::isfinite((double)fx)) continue;
            LD pl = o.y[seg] + ((LD)o.y[seg + 1] - o.y[seg]) * (r - o.x[seg]) / ((LD)o.x[seg + 1] - o.x[seg]);
            LD rep = fabsl(d_ref(c.fn, p, x)) * fabsl(kk) * P * 1.2e-16L;
            LD rt = std::max((LD)0, fabsl(fx - pl) - rep) / ((LD)c.ubErr * std::max((LD)1, fabsl(fx)));
            ++probes; done1 = true;
            if (rt > worst.ratio) worst = {rt, r, fx, pl, seg, (long)kk};
            if (rt > SLACK) { Worst& wl = seg_over[std::make_pair(seg, (long)kk)]; if (rt > wl.ratio) wl = {rt, r, fx, pl, seg, (long)kk}; }
          }
        }
        if (!done1) v.stats["periodic_int_points_in_pole_gap"]++;
      }
      v.stats["int_points_checked"] += (long long)ks.size();
    }
  }
  v.stats["probes"] += probes;
  v.stats["stationary_points"] += nstat;
  const char* mode = o.per ? (c.xint ? "periodic-int" : "periodic") : (c.xint ? (shortcut ? "int-shortcut" : "int") : "cont");
  {
    // name each violating segment once; a periodic PL is the same for every k: classify a segment for the
    // first and last factor only
    for (auto& kv : seg_over) {
      int seg = kv.first.first;
      std::string loc;
      if (seg < 0) loc = n == 1 ? "single-point" : "outside-breakpoints";
      else loc = loc_class(c, o, seg, o.per ? (LD)kv.first.second * (LD)o.P : (LD)0, kv.second.ratio);
      Worst& wl = worst_by_loc[loc];
      if (kv.second.ratio > wl.ratio) wl = kv.second;
    }
    v.stats["violating_segments"] += (long long)seg_over.size();
  }
  for (auto& kv : worst_by_loc) {
    // violations forced by the 1e-4 minimum breakpoint spacing (one root cause) are keyed by function and
    // tolerance only; everything else also names parameter, location and mode
    bool spacing = kv.first == "min-spacing-forced" || kv.first == "single-point";
    std::string sig = spacing ? FN + " err>tol ubErr=" + gstr(c.ubErr) + " " + (kv.first == "single-point" ? "single-point PL (2nd point within 1e-4 dropped)" : "min-spacing-forced (AddPoint drops points within 1e-4)")
                              : F + " err>tol ubErr=" + gstr(c.ubErr) + " " + kv.first + " [" + mode + "]";
    v.add(sig, (double)kv.second.ratio, err_detail(c, o, kv.second, mode));
    v.classes.insert(FN + ":viol-err:" + gstr(c.ubErr));
  }
  v.worst_ratio = (double)worst.ratio; v.worst_x = (double)worst.x; v.worst_seg = worst.seg;
  // observation class: how close to the tolerance the worst point came
  const char* band = worst.ratio > SLACK ? "over" : worst.ratio > 0.5 ? "tight" : worst.ratio > 0 ? "slack" : "exact";
  v.classes.insert(FN + ":" + mode + ":" + band);
}

// ------------------------------------------------------------------------------ running the code under test
template <class Con>
static void call_pl(const Con& con, mp::PLApproxParams& prm) { mp::PLApproximate<Con>(con, prm); }

static void run_target(const Case& c, mp::PLApproxParams& prm) {
  prm.grDom.lbx = c.lb; prm.grDom.ubx = c.ub;
  prm.grDom.lby = -1e6; prm.grDom.uby = 1e6;          // default cvt:plapprox:domain
  prm.is_x_int = c.xint; prm.ubErr = c.ubErr;
  using namespace mp;
  switch (c.fn) {
#define NP(E, T) case E: { T con(T::Arguments{0}); call_pl(con, prm); break; }
#define WP(E, T) case E: { T con(T::Arguments{0}, T::Parameters{c.prm}); call_pl(con, prm); break; }
    NP(EXP, ExpConstraint) NP(LOG, LogConstraint) WP(EXPA, ExpAConstraint) WP(LOGA, LogAConstraint)
    WP(POW, PowConstraint) NP(SIN, SinConstraint) NP(COS, CosConstraint) NP(TAN, TanConstraint)
    NP(ASIN, AsinConstraint) NP(ACOS, AcosConstraint) NP(ATAN, AtanConstraint) NP(SINH, SinhConstraint)
    NP(COSH, CoshConstraint) NP(TANH, TanhConstraint) NP(ASINH, AsinhConstraint) NP(ACOSH, AcoshConstraint)
    NP(ATANH, AtanhConstraint)
#undef NP
#undef WP
  }
}

static std::string refusal_class(const std::string& msg) {
  if (msg.find("outside of the accepted") != std::string::npos) return "argument-range-not-accepted";
  if (msg.find("empty argument domain") != std::string::npos) return "empty-domain";
  if (msg.find("degenerate segment") != std::string::npos) return "assert-degenerate-segment";
  if (msg.find("preim(") != std::string::npos) return "assert-preimage-outside";
  if (msg.find("ubErr<=0") != std::string::npos) return "assert-ubErr";
  return "other-mp-error";
}

// CPU-time horizon (ITIMER_PROF: user+system time of this process, independent of machine load) with a
// generous wall-clock alarm behind it for a hang that does not burn CPU.
static void set_cpu_horizon(int seconds) {
  struct itimerval tv; std::memset(&tv, 0, sizeof tv); tv.it_value.tv_sec = seconds;
  setitimer(ITIMER_PROF, &tv, nullptr);
  alarm(seconds ? (unsigned)seconds * 30u : 0u);
}
static int g_phase_fd = -1;        // child: pipe to the parent; "P" = the code under test has returned
static int g_horizon = 0;
static const int ORACLE_CPU_CAP = 900;

static void execute_case(const Case& c, Verdict& v) {
  mp::PLApproxParams prm;
  const std::string FN = FN_NAME[c.fn];
  struct PhaseEnd { ~PhaseEnd() {
    if (g_phase_fd >= 0) { set_cpu_horizon(0); ssize_t w = write(g_phase_fd, "P\n", 2); (void)w; set_cpu_horizon(ORACLE_CPU_CAP); } } };
  try {
    PhaseEnd pe;                     // runs when run_target returns or throws
    if (g_phase_fd >= 0) set_cpu_horizon(g_horizon);
    run_target(c, prm);
  } catch (const mp::Error& e) {
    std::string rc = refusal_class(e.what());
    v.status = "refusal"; v.stats["refusals"]++; v.stats["refusal_" + rc]++;
    v.classes.insert(FN + ":refusal:" + rc);
    return;
  } catch (const std::exception& e) {
    v.status = "refusal"; v.stats["refusals"]++; v.stats["refusal_std_exception"]++;
    std::string w = e.what(); if (w.size() > 40) w.resize(40);
    v.classes.insert(FN + ":refusal:std-exception:" + w);
    return;
  } catch (...) {
    v.status = "refusal"; v.stats["refusals"]++; v.stats["refusal_unknown_exception"]++;
    v.classes.insert(FN + ":refusal:unknown-exception");
    return;
  }
  Out o;
  o.x = prm.plPoints.x_; o.y = prm.plPoints.y_;
  o.lbx = prm.grDomOut.lbx; o.ubx = prm.grDomOut.ubx; o.lby = prm.grDomOut.lby; o.uby = prm.grDomOut.uby;
  o.per = prm.fUsePeriod;
  if (o.per) {
    o.P = prm.periodLength; o.klo = prm.periodicFactorRange.lb; o.khi = prm.periodicFactorRange.ub;
    o.rlo = prm.periodRemainderRange.lb; o.rhi = prm.periodRemainderRange.ub;
  }
  v.stats["judged"]++; v.stats[std::string("judged_") + FN_NAME[c.fn]]++;
  v.stats["pl_points"] += (long long)o.x.size();
  judge(c, o, v);
}

// ------------------------------------------------------------------------------ child process protocol
static std::string tabesc(const std::string& s) { std::string o; for (char ch : s) o += (ch == '\n' || ch == '\t') ? ' ' : ch; return o; }
static void write_verdict(int fd, const Verdict& v) {
  std::string s = "S\t" + v.status + "\n";
  for (auto& c : v.classes) s += "C\t" + tabesc(c) + "\n";
  for (auto& kv : v.stats) s += "N\t" + kv.first + "\t" + std::to_string(kv.second) + "\n";
  for (auto& f : v.viol) { char rb[40]; std::snprintf(rb, sizeof rb, "%.9g", f.ratio); s += "V\t" + tabesc(f.sig) + "\t" + rb + "\t" + tabesc(f.detail) + "\n"; }
  { char wb[120]; std::snprintf(wb, sizeof wb, "W\t%.9g\t%.17g\t%d\n", v.worst_ratio, v.worst_x, v.worst_seg); s += wb; }
  s += "E\n";
  size_t off = 0;
  while (off < s.size()) { ssize_t w = write(fd, s.data() + off, s.size() - off); if (w <= 0) break; off += (size_t)w; }
}
static bool read_verdict(const std::string& s, Verdict& v) {
  bool end = false; size_t pos = 0;
  while (pos < s.size()) {
    size_t nl = s.find('\n', pos); if (nl == std::string::npos) nl = s.size();
    std::string line = s.substr(pos, nl - pos); pos = nl + 1;
    std::vector<std::string> f; size_t q = 0;
    for (;;) { size_t t = line.find('\t', q); if (t == std::string::npos) { f.push_back(line.substr(q)); break; } f.push_back(line.substr(q, t - q)); q = t + 1; }
    if (f[0] == "S" && f.size() >= 2) v.status = f[1];
    else if (f[0] == "C" && f.size() >= 2) v.classes.insert(f[1]);
    else if (f[0] == "N" && f.size() >= 3) v.stats[f[1]] += atoll(f[2].c_str());
    else if (f[0] == "V" && f.size() >= 4) v.viol.push_back({f[1], atof(f[2].c_str()), f[3]});
    else if (f[0] == "W" && f.size() >= 4) { v.worst_ratio = atof(f[1].c_str()); v.worst_x = atof(f[2].c_str()); v.worst_seg = atoi(f[3].c_str()); }
    else if (f[0] == "P") ;
    else if (f[0] == "E") end = true;
  }
  return end;
}

// run one case in a forked child with an alarm horizon.  status: ok/refusal/... | timeout | crash
static void run_forked(const Case& c, int horizon, Verdict& v) {
  int pfd[2];
  if (pipe(pfd) != 0) { v.status = "harness-error"; return; }
  fflush(stdout);
  pid_t pid = fork();
  if (pid < 0) { v.status = "harness-error"; close(pfd[0]); close(pfd[1]); return; }
  if (pid == 0) {
    close(pfd[0]);
    signal(SIGALRM, SIG_DFL); signal(SIGPROF, SIG_DFL);
    g_phase_fd = pfd[1]; g_horizon = horizon;
    Verdict cv;
    execute_case(c, cv);
    set_cpu_horizon(0);
    write_verdict(pfd[1], cv);
    close(pfd[1]);
    _exit(0);
  }
  close(pfd[1]);
  std::string buf; char tmp[65536]; ssize_t r;
  while ((r = read(pfd[0], tmp, sizeof tmp)) > 0) buf.append(tmp, (size_t)r);
  close(pfd[0]);
  int st = 0; waitpid(pid, &st, 0);
  if (WIFSIGNALED(st) && (WTERMSIG(st) == SIGALRM || WTERMSIG(st) == SIGPROF)) {
    // "P" in the pipe: the code under test had returned, the harness's own oracle ran out of its (much larger) budget
    v.status = buf.compare(0, 2, "P\n") == 0 ? "oracle-timeout" : "timeout";
    return;
  }
  if (WIFSIGNALED(st)) { v.status = "crash:signal-" + std::to_string(WTERMSIG(st)); return; }
  if (!WIFEXITED(st) || WEXITSTATUS(st) != 0) { v.status = "crash:exit-" + std::to_string(WIFEXITED(st) ? WEXITSTATUS(st) : -1); return; }
  if (!read_verdict(buf, v)) v.status = "crash:no-verdict";
}

// ------------------------------------------------------------------------------ aggregation in the parent
static vx::Report R;
static vx::Shard S;
struct Agg { double ratio = -1; std::string detail, replay; long long count = 0; };
static std::map<std::string, Agg> VIOL;

static void note_violation(const std::string& sig, double ratio, const std::string& detail, const Case& c) {
  Agg& a = VIOL[sig];
  a.count++;
  if (ratio > a.ratio) { a.ratio = ratio; a.detail = detail; a.replay = case_json(c); }
}
static void flush_violations() {
  for (auto& kv : VIOL) {
    char rb[40]; std::snprintf(rb, sizeof rb, "%.9g", kv.second.ratio);
    std::printf("{\"type\":\"violation\",\"sig\":\"%s\",\"detail\":{\"worst\":%s,\"cases\":%lld,\"rank\":%s},\"replay\":%s}\n",
                vx::jesc(kv.first).c_str(), kv.second.detail.c_str(), kv.second.count, rb, kv.second.replay.c_str());
  }
  std::fflush(stdout);
}

static void absorb_case(const Case& c, const Verdict& v) {
  R.stats["cases"]++;
  for (auto& kv : v.stats) R.stats[kv.first] += kv.second;
  for (auto& cl : v.classes) R.classes.insert(cl);
  for (auto& f : v.viol) note_violation(f.sig, f.ratio, f.detail, c);
  if (v.status == "timeout") {
    R.stats["timeouts_10s"]++;
    std::printf("{\"type\":\"timeout\",\"case\":%s}\n", case_json(c).c_str());
  } else if (v.status == "oracle-timeout") {
    R.broken("oracle exceeded its CPU budget on " + case_json(c));
  } else if (v.status.compare(0, 5, "crash") == 0 || v.status == "harness-error") {
    R.stats["crashes"]++;
    note_violation(fname(c) + " " + v.status + " (no approximation, no orderly refusal) [" + IVC[c.ivc] + "]", 1e300,
                   "{\"case\":" + case_json(c) + "}", c);
    R.classes.insert(std::string(FN_NAME[c.fn]) + ":" + v.status);
  }
}

// ------------------------------------------------------------------------------ the enumerated space
static std::vector<Case> build_space(bool thorough) {
  const double PI = 3.14159265358979323846, E = std::exp(1.0);
  std::vector<double> A = thorough ? std::vector<double>{-1e6, -100, -7.3, -PI, -1, -1e-3, 0, 1e-3, 0.1, 1, PI, 7.3, 100, 1e6}
                                   : std::vector<double>{-1e6, -7.3, -1, 0, 1e-3, 0.1, 1, PI, 100, 1e6};
  std::vector<double> errs = thorough ? std::vector<double>{1e-1, 1e-2, 1e-3, 1e-4, 1e-5, 1e-6}
                                      : std::vector<double>{1e-1, 1e-2, 1e-3, 1e-4};
  struct FI { int fn; double prm; };
  std::vector<FI> fis;
  for (int fn = 0; fn < NFN; ++fn) {
    if (fn == EXPA || fn == LOGA) for (double b : {0.5, 2.0, E, 10.0}) fis.push_back({fn, b});
    else if (fn == POW) for (double e : {-2.0, -1.0, -0.5, 0.5, 1.5, 2.0, 3.0, 4.0}) fis.push_back({fn, e});
    else fis.push_back({fn, 0.0});
  }
  struct IV { double lb, ub; int ivc; };
  std::vector<IV> ivs;
  for (size_t i = 0; i < A.size(); ++i) for (size_t j = i + 1; j < A.size(); ++j) ivs.push_back({A[i], A[j], 0});
  for (double a : A) ivs.push_back({a, a + 1e-5, 1});
  for (double a : A) ivs.push_back({a, a, 2});
  std::vector<Case> cs;
  // tolerance outermost so that consecutive indices (shards) share the cost class
  for (double e : errs) for (int xi = 0; xi < 2; ++xi) for (auto& f : fis) for (auto& iv : ivs)
    cs.push_back({f.fn, f.prm, iv.lb, iv.ub, e, xi == 1, iv.ivc});
  return cs;
}

// ------------------------------------------------------------------------------ oracle self-test
static bool self_test(std::string& why) {
  // exp on [0,1] approximated by its chord: max error at x*=ln(e-1), value 1+(e-1)x*-(e-1) = 0.2118...
  Case c{EXP, 0, 0, 1, 1e-3, false, 0};
  Out o; o.x = {0, 1}; o.y = {1, std::exp(1.0)}; o.lbx = 0; o.ubx = 1; o.lby = 0; o.uby = 3;
  { Verdict v; judge(c, o, v);
    bool found = false;
    for (auto& f : v.viol) if (f.sig.find("err>tol") != std::string::npos) {
      // |f| >= 1 on [0,1]: the judged quantity is the relative error (1+(e-1)x)e^-x - 1, maximal at x*=(e-2)/(e-1)
      LD E1 = expl(1), xs = (E1 - 2) / (E1 - 1), expect = ((1 + (E1 - 1) * xs) * expl(-xs) - 1) / (LD)1e-3;
      if (std::fabs(f.ratio - (double)expect) < 1e-7 * (double)expect) found = true;
    }
    if (!found) { why = "self-test: chord of exp on [0,1] not rejected with the analytic error"; return false; } }
  { Case c2 = c; c2.ubErr = 0.25; Verdict v; judge(c2, o, v);        // 0.2119/1.718 < 0.25: must pass
    if (!v.viol.empty()) { why = "self-test: chord of exp on [0,1] rejected at ubErr=0.25: " + v.viol[0].sig; return false; } }
  { Out o2 = o; o2.x = {0, 0.5, 0.5, 1}; o2.y = {1, 1.6, 1.6, 2.7}; Verdict v; judge(c, o2, v);
    if (v.viol.empty() || v.viol[0].sig.find("strictly increasing") == std::string::npos) { why = "self-test: repeated breakpoint accepted"; return false; } }
  { Out o3 = o; o3.x = {1e-4, 1}; o3.y = {std::exp(1e-4), std::exp(1.0)}; Case c3 = c; c3.ubErr = 1; Verdict v; judge(c3, o3, v);
    bool f = false; for (auto& x : v.viol) if (x.sig.find("first breakpoint") != std::string::npos) f = true;
    if (!f) { why = "self-test: first breakpoint off the reported domain accepted"; return false; } }
  { // a deliberately wrong value at one breakpoint of an otherwise fine PL
    Case c4{SIN, 0, 0, 1, 1e-2, false, 0};
    Out o4; o4.per = true; o4.P = 2 * 3.14159265358979323846; o4.klo = 0; o4.khi = 1; o4.rlo = -3.14159265358979323846 / 2; o4.rhi = 1.5 * 3.14159265358979323846;
    o4.lbx = 0; o4.ubx = 1; o4.lby = -1; o4.uby = 1;
    int N = 400; for (int i = 0; i <= N; ++i) { double r = o4.rlo + (o4.rhi - o4.rlo) * i / N; if (i == N) r = o4.rhi; o4.x.push_back(r); o4.y.push_back(std::sin(r)); }
    Verdict v; judge(c4, o4, v);
    if (!v.viol.empty()) { why = "self-test: fine periodic PL rejected: " + v.viol[0].sig; return false; }
    o4.y[120] += 0.05;    // r ~ 0.31, inside the reachable range [0,1]
    Verdict v2; judge(c4, o4, v2);
    if (v2.viol.empty()) { why = "self-test: wrong value in periodic PL accepted"; return false; } }
  { // integer shortcut with a wrong value
    Case c5{EXP, 0, 0, 3, 1e-2, true, 0};
    Out o5; o5.x = {0, 1, 2, 3}; o5.y = {1, std::exp(1.0), std::exp(2.0) * (1 + 1e-9), std::exp(3.0)}; o5.lbx = 0; o5.ubx = 3; o5.lby = 0; o5.uby = 30;
    Verdict v; judge(c5, o5, v);
    bool f = false; for (auto& x : v.viol) if (x.sig.find("integer shortcut not exact") != std::string::npos) f = true;
    if (!f) { why = "self-test: inexact integer shortcut accepted"; return false; } }
  return true;
}

static bool parse_case(int argc, char** argv, Case& c) {
  const char* fn = vx::arg_value(argc, argv, "--fn");
  if (!fn) return false;
  c.fn = -1; for (int i = 0; i < NFN; ++i) if (!std::strcmp(fn, FN_NAME[i])) c.fn = i;
  if (c.fn < 0) return false;
  c.prm = atof(vx::arg_value(argc, argv, "--prm", "0"));
  c.lb = atof(vx::arg_value(argc, argv, "--lb", "0"));
  c.ub = atof(vx::arg_value(argc, argv, "--ub", "0"));
  c.ubErr = atof(vx::arg_value(argc, argv, "--ubErr", "0.01"));
  c.xint = atoi(vx::arg_value(argc, argv, "--xint", "0")) != 0;
  const char* iv = vx::arg_value(argc, argv, "--ivc", "pair");
  c.ivc = !std::strcmp(iv, "tiny") ? 1 : !std::strcmp(iv, "point") ? 2 : 0;
  return true;
}

int main(int argc, char** argv) {
  S.parse(argc, argv);
  bool thorough = vx::has_flag(argc, argv, "--thorough");
  int horizon = atoi(vx::arg_value(argc, argv, "--horizon", "10"));
  if (vx::has_flag(argc, argv, "--one")) {          // replay / re-run of a single case
    Case c;
    if (!parse_case(argc, argv, c)) { R.broken("bad --one arguments"); R.done(); return 2; }
    Verdict v; run_forked(c, horizon, v);
    absorb_case(c, v);
    if (vx::has_flag(argc, argv, "--dump")) {
      mp::PLApproxParams prm;
      try { run_target(c, prm); } catch (const std::exception& e) { std::printf("exception: %s\n", e.what()); }
      std::printf("grDomOut x[%.17g, %.17g] y[%.17g, %.17g] periodic=%d npoints=%d\n", prm.grDomOut.lbx, prm.grDomOut.ubx,
                  prm.grDomOut.lby, prm.grDomOut.uby, (int)prm.fUsePeriod, prm.plPoints.size());
      if (prm.fUsePeriod) std::printf("period %.17g factor [%g,%g] remainder [%.17g,%.17g]\n", prm.periodLength, prm.periodicFactorRange.lb,
                                      prm.periodicFactorRange.ub, prm.periodRemainderRange.lb, prm.periodRemainderRange.ub);
      for (int i = 0; i < prm.plPoints.size(); ++i)
        if (i < 12 || i >= prm.plPoints.size() - 12) std::printf("  %d %.17g %.17g\n", i, prm.plPoints.x_[i], prm.plPoints.y_[i]);
    }
    std::printf("{\"type\":\"status\",\"v\":\"%s\",\"worst_ratio\":%.9g,\"worst_x\":%.17g,\"worst_segment\":%d}\n", vx::jesc(v.status).c_str(),
                v.worst_ratio, v.worst_x, v.worst_seg);
    flush_violations();
    R.done();
    return 0;
  }
  if (S.i == 0) {
    std::string why;
    if (!self_test(why)) R.broken(why); else R.stats["oracle_selftests_passed"] += 6;
  }
  std::vector<Case> cs = build_space(thorough);
  if (S.i == 0) {
    R.stats["space_cases"] += (long long)cs.size();
    for (size_t k : {(size_t)0, cs.size() / 7, cs.size() / 3, cs.size() / 2, cs.size() - 5}) R.sample(case_json(cs[k]));
  }
  // A function instance that hit the horizon twice in this shard is not run again here (a systematic hang
  // would otherwise cost 10 CPU-seconds per remaining case); the skipped cases are counted and make the run
  // non-exhaustive -- the timeouts themselves are re-run and reported by check.py.
  std::map<std::string, int> timeouts_of;
  for (size_t k = 0; k < cs.size(); ++k) {
    if (!S.mine((long long)k)) continue;
    std::string key = fname(cs[k]);
    if (timeouts_of[key] >= 2) {
      if (R.stats["skipped_after_timeouts"]++ == 0 || timeouts_of[key] == 2) { R.cap("cases of " + key + " skipped after 2 timeouts in shard " + std::to_string(S.i)); timeouts_of[key] = 3; }
      continue;
    }
    Verdict v; run_forked(cs[k], horizon, v);
    if (v.status == "timeout") timeouts_of[key]++;
    absorb_case(cs[k], v);
  }
  // degenerate exponent 0 (never passed by the converter, PreprocessConstraint(PowConstraint) decides
  // it): reported separately, not judged
  if (S.i == 0 && vx::has_flag(argc, argv, "--probe-pow0")) {
    Case c{POW, 0.0, -1, 1, 1e-2, false, 0};
    Verdict v; run_forked(c, horizon, v);
    R.stats["probe_pow0_cases"]++;
    std::printf("{\"type\":\"probe\",\"what\":\"Pow exponent 0 on [-1,1] ubErr=1e-2\",\"status\":\"%s\",\"violations\":%zu}\n",
                vx::jesc(v.status).c_str(), v.viol.size());
  }
  flush_violations();
  R.done();
  return 0;
}
