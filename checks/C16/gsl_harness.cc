// C16: bounded exhaustive exploration of the AMPL bindings of GSL (src/gsl/amplgsl.cc).
//
// Every function registered through AmplExports::Addfunc x argument lattice x request mode
// {value, value+derivs, value+derivs+hes} x `dig` configuration.  Oracle = the property statement:
//   (a) the call returns (a crash / no return within a CPU horizon is an observation: one forked
//       child per function, the case in flight is kept in shared memory),
//   (b) two calls with identical inputs give bit-identical value/derivs/hes/Errmsg
//       (RANDOM_VALUED functions exempt from this clause only),
//   (c) Errmsg == NULL => value not NaN, requested derivs/hes not NaN and in agreement with central
//       differences of the same binding (values for first, first derivatives for second partials),
//   (d) NaN (or an untouched output slot) with Errmsg == NULL is a violation.
// amplgsl.cc is compiled as its own translation unit against /verif/shim/funcadd.h.
#include "funcadd.h"
#include "explore.h"

#include <signal.h>
#include <sys/mman.h>
#include <sys/resource.h>
#include <sys/time.h>
#include <sys/wait.h>
#include <unistd.h>
#include <time.h>
#include <algorithm>
#include <functional>

static vx::Report R;
static vx::Shard S;

enum { MAXN = 9, MAXH = MAXN * (MAXN + 1) / 2 };
static const double SENT = -7.77777e77;     // pre-fill of derivs/hes: "slot was never written"
static long HORIZON_MS = 200;                // CPU milliseconds per single binding call (see check.py: two phases)
static const double NaN = std::nan("");

// ------------------------------------------------------------------ registration (AmplExports)
struct Fn { std::string name; rfunc f; int type; int nargs; void* info; };
static std::vector<Fn> FNS;
static std::vector<void*> g_tmem;
static AmplExports g_ae;
static TMInfo g_tmi;
static void AddF(const char* name, rfunc f, int type, int nargs, void* info, AmplExports*) {
  FNS.push_back({name, f, type, nargs, info});
}
static void* TempMem(TMInfo*, size_t n) { void* p = calloc(1, n ? n : 1); g_tmem.push_back(p); return p; }
static void AtResetF(AmplExports*, Exitfunc*, void*) {}

// ------------------------------------------------------------------ one call of a binding
struct Res {
  double v; double d[MAXN]; double h[MAXH];
  bool err; char kind;      // kind: 0 none, 'v' value error, 'd' message starts with ', 'h' with "
  std::string msg;
};
// per-(function, arity) counters; live in shared memory so that a child that dies loses nothing
enum { V_NV = 5 };
struct FStat {
  long long tuples, cases, noerr, err, d1[V_NV], d2[V_NV], d1_inf, d2_inf, nan_value_with_deriv_error,
            calls, fd_evals, space, crashed;
  unsigned long long cls;     // observation classes: bit (mode*5 + outcome), 15 + verdict (d1), 21 + verdict (d2)
};
enum { O_ERR = 0, O_DERR = 1, O_HERR = 2, O_VALUE = 3, O_INF = 4, C_D1 = 15, C_D2 = 21, C_INF = 5 };
struct Shm {                 // case in flight, visible to the parent after a crash
  volatile long long tuple; volatile int mode; volatile int cfg; volatile int n; volatile int stage;
  double x[MAXN]; volatile long long calls;
  volatile int ip[MAXN]; volatile int probe_pos;      // integer-only positions found by the probe child
  FStat st, snap;      // snap = st at the start of the tuple in flight (restored when the child dies)
};
static Shm* SHM;

static void call(const Fn& f, int n, const double* x, int mode, const char* dig, Res& r) {
  arglist al; std::memset(&al, 0, sizeof al);
  double ra[MAXN]; char dg[MAXN];
  for (int i = 0; i < n; ++i) { ra[i] = x[i]; dg[i] = dig ? dig[i] : 0; }
  for (int i = 0; i < MAXN; ++i) r.d[i] = SENT;
  for (int i = 0; i < MAXH; ++i) r.h[i] = SENT;
  al.n = al.nr = n; al.ra = ra;
  al.derivs = mode >= 1 ? r.d : nullptr; al.hes = mode >= 2 ? r.h : nullptr;
  al.dig = dig ? dg : nullptr; al.funcinfo = f.info; al.AE = &g_ae; al.TMI = &g_tmi;
  struct itimerval it = {{0, 0}, {HORIZON_MS / 1000, (HORIZON_MS % 1000) * 1000}}, off = {{0, 0}, {0, 0}};
  static const bool slowdiag = getenv("VERIF_C16_SLOW") != nullptr;     // diagnostics only (stderr)
  struct timespec t0, t1;
  if (slowdiag) clock_gettime(CLOCK_PROCESS_CPUTIME_ID, &t0);
  setitimer(ITIMER_VIRTUAL, &it, nullptr);
  if (f.type == FUNCADD_STRING_VALUED) {
    const char* s = ((const char* (*)(arglist*))f.f)(&al);
    r.v = s ? (double)std::strlen(s) : NaN;      // string-valued: compare by content length+text
    r.msg = s ? std::string("S:") + s : "";
  } else {
    r.v = f.f(&al);
    r.msg.clear();
  }
  setitimer(ITIMER_VIRTUAL, &off, nullptr);
  ++SHM->st.calls; SHM->calls = SHM->st.calls;
  if (slowdiag) {
    clock_gettime(CLOCK_PROCESS_CPUTIME_ID, &t1);
    double dt = (t1.tv_sec - t0.tv_sec) + (t1.tv_nsec - t0.tv_nsec) * 1e-9;
    if (dt > 0.05) {
      std::fprintf(stderr, "SLOW %s %.3f mode=%d (", f.name.c_str(), dt, mode);
      for (int i = 0; i < n; ++i) std::fprintf(stderr, "%s%g", i ? "," : "", x[i]);
      std::fprintf(stderr, ")\n");
    }
  }
  r.err = al.Errmsg != nullptr; r.kind = 0;
  if (r.err) { r.msg = al.Errmsg; r.kind = al.Errmsg[0] == '\'' ? 'd' : al.Errmsg[0] == '"' ? 'h' : 'v'; }
  for (void* p : g_tmem) free(p);
  g_tmem.clear();
}
static bool same_bits(const Res& a, const Res& b, int n, int mode, std::string* what) {
  if (std::memcmp(&a.v, &b.v, sizeof(double))) { *what = "value"; return false; }
  if (a.err != b.err || a.msg != b.msg) { *what = "error status"; return false; }
  if (mode >= 1 && std::memcmp(a.d, b.d, sizeof(double) * n)) { *what = "derivs"; return false; }
  if (mode >= 2 && std::memcmp(a.h, b.h, sizeof(double) * (n * (n + 1) / 2))) { *what = "hes"; return false; }
  return true;
}
static bool is_sent(double v) { return std::memcmp(&v, &SENT, sizeof v) == 0; }

// ------------------------------------------------------------------ formatting
static std::string num(double v) {
  if (std::isnan(v)) return "NaN";
  char b[40]; std::snprintf(b, sizeof b, "%g", v); return b;
}
static std::string num17(double v) {
  if (std::isnan(v)) return "\"nan\"";
  if (std::isinf(v)) return v > 0 ? "\"inf\"" : "\"-inf\"";
  char b[40]; std::snprintf(b, sizeof b, "%.17g", v); return b;
}
static std::string point(const double* x, int n) {
  std::string s = "(";
  for (int i = 0; i < n; ++i) { if (i) s += ","; s += num(x[i]); }
  return s + ")";
}
static std::string point_json(const double* x, int n) {
  std::string s = "[";
  for (int i = 0; i < n; ++i) { if (i) s += ","; s += "\"" + num(x[i]) + "\""; }
  return s + "]";
}
static std::string replay_json(const Fn& f, const double* x, int n) {
  std::string s = "{\"fn\":\"" + f.name + "\",\"x\":[";
  for (int i = 0; i < n; ++i) {
    char b[48]; std::snprintf(b, sizeof b, "%s\"%a\"", i ? "," : "", x[i]);
    s += std::isnan(x[i]) ? std::string(i ? "," : "") + "\"nan\"" : std::string(b);
  }
  return s + "]}";
}

// ------------------------------------------------------------------ finite-difference oracle
static bool close_to(double a, double b, double rel, double abs_) {
  return std::fabs(a - b) <= rel * std::fmax(std::fabs(a), std::fabs(b)) + abs_;
}
enum Verdict { V_OK, V_UNSTABLE, V_MARGINAL, V_KINK, V_MISMATCH, V_NVERDICT };
static const char* VNAME[] = {"ok", "fd_unstable", "fd_marginal", "one_sided_at_kink", "MISMATCH"};

// Difference quotients of an m-component function along coordinate i at x over a ladder of step
// families (two steps each, ratio 16): absolute 2^-10/2^-14, 2^-24/2^-28, 2^-37/2^-41 and, for
// |x_i| not in {0,1}, relative |x_i|*2^-10/2^-14, |x_i|*2^-24/2^-28.  The small families exist so that
// features much narrower than 1e-3 (arguments 1e-8 are in the lattice) are seen before anything is
// called a mismatch.
enum { NFAM = 5, NSTEP = 2 * NFAM };
struct Dir {
  int ns = 0; int fam[NSTEP]; double h[NSTEP];
  double c[NSTEP][MAXN], fw[NSTEP][MAXN], bw[NSTEP][MAXN];   // central / forward / backward; NaN = unusable
  double nf[NSTEP][MAXN];      // noise floor of the central quotient: 64 ulp of the values / step
  double mid[NSTEP][MAXN];     // |f0 - (f+ + f-)/2|: shrinks ~256x per family for a smooth function
  double mag[NSTEP][MAXN];     // max(|f0|,|f+|,|f-|)
  bool flat[NSTEP][MAXN];      // f+ == f- bit for bit: the step was lost inside the function (or it is constant)
  bool centre_ok = false;
};
typedef std::function<bool(const double*, double*)> VecFn;   // false = binding reported an error

static void directional(const VecFn& F, int m, const double* x, int n, int i, Dir& D) {
  D.ns = 0;
  double xi = x[i];
  if (!std::isfinite(xi)) return;
  double f0[MAXN]; D.centre_ok = F(x, f0); ++SHM->st.fd_evals;
  double steps[NSTEP]; int fams[NSTEP]; int ns = 0;
  double a = std::fabs(xi);
  auto add = [&](int f, double h1) { steps[ns] = h1; fams[ns++] = f; steps[ns] = h1 / 16; fams[ns++] = f; };
  add(0, std::ldexp(1.0, -10)); add(1, std::ldexp(1.0, -24)); add(2, std::ldexp(1.0, -37));
  if (a != 0 && a != 1) { add(3, std::ldexp(a, -10)); add(4, std::ldexp(a, -24)); }
  double xx[MAXN];
  for (int k = 0; k < n; ++k) xx[k] = x[k];
  const double EPS = 2.220446049250313e-16;
  for (int s = 0; s < ns; ++s) {
    double xp = xi + steps[s], xm = xi - steps[s];
    double fp[MAXN], fm[MAXN];
    // the step must survive the rounding of x +- h to within 1/8 (otherwise the quotient is meaningless)
    bool step_ok = std::fabs((xp - xi) - steps[s]) <= steps[s] / 8 && std::fabs((xi - xm) - steps[s]) <= steps[s] / 8;
    bool okp = false, okm = false;
    if (step_ok) {
      xx[i] = xp; okp = F(xx, fp);
      xx[i] = xm; okm = F(xx, fm);
      SHM->st.fd_evals += 2;
      xx[i] = xi;
    }
    D.fam[s] = fams[s]; D.h[s] = steps[s];
    for (int c = 0; c < m; ++c) {
      bool up = okp && std::isfinite(fp[c]), um = okm && std::isfinite(fm[c]);
      bool u0 = D.centre_ok && std::isfinite(f0[c]);
      D.c[s][c] = (up && um) ? (fp[c] - fm[c]) / (xp - xm) : NaN;
      D.fw[s][c] = (up && u0) ? (fp[c] - f0[c]) / (xp - xi) : NaN;
      D.bw[s][c] = (um && u0) ? (f0[c] - fm[c]) / (xi - xm) : NaN;
      D.nf[s][c] = (up && um) ? 64 * EPS * std::fmax(std::fabs(fp[c]), std::fabs(fm[c])) / (xp - xm) : NaN;
      D.mid[s][c] = (up && um && u0) ? std::fabs(f0[c] - 0.5 * (fp[c] + fm[c])) : NaN;
      D.flat[s][c] = up && um && fp[c] == fm[c];
      D.mag[s][c] = (up && um && u0) ? std::fmax(std::fabs(f0[c]), std::fmax(std::fabs(fp[c]), std::fabs(fm[c]))) : NaN;
    }
  }
  D.ns = ns;
}

static const double TOL_REL = 1e-4, TOL_ABS = 1e-7, WIDE_REL = 1e-3, WIDE_ABS = 1e-6;

// Analytic value a against the estimates of component c.  `allow` = 1e-9 x the largest finite output of
// the same call (conditioning allowance: an output is not expected to be more accurate than that).
//  OK        a agrees (1e-4 rel + 1e-7 abs + allow) with any finite estimate;
//  MISMATCH  a large-step family (2^-10 absolute or relative) is stable (its two steps agree, both
//            above their noise floor) and smooth (midpoint defect shrinks >= 64x between the two
//            steps), all stable families agree with each other, a is outside 1e-3 rel + 1e-6 abs +
//            allow of every estimate of the stable families and matches no one-sided quotient.  The
//            small-step families can only veto: inside a function x + h is often absorbed by a much
//            larger term, so a family whose differences are exactly 0 is ignored as soon as another
//            stable family sees a change;
//  everything else is not judged.
static Verdict verdict(double a, const Dir& D, int c, double allow, std::string* est) {
  if (est) {
    est->clear();
    for (int s = 0; s < D.ns; ++s) *est += (s ? "," : "") + num17(D.c[s][c]);
  }
  for (int s = 0; s < D.ns; ++s)
    if (std::isfinite(D.c[s][c]) && close_to(a, D.c[s][c], TOL_REL, TOL_ABS + allow)) return V_OK;
  bool stable[NFAM], smooth[NFAM], flat[NFAM]; double rep[NFAM];
  int nstable = 0, nsmooth = 0, nonflat = 0;
  for (int f = 0; f < NFAM; ++f) {
    stable[f] = smooth[f] = flat[f] = false; rep[f] = 0;
    int s1 = -1, s2 = -1;
    for (int s = 0; s < D.ns; ++s) if (D.fam[s] == f) { if (s1 < 0) s1 = s; else s2 = s; }
    if (s2 < 0) continue;
    double e1 = D.c[s1][c], e2 = D.c[s2][c];
    if (!std::isfinite(e1) || !std::isfinite(e2)) continue;
    if (!(D.nf[s1][c] <= TOL_REL * std::fabs(e1) + TOL_ABS + allow)) continue;
    if (!(D.nf[s2][c] <= TOL_REL * std::fabs(e2) + TOL_ABS + allow)) continue;
    if (!close_to(e1, e2, TOL_REL, TOL_ABS + allow)) continue;
    stable[f] = true; rep[f] = e2;
    flat[f] = D.flat[s1][c] && D.flat[s2][c];
    if (!flat[f]) ++nonflat;
    if (std::isfinite(D.mid[s1][c]) && std::isfinite(D.mid[s2][c]) &&
        D.mid[s2][c] <= D.mid[s1][c] / 64 + 1e-8 * D.mag[s2][c] + 1e-300) smooth[f] = true;
  }
  for (int f = 0; f < NFAM; ++f) {
    if (stable[f] && flat[f] && nonflat) stable[f] = smooth[f] = false;     // step absorbed: no evidence
    if (stable[f]) ++nstable;
    if (stable[f] && smooth[f] && (f == 0 || f == 3)) ++nsmooth;             // large-step families only
  }
  if (!nstable) return V_UNSTABLE;
  for (int f = 0; f < NFAM; ++f) for (int g = f + 1; g < NFAM; ++g)
    if (stable[f] && stable[g] && !close_to(rep[f], rep[g], TOL_REL, TOL_ABS + allow)) return V_UNSTABLE;
  for (int s = 0; s < D.ns; ++s)
    if (stable[D.fam[s]] && close_to(a, D.c[s][c], WIDE_REL, WIDE_ABS + allow)) return V_MARGINAL;
  for (int s = 0; s < D.ns; ++s) {
    if (!stable[D.fam[s]]) continue;
    if (std::isfinite(D.fw[s][c]) && close_to(a, D.fw[s][c], 1e-2, 1e-5 + allow)) return V_KINK;
    if (std::isfinite(D.bw[s][c]) && close_to(a, D.bw[s][c], 1e-2, 1e-5 + allow)) return V_KINK;
  }
  if (!nsmooth) return V_UNSTABLE;
  return V_MISMATCH;
}

// ------------------------------------------------------------------ lattices and tuple spaces
static const double LAT[] = {-2.5, -2, -1, -0.5, -1e-8, 0, 1e-8, 0.5, 1, 2, 2.5, 10, 1e8, NAN};
static const int NLAT = sizeof LAT / sizeof *LAT;
// thorough tier, arity <= 2: LAT plus neighbourhoods of +-1 and 0 and more magnitudes
static const double EXT[] = {-10, -3, -2.5, -2, -1.5, -1.1, -1, -0.9, -0.5, -1e-3, -1e-8, 0, 1e-8, 1e-3, 0.1, 0.5, 0.9, 1, 1.1,
                             1.5, 2, 2.5, 3, 5, 10, 100, 1e4, 1e8, NAN};
static const int NEXT = sizeof EXT / sizeof *EXT;
// thorough tier, arity >= 5: full product over this core (in addition to the pairwise array over LAT)
static const double CORE_REAL[] = {-1, 0, 0.5, 2, NAN};
static const double CORE_INT[] = {-1, 0, 1, 2, 5};
// At integer-only positions the huge member 1e8 is replaced by BIG_INT: GSL's recurrences are O(n), a single call
// with n = 1e8 costs 0.6-2.3 CPU seconds (measured), which no exhaustive tuple enumeration can afford.
static const double BIG_INT = 1000;
static const double BEYOND_32BIT = 4294967297.0;     // 2^32 + 1: wraps to 1 under a cast to a 32-bit integer

struct Space {                       // tuple space of one (function, arity)
  int n; std::vector<std::vector<double>> vals;   // per position
  bool pairwise = false; int q = 17;               // pairwise: rows of OA(q^2, q+1, q, 2)
  long long size() const {
    if (pairwise) return (long long)q * q;
    long long s = 1; for (auto& v : vals) s *= (long long)v.size(); return s;
  }
  void tuple(long long t, double* x) const {
    if (pairwise) {
      // orthogonal array over Z_q (q prime): column 0 = b, column j>=1 = a + (j-1) b; any two columns
      // determine (a,b), so every pair of symbols occurs in every pair of columns.  Symbols beyond a
      // position's alphabet are folded (s mod size), which keeps pairwise completeness.
      long long a = t / q, b = t % q;
      for (int j = 0; j < n; ++j) {
        long long s = j == 0 ? b : (a + (long long)(j - 1) * b) % q;
        x[j] = vals[j][s % (long long)vals[j].size()];
      }
      return;
    }
    for (int j = n - 1; j >= 0; --j) { long long k = (long long)vals[j].size(); x[j] = vals[j][t % k]; t /= k; }
  }
};
static bool same_d(double a, double b) { return (std::isnan(a) && std::isnan(b)) || a == b; }
static bool check_pairwise(const Space& sp) {
  for (int i = 0; i < sp.n; ++i) for (int j = i + 1; j < sp.n; ++j)
    for (double u : sp.vals[i]) for (double v : sp.vals[j]) {
      bool found = false; double x[MAXN];
      for (long long t = 0; t < sp.size() && !found; ++t) { sp.tuple(t, x); found = same_d(x[i], u) && same_d(x[j], v); }
      if (!found) return false;
    }
  return true;
}

// ------------------------------------------------------------------ per-function exploration
static bool g_random;     // current function is RANDOM_VALUED
static bool g_lite;       // --lite: one call per mode, integer positions constant, no finite differences (phase 2)
static void viol(const Fn& f, const std::string& clause, const double* x, int n, const std::string& detail) {
  R.violation(f.name + " " + clause + " at " + point(x, n),
              "{\"function\":\"" + f.name + "\",\"point\":" + point_json(x, n) + "," + detail + "}",
              replay_json(f, x, n));
}
static const char* MODE[] = {"value", "derivs", "hes"};
static int hidx(int i, int j, int n) { if (i > j) std::swap(i, j); return i * (2 * n - i - 1) / 2 + j; }   // row-wise upper triangle (test/gsl-test.cc)

struct Cfg { std::string name; bool has_dig; char dig[MAXN]; };

static void run_tuple(const Fn& f, int n, const std::vector<bool>& ip, const double* x, FStat& st) {
  bool any_int = false; int nreal = 0;
  for (int i = 0; i < n; ++i) { any_int |= ip[i]; nreal += !ip[i]; }
  std::vector<Cfg> cfgs;
  { Cfg c; c.name = "int-constant"; c.has_dig = any_int; for (int i = 0; i < n; ++i) c.dig[i] = ip[i]; cfgs.push_back(c); }
  if (any_int) { Cfg c; c.name = "none-constant"; c.has_dig = false; for (int i = 0; i < n; ++i) c.dig[i] = 0; cfgs.push_back(c); }
  if (g_lite) cfgs.resize(1);
  if (nreal >= 2 && !g_lite)
    for (int a = 0; a < n; ++a) if (!ip[a]) {
      Cfg c; c.name = "only-x" + std::to_string(a); c.has_dig = true;
      for (int i = 0; i < n; ++i) c.dig[i] = i != a;
      cfgs.push_back(c);
    }
  const Cfg& cfgA = cfgs[0];

  // lazily computed finite-difference estimates, shared by all modes/configurations of the tuple
  std::vector<Dir> fd1(n), fd2(n); std::vector<bool> have1(n, false), have2(n, false);
  VecFn valF = [&](const double* xx, double* out) {
    Res r; call(f, n, xx, 0, cfgA.has_dig ? cfgA.dig : nullptr, r);
    out[0] = r.v; return !r.err;
  };
  VecFn derF = [&](const double* xx, double* out) {
    Res r; call(f, n, xx, 1, cfgA.has_dig ? cfgA.dig : nullptr, r);
    for (int j = 0; j < n; ++j) out[j] = (ip[j] || is_sent(r.d[j])) ? NaN : r.d[j];
    return !r.err;
  };

  for (int mode = 0; mode < 3; ++mode) for (size_t ci = 0; ci < cfgs.size(); ++ci) {
    if (mode == 0 && ci > 0) break;                 // dig is irrelevant without derivs
    const Cfg& cf = cfgs[ci];
    SHM->mode = mode; SHM->cfg = (int)ci; SHM->stage = 1;
    const char* dig = cf.has_dig ? cf.dig : nullptr;
    Res r, r2;
    call(f, n, x, mode, dig, r);
    SHM->stage = 2;
    if (g_lite) r2 = r; else call(f, n, x, mode, dig, r2);
    SHM->stage = 3;
    ++st.cases;
    std::string ctx = std::string("\"mode\":\"") + MODE[mode] + "\",\"dig\":\"" + cf.name + "\"";
    std::string what;
    if (!g_random && !same_bits(r, r2, n, mode, &what))
      viol(f, "nondeterministic " + what, x, n, ctx + ",\"first\":" + num17(r.v) + ",\"second\":" + num17(r2.v) +
           ",\"msg1\":\"" + vx::jesc(r.msg) + "\",\"msg2\":\"" + vx::jesc(r2.msg) + "\"");
    if (!r.err && mode == 0) {
      for (int i = 0; i < n; ++i) if (ip[i] && x[i] == BEYOND_32BIT) {
        viol(f, "integer-only argument " + std::to_string(i) + " = 2^32+1 accepted without an error (silently truncated)", x, n, ctx + ",\"value\":" + num17(r.v));
        break;
      }
    }
    if (r.err) {
      ++st.err;
      st.cls |= 1ULL << (mode * 5 + (r.kind == 'v' ? O_ERR : r.kind == 'd' ? O_DERR : O_HERR));
      if (r.kind != 'v' && std::isnan(r.v)) ++st.nan_value_with_deriv_error;
      continue;
    }
    ++st.noerr;
    st.cls |= 1ULL << (mode * 5 + (std::isinf(r.v) ? O_INF : O_VALUE));
    if (f.type == FUNCADD_STRING_VALUED) {
      if (std::isnan(r.v)) viol(f, "null string without Errmsg", x, n, ctx);
      continue;
    }
    if (std::isnan(r.v)) { viol(f, "NaN value without Errmsg", x, n, ctx); continue; }
    if (mode == 0) continue;
    // conditioning allowance: 1e-9 x the largest finite output of this call
    double big = std::fabs(r.v);
    for (int i = 0; i < n; ++i) if (std::isfinite(r.d[i]) && !is_sent(r.d[i])) big = std::fmax(big, std::fabs(r.d[i]));
    if (mode >= 2) for (int i = 0; i < n * (n + 1) / 2; ++i) if (std::isfinite(r.h[i]) && !is_sent(r.h[i])) big = std::fmax(big, std::fabs(r.h[i]));
    double allow = std::isfinite(big) ? 1e-9 * big : 0;
    // ---- first derivatives
    for (int i = 0; i < n; ++i) {
      if (cf.has_dig && cf.dig[i]) continue;        // partial not requested
      std::string dn = "d/dx" + std::to_string(i);
      if (ip[i]) {   // derivative w.r.t. an integer-only argument requested and no error reported
        viol(f, dn + " (integer argument) requested, no Errmsg", x, n, ctx + ",\"returned\":" + num17(r.d[i]));
        continue;
      }
      double a = r.d[i];
      if (is_sent(a)) { viol(f, dn + " left unset without Errmsg", x, n, ctx); continue; }
      if (std::isnan(a)) { viol(f, "NaN " + dn + " without Errmsg", x, n, ctx); continue; }
      if (std::isinf(a)) { ++st.d1_inf; st.cls |= 1ULL << (C_D1 + C_INF); continue; }
      if (!std::isfinite(x[i]) || g_lite) continue;
      if (!have1[i]) { directional(valF, 1, x, n, i, fd1[i]); have1[i] = true; }
      std::string est; Verdict v = verdict(a, fd1[i], 0, allow, &est);
      ++st.d1[v]; st.cls |= 1ULL << (C_D1 + v);
      if (v == V_MISMATCH)
        viol(f, dn + " mismatch", x, n, ctx + ",\"returned\":" + num17(a) + ",\"central_differences\":[" + est +
             "],\"value\":" + num17(r.v));
      // the central quotients are stable, the returned number is far from them and equals one ONE-SIDED quotient:
      // the value has a kink here, the derivative does not exist, and the property asks for an error message
      if (v == V_KINK)
        viol(f, dn + " returned at a kink of the value (equals a one-sided quotient only; no Errmsg)", x, n,
             ctx + ",\"returned\":" + num17(a) + ",\"central_differences\":[" + est + "],\"value\":" + num17(r.v));
    }
    if (mode < 2) continue;
    // ---- second derivatives
    for (int i = 0; i < n; ++i) for (int j = i; j < n; ++j) {
      if (cf.has_dig && (cf.dig[i] || cf.dig[j])) continue;
      if (ip[i] || ip[j]) continue;                 // already reported above
      std::string dn = "d2/dx" + std::to_string(i) + "dx" + std::to_string(j);
      double a = r.h[hidx(i, j, n)];
      if (is_sent(a)) { viol(f, dn + " left unset without Errmsg", x, n, ctx); continue; }
      if (std::isnan(a)) { viol(f, "NaN " + dn + " without Errmsg", x, n, ctx); continue; }
      if (std::isinf(a)) { ++st.d2_inf; st.cls |= 1ULL << (C_D2 + C_INF); continue; }
      if (!std::isfinite(x[i]) || !std::isfinite(x[j]) || g_lite) continue;
      if (!have2[i]) { directional(derF, n, x, n, i, fd2[i]); have2[i] = true; }
      if (!have2[j]) { directional(derF, n, x, n, j, fd2[j]); have2[j] = true; }
      std::string e1, e2;
      Verdict v1 = verdict(a, fd2[i], j, allow, &e1);      // d/dx_i of derivs[j]
      Verdict v2 = i == j ? v1 : verdict(a, fd2[j], i, allow, &e2);
      Verdict v;
      if (v1 == V_OK || v2 == V_OK) v = V_OK;
      else if (v1 == V_MARGINAL || v2 == V_MARGINAL) v = V_MARGINAL;
      else if (v1 == V_KINK || v2 == V_KINK) v = V_KINK;
      else if (v1 == V_MISMATCH || v2 == V_MISMATCH) v = V_MISMATCH;
      else v = V_UNSTABLE;
      ++st.d2[v]; st.cls |= 1ULL << (C_D2 + v);
      if (v == V_MISMATCH)
        viol(f, dn + " mismatch", x, n, ctx + ",\"returned\":" + num17(a) + ",\"differences_of_derivs\":[" + e1 +
             (i == j ? "" : "],\"other_direction\":[" + e2) + "]");
    }
  }
}

static std::vector<double> position_values(const double* lat, int nlat, bool is_int) {
  std::vector<double> v(lat, lat + nlat);
  if (is_int) {
    for (double& d : v) if (d == 1e8) d = BIG_INT;
    if (std::find(v.begin(), v.end(), 5.0) == v.end()) v.insert(v.end() - 1, 5.0);   // small integers {-1,0,1,2,5}
    v.insert(v.end() - 1, BEYOND_32BIT);       // integral, but no int / unsigned parameter of GSL can hold it
  }
  return v;
}
// the tuple spaces of one (function, arity); tuple indices run through them consecutively
static std::vector<Space> make_spaces(int n, const std::vector<bool>& ip, bool thorough) {
  std::vector<Space> out;
  Space sp; sp.n = n;
  bool ext = thorough && n <= 2;
  for (int i = 0; i < n; ++i) sp.vals.push_back(position_values(ext ? EXT : LAT, ext ? NEXT : NLAT, ip[i]));
  sp.pairwise = n >= (thorough ? 5 : 4);
  out.push_back(sp);
  if (thorough && n >= 5) {
    Space c; c.n = n;
    for (int i = 0; i < n; ++i) c.vals.push_back(ip[i] ? std::vector<double>(CORE_INT, CORE_INT + 5) : std::vector<double>(CORE_REAL, CORE_REAL + 5));
    out.push_back(c);
  }
  return out;
}
static std::vector<int> arities(const Fn& f) {
  std::vector<int> a;
  if (f.nargs >= 0) a.push_back(f.nargs);
  else for (int n = std::max(1, -f.nargs - 1); n <= std::max(3, -f.nargs - 1); ++n) a.push_back(n);   // variadic: 1..3 values
  return a;
}

// parent: fold the counters of one (function, arity) into the report
static void emit_function(const Fn& f, int n) {
  const FStat st = SHM->st;
  std::string ips;
  for (int i = 0; i < n; ++i) if (SHM->ip[i]) ips += (ips.empty() ? "" : ",") + std::to_string(i);
  std::printf("{\"type\":\"func\",\"name\":\"%s\",\"arity\":%d,\"nargs\":%d,\"random\":%d,\"int_pos\":[%s],\"space\":%lld,"
              "\"tuples\":%lld,\"cases\":%lld,\"noerr\":%lld,\"err\":%lld,\"d1_judged\":%lld,\"d2_judged\":%lld,"
              "\"d1_unstable\":%lld,\"d2_unstable\":%lld,\"crashed\":%lld}\n",
              f.name.c_str(), n, f.nargs, f.type == FUNCADD_RANDOM_VALUED, ips.c_str(), st.space, st.tuples, st.cases,
              st.noerr, st.err, st.d1[V_OK] + st.d1[V_MISMATCH], st.d2[V_OK] + st.d2[V_MISMATCH],
              st.d1[V_UNSTABLE] + st.d1[V_MARGINAL] + st.d1[V_KINK], st.d2[V_UNSTABLE] + st.d2[V_MARGINAL] + st.d2[V_KINK],
              st.crashed);
  R.stat("tuples_ending_in_abnormal_termination", st.crashed);
  R.stat("tuples", st.tuples); R.stat("cases", st.cases); R.stat("cases_no_error", st.noerr);
  R.stat("cases_error", st.err); R.stat("binding_calls", st.calls); R.stat("fd_evaluations", st.fd_evals);
  for (int v = 0; v < V_NVERDICT; ++v) {
    R.stat(std::string("d1_") + VNAME[v], st.d1[v]); R.stat(std::string("d2_") + VNAME[v], st.d2[v]);
  }
  R.stat("d1_infinite_not_judged", st.d1_inf); R.stat("d2_infinite_not_judged", st.d2_inf);
  R.stat("nan_value_with_derivative_only_error", st.nan_value_with_deriv_error);
  static const char* ON[] = {"error", "deriv-error", "hes-error", "value", "inf"};
  for (int m = 0; m < 3; ++m) for (int o = 0; o < 5; ++o)
    if (st.cls >> (m * 5 + o) & 1) R.cls(f.name + ":" + MODE[m] + ":" + ON[o]);
  for (int v = 0; v <= C_INF; ++v) {
    if (st.cls >> (C_D1 + v) & 1) R.cls(f.name + ":d1:" + (v == C_INF ? "inf" : VNAME[v]));
    if (st.cls >> (C_D2 + v) & 1) R.cls(f.name + ":d2:" + (v == C_INF ? "inf" : VNAME[v]));
  }
}

static std::vector<bool> shm_ip(int n) { std::vector<bool> ip(n); for (int i = 0; i < n; ++i) ip[i] = SHM->ip[i] != 0; return ip; }

// child body: tuples t >= start of function k that belong to this shard
static void child_run(size_t k, int n, bool thorough, long long start) {
  const Fn& f = FNS[k];
  g_random = f.type == FUNCADD_RANDOM_VALUED;
  std::vector<bool> ip = shm_ip(n);
  std::vector<Space> sps = make_spaces(n, ip, thorough);
  FStat& st = SHM->st; double x[MAXN];
  long long N = 0, base = 0;
  for (auto& sp : sps) N += n == 0 ? 1 : sp.size();
  st.space = N;
  for (auto& sp : sps) {
    long long sz = n == 0 ? 1 : sp.size();
    for (long long u = std::max(0LL, start - base); u < sz; ++u) {
      long long t = base + u;
      if (!S.mine(t + (long long)k)) continue;
      if (n) sp.tuple(u, x);
      for (int i = 0; i < n; ++i) SHM->x[i] = x[i];
      SHM->snap = st;
      SHM->tuple = t;
      run_tuple(f, n, ip, x, st);
      ++st.tuples;
      if (st.tuples == 7 && (k % 40) == 3)
        R.sample("{\"fn\":\"" + f.name + "\",\"x\":" + point_json(x, n) + ",\"modes\":[\"value\",\"derivs\",\"hes\"]}");
    }
    base += sz;
  }
}

static const char* signame(int s) {
  switch (s) { case SIGSEGV: return "SIGSEGV"; case SIGFPE: return "SIGFPE"; case SIGABRT: return "SIGABRT";
    case SIGBUS: return "SIGBUS"; case SIGILL: return "SIGILL"; case SIGVTALRM: return "SIGVTALRM"; default: return "signal"; }
}

// probe child: which positions are integer-only.  A probe call that dies or exceeds the horizon means the
// non-integer was not rejected up front, i.e. the position is not integer-only.
static void probe_function(size_t k, int n) {
  for (int i = 0; i < MAXN; ++i) SHM->ip[i] = 0;
  for (int from = 0; from < n;) {
    std::fflush(stdout);
    pid_t pid = fork();
    if (pid < 0) { R.broken("fork failed"); return; }
    if (pid == 0) {
      const Fn& f = FNS[k];
      for (int i = from; i < n; ++i) {
        SHM->probe_pos = i;
        bool all = true;
        for (double o : {0.0, 1.0, 2.0}) for (double v : {0.5, 2.5}) {
          double x[MAXN]; for (int j = 0; j < n; ++j) x[j] = o;
          x[i] = v; Res r; call(f, n, x, 0, nullptr, r);
          if (!(r.err && r.msg.find("can't be represented as") != std::string::npos)) { all = false; break; }
        }
        SHM->ip[i] = all;
      }
      _exit(0);
    }
    int status = 0;
    while (waitpid(pid, &status, 0) < 0) {}
    if (WIFEXITED(status) && WEXITSTATUS(status) == 0) return;
    SHM->ip[SHM->probe_pos] = 0;
    from = SHM->probe_pos + 1;
    R.stat("probe_calls_not_returning");
  }
}

// parent: one forked child per function; a dead child is an observation and the exploration resumes.
// A call exceeding the CPU horizon is reported as a `slow` record (sharded pass, short horizon: check.py
// re-runs the first such tuples of each function with the long horizon) or as a violation (--one).
static void explore_function(size_t k, int n, bool thorough, bool single) {
  const Fn& f = FNS[k];
  double keep[MAXN]; for (int i = 0; i < MAXN; ++i) keep[i] = SHM->x[i];
  probe_function(k, n);
  std::memset((void*)&SHM->st, 0, sizeof(FStat));
  long long start = 0;
  for (int restarts = 0;; ++restarts) {
    std::fflush(stdout);
    SHM->tuple = -1; SHM->n = n; SHM->stage = 0;
    pid_t pid = fork();
    if (pid < 0) { R.broken("fork failed"); return; }
    if (pid == 0) {
      R = vx::Report();
      if (single) {     // replay of a single tuple
        g_random = f.type == FUNCADD_RANDOM_VALUED;
        std::vector<bool> ip = shm_ip(n);
        SHM->tuple = 0; SHM->st.space = 1;
        for (int i = 0; i < n; ++i) SHM->x[i] = keep[i];
        run_tuple(f, n, ip, keep, SHM->st); SHM->st.tuples = 1;
      } else child_run(k, n, thorough, start);
      std::fflush(stdout);
      _exit(0);
    }
    int status = 0;
    while (waitpid(pid, &status, 0) < 0) {}
    if (getenv("VERIF_C16_TIMING")) {     // diagnostics only (stderr): CPU seconds of this child
      struct rusage ru; getrusage(RUSAGE_CHILDREN, &ru);
      static double last = 0; double now = ru.ru_utime.tv_sec + ru.ru_utime.tv_usec * 1e-6;
      std::fprintf(stderr, "TIMING %s n=%d cpu=%.3f calls=%lld\n", f.name.c_str(), n, now - last, (long long)SHM->calls);
      last = now;
    }
    if (WIFEXITED(status) && WEXITSTATUS(status) == 0) { emit_function(f, n); return; }
    long long t = SHM->tuple;
    double x[MAXN]; for (int i = 0; i < n; ++i) x[i] = SHM->x[i];
    std::string how = WIFSIGNALED(status) ? signame(WTERMSIG(status)) : "exit status " + std::to_string(WEXITSTATUS(status));
    std::string ctx = std::string("\"mode\":\"") + MODE[SHM->mode % 3] + "\",\"dig_cfg\":" + std::to_string(SHM->cfg) +
                      ",\"stage\":" + std::to_string(SHM->stage) + ",\"how\":\"" + how + "\"";
    if (t < 0) { R.broken("child for " + f.name + " died before the first tuple: " + how); emit_function(f, n); return; }
    if (!single) { long long c = SHM->st.calls, e = SHM->st.fd_evals; SHM->st = SHM->snap; SHM->st.calls = c; SHM->st.fd_evals = e; }
    bool timeout = WIFSIGNALED(status) && WTERMSIG(status) == SIGVTALRM;
    if (timeout && !single) {
      std::printf("{\"type\":\"slow\",\"fn\":\"%s\",\"n\":%d,\"t\":%lld,\"point\":\"%s\",\"replay\":%s}\n",
                  f.name.c_str(), n, t, point(x, n).c_str(), replay_json(f, x, n).c_str());
      R.stat("tuples_exceeding_short_horizon");
    } else if (timeout) {
      char hs[32]; std::snprintf(hs, sizeof hs, "%gs", HORIZON_MS / 1000.0);
      viol(f, std::string("no return within ") + hs + " CPU", x, n, ctx);
    } else {
      viol(f, "abnormal termination (" + how + ")", x, n, ctx);
      ++SHM->st.crashed;
    }
    R.stat("child_restarts");
    if (single) { emit_function(f, n); return; }
    if (restarts > 100000) { R.broken("too many restarts for " + f.name); emit_function(f, n); return; }
    start = t + 1;
  }
}

// ------------------------------------------------------------------ start-up self-test of the oracle
static bool selftest(std::string* why) {
  auto D1 = [](std::function<double(double)> g, double x0) {
    Dir D; VecFn F = [&](const double* xx, double* out) { out[0] = g(xx[0]); return !std::isnan(out[0]); };
    directional(F, 1, &x0, 1, 0, D); return D;
  };
  std::string e;
  struct T { std::function<double(double)> g; double x, a; Verdict want; const char* name; };
  std::vector<T> ts = {
    {[](double x) { return x * x * x; }, 2.5, 18.75, V_OK, "cube ok"},
    {[](double x) { return x * x * x; }, 2.5, -18.75, V_MISMATCH, "cube sign error"},
    {[](double x) { return x * x * x; }, 2.5, 2 * 18.75, V_MISMATCH, "cube factor 2"},
    {[](double x) { return std::exp(x); }, 1e-8, 1.0, V_OK, "exp near 0"},
    {[](double x) { return std::exp(x); }, 1e-8, 0.0, V_MISMATCH, "exp: derivative returned as 0"},
    {[](double x) { return std::log(x); }, 1e8, 1e-8, V_OK, "log at 1e8"},
    {[](double x) { return std::fabs(x); }, 0.0, 1.0, V_KINK, "abs at 0 one-sided"},
    {[](double x) { return x < 0 ? 0.0 : 1.0; }, 0.0, 5.0, V_UNSTABLE, "step at 0"},
    {[](double x) { return std::sqrt(x); }, 0.0, 7.0, V_UNSTABLE, "sqrt at 0 (domain edge)"},
    {[](double x) { return std::sin(1e4 * x); }, 0.5, 123.0, V_UNSTABLE, "fast oscillation: only the small steps resolve it, they may not refute"},
    {[](double x) { return std::sin(1e4 * x); }, 0.5, 1e4 * std::cos(5e3), V_OK, "fast oscillation, correct"},
    {[](double x) { return std::sin(1e6 * x); }, 10.0, 123.0, V_UNSTABLE, "oscillation too fast for every step"},
    {[](double x) { return x == 0 ? 1e8 : std::fabs(x) < 1e-7 ? 1e8 * std::exp(-x * x * 1e16) : 0.0; }, 0.0, -1e16, V_UNSTABLE, "spike narrower than the large steps"},
    {[](double x) { return 1e16 + x; }, 2.5, 7.0, V_UNSTABLE, "difference below the noise floor"},
    {[](double x) { return std::exp((1e8 + x) - 1e8) + 1e-3 * std::sin(3e3 * x); }, -0.001, 1.0 + 3 * std::cos(3.0), V_UNSTABLE,
     "small steps absorbed by a large internal term must not refute"},
    {[](double x) { return 0.0 * x; }, -2.5, 0.3, V_MISMATCH, "identically zero function, non-zero derivative returned"},
    {[](double x) { return std::exp(-x * x); }, 2.5, -5 * std::exp(-6.25), V_OK, "gaussian"},
  };
  for (auto& t : ts) {
    Dir D = D1(t.g, t.x);
    Verdict v = verdict(t.a, D, 0, 0.0, &e);
    if (v != t.want) { *why = std::string("oracle self-test '") + t.name + "': got " + VNAME[v] + " estimates " + e; return false; }
  }
  // covering construction
  Space sp; sp.n = 9; sp.pairwise = true;
  for (int i = 0; i < 9; ++i) sp.vals.push_back(position_values(LAT, NLAT, i % 2));
  if (!check_pairwise(sp)) { *why = "pairwise covering array incomplete"; return false; }
  return true;
}

int main(int argc, char** argv) {
  S.parse(argc, argv);
  bool thorough = vx::has_flag(argc, argv, "--thorough");
  g_lite = vx::has_flag(argc, argv, "--lite");
  if (const char* h = vx::arg_value(argc, argv, "--horizon-ms")) HORIZON_MS = std::atol(h);
  SHM = (Shm*)mmap(nullptr, sizeof(Shm), PROT_READ | PROT_WRITE, MAP_SHARED | MAP_ANONYMOUS, -1, 0);
  if (SHM == MAP_FAILED) { R.broken("mmap failed"); R.done(); return 0; }
  g_ae.StdErr = stderr; g_ae.Addfunc = AddF; g_ae.ASLdate = 20111028; g_ae.SnprintF = snprintf;
  g_ae.VsnprintF = vsnprintf; g_ae.Tempmem = TempMem; g_ae.AtReset = AtResetF;
  funcadd_ASL(&g_ae);

  if (vx::has_flag(argc, argv, "--list")) {
    for (auto& f : FNS) std::printf("%s %d %d\n", f.name.c_str(), f.type, f.nargs);
    return 0;
  }
  if (const char* one = vx::arg_value(argc, argv, "--one")) {     // --one NAME x0 x1 ... (hex floats or nan), last args
    size_t k = 0; while (k < FNS.size() && FNS[k].name != one) ++k;
    if (k == FNS.size()) { R.broken(std::string("unknown function ") + one); R.done(); return 0; }
    int a0 = 0; for (int a = 1; a < argc; ++a) if (!std::strcmp(argv[a], "--one")) a0 = a + 2;
    int n = argc - a0;
    for (int i = 0; i < n; ++i) SHM->x[i] = !std::strcmp(argv[a0 + i], "nan") ? NaN : std::strtod(argv[a0 + i], nullptr);
    explore_function(k, n, thorough, true);
    R.done(); return 0;
  }
  if (S.i == 0) {
    std::string why;
    if (!selftest(&why)) R.broken(why);
    R.stat("selftest_cases", 18);
  }
  std::set<std::string> names;
  const char* only = vx::arg_value(argc, argv, "--only");      // diagnostics: restrict to one function
  for (size_t k = 0; k < FNS.size(); ++k) {
    if (only && FNS[k].name != only) continue;
    if (!names.insert(FNS[k].name).second) R.broken("duplicate registration " + FNS[k].name);
    for (int n : arities(FNS[k])) {
      if (n > MAXN) { R.broken("arity beyond harness limit: " + FNS[k].name); continue; }
      explore_function(k, n, thorough, false);
    }
  }
  if (S.i == 0) {
    R.stat("functions_registered", (long long)FNS.size());
    R.sample("{\"fn\":\"gsl_sf_beta\",\"x\":[\"-2.5\",\"-2.5\"],\"modes\":[\"value\",\"derivs\",\"hes\"],\"dig\":[\"all active\",\"only-x0\",\"only-x1\"]}");
    R.sample("{\"fn\":\"gsl_sf_bessel_Jn\",\"x\":[\"0.5\",\"2\"],\"note\":\"non-integer at an integer-only position\"}");
    R.sample("{\"fn\":\"gsl_sf_coupling_9j\",\"x\":[\"2\",\"1\",\"1\",\"0\",\"5\",\"-1\",\"2\",\"NaN\",\"1000\"],\"note\":\"row of the pairwise array\"}");
  }
  R.done();
  return 0;
}
