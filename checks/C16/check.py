"""C16 GSL bindings: every registered function x argument lattice x request mode x dig configuration;
oracle = determinism, no silent NaN, derivatives vs. central differences of the same binding."""
import json, os, subprocess, sys
import vbuild, vcheck

PID = 'C16'
VARIANT = os.environ.get('VERIF_C16_VARIANT', 'plain')
LATTICE = [-2.5, -1, -0.5, -1e-8, 0, 1e-8, 0.5, 1, 2, 2.5, 10, 1e8, 'NaN']
ENV = {'GSL_RNG_TYPE': 'mt19937', 'GSL_RNG_SEED': '0', 'GSL_IEEE_MODE': ''}


def build():
    shim = ['-I' + os.path.join(vbuild.VERIF, 'shim')]
    objs = vbuild.compile_many([
        (os.path.join(vbuild.VERIF, 'checks/C16/gsl_harness.cc'), VARIANT, tuple(shim), ''),
        (os.path.join(vbuild.REPO, 'src/gsl/amplgsl.cc'), VARIANT, tuple(shim), 'c16'),
    ])
    return vbuild.link('c16_gsl', objs, VARIANT, ['-lgsl', '-lgslcblas', '-lm'])


def main(tier, seed):
    chk = vcheck.Check(PID, tier, 'exploration', seed)
    binary = build()
    args = ['--thorough'] if tier == 'thorough' else []
    res = vcheck.run_shards(binary, 16, args, env=ENV, timeout=3000)
    vcheck.absorb(chk, res)

    # per-function records (one per shard and function) -> totals per function
    funcs = {}
    for rc, out, err in res:
        for r in vcheck.parse_jsonl(out):
            if r.get('type') != 'func':
                continue
            f = funcs.setdefault((r['name'], r['arity']), dict(r, tuples=0, cases=0, noerr=0, err=0, d1_judged=0,
                                                               d2_judged=0, d1_unstable=0, d2_unstable=0))
            for k in ('tuples', 'cases', 'noerr', 'err', 'd1_judged', 'd2_judged', 'd1_unstable', 'd2_unstable'):
                f[k] += r[k]
    names = set(n for n, _ in funcs)
    by_arity = {}
    for (n, a), f in funcs.items():
        by_arity[a] = by_arity.get(a, 0) + 1
    chk.set('functions_explored', len(names))
    chk.set('functions_by_arity', {str(k): v for k, v in sorted(by_arity.items())})
    chk.set('functions_random_valued', sum(1 for f in funcs.values() if f['random']))
    chk.set('functions_with_integer_positions', sum(1 for f in funcs.values() if f['int_pos']))
    chk.set('functions_with_judged_first_derivative', sum(1 for f in funcs.values() if f['d1_judged']))
    chk.set('functions_with_judged_second_derivative', sum(1 for f in funcs.values() if f['d2_judged']))
    chk.cov['evaluations'] = chk.cov.get('cases', 0)
    vcheck.finalize_classes(chk)

    # ---- vacuity guards
    if len(names) < 300 or chk.cov.get('functions_registered', 0) < 300:
        chk.broken.append('only %d functions registered/explored (expected ~343)' % len(names))
    for (n, a), f in funcs.items():
        if f['tuples'] != f['space']:
            chk.broken.append('%s: %d of %d tuples executed' % (n, f['tuples'], f['space']))
            break
    small = [f for f in funcs.values() if f['arity'] in (1, 2) and not f['random']]
    judged = [f for f in small if f['d1_judged'] > 0]
    chk.set('arity12_nonrandom_functions', len(small))
    chk.set('arity12_nonrandom_functions_with_judged_derivative', len(judged))
    if len(judged) * 2 < len(small):
        chk.broken.append('a derivative comparison was judged for only %d of %d non-random functions of arity 1-2'
                          % (len(judged), len(small)))
    if chk.cov.get('cases_error', 0) == 0:
        chk.broken.append('zero error-path cases')
    if chk.cov.get('d1_ok', 0) == 0 or chk.cov.get('d2_ok', 0) == 0:
        chk.broken.append('no derivative comparison succeeded at all')

    chk.set('rule', 'every function registered through Addfunc x every tuple of the per-position lattice (all tuples for '
            'arity <= 2; arity 3: all tuples in thorough, all tuples of a 9-value sub-lattice in quick; arity >= 4: '
            'pairwise-complete orthogonal array OA(289, arity, 17, 2)) x mode {value, derivs, derivs+hes} x dig '
            'configuration {integer positions constant, nothing constant, only x_i active}; every case is called '
            'twice. evaluations = cases (tuple x mode x dig); a class is (function, mode, outcome) or (function, '
            'derivative order, finite-difference verdict).')
    chk.set('bounds', {'lattice': LATTICE, 'integer_positions_add': [5],
                       'quick_arity3_lattice': [-2.5, -1, -1e-8, 0, 0.5, 1, 2.5, 1e8, 'NaN'],
                       'fd_steps': ['|x|*2^-10', '|x|*2^-14', '2^-10', '2^-14'],
                       'accept': '1e-4 rel + 1e-7 abs', 'violation_margin': '1e-3 rel + 1e-6 abs',
                       'cpu_horizon_per_call_s': 10, 'variant': VARIANT})
    chk.assumptions += [
        'only NaN is named by the statement: an infinite value or derivative with no Errmsg is accepted (counted as '
        'inf, not compared with finite differences)',
        'any non-null Errmsg (plain, or prefixed with \' or ") counts as "reports an error"; nothing returned by such a '
        'call is judged',
        'a derivative is judged only if the two step sizes of a family (relative or absolute) agree with each other and, '
        'when both families are stable, with one another; it is a violation only if it differs from all stable '
        'estimates by more than 1e-3 rel + 1e-6 abs and matches no one-sided difference quotient; everything in '
        'between is counted as fd_unstable / fd_marginal / one_sided_at_kink and not judged',
        'partials for positions marked constant in dig are not requested, hence never judged; derivs/hes are '
        'pre-filled with a finite sentinel, an active slot still holding it with Errmsg==NULL is "an arbitrary number"',
        'Hessian layout is the row-wise upper triangle used by test/gsl-test.cc (identical to ASL\'s column-wise '
        'layout for n <= 2)',
        'integer-only positions are discovered from the binding itself (a non-integer there is always rejected with '
        '"can\'t be represented as"); no differentiation with respect to them',
        'RANDOM_VALUED functions are exempt from the bit-determinism clause only',
        'exhaustive refers to the stated tuple lattice; within a tuple "nearby" is reduced to 4 step sizes',
        'GSL_RNG_TYPE/GSL_RNG_SEED are pinned in the environment of the harness',
    ]
    return chk.finish()


def replay(path):
    r = json.load(open(path))
    rp = r['replay']
    binary = build()
    e = dict(os.environ); e.update(ENV)
    p = subprocess.run([binary, '--one', rp['fn']] + [str(v) for v in rp['x']], capture_output=True, text=True, env=e)
    sigs = [v.get('sig') for v in vcheck.parse_jsonl(p.stdout) if v.get('type') == 'violation']
    for s in sigs:
        print('violation:', s)
    print('recorded signature %s' % ('reproduced' if r.get('signature') in sigs else 'NOT reproduced'))
    return 1 if r.get('signature') in sigs else 0
