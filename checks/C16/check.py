"""C16 GSL bindings: every registered function x argument lattice x request mode x dig configuration;
oracle = determinism, no silent NaN, derivatives vs. central differences of the same binding."""
import hashlib, json, os, subprocess, sys
from concurrent.futures import ThreadPoolExecutor
import vbuild, vcheck

PID = 'C16'
VARIANT = os.environ.get('VERIF_C16_VARIANT', 'plain')
LATTICE = [-2.5, -1, -0.5, -1e-8, 0, 1e-8, 0.5, 1, 2, 2.5, 10, 1e8, 'NaN']
ENV = {'GSL_RNG_TYPE': 'mt19937', 'GSL_RNG_SEED': '0', 'GSL_IEEE_MODE': ''}


def build():
    shim = ['-I' + os.path.join(vbuild.VERIF, 'shim')]
    objs = vbuild.compile_many([
        (os.path.join(vbuild.VERIF, 'checks/C16/gsl_harness.cc'), VARIANT, tuple(shim), ''),
        (os.path.join(vbuild.REPO, 'src/gsl/amplgsl.cc'), VARIANT, tuple(shim), 'c16'),
    ])
    # one binary per source tree, so that a run against a scratch worktree ($VERIF_REPO) never replaces the
    # binary of a concurrent run against /repo
    name = 'c16_gsl' if vbuild.REPO == '/repo' else 'c16_gsl_' + hashlib.sha1(vbuild.REPO.encode()).hexdigest()[:8]
    return vbuild.link(name, objs, VARIANT, ['-lgsl', '-lgslcblas', '-lm'])


H_SHORT_MS = 200      # sharded pass: CPU horizon of a single binding call
H_LONG_MS = 15000     # confirmation pass


def confirm(binary, rec):
    """Phase 2: one tuple that exceeded the short horizon, re-run with the long horizon in --lite mode."""
    e = dict(os.environ)
    e.update(ENV)
    e['LC_ALL'] = 'C'
    p = subprocess.run([binary, '--horizon-ms', str(H_LONG_MS), '--lite', '--one', rec['fn']] + rec['replay']['x'],
                       capture_output=True, text=True, env=e, errors='replace')
    return (p.returncode, p.stdout, p.stderr)


def main(tier, seed):
    chk = vcheck.Check(PID, tier, 'exploration', seed)
    binary = build()
    args = ['--horizon-ms', str(H_SHORT_MS)] + (['--thorough'] if tier == 'thorough' else [])
    res = vcheck.run_shards(binary, 16, args, env=ENV, timeout=3000)
    vcheck.absorb(chk, res)

    # per-function records (one per shard and function) -> totals per function; tuples over the short horizon
    funcs, slow = {}, {}
    for rc, out, err in res:
        for r in vcheck.parse_jsonl(out):
            if r.get('type') == 'slow':
                slow.setdefault((r['fn'], r['n']), []).append(r)
            if r.get('type') != 'func':
                continue
            f = funcs.setdefault((r['name'], r['arity']), dict(r, tuples=0, cases=0, noerr=0, err=0, d1_judged=0,
                                                               d2_judged=0, d1_unstable=0, d2_unstable=0, crashed=0))
            for k in ('tuples', 'cases', 'noerr', 'err', 'd1_judged', 'd2_judged', 'd1_unstable', 'd2_unstable', 'crashed'):
                f[k] += r[k]

    # ---- phase 2: per function, the first (quick) / first, middle and last (thorough) tuple that exceeded the
    # short horizon is re-run with the long horizon: no return -> violation; return -> NaN/unset clauses judged.
    jobs = []
    for key in sorted(slow):
        rs = sorted(slow[key], key=lambda r: r['t'])
        idx = [0] if tier == 'quick' else sorted(set([0, len(rs) // 2, len(rs) - 1]))
        jobs += [rs[i] for i in idx]
    with ThreadPoolExecutor(max_workers=vcheck.NCPU) as ex:
        res2 = list(ex.map(lambda r: confirm(binary, r), jobs))
    before = chk.cov.get('tuples', 0)
    vcheck.absorb(chk, res2, what='confirmation run')
    nslow = sum(len(v) for v in slow.values())
    chk.set('tuples_over_short_horizon', nslow)
    chk.set('tuples_over_short_horizon_by_function', {k[0]: len(v) for k, v in sorted(slow.items())})
    chk.set('tuples_rerun_with_long_horizon', len(jobs))
    chk.set('tuples_rerun_returned', chk.cov.get('tuples', 0) - before)
    chk.set('tuples_not_judged_over_short_horizon', nslow - len(jobs))

    groups = {}
    for v in chk.violations:
        g = v['sig'].split(' at (')[0]
        groups[g] = groups.get(g, 0) + 1
    chk.set('violation_signatures_by_function_and_clause', dict(sorted(groups.items())))
    names = set(n for n, _ in funcs)
    by_arity = {}
    for (n, a), f in funcs.items():
        by_arity[a] = by_arity.get(a, 0) + 1
    chk.set('functions_explored', len(names))
    chk.set('functions_by_arity', {str(k): v for k, v in sorted(by_arity.items())})
    chk.set('functions_random_valued', sum(1 for f in funcs.values() if f['random']))
    chk.set('functions_with_integer_positions', sum(1 for f in funcs.values() if f['int_pos']))
    chk.set('functions_with_judged_first_derivative', sum(1 for f in funcs.values() if f['d1_judged']))
    chk.set('functions_with_judged_second_derivative', sum(1 for f in funcs.values() if f['d2_judged']))
    chk.set('tuple_space', sum(f['space'] for f in funcs.values()))
    chk.cov['evaluations'] = chk.cov.get('cases', 0)
    vcheck.finalize_classes(chk)

    # ---- vacuity guards
    if len(names) < 300 or chk.cov.get('functions_registered', 0) < 300:
        chk.broken.append('only %d functions registered/explored (expected ~343)' % len(names))
    for (n, a), f in sorted(funcs.items()):
        if f['tuples'] + f['crashed'] + len(slow.get((n, a), [])) != f['space']:
            chk.broken.append('%s: %d executed + %d crashed + %d over the horizon of %d tuples'
                              % (n, f['tuples'], f['crashed'], len(slow.get((n, a), [])), f['space']))
            break
    small = [f for f in funcs.values() if f['arity'] in (1, 2) and not f['random']]
    judged = [f for f in small if f['d1_judged'] > 0]
    chk.set('arity12_nonrandom_functions', len(small))
    chk.set('arity12_nonrandom_functions_with_judged_derivative', len(judged))
    if len(judged) * 2 < len(small):
        chk.broken.append('a derivative comparison was judged for only %d of %d non-random functions of arity 1-2'
                          % (len(judged), len(small)))
    if chk.cov.get('cases_error', 0) == 0:
        chk.broken.append('zero error-path cases')
    if chk.cov.get('d1_ok', 0) == 0 or chk.cov.get('d2_ok', 0) == 0:
        chk.broken.append('no derivative comparison succeeded at all')

    chk.set('rule', 'every function registered through Addfunc x every tuple of the per-position lattice x mode {value, '
            'derivs, derivs+hes} x dig configuration {integer positions constant, nothing constant, only x_i active}; '
            'every case is called twice. quick: all tuples for arity <= 3, pairwise-complete orthogonal array '
            'OA(289, arity, 17, 2) for arity 4, 6, 9. thorough: all tuples of a 29-value lattice for arity <= 2, all '
            'tuples of the 14/15-value lattice for arity 3 and 4, for arity 6 and 9 the orthogonal array plus all tuples '
            'of a 5-value core per position. evaluations = cases (tuple x mode x dig); a class is (function, mode, '
            'outcome) or (function, derivative order, finite-difference verdict). A tuple in which a single call needs '
            'more than %d ms CPU is not judged in the sharded pass; per function the first (quick) / first, middle and '
            'last (thorough) such tuple is re-run with a %d s horizon.' % (H_SHORT_MS, H_LONG_MS // 1000))
    chk.set('bounds', {'lattice': LATTICE, 'integer_positions': 'lattice with 1e8 replaced by 1000, plus 5',
                       'thorough_lattice_arity_le_2': [-10, -2.5, -1.5, -1.1, -1, -0.9, -0.5, -1e-3, -1e-8, 0, 1e-8, 1e-3,
                                                       0.1, 0.5, 0.9, 1, 1.1, 1.5, 2, 2.5, 3, 5, 10, 100, 1e4, 1e8, 'NaN'],
                       'thorough_core_arity_ge_5': {'real': [-1, 0, 0.5, 2, 'NaN'], 'int': [-1, 0, 1, 2, 5]},
                       'fd_steps': ['2^-10', '2^-14', '2^-24', '2^-28', '2^-37', '2^-41', '|x|*2^-10', '|x|*2^-14',
                                    '|x|*2^-24', '|x|*2^-28'],
                       'accept': '1e-4 rel + 1e-7 abs + 1e-9 * largest output of the call',
                       'violation_margin': '1e-3 rel + 1e-6 abs + 1e-9 * largest output of the call',
                       'cpu_horizon_ms': [H_SHORT_MS, H_LONG_MS], 'variant': VARIANT})
    chk.assumptions += [
        'only NaN is named by the statement: an infinite value or derivative with no Errmsg is accepted (counted as '
        'inf, not compared with finite differences)',
        'any non-null Errmsg (plain, or prefixed with \' or ") counts as "reports an error"; nothing returned by such a '
        'call is judged',
        'returns normally: a single call that consumes more than 15 CPU seconds is treated as not returning; the '
        'slowest returning calls measured (order/parameter 1e8 in O(n) recurrences) need 0.6-4.3 s',
        'a derivative is refuted only by a step family whose two steps agree with each other, lie above the rounding '
        'noise of the values and see a smooth function (midpoint defect shrinks >= 64x), when all such families agree; '
        'it must differ by more than 1e-3 rel + 1e-6 abs + 1e-9 x largest output of the call from every estimate and '
        'match no one-sided quotient; a FIRST derivative that is far from the stable central estimates and equals a one-sided quotient '
        'is a derivative returned at a kink (it does not exist there: Errmsg required) and is a violation; everything else in '
        'between is fd_unstable / fd_marginal (second derivatives: also one_sided_at_kink), not judged',
        'partials for positions marked constant in dig are not requested, hence never judged; derivs/hes are '
        'pre-filled with a finite sentinel, an active slot still holding it with Errmsg==NULL is "an arbitrary number"',
        'Hessian layout is the row-wise upper triangle used by test/gsl-test.cc (identical to ASL\'s column-wise '
        'layout for n <= 2)',
        'integer-only positions are discovered from the binding itself (a non-integer there is always rejected with '
        '"can\'t be represented as"); no differentiation with respect to them; 1e8 is replaced by 1000 there (O(n) '
        'recurrences: 0.6-2.3 CPU seconds per call)',
        'RANDOM_VALUED functions are exempt from the bit-determinism clause only',
        'exhaustive refers to the stated tuple lattice; within a tuple "nearby" is reduced to the 10 step sizes',
        'GSL_RNG_TYPE/GSL_RNG_SEED are pinned in the environment of the harness',
    ]
    return chk.finish()


def replay(path):
    r = json.load(open(path))
    rp = r['replay']
    binary = build()
    e = dict(os.environ); e.update(ENV)
    p = subprocess.run([binary, '--horizon-ms', str(H_LONG_MS), '--one', rp['fn']] + [str(v) for v in rp['x']],
                       capture_output=True, text=True, env=e)
    sigs = [v.get('sig') for v in vcheck.parse_jsonl(p.stdout) if v.get('type') == 'violation']
    for s in sigs:
        print('violation:', s)
    print('recorded signature %s' % ('reproduced' if r.get('signature') in sigs else 'NOT reproduced'))
    return 1 if r.get('signature') in sigs else 0
