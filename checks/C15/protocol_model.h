// C15 reference protocol model (oracle), written from the property statement only.
//
// Input: the totally ordered event stream of ONE child run (see sigprog.cc) and how the process
// ended.  The monitor knows nothing about SignalHandler's fields or instruction offsets; the
// "window" a signal was delivered in is derived from the child's own N notes (the handler runs
// synchronously in the single thread, so everything a handler run writes appears between the
// notes that surround the interrupted main-flow position).
//
//   (i)   never lost: once a handler run is visible ("<BREAK>" text = B event), every later
//         Stop() poll (S event, only issued while the handler object is alive) is true; and Stop()
//         is not true before any handler ran.
//   (ii)  consistent registration: every callback invocation C(fn,data) is the pair of ONE
//         registration.  Allowed pairs per region:
//           pre, ctor, live0 (constructed, nothing registered): no call
//           set1 (inside first SetHandler):    (1,d1) or no call
//           live1:                             (1,d1), exactly one call per handler run
//           set2 (inside re-registration):     (1,d1) or (2,d2) or no call (see assumptions)
//           live2:                             (2,d2), exactly one call per handler run
//           dtor (inside the destructor):      (2,d2) or no call
//           dead (destructor returned):        no call
//   (iii) once the third handler run while the object is alive (before dtor-begin) has started,
//         the interrupted main flow never resumes and the process ends with exit status 1
//         (handlers that were already running may still finish their callback); fewer handler
//         runs do not terminate the process.
//   (iv)  after the destructor returned no callback is invoked (covered by (ii) region dead).
//   Accepted: death by SIGINT/SIGTERM (default disposition) while the main flow is before or
//   inside the constructor; after dtor-begin the count/termination semantics are unspecified
//   (exit 1, exit 0 and death by the signal are all accepted) - only "no callback" is demanded.
#pragma once
#include <string>
#include <vector>
#include <set>
#include <sstream>
#include <csignal>

namespace c15 {

enum Region { PRE, CTOR, LIVE0, SET1, LIVE1, SET2, LIVE2, DTOR, DEAD, NREG };
static const char* const kRegionName[NREG] = {"pre", "ctor", "live0", "set1", "live1", "set2",
                                              "live2", "dtor", "dead"};
static const char* const kNote[NREG] = {"", "ctor-begin", "ctor-end", "set1-begin", "set1-end",
                                        "set2-begin", "set2-end", "dtor-begin", "dtor-end"};
enum EndKind { END_EXIT = 0, END_SIGNAL = 1, END_HANG = 2, END_TRACER_ERROR = 3 };

struct Finding { std::string sig, detail; };

struct Verdict {
  std::vector<Finding> findings;
  int nB = 0, nBlive = 0, nC = 0;
  bool third_exit = false;      // outcome "third interrupt exits with status 1" reached
  bool default_death = false;   // accepted death by default disposition before installation
  bool post_dtor_exit = false;
  bool b_in_ctor = false;       // some handler run happened while the main flow was inside the ctor
  Region end_region = PRE;
  Region third_region = PRE;
  std::string summary;          // compressed observation record (class)
  void add(const std::string& s, const std::string& d) {
    for (auto& f : findings) if (f.sig == s) return;
    findings.push_back({s, d});
  }
};

inline std::string regions_str(const std::vector<Region>& v) {
  std::set<int> s(v.begin(), v.end());
  std::string o;
  for (int r : s) { if (!o.empty()) o += '+'; o += kRegionName[r]; }
  return o;
}

inline const char* signame(int s) {
  return s == SIGINT ? "SIGINT" : s == SIGTERM ? "SIGTERM" : s == SIGSEGV ? "SIGSEGV"
       : s == SIGKILL ? "SIGKILL" : s == SIGABRT ? "SIGABRT" : "SIG?";
}

inline Verdict judge(const std::string& log, int endkind, int code) {
  Verdict v;
  Region reg = PRE;
  int regB[NREG] = {0}, regC[NREG] = {0};
  std::vector<Region> b_regions;         // region of every handler run so far
  bool after_third = false, lost_reported = false, seen_epilogue = false;
  std::string last_marker = "-";
  std::string sum = "pre:";
  std::istringstream in(log);
  std::string line;

  auto close_region = [&](Region r) {
    // leaving region r through main-flow progress: all handler runs in r have completed
    if (r == LIVE1 || r == LIVE2) {
      if (regC[r] < regB[r])
        v.add(std::string("C15 callback not invoked for interrupt in ") + kRegionName[r],
              "handler runs=" + std::to_string(regB[r]) + " callback calls=" + std::to_string(regC[r]));
    }
    if (regC[r] > regB[r])
      v.add(std::string("C15 more callback calls than handler runs in ") + kRegionName[r],
            "handler runs=" + std::to_string(regB[r]) + " callback calls=" + std::to_string(regC[r]));
  };

  while (std::getline(in, line)) {
    if (line.empty()) continue;
    // main-flow events (everything except handler-context B / C / "M cb") after the third
    // handler run mean that the interrupted program resumed
    bool handler_ctx = line.compare(0, 7, "<BREAK>") == 0 || line[0] == 'C' || line == "M cb";
    if (after_third && !handler_ctx) {
      v.add("C15 third interrupt did not terminate the process",
            std::string("third handler run in ") + kRegionName[v.third_region] +
                "; main flow resumed after it: '" + line + "'");
    }
    if (line.compare(0, 7, "<BREAK>") == 0) {
      ++v.nB; ++regB[reg]; b_regions.push_back(reg); sum += 'B';
      if (reg == CTOR) v.b_in_ctor = true;
      if (reg < DTOR) {
        ++v.nBlive;
        if (v.nBlive == 3) { after_third = true; v.third_region = reg; }
      }
    } else if (line[0] == 'C' && line.size() >= 5) {
      ++v.nC; ++regC[reg];
      char fn = line[2];
      std::string d = line.substr(4);
      std::string call = std::string("cb") + fn + "(" + d + ")";
      sum += "c" + std::string(1, fn) + (d == "d1" ? "1" : d == "d2" ? "2" : d == "null" ? "0" : "x");
      bool p1 = fn == '1' && d == "d1", p2 = fn == '2' && d == "d2";
      bool ok;
      switch (reg) {
        case SET1: case LIVE1: ok = p1; break;
        case SET2: ok = p1 || p2; break;
        case LIVE2: case DTOR: ok = p2; break;
        default: ok = false;
      }
      if (!ok) {
        if (!p1 && !p2) {
          if (reg == SET1 || reg == SET2)
            v.add(std::string("C15 callback paired with stale data in SetHandler window ") +
                      kRegionName[reg] + ": " + call,
                  "callback function of one registration invoked with data that was not registered "
                  "with it");
          else
            v.add(std::string("C15 inconsistent callback pair in ") + kRegionName[reg] + ": " + call,
                  "callback function invoked with data that was not registered with it");
        } else if (reg == DEAD) {
          v.add("C15 callback invoked after destructor returned: " + call,
                "a signal after ~SignalHandler still calls into the backend");
        } else if (reg == PRE || reg == CTOR || reg == LIVE0) {
          v.add(std::string("C15 callback invoked while none registered (") + kRegionName[reg] +
                    "): " + call, "");
        } else {
          v.add(std::string("C15 wrong registration invoked in ") + kRegionName[reg] + ": " + call,
                "a consistent pair, but not the one registered at that moment");
        }
      }
    } else if (line[0] == 'S' && line.size() >= 3) {
      bool s = line[2] == '1';
      sum += s ? "s1" : "s0";
      if (!s && v.nB > 0 && !lost_reported) {
        lost_reported = true;
        v.add("C15 interrupt lost: handler ran in " + regions_str(b_regions) +
                  " window, Stop()==false afterwards",
              "Stop() polled after marker '" + last_marker + "' returned false although " +
                  std::to_string(v.nB) + " handler run(s) preceded it");
      }
      if (s && v.nB == 0)
        v.add(std::string("C15 Stop() true before any interrupt handler ran (") + kRegionName[reg] + ")",
              "Stop() polled after marker '" + last_marker + "'");
    } else if (line[0] == 'M' && line.size() >= 3) {
      last_marker = line.substr(2);
      if (last_marker == "epilogue") seen_epilogue = true;
    } else if (line[0] == 'T') {
      sum += line.size() >= 3 && line[2] == '1' ? "t1" : "t0";
    } else if (line[0] == 'N' && line.size() >= 3) {
      std::string n = line.substr(2);
      if (reg + 1 < NREG && n == kNote[reg + 1]) {
        close_region(reg);
        reg = (Region)(reg + 1);
        sum += std::string(" ") + kRegionName[reg] + ":";
      } else {
        v.add("C15 malformed event log (unexpected note)", "note '" + n + "' in region " + kRegionName[reg]);
      }
    } else {
      sum += '?';
      v.add("C15 malformed event log (unknown line)", "line '" + line + "'");
    }
  }
  v.end_region = reg;

  // ---- how the process ended
  if (endkind == END_EXIT && code == 0) {
    sum += " end=exit0";
    if (!seen_epilogue)
      v.add(std::string("C15 unexpected exit status 0 before the epilogue in ") + kRegionName[reg], "");
    if (after_third)
      v.add("C15 third interrupt did not terminate the process", "process ran to its normal end");
  } else if (endkind == END_EXIT && code == 1) {
    sum += " end=exit1";
    if (reg >= DTOR) {
      v.post_dtor_exit = true;                 // unspecified after destruction: accepted
    } else if (v.nBlive >= 3) {
      v.third_exit = true;
      if (regC[reg] > regB[reg] - 1)
        v.add(std::string("C15 more callback calls than handler runs in ") + kRegionName[reg],
              "terminating handler run must not call back");
    } else {
      v.add("C15 premature exit: interrupt #" + std::to_string(v.nBlive) +
                " terminated the process in " + kRegionName[reg],
            "exit status 1 after only " + std::to_string(v.nBlive) + " handler run(s); runs were in " +
                regions_str(b_regions));
    }
  } else if (endkind == END_EXIT) {
    sum += " end=exit" + std::to_string(code);
    v.add("C15 unexpected exit status " + std::to_string(code) + " in " + kRegionName[reg], "");
  } else if (endkind == END_SIGNAL) {
    sum += std::string(" end=") + signame(code);
    if ((code == SIGINT || code == SIGTERM) && (reg == PRE || reg == CTOR)) {
      v.default_death = true;                  // before signal() was installed: accepted
    } else if ((code == SIGINT || code == SIGTERM) && reg >= DTOR) {
      v.post_dtor_exit = true;                 // unspecified after destruction: accepted
    } else if (code == SIGINT || code == SIGTERM) {
      v.add(std::string("C15 process killed by ") + signame(code) + " in " + kRegionName[reg] +
                " (after handler installation)", "default disposition took effect");
    } else {
      v.add("C15 child crashed with signal " + std::to_string(code) + " in " + kRegionName[reg], "");
    }
  } else if (endkind == END_HANG) {
    sum += " end=hang";
    v.add(std::string("C15 hang in ") + kRegionName[reg], "child did not terminate");
  } else {
    sum += " end=tracer-error";
  }
  v.summary = sum;
  return v;
}

// ---------------------------------------------------------------- start-up self-test of the oracle
inline std::string good_log() {
  return "M pre\nN ctor-begin\nN ctor-end\nM constructed\nS 0\nN set1-begin\nN set1-end\nM solve1\n"
         "S 0\nM solve1b\nS 0\nN set2-begin\nN set2-end\nM solve2\nS 0\nM report\nS 0\n"
         "N dtor-begin\nN dtor-end\nM destroyed\nT 0\nM epilogue\n";
}
inline bool has(const Verdict& v, const char* needle) {
  for (auto& f : v.findings) if (f.sig.find(needle) != std::string::npos) return true;
  return false;
}
inline std::string replace1(std::string s, const std::string& a, const std::string& b) {
  size_t p = s.find(a);
  if (p == std::string::npos) return "";
  return s.replace(p, a.size(), b);
}
// returns "" if the oracle behaves; otherwise what went wrong
inline std::string self_test() {
  const std::string g = good_log();
  const std::string B = "\n<BREAK> (solver)\n";
  if (!judge(g, END_EXIT, 0).findings.empty()) return "good log rejected";
  // correct interrupted run: handler in live1, seen by every later poll
  std::string ok1 = replace1(g, "M solve1\nS 0\nM solve1b\nS 0", "M solve1" + B + "C 1 d1\nM cb\nS 1\nM solve1b\nS 1");
  ok1 = replace1(ok1, "M solve2\nS 0\nM report\nS 0", "M solve2\nS 1\nM report\nS 1");
  if (ok1.empty() || !judge(ok1, END_EXIT, 0).findings.empty()) return "correct interrupted run rejected";
  // deliberately wrong expectations must be rejected
  std::string lost = replace1(ok1, "M report\nS 1", "M report\nS 0");
  if (!has(judge(lost, END_EXIT, 0), "interrupt lost")) return "lost interrupt accepted";
  std::string stale = replace1(g, "N set2-begin\n", "N set2-begin" + B + "C 2 d1\n");
  if (!has(judge(stale, END_EXIT, 0), "stale data in SetHandler window set2: cb2(d1)")) return "stale pair accepted";
  std::string nul = replace1(g, "N set1-begin\n", "N set1-begin" + B + "C 1 null\n");
  if (!has(judge(nul, END_EXIT, 0), "stale data in SetHandler window set1: cb1(null)")) return "null pair accepted";
  std::string nocall = replace1(ok1, "C 1 d1\nM cb\n", "");
  if (!has(judge(nocall, END_EXIT, 0), "callback not invoked")) return "missing callback accepted";
  std::string wrongreg = replace1(ok1, "C 1 d1", "C 2 d2");
  if (!has(judge(wrongreg, END_EXIT, 0), "wrong registration")) return "wrong registration accepted";
  std::string dead = replace1(g, "M destroyed\n", "M destroyed\nC 2 d2\n");
  if (!has(judge(dead, END_EXIT, 0), "after destructor returned")) return "callback after destruction accepted";
  std::string pre = "M pre\nN ctor-begin\nN ctor-end\nM constructed" + B + B;
  if (!has(judge(pre, END_EXIT, 1), "premature exit: interrupt #2")) return "premature exit accepted";
  std::string three = "M pre\nN ctor-begin\nN ctor-end\nM constructed" + B + B + B;
  Verdict t = judge(three, END_EXIT, 1);
  if (!t.findings.empty() || !t.third_exit) return "third-interrupt exit rejected";
  if (!has(judge(three + "S 1\n", END_EXIT, 1), "third interrupt did not terminate")) return "surviving third interrupt accepted";
  if (!judge("M pre\nN ctor-begin\n", END_SIGNAL, SIGTERM).findings.empty()) return "default death in ctor rejected";
  if (!has(judge("M pre\nN ctor-begin\nN ctor-end\nM constructed\n", END_SIGNAL, SIGINT), "killed by SIGINT"))
    return "default death after installation accepted";
  std::string spurious = replace1(g, "M constructed\nS 0", "M constructed\nS 1");
  if (!has(judge(spurious, END_EXIT, 0), "Stop() true before")) return "spurious stop accepted";
  return "";
}

}  // namespace c15
