// C15 explorer: ptrace-controlled scheduler for signal delivery (stateless model checking).
//
// For every schedule in the bound a FRESH child (sigprog) is started; the child runs at full
// speed between breakpoints and is single-stepped (PTRACE_SINGLESTEP) while its pc is inside one
// of the address windows (SignalHandler ctor, dtor, SetHandler, HandleSigInt) - every stop there
// is an instruction-level delivery point - and stops at the entry of c15_marker(), a phase-level
// delivery point.  Points are numbered in execution order; schedule [(k1,s1),(k2,s2),..] injects
// signal s_i exactly when point k_i is reached, i.e. before the instruction at that point
// executes: the tracer sends the signal with tgkill() while the child is stopped; on resume the
// kernel reports the signal-delivery-stop (if the signal is not blocked) before any user
// instruction runs and the tracer lets it through.  A blocked signal stays pending and is let
// through when the kernel reports it (at the return of the running handler).  A delivered signal
// makes the kernel enter HandleSigInt, whose instructions are points of the same run (nested
// delivery).  Every signal sent must be seen passing through before a normal end of the child.
// The observation (event stream on fd 1 + end status) is judged by protocol_model.h.
#include "explore.h"
#include "protocol_model.h"

#include <sys/ptrace.h>
#include <sys/wait.h>
#include <sys/user.h>
#include <sys/personality.h>
#include <sys/syscall.h>
#include <signal.h>
#include <fcntl.h>
#include <unistd.h>
#include <errno.h>
#include <limits.h>
#include <algorithm>

typedef unsigned long ulong_t;

struct Win { std::string kind, sym; ulong_t lo, hi; };
static std::vector<Win> g_wins;
static ulong_t g_marker = 0, g_handler_entry = 0;
static std::string g_prog, g_prog_real;
static bool g_pie = false;
static long long g_steps = 0, g_deliveries = 0, g_runs = 0;

struct Pt { int win; ulong_t off; bool phase; std::string label, ctx; };
struct Inj { int k, sig; };
struct Run {
  std::vector<Pt> pts;
  std::string log;
  int endkind = c15::END_TRACER_ERROR, code = 0;
  std::vector<std::string> dres;     // per injection: handler | deferred | killed | exited | not-reached
  std::string err;
};

static const char* sname(int s) { return s == SIGINT ? "INT" : "TERM"; }

static std::string pt_desc(const Pt& p) {
  char b[160];
  if (p.phase) std::snprintf(b, sizeof b, "marker:%s", p.label.c_str());
  else std::snprintf(b, sizeof b, "%s+0x%lx", g_wins[p.win].sym.c_str(), p.off);
  return b;
}
static std::string pt_kind(const Pt& p) { return p.phase ? "phase" : g_wins[p.win].kind; }

static int win_of(ulong_t a) {
  for (size_t i = 0; i < g_wins.size(); ++i) if (a >= g_wins[i].lo && a < g_wins[i].hi) return (int)i;
  return -1;
}

// ------------------------------------------------------------------------------ ptrace helpers
static volatile pid_t g_cur = 0;
static volatile sig_atomic_t g_timed_out = 0;
static void on_alarm(int) { g_timed_out = 1; if (g_cur > 0) kill(g_cur, SIGKILL); }

struct Tracee {
  pid_t pid;
  ulong_t base = 0;
  std::set<ulong_t> perm, temps;
  std::map<ulong_t, unsigned char> inserted;   // addr -> original byte
  void insert_all() {
    auto put = [&](ulong_t a) {
      if (inserted.count(a)) return;
      errno = 0;
      long w = ptrace(PTRACE_PEEKTEXT, pid, (void*)a, 0);
      if (errno) return;
      inserted[a] = (unsigned char)(w & 0xff);
      ptrace(PTRACE_POKETEXT, pid, (void*)a, (void*)((w & ~0xffL) | 0xcc));
    };
    for (ulong_t a : perm) put(a);
    for (ulong_t a : temps) put(a);
  }
  void remove_all() {
    for (auto& kv : inserted) {
      long w = ptrace(PTRACE_PEEKTEXT, pid, (void*)kv.first, 0);
      ptrace(PTRACE_POKETEXT, pid, (void*)kv.first, (void*)((w & ~0xffL) | kv.second));
    }
    inserted.clear();
  }
};

static ulong_t find_base(pid_t pid) {
  char path[64]; std::snprintf(path, sizeof path, "/proc/%d/maps", (int)pid);
  FILE* f = std::fopen(path, "r");
  if (!f) return 0;
  char line[PATH_MAX + 128]; ulong_t base = 0;
  while (std::fgets(line, sizeof line, f)) {
    ulong_t lo, hi, off; char perms[8], dev[16], file[PATH_MAX]; unsigned long ino; file[0] = 0;
    int n = std::sscanf(line, "%lx-%lx %7s %lx %15s %lu %s", &lo, &hi, perms, &off, dev, &ino, file);
    if (n >= 7 && g_prog_real == file && off == 0) { base = lo; break; }
  }
  std::fclose(f);
  return base;
}

static std::string read_cstr(pid_t pid, ulong_t a, size_t max = 40) {
  std::string s;
  while (s.size() < max) {
    errno = 0;
    long w = ptrace(PTRACE_PEEKDATA, pid, (void*)(a + s.size()), 0);
    if (errno) break;
    for (int i = 0; i < 8; ++i) {
      char c = (char)((w >> (8 * i)) & 0xff);
      if (!c || c == '\n') return s;
      s += c;
    }
  }
  return s;
}

// Execute one schedule.  full=false: after the last injection the child is simply continued
// (no further points are recorded).
static Run run_schedule(const std::vector<Inj>& sched, bool full, long max_steps = 200000) {
  Run R;
  ++g_runs;
  R.dres.assign(sched.size(), "not-reached");
  int pfd[2];
  if (pipe(pfd) < 0) { R.err = "pipe"; return R; }
  pid_t pid = fork();
  if (pid < 0) { R.err = "fork"; return R; }
  if (pid == 0) {
    personality(ADDR_NO_RANDOMIZE);
    dup2(pfd[1], 1);
    int dn = open("/dev/null", O_RDWR);
    dup2(dn, 0); dup2(dn, 2);
    for (int fd = 3; fd < 64; ++fd) close(fd);
    if (ptrace(PTRACE_TRACEME, 0, 0, 0) < 0) _exit(126);
    char* argv[] = {(char*)g_prog.c_str(), 0};
    char* envp[] = {(char*)"LC_ALL=C", 0};
    execve(g_prog.c_str(), argv, envp);
    _exit(127);
  }
  close(pfd[1]);
  g_cur = pid; g_timed_out = 0; alarm(20);
  int st = 0;
  Tracee T; T.pid = pid;
  bool ended = false;
  auto wait_stop = [&]() -> bool {            // false when the child is gone
    for (;;) {
      pid_t r = waitpid(pid, &st, 0);
      if (r < 0 && errno == EINTR) continue;
      if (r < 0) { R.err = "waitpid"; ended = true; return false; }
      break;
    }
    if (WIFEXITED(st)) { R.endkind = c15::END_EXIT; R.code = WEXITSTATUS(st); ended = true; return false; }
    if (WIFSIGNALED(st)) {
      R.endkind = g_timed_out ? c15::END_HANG : c15::END_SIGNAL; R.code = WTERMSIG(st); ended = true; return false;
    }
    return true;
  };

  if (!wait_stop() || WSTOPSIG(st) != SIGTRAP) {
    if (!ended) { kill(pid, SIGKILL); waitpid(pid, &st, 0); }
    R.endkind = c15::END_TRACER_ERROR;
    R.err = "ptrace unavailable: no exec stop (child status " + std::to_string(st) + ")";
    alarm(0); g_cur = 0; close(pfd[0]);
    return R;
  }
  ptrace(PTRACE_SETOPTIONS, pid, 0, (void*)PTRACE_O_EXITKILL);
  T.base = g_pie ? find_base(pid) : 0;
  if (g_pie && !T.base) { R.err = "cannot find load base"; kill(pid, SIGKILL); waitpid(pid, &st, 0);
    alarm(0); g_cur = 0; close(pfd[0]); return R; }
  const ulong_t base = T.base;
  for (auto& w : g_wins) if (w.sym.find(".cold") == std::string::npos) T.perm.insert(base + w.lo);
  T.perm.insert(base + g_marker);

  size_t next = 0;
  bool prev_point = false; ulong_t prev_rip = 0, prev_rsp = 0;
  std::string ctx = "start";
  long steps = 0;
  struct user_regs_struct regs;
  enum { FAST, STEP } mode = FAST;
  int passsig = 0;
  int sent = 0, passed = 0;                   // signals sent by tgkill / let through at their delivery stop
  std::set<int> pending;                      // standard signals do not queue: a second instance of a
                                              // signal that is still pending (blocked) coalesces with it

  auto drain = [&](int sig) {                 // continue to the end, passing signals through
    T.remove_all();
    for (;;) {
      ptrace(PTRACE_CONT, pid, 0, (void*)(long)sig);
      if (!wait_stop()) return;
      sig = WSTOPSIG(st) == SIGTRAP ? 0 : WSTOPSIG(st);
      if (sig == SIGINT || sig == SIGTERM) { ++passed; pending.erase(sig); }
    }
  };

  while (!ended) {
    if (mode == FAST) {
      T.insert_all();
      ptrace(PTRACE_CONT, pid, 0, (void*)(long)passsig);
      passsig = 0;
      if (!wait_stop()) break;
      int sig = WSTOPSIG(st);
      if (sig != SIGTRAP) {                                // deferred signal now deliverable / crash
        passsig = sig;
        if (sig == SIGINT || sig == SIGTERM) { ++passed; pending.erase(sig); }
        continue;
      }
      ptrace(PTRACE_GETREGS, pid, 0, &regs);
      ulong_t a = regs.rip - 1;
      if (!T.inserted.count(a)) { R.err = "unexpected SIGTRAP"; drain(0); break; }
      T.remove_all();
      regs.rip = a;
      ptrace(PTRACE_SETREGS, pid, 0, &regs);
      T.temps.erase(a);
      mode = STEP;
    }
    // ---- STEP mode: child stopped before executing the instruction at regs.rip, no breakpoints in
    ulong_t rip = regs.rip - base;
    int w = win_of(rip);
    bool is_marker = rip == g_marker;
    if (w < 0 && !is_marker) {
      if (prev_point && regs.rsp == prev_rsp - 8) {          // a call out of a window: come back at its return
        errno = 0;
        ulong_t ret = (ulong_t)ptrace(PTRACE_PEEKDATA, pid, (void*)regs.rsp, 0);
        if (!errno && ret > prev_rip && ret <= prev_rip + 8 && win_of(ret - base) >= 0) T.temps.insert(ret);
      }
      prev_point = false;
      mode = FAST;
      continue;
    }
    Pt p; p.win = w; p.phase = is_marker; p.off = is_marker ? 0 : rip - g_wins[w].lo; p.ctx = ctx;
    if (is_marker) {
      std::string s = read_cstr(pid, regs.rdi);
      p.label = s.size() > 2 ? s.substr(2) : s;
      ctx = "after marker " + p.label;
    }
    int idx = (int)R.pts.size();
    R.pts.push_back(p);
    int inj = 0; size_t inj_i = 0;
    if (next < sched.size() && sched[next].k == idx) {
      inj = sched[next].sig; inj_i = next; ++next; ++g_deliveries;
      T.temps.insert(regs.rip);                              // the handler returns to this point
    }
    prev_point = true; prev_rip = regs.rip; prev_rsp = regs.rsp;
    if (++steps > max_steps) { R.err = "step cap"; g_timed_out = 1; kill(pid, SIGKILL); wait_stop(); break; }
    bool coalesced = false;
    if (inj) {
      coalesced = pending.count(inj) > 0;
      syscall(SYS_tgkill, pid, pid, inj);
      if (!coalesced) { ++sent; pending.insert(inj); }
    }
    ptrace(PTRACE_SINGLESTEP, pid, 0, 0);
    ++g_steps;
    if (!wait_stop()) break;
    bool gone = false;
    while (WSTOPSIG(st) != SIGTRAP) {                        // signal-delivery-stop: let it through
      int sig = WSTOPSIG(st);
      if (sig == SIGINT || sig == SIGTERM) { ++passed; pending.erase(sig); }
      ptrace(PTRACE_SINGLESTEP, pid, 0, (void*)(long)sig);
      ++g_steps;
      if (!wait_stop()) {
        gone = true;
        if (inj) R.dres[inj_i] = R.endkind == c15::END_SIGNAL ? "killed" : "exited";
        break;
      }
    }
    if (gone) break;
    ptrace(PTRACE_GETREGS, pid, 0, &regs);
    if (inj) R.dres[inj_i] = coalesced ? "coalesced" : (regs.rip - base == g_handler_entry) ? "handler" : "deferred";
    if (inj && next == sched.size() && !full) { drain(0); break; }
  }
  alarm(0); g_cur = 0;
  // collect the event stream
  char buf[4096]; ssize_t n;
  while ((n = read(pfd[0], buf, sizeof buf)) > 0) { R.log.append(buf, n); if (R.log.size() > (1 << 20)) break; }
  close(pfd[0]);
  if (R.err.empty() && R.endkind == c15::END_EXIT && R.code == 0 && passed != sent)
    R.err = "signal dropped: sent " + std::to_string(sent) + ", delivered " + std::to_string(passed);
  if (!R.err.empty() && R.endkind != c15::END_HANG) R.endkind = c15::END_TRACER_ERROR;
  return R;
}

// ------------------------------------------------------------------------------ reporting
static vx::Report rep;
struct BestViolation { size_t len; std::string key, detail, replay; };
static std::map<std::string, BestViolation> g_best;     // signature -> shortest violating schedule seen
static bool g_thorough = false;
static long long g_replay_ctr = 0;

static std::string sched_str(const std::vector<Inj>& s) {
  std::string o;
  for (auto& i : s) { if (!o.empty()) o += ','; o += std::to_string(i.k) + ":" + sname(i.sig); }
  return o;
}
static std::string sched_json(const std::vector<Inj>& s, const Run& r) {
  std::string o = "[";
  for (size_t i = 0; i < s.size(); ++i) {
    if (i) o += ',';
    std::string at = s[i].k < (int)r.pts.size() ? pt_desc(r.pts[s[i].k]) : "?";
    std::string cx = s[i].k < (int)r.pts.size() ? r.pts[s[i].k].ctx : "?";
    o += "{\"k\":" + std::to_string(s[i].k) + ",\"sig\":\"" + sname(s[i].sig) + "\",\"at\":\"" +
         vx::jesc(at) + "\",\"ctx\":\"" + vx::jesc(cx) + "\",\"result\":\"" + r.dres[i] + "\"}";
  }
  return o + "]";
}
static std::string end_str(const Run& r) {
  switch (r.endkind) {
    case c15::END_EXIT: return "exit " + std::to_string(r.code);
    case c15::END_SIGNAL: return std::string("killed by ") + c15::signame(r.code);
    case c15::END_HANG: return "hang";
    default: return "tracer error: " + r.err;
  }
}
static bool same_obs(const Run& a, const Run& b) {
  return a.log == b.log && a.endkind == b.endkind && a.code == b.code;
}

// Judge one executed schedule; returns the verdict.
static c15::Verdict report(const std::vector<Inj>& s, const Run& r, bool full) {
  c15::Verdict v = c15::judge(r.log, r.endkind, r.code);
  rep.stat("evaluations");
  rep.stat(s.size() == 0 ? "base_runs" : s.size() == 1 ? "singles" : s.size() == 2 ? "pairs" : "triples");
  if (r.endkind == c15::END_TRACER_ERROR) { rep.broken("tracer error on schedule " + sched_str(s) + ": " + r.err); return v; }
  for (size_t i = 0; i < s.size(); ++i)
    if (r.dres[i] == "not-reached") rep.stat("injection_not_reached");
  if (v.nB > 0) rep.stat("handler_ran_runs");
  if (v.third_exit) rep.stat("third_exit_runs");
  if (v.default_death) rep.stat("default_death_runs");
  if (v.post_dtor_exit) rep.stat("post_dtor_termination_runs");
  if (v.nC > 0) rep.stat("callback_runs");
  rep.cls(v.summary);
  bool nested = false;
  for (size_t i = 0; i < s.size(); ++i)
    if (s[i].k < (int)r.pts.size() && pt_kind(r.pts[s[i].k]) == "handler") nested = true;
  bool replay_it = !v.findings.empty() || (g_replay_ctr++ % 16 == 0);
  if (replay_it) {
    Run a = run_schedule(s, full), b = run_schedule(s, false);
    rep.stat("replayed_schedules");
    if (same_obs(r, a) && same_obs(r, b)) rep.stat("traces_validated_against_impl");
    else {
      rep.broken("divergent replay of schedule " + sched_str(s) + ": '" + vx::jesc(r.log) + "' / '" +
                 vx::jesc(a.log) + "' / '" + vx::jesc(b.log) + "'");
      return v;
    }
  }
  for (auto& f : v.findings) {
    std::string sig = f.sig;
    if (sig.find("third interrupt did not terminate") != std::string::npos)
      sig += v.b_in_ctor ? " [an earlier handler run inside the ctor window]"
             : nested ? " [a delivery nested inside HandleSigInt]" : " [sequential deliveries]";
    std::string detail = "{\"schedule\":" + sched_json(s, r) + ",\"why\":\"" + vx::jesc(f.detail) +
                         "\",\"end\":\"" + vx::jesc(end_str(r)) + "\",\"observation\":\"" +
                         vx::jesc(v.summary) + "\",\"log\":\"" + vx::jesc(r.log) + "\"}";
    std::string replay = "{\"schedule\":\"" + sched_str(s) + "\",\"at\":" + sched_json(s, r) + "}";
    rep.stat("violating_schedules");
    rep.stat("viol|" + sig);
    char key[64]; std::snprintf(key, sizeof key, "%zu", s.size());
    std::string k = key;
    for (auto& i : s) { std::snprintf(key, sizeof key, ",%06d:%02d", i.k, i.sig); k += key; }
    auto it = g_best.find(sig);
    if (it == g_best.end() || k < it->second.key) g_best[sig] = {s.size(), k, detail, replay};
  }
  return v;
}

static void flush_violations() {
  for (auto& kv : g_best)
    std::printf("{\"type\":\"violation\",\"sig\":\"%s\",\"n\":%zu,\"key\":\"%s\",\"detail\":%s,\"replay\":%s}\n",
                vx::jesc(kv.first).c_str(), kv.second.len, kv.second.key.c_str(), kv.second.detail.c_str(),
                kv.second.replay.c_str());
}

static void parse_sched(const char* str, std::vector<Inj>& out) {
  std::string s = str;
  size_t p = 0;
  while (p < s.size()) {
    size_t c = s.find(',', p);
    std::string item = s.substr(p, c == std::string::npos ? std::string::npos : c - p);
    size_t colon = item.find(':');
    if (colon != std::string::npos)
      out.push_back({std::atoi(item.c_str()), item.substr(colon + 1) == "TERM" ? SIGTERM : SIGINT});
    if (c == std::string::npos) break;
    p = c + 1;
  }
}

int main(int argc, char** argv) {
  vx::Shard shard; shard.parse(argc, argv);
  g_thorough = vx::has_flag(argc, argv, "--thorough");
  for (int a = 1; a + 1 < argc; ++a) {
    if (!std::strcmp(argv[a], "--prog")) g_prog = argv[a + 1];
    else if (!std::strcmp(argv[a], "--marker")) g_marker = std::strtoul(argv[a + 1], 0, 16);
    else if (!std::strcmp(argv[a], "--win")) {            // kind:sym:lo:hi (hex)
      std::string s = argv[a + 1];
      size_t p3 = s.rfind(':'), p2 = s.rfind(':', p3 - 1), p1 = s.find(':');
      Win w; w.kind = s.substr(0, p1); w.sym = s.substr(p1 + 1, p2 - p1 - 1);
      w.lo = std::strtoul(s.substr(p2 + 1, p3 - p2 - 1).c_str(), 0, 16);
      w.hi = std::strtoul(s.substr(p3 + 1).c_str(), 0, 16);
      bool dup = false;
      for (auto& x : g_wins) if (x.lo == w.lo && x.hi == w.hi) dup = true;
      if (!dup) g_wins.push_back(w);
      if (w.kind == "handler" && w.sym.find(".cold") == std::string::npos) g_handler_entry = w.lo;
    }
  }
  if (g_prog.empty() || !g_marker || g_wins.empty() || !g_handler_entry) {
    rep.broken("usage: --prog P --marker HEX --win kind:sym:lo:hi ... (need a handler window)");
    rep.done(); return 2;
  }
  { char rp[PATH_MAX]; g_prog_real = realpath(g_prog.c_str(), rp) ? rp : g_prog; }
  { FILE* f = std::fopen(g_prog.c_str(), "rb"); unsigned char h[20] = {0};
    if (f) { (void)!std::fread(h, 1, 18, f); std::fclose(f); }
    g_pie = (h[16] | (h[17] << 8)) == 3; }                 // ET_DYN
  struct sigaction sa; std::memset(&sa, 0, sizeof sa); sa.sa_handler = on_alarm; sigaction(SIGALRM, &sa, 0);

  std::string st = c15::self_test();
  if (!st.empty()) { rep.broken("oracle self-test failed: " + st); rep.done(); return 2; }

  // ---- replay one schedule
  if (const char* one = vx::arg_value(argc, argv, "--one")) {
    std::vector<Inj> s; parse_sched(one, s);
    Run r = run_schedule(s, true);
    if (vx::has_flag(argc, argv, "--points"))
      for (size_t i = 0; i < r.pts.size(); ++i)
        std::printf("point %zu %s %s (%s)\n", i, pt_kind(r.pts[i]).c_str(), pt_desc(r.pts[i]).c_str(), r.pts[i].ctx.c_str());
    std::printf("schedule %s\nend: %s\nlog:\n%s\n", sched_json(s, r).c_str(), end_str(r).c_str(), r.log.c_str());
    g_replay_ctr = 1;
    c15::Verdict v = report(s, r, true);
    std::printf("observation: %s\n", v.summary.c_str());
    flush_violations();
    rep.done();
    return 0;
  }

  // ---- exploration
  Run base = run_schedule({}, true);
  if (base.endkind == c15::END_TRACER_ERROR) { rep.broken(base.err); rep.done(); return 2; }
  if (shard.i == 0) {
    int ni = 0, np = 0;
    std::map<std::string, int> perwin;
    for (auto& p : base.pts) { if (p.phase) ++np; else { ++ni; perwin[g_wins[p.win].kind]++; } }
    rep.stat("points_instr_base", ni); rep.stat("points_phase_base", np);
    for (auto& kv : perwin) rep.stat("points_base_" + kv.first, kv.second);
    report({}, base, true);
  }
  const int sigs[2] = {SIGINT, SIGTERM};
  long long single_ctr = 0, pair_ctr = 0, states = 0;
  if (shard.i == 0) states += base.pts.size();
  for (int k1 = 0; k1 < (int)base.pts.size(); ++k1) for (int s1 : sigs) {
    std::vector<Inj> S1 = {{k1, s1}};
    Run r1 = run_schedule(S1, true);
    bool own1 = shard.mine(single_ctr++);
    if (own1) {
      c15::Verdict v1 = report(S1, r1, true);
      states += r1.pts.size() > (size_t)k1 ? r1.pts.size() - k1 - 1 : 0;
      if (shard.i == 0 || rep.samples < 3)
        rep.sample("{\"schedule\":" + sched_json(S1, r1) + ",\"end\":\"" + end_str(r1) + "\",\"observation\":\"" +
                   vx::jesc(v1.summary) + "\"}");
    }
    if (r1.endkind == c15::END_TRACER_ERROR) continue;
    bool ph1 = r1.pts.size() > (size_t)k1 && r1.pts[k1].phase;
    for (int k2 = k1 + 1; k2 < (int)r1.pts.size(); ++k2) for (int s2 : sigs) {
      bool ph2 = r1.pts[k2].phase;
      if (!shard.mine(pair_ctr++)) continue;
      bool children = (ph1 && ph2) || g_thorough;
      std::vector<Inj> S2 = {{k1, s1}, {k2, s2}};
      Run r2 = run_schedule(S2, children);
      c15::Verdict v2 = report(S2, r2, children);
      if (rep.samples < 5 && (pair_ctr % 7) == 0)
        rep.sample("{\"schedule\":" + sched_json(S2, r2) + ",\"end\":\"" + end_str(r2) + "\",\"observation\":\"" +
                   vx::jesc(v2.summary) + "\"}");
      if (!children || r2.endkind == c15::END_TRACER_ERROR) continue;
      states += r2.pts.size() > (size_t)k2 ? r2.pts.size() - k2 - 1 : 0;
      for (int k3 = k2 + 1; k3 < (int)r2.pts.size(); ++k3) for (int s3 : sigs) {
        int nph = (int)ph1 + (int)ph2 + (int)r2.pts[k3].phase;
        // quick: three phase-level points; thorough: >= 2 phase-level points, or any two points
        // followed by a phase-level third
        if (!(g_thorough ? (nph >= 2 || r2.pts[k3].phase) : nph == 3)) continue;
        std::vector<Inj> S3 = {{k1, s1}, {k2, s2}, {k3, s3}};
        Run r3 = run_schedule(S3, false);
        c15::Verdict v3 = report(S3, r3, false);
        if (rep.samples < 6 && v3.third_exit)
          rep.sample("{\"schedule\":" + sched_json(S3, r3) + ",\"end\":\"" + end_str(r3) + "\",\"observation\":\"" +
                     vx::jesc(v3.summary) + "\"}");
      }
    }
  }
  rep.stat("schedule_prefix_states", states);
  rep.stat("single_steps", g_steps);
  rep.stat("signal_deliveries", g_deliveries);
  rep.stat("child_runs", g_runs);
  flush_violations();
  rep.done();
  return 0;
}
