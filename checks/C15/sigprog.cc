// C15 child: the phases of a driver run around the real mp::internal::SignalHandler.
//
// Single-threaded, nothing timing dependent.  Everything observable is written with write(2)
// to fd 1 (the same descriptor HandleSigInt writes its "<BREAK>" text to, so that all events
// of one run form ONE totally ordered stream):
//   N <window>-begin / N <window>-end   log-only notes around ctor / SetHandler / dtor
//   M <name>                            phase marker; the entry of c15_marker() is a
//                                       phase-level signal delivery point for the tracer
//   S <0|1>                             value of Interrupter::Stop() polled through the solver
//   C <fn> <data>                       the registered callback was invoked: function id, data id
//   <BREAK> (solver)                    written by SignalHandler::HandleSigInt itself
// The registration goes through BasicSolver::interrupter()->SetHandler(), i.e. the path
// StdBackend::SetupInterrupter() -> Impl::SetInterrupter(inter) -> inter->SetHandler(cb, data)
// takes; the handler object is created with new / destroyed with delete like
// BackendApp::InitHandlers() (unique_ptr) does.
#include "mp/solver-app-base.h"
#include "mp/solver-base.h"
#include <unistd.h>
#include <cstring>

static void out(const char* s) { (void)!write(1, s, std::strlen(s)); }

extern "C" __attribute__((noinline)) void c15_marker(const char* line) { out(line); }
extern "C" __attribute__((noinline)) void c15_note(const char* line) { out(line); }

static int d1 = 1, d2 = 2;

static const char* data_id(void* p) {
  return p == &d1 ? "d1" : p == &d2 ? "d2" : p ? "other" : "null";
}
static void log_cb(const char* fn, void* p) {
  char b[32]; size_t n = 0;
  for (const char* s = "C "; *s;) b[n++] = *s++;
  for (const char* s = fn; *s;) b[n++] = *s++;
  b[n++] = ' ';
  for (const char* s = data_id(p); *s;) b[n++] = *s++;
  b[n++] = '\n';
  (void)!write(1, b, n);               // one write per event
}
static bool cb1(void* p) { log_cb("1", p); c15_marker("M cb\n"); return true; }
static bool cb2(void* p) { log_cb("2", p); c15_marker("M cb\n"); return true; }

static void poll(mp::BasicSolver& s) { out(s.interrupter()->Stop() ? "S 1\n" : "S 0\n"); }

int main() {
  mp::BasicSolver solver;
  c15_marker("M pre\n");                       // before the driver installs anything
  c15_note("N ctor-begin\n");
  mp::internal::SignalHandler* sh = new mp::internal::SignalHandler(solver);
  c15_note("N ctor-end\n");
  c15_marker("M constructed\n");               // options parsed, NL read: nothing registered
  poll(solver);
  c15_note("N set1-begin\n");
  solver.interrupter()->SetHandler(cb1, &d1);  // backend registers (cb1,&d1)
  c15_note("N set1-end\n");
  c15_marker("M solve1\n");                    // "solve": polling Stop()
  poll(solver);
  c15_marker("M solve1b\n");
  poll(solver);
  c15_note("N set2-begin\n");
  solver.interrupter()->SetHandler(cb2, &d2);  // re-registration (second solve / new model)
  c15_note("N set2-end\n");
  c15_marker("M solve2\n");
  poll(solver);
  c15_marker("M report\n");                    // result reporting
  poll(solver);
  c15_note("N dtor-begin\n");
  delete sh;
  c15_note("N dtor-end\n");
  c15_marker("M destroyed\n");
  out(solver.interrupter()->Stop() ? "T 1\n" : "T 0\n");   // informational only
  c15_marker("M epilogue\n");
  _exit(0);
}
