"""C15 interrupts: stateless model checking of the real mp::internal::SignalHandler under a ptrace-controlled
signal scheduler (every instruction boundary of ctor / SetHandler / dtor / HandleSigInt + phase markers)."""
import json, os, re, subprocess, sys
import vbuild, vcheck

PID = 'C15'

# mangled-name patterns -> (window kind, short symbol)
SYMS = [
    (re.compile(r'^_ZN2mp8internal13SignalHandlerC[12]E'), 'ctor', 'SignalHandler::SignalHandler'),
    (re.compile(r'^_ZN2mp8internal13SignalHandlerD[12]Ev'), 'dtor', 'SignalHandler::~SignalHandler'),
    (re.compile(r'^_ZN2mp8internal13SignalHandlerD0Ev'), 'dtor', 'SignalHandler::~SignalHandler[deleting]'),
    (re.compile(r'^_ZN2mp8internal13SignalHandler10SetHandlerE'), 'set', 'SignalHandler::SetHandler'),
    (re.compile(r'^_ZN2mp8internal13SignalHandler12HandleSigIntEi'), 'handler', 'SignalHandler::HandleSigInt'),
]


def build():
    child = vbuild.build_program('c15_sigprog', 'plain', ['checks/C15/sigprog.cc'], with_libmp=True)
    tracer = vbuild.build_program('c15_sigstep', 'plain', ['checks/C15/sigstep.cc'], mp_srcs=[])
    return child, tracer


APP_POINTS = ['solve', 'report', 'member-dtor', 'deleted', 'after-app']


def teardown_family(chk):
    """the real mp::BackendApp owning backend and SignalHandler: every schedule of 1..2 synchronous signals over the
    teardown points (checks/C15/sigapp.cc); a callback into a backend whose destruction began is a violation"""
    app = vbuild.build_program('c15_sigapp', 'plain', ['checks/C15/sigapp.cc'], with_libmp=True)
    scheds = [[(p, g)] for p in APP_POINTS for g in ('INT', 'TERM')]
    for i, p in enumerate(APP_POINTS):
        for q in APP_POINTS[i:]:
            for g in ('INT', 'TERM'):
                for h in ('INT', 'TERM'):
                    scheds.append([(p, g), (q, h)])
    classes = set(); n = 0
    for sc in scheds:
        arg = ','.join('%s:%s' % t for t in sc)
        # two signals at one point are raised in schedule order by the child; same point + same signal raises it twice
        pr = subprocess.run([app], capture_output=True, text=True, timeout=60,
                            env={'C15_APP_SCHEDULE': arg, 'PATH': '/usr/bin:/bin', 'LC_ALL': 'C'})
        n += 1
        ev = [l for l in pr.stdout.splitlines() if l.strip()]
        problems = []
        # after the handler object is destroyed the interrupt count is unspecified (the destructor leaves it at 1): a second
        # signal raised in that region may be taken as the terminating one
        may_terminate = len(sc) == 2 and sc[1][0] not in ('solve', 'report')
        ended = pr.returncode == 0 and ev and ev[-1] == 'E end'
        if not ended and not (may_terminate and pr.returncode == 1 and ev and ev[-1].startswith('P ')):
            problems.append('run did not end normally (rc=%s)' % pr.returncode)
        if 'C dead' in ev: problems.append('callback invoked on a backend whose destruction had begun')
        live = {'solve', 'report'}
        for k, l in enumerate(ev):
            if not l.startswith('P '): continue
            pt = l.split()[1]
            nxt = next((j for j in range(k + 1, len(ev)) if ev[j][:2] in ('P ', 'E ', 'S ')), len(ev))
            calls = [x for x in ev[k + 1:nxt] if x.startswith('C ')]
            if pt in live and calls != ['C alive']: problems.append('signal at %s: callback calls %r (expected exactly one on the live backend)' % (pt, calls))
            if pt not in live and calls: problems.append('signal at %s: callback calls %r (expected none)' % (pt, calls))
        want_stop = any(p == 'solve' for p, _ in sc)
        if ('S 1' in ev) != want_stop: problems.append('Stop() after the solve point is %s' % ('S 1' in ev))
        classes.add('app|%s|%s' % ('+'.join(p for p, _ in sc), 'ok' if not problems else 'bad'))
        for pb in problems:
            chk.violation('C15 teardown (BackendApp): ' + pb.split(':')[0].split('(')[0].strip() + ' [first point %s]' % sc[0][0],
                          {'schedule': arg, 'problem': pb, 'events': ev}, {'kind': 'app', 'schedule': arg})
    chk.set('teardown_schedules', n)
    chk.set('teardown_observation_classes', len(classes))
    if n and not any(c.endswith('|ok') for c in classes): chk.broken.append('teardown family: no schedule conforms')
    return n


def windows(child):
    """Address windows from the symbol table of the binary that is actually run."""
    out = subprocess.run(['nm', '-S', '--defined-only', child], capture_output=True, text=True, check=True).stdout
    wins, marker, seen = [], None, set()
    for line in out.splitlines():
        f = line.split()
        if len(f) == 4:
            addr, size, typ, name = f
        elif len(f) == 3:
            addr, size, typ, name = f[0], '0', f[1], f[2]
        else:
            continue
        if name == 'c15_marker':
            marker = int(addr, 16)
        for rx, kind, short in SYMS:
            if rx.match(name) and typ in 'tTwW' and int(size, 16) > 0:
                lo, hi = int(addr, 16), int(addr, 16) + int(size, 16)
                if (lo, hi) in seen:
                    continue
                seen.add((lo, hi))
                wins.append((kind, short + ('.cold' if '.cold' in name else ''), lo, hi))
    return wins, marker


def tracer_args(child):
    wins, marker = windows(child)
    kinds = {w[0] for w in wins}
    if marker is None or not {'ctor', 'dtor', 'set', 'handler'} <= kinds:
        return None, 'symbols not found in %s: marker=%s windows=%s' % (child, marker, sorted(kinds))
    args = ['--prog', child, '--marker', '%x' % marker]
    for kind, sym, lo, hi in wins:
        args += ['--win', '%s:%s:%x:%x' % (kind, sym, lo, hi)]
    return args, None


def main(tier, seed):
    chk = vcheck.Check(PID, tier, 'model_checking', seed)
    child, tracer = build()
    args, err = tracer_args(child)
    if err:
        chk.broken.append(err)
        return chk.finish()
    if tier == 'thorough':
        args.append('--thorough')
    res = vcheck.run_shards(tracer, 16, args, timeout=3000)
    # report, per signature, the shortest violating schedule found by any shard
    best, stripped = {}, []
    for rc, out, errtxt in res:
        keep = []
        for line in out.splitlines():
            if line.startswith('{"type":"violation"'):
                r = json.loads(line)
                if r['sig'] not in best or r['key'] < best[r['sig']]['key']:
                    best[r['sig']] = r
            else:
                keep.append(line)
        stripped.append((rc, '\n'.join(keep), errtxt))
    vcheck.absorb(chk, stripped)
    for sig in sorted(best, key=lambda s: best[s]['key']):
        chk.violation(sig, best[sig]['detail'], best[sig]['replay'])
    n_app = teardown_family(chk)
    c = chk.cov
    vcheck.finalize_classes(chk)
    c['evaluations'] = c.get('evaluations', 0) + n_app
    c['violating_schedules_by_signature'] = {k[5:]: c.pop(k) for k in list(c) if k.startswith('viol|')}
    c['states'] = c.get('schedule_prefix_states', 0)
    c['distinct_observation_records'] = c['distinct_nontrivial']
    c['transitions'] = c.get('single_steps', 0) + c.get('signal_deliveries', 0)
    c.setdefault('traces_validated_against_impl', 0)
    # ---- vacuity guards
    if c.get('points_instr_base', 0) < 20:
        chk.broken.append('only %d instruction-level delivery points (need >= 20): windows not stepped / ptrace '
                          'unavailable' % c.get('points_instr_base', 0))
    for k in ('points_base_ctor', 'points_base_set', 'points_base_dtor'):
        if c.get(k, 0) == 0:
            chk.broken.append('no instruction-level point in window %s' % k)
    if c.get('handler_ran_runs', 0) == 0:
        chk.broken.append('no schedule made the signal handler run')
    if c.get('third_exit_runs', 0) == 0:
        chk.broken.append('no schedule reached the "third interrupt exits" outcome')
    if c.get('default_death_runs', 0) == 0:
        chk.broken.append('no schedule delivered a signal before the handler was installed')
    if c.get('injection_not_reached', 0):
        chk.broken.append('%d scheduled injections were never reached (point numbering diverged)'
                          % c['injection_not_reached'])
    chk.set('rule', 'one fresh child per schedule; schedule = 1..3 (point, SIGINT|SIGTERM) deliveries, point = k-th stop '
            'of the run inside SignalHandler ctor/dtor/SetHandler/HandleSigInt (every instruction boundary, '
            'PTRACE_SINGLESTEP) or at a phase marker (pre, constructed, solve1, solve1b, solve2, report, destroyed, '
            'epilogue, in-callback). quick: all singles + all pairs of any two points + all triples of phase-level points; '
            'thorough: + all triples with >= 2 phase-level points + all triples (any, any, phase-level). Oracle: protocol_model.h monitor over '
            'the child\'s ordered event stream. A class is a distinct observation record (compressed event stream + end '
            'status). states = distinct schedule-prefix states (prefix, next point) visited; transitions = single-steps '
            '+ signal deliveries; traces_validated = schedules re-executed twice (once stepped, once free-running after '
            'the last delivery) with byte-identical observation: every violating schedule and every 16th other. Teardown family: the real '
            'mp::BackendApp (owning backend and handler) with every schedule of 1..2 self-raised signals over {solve, report, backend member '
            'destructor, backend storage released, after the driver object is gone}: no callback may reach a backend whose destruction began.')
    chk.set('bounds', {'signals': ['SIGINT', 'SIGTERM'], 'max_deliveries': 3,
                       'singles': 'all points', 'pairs': 'all points',
                       'triples': '>=2 phase-level points, or any two points followed by a phase-level point' if tier == 'thorough'
                       else 'phase-level points',
                       'variant': 'plain (g++ -O1)'})
    chk.assumptions += [
        'Linux/glibc signal() semantics (BSD: handler stays installed, the delivered signal is blocked while its '
        'handler runs); a blocked signal injected by the tracer stays pending and is delivered when the handler returns',
        'code between two accesses of SignalHandler static state cannot be distinguished by the handler, so delivery at '
        'instruction boundaries of the four member functions + phase markers covers every distinguishable instant for '
        'this build (g++ -O1); other compilers/optimisation levels may order the stores differently',
        'inside a SetHandler window a handler run may call the old pair, the new pair or (transiently unregistered) no '
        'callback; Stop() must observe it in every case. Outside the windows exactly one call of the current pair per '
        'handler run is required',
        'death by the default disposition is accepted while the main flow is before or inside the constructor; after '
        'the destructor began, termination/count semantics are unspecified (only "no callback after it returned" is '
        'demanded)',
        'rule (iii) counts handler runs (the "<BREAK>" text) while the handler object is alive; once the third started, '
        'the main flow must not resume and the exit status must be 1',
        'Stop() returning true before any handler ran is treated as a violation (the stop query must be informative)',
    ]
    return chk.finish()


def replay(path):
    r = json.load(open(path))['replay']
    if r.get('kind') == 'app':
        app = vbuild.build_program('c15_sigapp', 'plain', ['checks/C15/sigapp.cc'], with_libmp=True)
        pr = subprocess.run([app], capture_output=True, text=True, env={'C15_APP_SCHEDULE': r['schedule'], 'PATH': '/usr/bin:/bin'})
        print(pr.stdout)
        return 1 if 'C dead' in pr.stdout or pr.returncode != 0 else 0
    child, tracer = build()
    args, err = tracer_args(child)
    if err:
        print('BROKEN-CHECK property=%s %s' % (PID, err))
        return 2
    p = subprocess.run([tracer] + args + ['--one', r['schedule'], '--points'], capture_output=True, text=True,
                       env={'LC_ALL': 'C'})
    print(p.stdout)
    recs = vcheck.parse_jsonl(p.stdout)
    if any(x.get('type') == 'broken' for x in recs) or not any(x.get('type') == 'done' for x in recs):
        return 2
    # the recorded symbol+offset of every delivery must still be what the schedule index denotes
    want = [d['at'] for d in r.get('at', [])]
    m = re.search(r'^schedule (\[.*\])$', p.stdout, re.M)
    got = [d['at'] for d in json.loads(m.group(1))] if m else []
    if want and want != got:
        print('replay: delivery points moved (binary changed): recorded %s, now %s' % (want, got))
    return 1 if any(x.get('type') == 'violation' for x in recs) else 0
