// C15 teardown family: the real driver object mp::BackendApp (include/mp/backend-app.h) owns the backend and the
// SignalHandler.  A backend that registered (callback, this) must not be called back once its destruction began.
//
// Deterministic, single-threaded: the program raises the scheduled signals itself (std::raise is synchronous) at the
// named points selected by the environment variable C15_APP_SCHEDULE = "point:SIG,point:SIG" (SIG = INT | TERM).
// Points, in program order:
//   solve          inside RunFromNLFile, after the backend registered its callback
//   report         after the solve, still inside Run
//   member-dtor    inside the destructor of a backend member (the backend's own destructor body already ran)
//   deleted        in the backend's operator delete, after its storage was released
//   after-app      after the BackendApp object is gone
// Events on fd 1 (one write each):  P <point> <sig>   signal raised
//                                   C alive|dead      callback invoked, backend alive / in destruction or destroyed
//                                   S <0|1>           Stop() polled in the solve after the point "solve"
//                                   E <name>          progress markers
#include <csignal>
#include <cstdlib>
#include <cstring>
#include <memory>
#include <string>
#include <unistd.h>
#include "mp/backend-app.h"

static void out(const std::string& s) { (void)!write(1, s.c_str(), s.size()); }
static volatile int g_alive = 0;
static const char* g_sched = "";

static bool Callback(void*) { out(g_alive ? "C alive\n" : "C dead\n"); return true; }

static void point(const char* name) {
  for (const char* p = g_sched; p && *p;) {
    const char* e = std::strchr(p, ','); std::string item = e ? std::string(p, e) : std::string(p);
    size_t c = item.find(':');
    if (c != std::string::npos && item.substr(0, c) == name) {
      bool term = item.substr(c + 1) == "TERM";
      out(std::string("P ") + name + (term ? " TERM\n" : " INT\n"));
      std::raise(term ? SIGTERM : SIGINT);
    }
    p = e ? e + 1 : nullptr;
  }
}

struct Env { ~Env() { point("member-dtor"); } };     // stands for the native solver environment a backend holds

class TeardownBackend : public mp::BasicBackend {
public:
  TeardownBackend() { g_alive = 1; }
  ~TeardownBackend() override { g_alive = 0; out("E backend-dtor\n"); }
  static void operator delete(void* p) { ::operator delete(p); point("deleted"); }
  void RunFromNLFile(const std::string&, const std::string&) override {
    interrupter()->SetHandler(Callback, this);      // what StdBackend::SetupInterrupter() does
    point("solve");
    out(interrupter()->Stop() ? "S 1\n" : "S 0\n");
    point("report");
  }
  void ReadNL(const std::string&, const std::string&, char**) override {}
  void InputExtras() override {}
  void ReportResults() override {}
  void ReportError(int, fmt::CStringRef) override {}
private:
  Env env_;
};

int main() {
  if (const char* s = std::getenv("C15_APP_SCHEDULE")) g_sched = s;
  char a0[] = "c15-sigapp", a1[] = "stub"; char* argv[] = {a0, a1, nullptr};
  {
    mp::BackendApp app{std::unique_ptr<mp::BasicBackend>(new TeardownBackend)};
    out("E run\n");
    app.Run(argv);
    out("E teardown\n");
  }
  out("E app-gone\n");
  point("after-app");
  out("E end\n");
  return 0;
}
