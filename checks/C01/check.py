"""C01: reformulation equivalence.  Bounded exhaustive exploration of
   (NL model) x (acceptance configuration closure, deviation bounded) x (conversion options)
with a point-wise oracle on the full grid of original variables (NL evaluator vs exhaustive
auxiliary-variable search over the delivered model)."""
import json, os, sys, time, collections, hashlib
from multiprocessing import Pool
import vbuild, vcheck, flatlib, flatgen, flatcheck, nlmodel

PID = 'C01'

# conversion-option deviations from the defaults (DESIGN.md 2.5)
OPTION_DEVS = ['cvt:pre:all=0', 'cvt:pre:eqresult=0', 'cvt:pre:eqbinary=0', 'cvt:pre:unnest=0',
               'cvt:quadcon=0', 'cvt:quadobj=0', 'cvt:uenc:ratio=0', 'cvt:uenc:ratio=1e9',
               'cvt:uenc:negctx:max=0', 'cvt:uenc:negctx:max=100', 'cvt:sos=0', 'cvt:sos2=0',
               'cvt:socp=0', 'cvt:socp2qc=0', 'cvt:bigM=100', 'cvt:cmp:eps=1e-3']

G_OPT_NAMES = {
    'AlgebraicConstraint< QuadAndLinTerms, RhsLE >': 'acc:quadle',
    'AlgebraicConstraint< QuadAndLinTerms, RhsEQ >': 'acc:quadeq',
    'AlgebraicConstraint< QuadAndLinTerms, RhsGE >': 'acc:quadge',
    'QuadraticConeConstraint': 'acc:quadcone', 'RotatedQuadraticConeConstraint': 'acc:rotatedquadcone',
    'ExponentialConeConstraint': 'acc:expcone',
}


def build():
    return flatlib.build()


_srv = None


def _server():
    global _srv
    if _srv is None:
        _srv = flatlib.Server(flatlib.build())
    return _srv


CONE_PRESETS = ['g4', 'g6', 'g5']


def sig_of(fam, name, v):
    kind = v.get('kind', v['verdict'])
    return 'C01 %s model=[%s] %s' % (fam, name, kind.split(' ')[0])


def work(args):
    """one model: closure x option deviations; returns stats + violations"""
    fam, name, m, tier, gnames, idx = args
    srv = _server()
    st = collections.Counter(); viols = []; classes = set(); fps = set(); samples = []
    nl = m.nl(); tt = flatcheck.truth_table(m)
    levels = (2,) if tier == 'quick' else (1, 2)
    max_dev = 1 if tier == 'quick' else 2
    ops = tuple(sorted(set(sum((nlmodel.ops_of(c[0]) for c in m.acons if c[0]), []) +
                           sum((nlmodel.ops_of(e) for e in m.lcons), []) +
                           sum((nlmodel.ops_of(o[1]) for o in m.objs if o[1]), []))))

    def record(cfg, opts, r, v, route='api'):
        st['configs'] += 1
        st['v_' + v['verdict']] += 1
        if v['verdict'] == 'undecided': st['undecided: ' + str(v.get('why'))[:60]] += 1
        if v['verdict'] == 'ok' and v.get('nontrivial'):
            st['nontrivial'] += 1
            fps.add(flatcheck.delivery_fingerprint(r)[:12])
        classes.add('%s|%s|%s' % (fam, '+'.join(ops)[:60], v['verdict']))
        if v['verdict'] in ('violation', 'crash'):
            viols.append({'sig': sig_of(fam, name, v),
                          'detail': {'model': m.describe(), 'config': flatcheck.cfg_str(cfg), 'opts': opts,
                                     'verdict': {k: v[k] for k in v if k != 'detail'},
                                     'msg': str(v.get('detail', ''))[:400]},
                          'replay': {'nl': nl, 'opts': opts, 'acc': flatcheck.acc_of(cfg, cfg.get('default', 0)),
                                     'norig': len(m.vars), 'tt': tt, 'model': m.describe()}})

    for g in gnames:
        if g == 'g3' and fam == 'shapes' and tier == 'thorough' and idx % 4: continue     # non-convex-QC preset: every 4th shape model
        res = flatcheck.closure(srv, nl, '', g, levels=levels, max_dev=max_dev)
        for ci, (cfg, r0) in enumerate(res):
            dflt = cfg.get('default', 0)
            r = srv.request('convert', nl=nl, opts='', acc=flatcheck.acc_of(cfg, dflt))
            if flatcheck.delivery_fingerprint(r) != flatcheck.delivery_fingerprint(r0):
                st['nondeterministic'] += 1
                viols.append({'sig': 'C01 NONDETERMINISM model=[%s]' % name, 'detail': m.describe(), 'replay': None})
                continue
            v = flatcheck.judge_fast(srv, m, r, tt)
            st['traces_replayed'] += 1
            record(cfg, '', r, v)
            # cross-check the C++ oracle against the Python oracle on a deterministic subset
            if (idx + ci) % 23 == 0 and r.get('status') == 'ok':
                pv = flatcheck.judge(m, r)
                st['oracle_crosschecks'] += 1
                if pv['verdict'] != v['verdict'] or pv.get('kind') != v.get('kind'):
                    st['oracle_disagreements'] += 1
            # differential: acceptance set through acc:* options over an all-accepting API, and
            # irrelevant types flipped to level 1 -- delivery must be identical (closure lemma)
            if dflt == 0 and r.get('status') in ('ok', 'exc') and idx % (3 if tier == 'quick' else 2) == 0:
                stored = r.get('stored', {})
                rel = {info.get('tn') or k: info.get('opt', '').split(' ')[0] for k, info in stored.items()}
                for t, o in G_OPT_NAMES.items(): rel.setdefault(t, o)
                optstr = ' '.join('%s=%d' % (o, cfg['types'].get(t, 0)) for t, o in sorted(rel.items()) if o)
                cB = {'g': cfg['g'], 'types': {}, 'flags': cfg['flags']}
                rB = srv.request('convert', nl=nl, opts=optstr, acc=flatcheck.acc_of(cB, 2))
                st['differential_runs'] += 1
                if rB.get('status') == 'ok' and r.get('status') == 'ok' and \
                        flatcheck.delivery_fingerprint(rB) != flatcheck.delivery_fingerprint(r):
                    # not necessarily a defect of the property: judge the option-route delivery itself
                    vB = flatcheck.judge_fast(srv, m, rB, tt)
                    st['differential_differs'] += 1
                    record(cfg, optstr, rB, vB, 'opt')
                cC = {'g': cfg['g'], 'types': {t: cfg['types'].get(t, 0) for t in rel}, 'flags': cfg['flags']}
                for t in flatcheck.LIN3: cC['types'][t] = 2
                rC = srv.request('convert', nl=nl, opts='', acc=flatcheck.acc_of(cC, 1))
                st['lemma_runs'] += 1
                if rC.get('status') == 'ok' and r.get('status') == 'ok' and \
                        flatcheck.delivery_fingerprint(rC) != flatcheck.delivery_fingerprint(r):
                    st['lemma_differs'] += 1
                    vC = flatcheck.judge_fast(srv, m, rC, tt)
                    record(cC, '', rC, vC, 'lemma')
        # conversion options: single deviations on the base config and on the all-accepting config
        # quick: option deviations under the first preset only, except for the sharing family (one expression used
        # in an objective and a constraint: cvt:quadobj / cvt:quadcon decide which of them owns the expression)
        if tier == 'quick' and g != gnames[0] and fam != 'sharing': continue
        base = flatcheck.base_config(g)
        call = {'g': g + '+all', 'types': dict(base['types']), 'flags': dict(base['flags']), 'default': 2}
        devs = OPTION_DEVS if (tier == 'quick' or g != gnames[0]) else OPTION_DEVS + \
            [a + ' ' + b for i, a in enumerate(OPTION_DEVS) for b in OPTION_DEVS[i + 1:]
             if a.split('=')[0] != b.split('=')[0]]        # option pairs only under the first preset
        for cfg in ((base,) if tier == 'quick' else (base, call)):
            for od in devs:
                r = srv.request('convert', nl=nl, opts=od, acc=flatcheck.acc_of(cfg, cfg.get('default', 0)))
                if r.get('status') == 'optionerror':
                    st['option_unknown'] += 1; continue
                # cvt:sos=0 / cvt:sos2=0 ask the converter to ignore the SOS suffixes: the reference does the same
                m2, tt2 = m, tt
                drop = [n for flag, names in (('cvt:sos=0', ('sosno', 'ref')), ('cvt:sos2=0', ('sos', 'sosref'))) if flag in od.split() for n in names]
                if drop and any(sf[2] in drop for sf in m.suffixes):
                    m2 = nlmodel.Model(m.vars, acons=m.acons, lcons=m.lcons, objs=m.objs, dvars=m.dvars, compl=m.compl,
                                       suffixes=[sf for sf in m.suffixes if sf[2] not in drop])
                    tt2 = flatcheck.truth_table(m2)
                v = flatcheck.judge_fast(srv, m2, r, tt2)
                record(cfg, od, r, v)
    if idx % 500 == 0:
        samples.append({'model': m.describe(), 'nl_lines': nl.count('\n'), 'configs': st['configs']})
    return dict(st), viols, sorted(classes), sorted(fps), samples


def main(tier, seed):
    chk = vcheck.Check(PID, tier, 'exploration', seed)
    build()
    gnames = ['g0', 'g2', 'g5'] if tier == 'quick' else ['g0', 'g2', 'g3', 'g4', 'g5']
    only = os.environ.get('C01_FAMILIES')
    models = list(flatgen.all_models(tier, only.split(',') if only else None))
    step = int(os.environ.get('C01_STEP', '1'))
    # small special families first: if the deadline stops the run, what is cut is the tail of the shape family
    # and the costly families (exact LP over many weights, long integer enumerations) first, so that they do not form the tail
    HEAVY = ('pl', 'affprod', 'unbounded', 'log3', 'sos', 'cones')
    models.sort(key=lambda t: (t[0] == 'shapes', t[0] not in HEAVY))
    # the cone-shaped rows are run under the presets that accept cones (with / without quadratic rows)
    jobs = [(fam, name, m, tier, CONE_PRESETS if fam == 'cones' else gnames, i)
            for i, (fam, name, m) in enumerate(models) if i % step == 0]
    deadline = time.time() + (600 if tier == 'quick' else 3300)
    tot = collections.Counter(); classes = set(); fps = set()
    done = 0
    with Pool(vcheck.NCPU) as pool:
        for st, viols, cl, fp, samples in pool.imap_unordered(work, jobs, chunksize=1):
            done += 1
            tot.update(st); classes.update(cl); fps.update(fp)
            for s in samples: chk.sample(s)
            for v in viols:
                chk.violation(v['sig'], v['detail'], v['replay'])
            if time.time() > deadline:
                chk.not_exhaustive('deadline reached after %d of %d models' % (done, len(jobs)))
                pool.terminate(); break
    for k, v in tot.items(): chk.set(k, v)
    chk.set('models', done)
    chk.set('evaluations', tot['configs'])
    chk.set('distinct_nontrivial', len(fps))
    chk.set('observation_classes', len(classes))
    chk.set('traces_validated_against_impl', tot['traces_replayed'])
    chk.set('rule', 'NL models from the grammar families %s (depth<=2 operator shapes, sharing, canonicalisation, '
            'unary-encoding, bound patterns, linear mixes) x acceptance configurations (deviation-bounded closure over '
            'the constraint types actually stored, API capability presets %s) x conversion-option deviations; each '
            'conversion judged on every grid point of the original variables: NL-feasible(p) <=> exists aux: '
            'delivered(p,aux), best delivered objective == NL objective. distinct_nontrivial = distinct delivered '
            'models (fingerprint) that have auxiliary variables and a grid with both feasible and infeasible points.'
            % (sorted(set(f for f, _, _ in models)), gnames))
    chk.set('bounds', {'acceptance_deviations_from_base': 1 if tier == 'quick' else 2,
                       'acceptance_levels': [0, 2] if tier == 'quick' else [0, 1, 2],
                       'option_deviations': 1 if tier == 'quick' else 2, 'g_presets': gnames, 'g_presets_cones_family': CONE_PRESETS,
                       'models_total': len(models), 'model_step': step})
    chk.assumptions += [
        'strict comparisons on continuous bodies mean "by at least cvt:cmp:eps"; the grid step 0.5 keeps every threshold on the grid',
        'runs whose warnings report PLApprox (approximated nonlinear terms) are outside the exact fragment and are counted, not judged',
        'delivered constraints are serialised with the library WriteJSON(con) overloads; semantics are evaluated by ref/aux_search.h (cross-checked against lib/delivered.py)',
        'API capability flags (quadratic objective/constraints, cones) are explored as the listed presets, not as a full product',
    ]
    if tot['v_invalid-nl']:
        chk.broken.append('generator produced %d NL texts the reader rejected' % tot['v_invalid-nl'])
    if tot['v_oracle-internal']:
        chk.broken.append('simplex and Fourier-Motzkin disagree inside the oracle on %d cases' % tot['v_oracle-internal'])
    if tot['oracle_disagreements']:
        chk.broken.append('C++ and Python oracles disagree on %d cases' % tot['oracle_disagreements'])
    if tot['configs'] and tot['nontrivial'] * 20 < tot['v_ok']:
        chk.broken.append('vacuous: only %d of %d judged conversions are non-trivial' % (tot['nontrivial'], tot['v_ok']))
    if not tot['oracle_crosschecks']:
        chk.broken.append('oracle cross-check did not run')
    return chk.finish()


def replay(path):
    rp = json.load(open(path))['replay']
    srv = flatlib.Server(flatlib.build())
    r = srv.request('convert', nl=rp['nl'], opts=rp['opts'], acc=rp['acc'])
    v = srv.request('judge', norig=rp['norig'], pts=rp['tt']) if r.get('status') == 'ok' else {'verdict': r.get('status'), 'msg': r.get('msg')}
    print(json.dumps({'model': rp['model'], 'status': r.get('status'), 'verdict': v}, indent=1)[:3000])
    return 1 if v.get('verdict') in ('violation', 'crash') else 0
