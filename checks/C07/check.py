"""C07: the automatic solution check reports a violation iff the model is violated.
Models (exact fragment) x candidate points (all grid points + out-of-bound / fractional
perturbations + objective-value perturbations) x check modes / tolerances, against the reference
NL evaluator.  Auxiliary values handed to the checker are the true values of all expressions
(computed by functional propagation over an all-native delivery)."""
import itertools, json, math, os, sys, collections
from multiprocessing import Pool
import vcheck, flatlib, flatcheck, flatgen, nlmodel
from nlmodel import Model, INF
from delivered import Delivered
N = flatgen.N

PID = 'C07'
ACC_NATIVE = 'default=2;QuadraticConeConstraint=0;RotatedQuadraticConeConstraint=0;ExponentialConeConstraint=0;' \
             'PowerConeConstraint=0;GeometricConeConstraint=0;quadobj=2;nonconvexqc=1'
# cones accepted natively too (the solution check then evaluates the cone constraints themselves); needs cvt:socp=2
ACC_CONES = 'default=2;ExponentialConeConstraint=0;PowerConeConstraint=0;GeometricConeConstraint=0;quadobj=2;nonconvexqc=1'
ACC_MIP = flatcheck.acc_of(flatcheck.base_config('g0'), 0)

# (name, mode bits, var-bit, con-bit, obj-bit, idealistic?)
MODES = [('default', None, 1, 1, 1, False), ('real-1+2', 3, 1, 1, 0, False), ('real-1+2+16', 19, 1, 1, 1, False),
         ('real-1', 1, 1, 0, 0, False), ('real-2', 2, 0, 1, 0, False), ('real-16', 16, 0, 0, 1, False),
         ('real-8', 8, 0, 1, 0, False), ('real-1+8', 9, 1, 1, 0, False), ('ideal-256', 256, 0, 1, 0, True), ('ideal-32+256', 288, 1, 1, 0, True),
         ('ideal-32', 32, 1, 0, 0, True), ('mixed-2+32', 34, 1, 1, 0, False), ('ideal-32+64', 96, 1, 1, 0, True), ('ideal-64', 64, 0, 1, 0, True), ('ideal-512', 512, 0, 0, 1, True),
         ('ideal-32+64+512', 608, 1, 1, 1, True), ('all-1023', 1023, 1, 1, 1, False), ('none-0', 0, 0, 0, 0, False)]


def candidate_points(m, tiny=False):
    """grid points + bound / integrality perturbations of the first few grid points"""
    pts = []
    for p in m.grid(): pts.append((list(p), 'grid'))
    base = [list(p) for p in itertools.islice(m.grid(), 0, None, max(1, len(pts) // 6))][:6]
    for p in base:
        for j, (lb, ub, isint, step) in enumerate(v[:4] for v in m.vars):
            if ub < INF:
                q = list(p); q[j] = ub + 0.5; pts.append((q, 'above-ub'))
                if tiny: q = list(p); q[j] = ub + 1e-8; pts.append((q, 'ub+tiny'))
            if isint and lb < ub:
                q = list(p); q[j] = min(ub, p[j]) - 0.3 if p[j] > lb else p[j] + 0.3; pts.append((q, 'fractional'))
                if tiny: q = list(p); q[j] = p[j] + 1e-7 if p[j] < ub else p[j] - 1e-7; pts.append((q, 'frac-tiny'))
                # between the feasibility tolerance (1e-6) and the integrality tolerance (1e-5), and just beyond the latter
                if tiny: q = list(p); q[j] = p[j] + 4e-6 if p[j] < ub else p[j] - 4e-6; pts.append((q, 'frac-4e-6'))
                if tiny: q = list(p); q[j] = p[j] + 4e-5 if p[j] < ub else p[j] - 4e-5; pts.append((q, 'frac-4e-5'))
    return pts


def ref_status(m, p, kind):
    """(bounds_ok, cons_ok or None(undefined))  by the reference evaluator with the documented tolerances"""
    bounds_ok = True
    for x, (lb, ub, isint, step) in zip(p, (v[:4] for v in m.vars)):
        if x < lb - 1e-6 or x > ub + 1e-6: bounds_ok = False
        if isint and abs(x - round(x)) > 1e-5: bounds_ok = False
    cons = m.feasible(p, tol=1e-6)
    return bounds_ok, cons


def true_values(D, r, p, norig):
    from delivered import func_value, FuncUndefined, lin_of, cond_kind
    a = {i: p[i] for i in range(norig)}
    results = set()
    for c in D.cons:
        d = c['data']
        if isinstance(d, dict) and d.get('res_var', -1) >= 0: results.add(d['res_var'])
    for i in range(norig, D.nv):
        if i not in results and D.vars[i][0] == D.vars[i][1]: a[i] = D.vars[i][0]     # constants
    changed = True
    while changed:
        changed = False
        for c in D.cons:
            k = c['_k']; d = c['data']
            res = d.get('res_var', -1) if isinstance(d, dict) else -1
            if res < 0 or res in a: continue
            try:
                if k == 'func':
                    if all(v in a for v in d['args']):
                        a[res] = func_value(c['type'], [a[v] for v in d['args']], d.get('params', [])); changed = True
                elif k in ('lfc', 'qfc'):
                    const, co = lin_of(d['expr']['body'], a)
                    if not co: a[res] = const + d['expr']['const_term']; changed = True
                elif k == 'cond':
                    const, co = lin_of(d['con']['body'], a)
                    if not co:
                        rhs = d['con']['rhs_or_range'][1]; ck = c['_ck']
                        a[res] = float({0: const == rhs, 1: const >= rhs, 2: const > rhs, -1: const <= rhs, -2: const < rhs}[ck])
                        changed = True
            except Exception:
                return None
    # auxiliaries defined only through indicator rows (an if-then-else converted to  b==1 ==> t==x,  b==0 ==> t==y):
    # the active indicator with an equality body and one unknown variable gives the value
    changed = len(a) < D.nv
    while changed:
        changed = False
        for c in D.cons:
            d = c['data']
            if not c['type'].startswith('IndicatorConstraint[') or d['con']['rhs_or_range'][0] != 'EQ': continue
            b = d['bin_var']
            if b not in a or round(a[b]) != d['bin_val']: continue
            body = d['con']['body']
            if 'qp_terms' in body: continue
            unk = [(v, cf) for v, cf in zip(body['vars'], body['coefs']) if v not in a]
            if len(unk) != 1 or unk[0][1] == 0: continue
            known = sum(cf * a[v] for v, cf in zip(body['vars'], body['coefs']) if v in a)
            a[unk[0][0]] = (d['con']['rhs_or_range'][1] - known) / unk[0][1]; changed = True
    if len(a) < D.nv: return None
    return a


_srv = None


def work(job):
    global _srv
    if _srv is None: _srv = flatlib.Server(flatlib.build())
    fam, name, m, tier, idx = job
    st = collections.Counter(); viols = []; classes = set(); sample = None
    nl = m.nl()
    pts = candidate_points(m, tiny=(fam == 'linmix'))
    for cfgname, acc, modes in ((('cones', ACC_CONES, MODES),) if fam == 'cones' else (('native', ACC_NATIVE, MODES),)):
        for (mname, bits, vb, cb, ob, ideal) in modes:
            for fail in ((0, 1) if mname in ('default', 'real-1+2', 'ideal-32+64+512') else (0,)):
                opts = ('' if bits is None else 'sol:chk:mode=%d' % bits) + (' sol:chk:fail' if fail else '')
                if cfgname == 'cones': opts += ' cvt:socp=2'
                r = _srv.request('convert', nl=nl, opts=opts.strip(), acc=acc)
                st['conversions'] += 1
                if r.get('status') != 'ok' or 'PLApprox' in r.get('warnings', ''):
                    st['skipped_conversion'] += 1; break
                D = Delivered(r, len(m.vars))
                for p, kind in pts:
                    bounds_ok, cons_ok = ref_status(m, p, kind)
                    if cons_ok is None: continue
                    # true values of all expressions (a result variable gets the value of its defining
                    # expression even when conversion fixed its bounds)
                    if cfgname in ('native', 'cones'):
                        a = true_values(D, r, p, len(m.vars))
                        if a is None:
                            st['aux_not_determined'] += 1; continue
                        x = [a[i] for i in range(D.nv)]
                    else:
                        x = [p[i] if i < len(m.vars) else (D.vars[i][0] if D.vars[i][0] == D.vars[i][1] else 0.0)
                             for i in range(D.nv)]
                    try: tobj = m.objval(p) if m.objs else None
                    except Exception: continue
                    for objmode in (('true', 'off') if (m.objs and ob) else ('true',)):
                        objs = '' if tobj is None else repr(tobj + (0.75 if objmode == 'off' else 0.0))
                        v = _srv.request('check', x=','.join(repr(float(t)) for t in x), objs=objs, infeas='0')
                        st['checks'] += 1
                        exp_viol = (vb and not bounds_ok) or (cb and not cons_ok) or (ob and objmode == 'off' and m.objs)
                        exp_viol = bool(exp_viol)
                        # modes for which the full iff is demanded: variables and constraints checked in the SAME pass (realistic bits 1+2
                        # or idealistic bits 32+64; with the all-native delivery bit 8 / 256 covers every constraint bit 2 / 64 covers); a root logical constraint is a fixed result variable, so with true values its
                        # violation surfaces as a variable-bound violation of the realistic pass or as a recomputation mismatch of the
                        # idealistic pass - a mixed mode such as 2+32 sees neither and is judged one-directionally
                        exact = bits is None or ((bits & 1) and (bits & 10)) or ((bits & 32) and (bits & 320))   # bits 8 / 256: every delivered constraint is a "final" one here (all-native delivery)
                        exact = bool(exact)
                        if kind != 'grid' and not vb: continue   # out-of-domain points: only modes checking variables
                        if not exact and not (bounds_ok and cons_ok) and not (ob and objmode == 'off') \
                                and not (vb and not bounds_ok):
                            # partial modes: only soundness (no spurious report) and bound/objective reports are demanded
                            st['partial_mode_not_judged'] += 1; continue
                        if v.get('status') == 'crash':
                            viols.append(('C07 crash in CheckSolution', {'model': m.describe()}, None)); continue
                        got_viol = (not v.get('ok')) if not fail else (v.get('status') == 'exc')
                        if fail and v.get('status') == 'exc' and v.get('code') != 150:
                            viols.append(('C07 sol:chk:fail raised code %s (expected 150)' % v.get('code'),
                                          {'model': m.describe(), 'msg': v.get('msg', '')[:300]}, None))
                        if 'aborted' in v.get('warnings', '') or 'aborted' in v.get('msg', ''):
                            st['check_aborted'] += 1
                        classes.add('%s|%s|%s|%s|exp=%d' % (cfgname, mname, kind, 'fail' if fail else 'warn', exp_viol))
                        if got_viol != exp_viol:
                            what = 'missed-violation' if exp_viol else 'spurious-violation'
                            cause = ('bounds' if (vb and not bounds_ok) else 'constraints' if (cb and not cons_ok) else 'objective') if exp_viol else kind
                            sig = 'C07 %s mode=%s cfg=%s %s%s' % (what, mname, cfgname, cause, ' (fail)' if fail else '')
                            if what == 'missed-violation' and ideal and cause == 'constraints':
                                # which delivered constraint defines the violated root(s): a result variable fixed by its bounds
                                # whose defining expression has another true value at this point
                                roots = sorted(set(c['type'].split('<')[0].split('[')[0] for c in D.cons
                                                   if isinstance(c['data'], dict) and c['data'].get('res_var', -1) >= 0
                                                   and D.vars[c['data']['res_var']][0] == D.vars[c['data']['res_var']][1]
                                                   and abs(x[c['data']['res_var']] - D.vars[c['data']['res_var']][0]) > 1e-6))
                                sig += ' [violated root defined by: %s]' % (','.join(roots) or 'algebraic row')
                            viols.append((sig, {'model': m.describe(), 'point': p, 'kind': kind, 'x': x, 'opts': opts, 'objs': objs,
                                                'bounds_ok': bounds_ok, 'cons_ok': cons_ok, 'answer': v},
                                          {'nl': nl, 'opts': opts, 'acc': acc, 'x': x, 'objs': objs}))
                        elif exp_viol: st['violations_expected_and_reported'] += 1
                        else: st['clean_expected_and_clean'] += 1
    if idx % 60 == 0: sample = {'model': m.describe(), 'points': len(pts)}
    return dict(st), viols[:20], sorted(classes), sample


def ref_round(v, rnd, prec):
    """reference semantics of AMPL solution_round (decimals) then solution_precision (significant digits)"""
    import math
    if rnd is not None:
        sc = 10.0 ** rnd; v = round_half_away(v * sc) / sc
    if prec is not None and v != 0.0:
        f = 10.0 ** (prec - math.ceil(math.log10(abs(v)))); v = round_half_away(v * f) / f
    return v


def round_half_away(t):
    import math
    return math.floor(abs(t) + 0.5) * (1 if t >= 0 else -1)


def work_round(job):
    """sol:chk:round / sol:chk:prec: the point is rounded before it is checked"""
    global _srv
    if _srv is None: _srv = flatlib.Server(flatlib.build())
    st = collections.Counter(); viols = []; classes = set()
    V = [(0.0, 2000.0, False, 0.5), (-2.0, 2.0, True, 1.0), (0.0, 1.0, True, 1.0)]
    mods = [('y<=1.25', Model(V, acons=[(None, {0: 1.0}, -INF, 1.25)])), ('y>=1.235', Model(V, acons=[(None, {0: 1.0}, 1.235, INF)])),
            ('y+x<=1234.5', Model(V, acons=[(None, {0: 1.0, 1: 1.0}, -INF, 1234.5)])), ('y>=1234.567', Model(V, acons=[(None, {0: 1.0}, 1234.567, INF)]))]
    ys = [1.26, 1.24, 1.234, 1.2, 1.0, 1234.9, 1234.5674, 1233.0, 1235.2]
    # the mirror image: negative values and bounds (rounding to significant digits works on |v|)
    VN = [(-2000.0, 0.0, False, 0.5), (-2.0, 2.0, True, 1.0), (0.0, 1.0, True, 1.0)]
    mods = [(n, m, ys) for n, m in mods] + [
        ('y>=-1.25', Model(VN, acons=[(None, {0: 1.0}, -1.25, INF)]), [-t for t in ys]), ('y<=-1.235', Model(VN, acons=[(None, {0: 1.0}, -INF, -1.235)]), [-t for t in ys]),
        ('y+x>=-1234.5', Model(VN, acons=[(None, {0: 1.0, 1: 1.0}, -1234.5, INF)]), [-t for t in ys]),
        ('y<=-1234.567', Model(VN, acons=[(None, {0: 1.0}, -INF, -1234.567)]), [-t for t in ys])]
    for mname, m, ys in mods:
        nl = m.nl()
        for rnd in (None, 0, 1, 2, 3):
            for prec in (None, 1, 2, 3, 6):
                opts = ' '.join(x for x in ['sol:chk:round=%d' % rnd if rnd is not None else '', 'sol:chk:prec=%d' % prec if prec is not None else ''] if x)
                r = _srv.request('convert', nl=nl, opts=opts, acc=ACC_NATIVE)
                st['conversions'] += 1
                if r.get('status') != 'ok': continue
                for y in ys:
                    for xi in (0.0, 1.0):
                        p = [ref_round(y, rnd, prec), ref_round(xi, rnd, prec), 0.0]
                        bounds_ok, cons_ok = ref_status(m, p, 'round')
                        # keep away from the tolerance band
                        body = m.body(0, p); lb, ub = m.acons[0][2], m.acons[0][3]
                        if min(abs(body - lb), abs(body - ub)) < 1e-3 and min(abs(body - lb), abs(body - ub)) > 0: continue
                        v = _srv.request('check', x='%r,%r,0.0' % (y, xi), objs='', infeas='0')
                        st['checks'] += 1
                        exp_viol = not (bounds_ok and cons_ok)
                        got = not v.get('ok')
                        classes.add('native|round=%s prec=%s|roundprec|warn|exp=%d' % (rnd, prec, exp_viol))
                        if got != exp_viol:
                            viols.append(('C07 %s with sol:chk:round=%s sol:chk:prec=%s (%s)' % ('missed-violation' if exp_viol else 'spurious-violation', rnd, prec, mname),
                                          {'model': m.describe(), 'x': [y, xi, 0.0], 'rounded_reference_point': p, 'answer': v}, None))
                        elif exp_viol: st['violations_expected_and_reported'] += 1
                        else: st['clean_expected_and_clean'] += 1
    return dict(st), viols[:20], sorted(classes), {'family': 'roundprec', 'models': [n for n, _, _ in mods], 'ys': ys}


def work_tol(job):
    """sol:chk:feastol / feastolrel / inttol: a violation is reported iff it exceeds the absolute AND the relative tolerance
    (integrality: the absolute inttol only).  Violation magnitudes are chosen a factor 10 away from the tolerances."""
    global _srv
    if _srv is None: _srv = flatlib.Server(flatlib.build())
    st = collections.Counter(); viols = []; classes = set()
    V = [(0.0, 100.0, False, 0.5), (-20.0, 20.0, True, 1.0), (0.0, 1.0, True, 1.0)]
    # row y + x <= 90 and bound y <= 100; integer x
    m = Model(V, acons=[(None, {0: 1.0, 1: 1.0}, -INF, 90.0)])
    nl = m.nl()
    for ft in (None, 1e-3, 1e-8):
        for fr in (None, 1e-3, 1e-9):
            for it in (None, 1e-2, 1e-9):
                opts = ' '.join(x for x in ['sol:chk:feastol=%g' % ft if ft is not None else '', 'sol:chk:feastolrel=%g' % fr if fr is not None else '',
                                            'sol:chk:inttol=%g' % it if it is not None else ''] if x)
                r = _srv.request('convert', nl=nl, opts=opts, acc=ACC_NATIVE)
                st['conversions'] += 1
                if r.get('status') != 'ok': continue
                FT = 1e-6 if ft is None else ft; FR = 1e-6 if fr is None else fr; IT = 1e-5 if it is None else it
                cases = []
                for mag in (FT / 10, FT * 10, FR * 50 / 10, FR * 50 * 10, max(FT, FR * 50) * 10, min(FT, FR * 50) / 10):
                    cases.append(('row', [70.0 + mag, 20.0, 0.0], mag, 90.0))          # row violated by mag, reference value 90
                    cases.append(('ub', [100.0 + mag, -20.0, 0.0], mag, 100.0))        # bound violated by mag, row satisfied (80 <= 90)
                for mag in (IT / 10, IT * 10):
                    cases.append(('int', [10.0, 3.0 + mag, 0.0], mag, None))
                for kind, p, mag, ref in cases:
                    if kind == 'int':
                        exp = mag > IT
                    else:
                        exp = mag > FT and mag / ref > FR
                        # stay a factor >= 5 away from both thresholds
                        if not (mag > 5 * FT or mag < FT / 5) or not (mag / ref > 5 * FR or mag / ref < FR / 5): continue
                    v = _srv.request('check', x=','.join(repr(float(t)) for t in p), objs='', infeas='0')
                    st['checks'] += 1
                    got = not v.get('ok')
                    classes.add('native|tol|%s|ft=%s fr=%s it=%s|exp=%d' % (kind, ft, fr, it, exp))
                    if got != exp:
                        viols.append(('C07 %s of a %s violation with sol:chk:feastol=%s feastolrel=%s inttol=%s' %
                                      ('missed-violation' if exp else 'spurious-violation', kind, ft, fr, it),
                                      {'model': m.describe(), 'x': p, 'violation_magnitude': mag, 'reference_value': ref, 'opts': opts, 'answer': v}, None))
                    elif exp: st['violations_expected_and_reported'] += 1
                    else: st['clean_expected_and_clean'] += 1
    # large relative tolerances on rows with a small right-hand side: the relative violation is measured against the bound, on
    # the upper and on the lower side alike (y + x <= 1, y + x >= 1, 1 <= y + x <= 1.5)
    V2 = [(0.0, 10.0, False, 0.5), (-5.0, 5.0, True, 1.0), (0.0, 1.0, True, 1.0)]
    for rname, lo, hi in (('<=1', -INF, 1.0), ('>=1', 1.0, INF), ('in[1,1.5]', 1.0, 1.5)):
        m2 = Model(V2, acons=[(None, {0: 1.0, 1: 1.0}, lo, hi)]); nl2 = m2.nl()
        for fr in (0.5, 0.25, 0.05):
            opts = 'sol:chk:feastolrel=%g' % fr
            r = _srv.request('convert', nl=nl2, opts=opts, acc=ACC_NATIVE)
            st['conversions'] += 1
            if r.get('status') != 'ok': continue
            for body in (0.2, 0.4, 0.6, 0.7, 0.9, 1.0, 1.2, 1.3, 1.5, 1.8, 2.2, 2.6, 3.5):
                mag, ref = (body - hi, hi) if body > hi else (lo - body, lo) if body < lo else (0.0, 1.0)
                rel = mag / abs(ref)
                if mag > 0 and not (rel > 1.15 * fr or rel < fr / 1.15): continue     # away from the threshold
                exp = mag > 1e-6 and rel > fr
                pt = [body, 0.0, 0.0]
                v = _srv.request('check', x=','.join(repr(float(t)) for t in pt), objs='', infeas='0')
                st['checks'] += 1
                got = not v.get('ok')
                classes.add('native|tol|smallrhs %s|fr=%s|exp=%d' % (rname, fr, exp))
                if got != exp:
                    viols.append(('C07 %s of a row violation (row y+x %s) with sol:chk:feastolrel=%s: relative violation is measured against the bound' %
                                  ('missed-violation' if exp else 'spurious-violation', rname, fr),
                                  {'model': m2.describe(), 'x': pt, 'violation_magnitude': mag, 'reference_value': ref, 'opts': opts, 'answer': v}, None))
                elif exp: st['violations_expected_and_reported'] += 1
                else: st['clean_expected_and_clean'] += 1
    return dict(st), viols[:20], sorted(classes), {'family': 'tolerances', 'model': m.describe()}


def work_auxdev(job):
    """One auxiliary value off: the value the solver reports for the result variable r of a functional constraint r = f(args)
    deviates by 0.3 from f(args) in the direction that lets the solver cheat (r below f where the model bounds f from above /
    minimises it, r above f where it bounds f from below / maximises it; both for equality and range).  Everything else holds at
    the point, so the only reason to report is that a recomputed expression value differs from its mathematical value; in the
    realistic modes that check constraints the report is demanded.  The harmless direction is observed, not judged."""
    global _srv
    if _srv is None: _srv = flatlib.Server(flatlib.build())
    st = collections.Counter(); viols = []; classes = set()
    sh = [t for t in flatgen.all_models('quick', ['shapes']) if '<-' not in t[1] and not t[1].startswith('log ')]
    for fam, name, m in sh:
        nl = m.nl(); nv = len(m.vars)
        for mname, bits in (('default', None), ('real-1+2', 3), ('real-2', 2), ('real-8', 8)):
            opts = '' if bits is None else 'sol:chk:mode=%d' % bits
            r = _srv.request('convert', nl=nl, opts=opts, acc=ACC_NATIVE)
            st['conversions'] += 1
            if r.get('status') != 'ok' or 'PLApprox' in r.get('warnings', ''): st['skipped_conversion'] += 1; continue
            D = Delivered(r, nv)
            funcs = [c for c in D.cons if c['_k'] == 'func' and c['data'].get('res_var', -1) >= nv]
            if len(funcs) != 1: st['auxdev_not_one_functional'] += 1; continue
            res = funcs[0]['data']['res_var']
            if D.vars[res][2]: st['auxdev_integer_result'] += 1; continue
            # where the result variable is used: one row (coefficient c, sense) / the objective / only its bounds
            uses = []
            for c in D.cons:
                if c is funcs[0]: continue
                d = c['data']
                if c['_k'] in ('lin', 'quad') or (isinstance(d, dict) and 'body' in d and 'rhs_or_range' in d):
                    body = d['body']; lt = body['lin_terms'] if 'lin_terms' in body else body
                    cf = sum(co for co, w in zip(lt['coefs'], lt['vars']) if w == res)
                    inq = 'qp_terms' in body and (res in body['qp_terms']['vars1'] or res in body['qp_terms']['vars2'])
                    if inq: uses.append(None)
                    elif cf:
                        rr = d['rhs_or_range']
                        if isinstance(rr[0], str): lo, hi = {'LE': (-INF, rr[1]), 'GE': (rr[1], INF), 'EQ': (rr[1], rr[1])}[rr[0]]
                        else: lo, hi = (rr[0] if rr[0] > -1e300 else -INF), (rr[1] if rr[1] < 1e300 else INF)
                        uses.append((cf, lo, hi))
                elif isinstance(d, dict) and (res in d.get('args', []) or d.get('res_var') == res): uses.append(None)
            for o in r.get('objs', []):
                if not o: continue
                cf = sum(co for co, w in zip(o['lin']['coefs'], o['lin']['vars']) if w == res)
                if res in o['qp']['vars1'] or res in o['qp']['vars2']: uses.append(None)
                elif cf: uses.append((cf,) + ((-INF, 0.0) if o['sense'] == 0 else (0.0, INF)))   # min: like "<=", max: like ">="
            if not uses:
                lo, hi = D.vars[res][0], D.vars[res][1]
                rootk = name.split(' in ')[-1] if name.startswith('con ') else None
                want = {'[-inf,1]': (-INF, 1.0), '[1,inf]': (1.0, INF), '[1,1]': (1.0, 1.0), '[0,1.5]': (0.0, 1.5)}.get(rootk)
                if want is None: st['auxdev_use_not_found'] += 1; continue
                uses = [(1.0,) + want]
            if len(uses) != 1 or uses[0] is None: st['auxdev_use_not_simple'] += 1; continue
            cf, lo, hi = uses[0]
            harmful = set()
            if hi < INF: harmful.add(-1 if cf > 0 else 1)     # bounded from above / minimised: reporting less than f cheats
            if lo > -INF: harmful.add(1 if cf > 0 else -1)
            for pt in m.grid():
                pt = list(pt)
                bounds_ok, cons_ok = ref_status(m, pt, 'grid')
                if not (bounds_ok and cons_ok): continue
                a = true_values(D, r, pt, nv)
                if a is None: st['aux_not_determined'] += 1; continue
                for sgn in (-1, 1):
                    x = [a[i] for i in range(D.nv)]
                    x[res] += 0.3 * sgn
                    if not (D.vars[res][0] - 1e-9 <= x[res] <= D.vars[res][1] + 1e-9): st['auxdev_outside_result_bounds'] += 1; continue
                    v = _srv.request('check', x=','.join(repr(float(t)) for t in x), objs='', infeas='0')
                    st['checks'] += 1
                    got = not v.get('ok')
                    dirn = 'harmful' if sgn in harmful else 'harmless'
                    classes.add('auxdev|%s|%s|%s|%s' % (mname, funcs[0]['type'].split('<')[0], dirn, 'reported' if got else 'silent'))
                    if sgn in harmful and not got:
                        viols.append(('C07 missed-violation mode=%s: result of %s reported %s its true value by 0.3 where the model %s it' % (
                                          mname, funcs[0]['type'].split('<')[0], 'below' if sgn < 0 else 'above',
                                          'bounds it from both sides' if len(harmful) == 2 else
                                          ('bounds it from above / minimises' if sgn * (1 if cf > 0 else -1) < 0 else 'bounds it from below / maximises')),
                                      {'model': m.describe(), 'point': pt, 'x': x, 'result_var': res, 'true_value': a[res], 'opts': opts, 'answer': v},
                                      {'nl': nl, 'opts': opts, 'acc': ACC_NATIVE, 'x': x, 'objs': ''}))
                    elif sgn in harmful: st['violations_expected_and_reported'] += 1; st['auxdev_harmful_reported'] += 1
                    else: st['auxdev_harmless_' + ('reported' if got else 'silent')] += 1
    return dict(st), viols[:20], sorted(classes), {'family': 'auxiliary value off by 0.3', 'models': len(sh)}



def work_infeasflag(job):
    """sol:chk:infeas x the solver's "this candidate is infeasible" flag: the check is skipped exactly when the solver flags the
    candidate infeasible and the option is off; in every other combination a violating point is reported (warning, or code
    150 with sol:chk:fail) and a feasible one is not."""
    global _srv
    if _srv is None: _srv = flatlib.Server(flatlib.build())
    st = collections.Counter(); viols = []; classes = set()
    V = [(0.0, 10.0, False, 0.5), (0.0, 10.0, False, 1.0), (0.0, 1.0, True, 1.0)]
    mods = [('x+2y<=8', Model(V, acons=[(None, {0: 1.0, 1: 2.0}, -INF, 8.0)], obj=('max', None, {0: 1.0, 1: 1.0}))),
            ('abs(y)+x<=3 or b', Model(V, acons=[(('abs', ('v', 1)), {0: 1.0}, -INF, 3.0)], lcons=[('or', ('ge', ('v', 0), N(1)), ('ge', ('v', 2), N(1)))]))]
    for mname, m in mods:
        nl = m.nl()
        for optname, optval in (('unset', None), ('set', 1)):
            for fail in (0, 1):
                for modeopt in ('', 'sol:chk:mode=3', 'sol:chk:mode=1023'):
                    opts = ' '.join(t for t in [modeopt, 'sol:chk:infeas' if optval else '', 'sol:chk:fail' if fail else ''] if t)
                    r = _srv.request('convert', nl=nl, opts=opts, acc=ACC_NATIVE)
                    st['conversions'] += 1
                    if r.get('status') != 'ok': viols.append(('C07 conversion failed with sol:chk:infeas', {'opts': opts, 'r': r.get('msg')}, None)); continue
                    D = Delivered(r, len(m.vars))
                    for pt in ([1.0, 1.0, 1.0], [9.0, 9.0, 0.0], [0.0, 0.0, 0.0], [4.0, 2.0, 1.0]):
                        bounds_ok, cons_ok = ref_status(m, pt, 'grid')
                        a = true_values(D, r, pt, len(m.vars))
                        if a is None: st['aux_not_determined'] += 1; continue
                        x = [a[i] for i in range(D.nv)]
                        for flag in (0, 1):
                            v = _srv.request('check', x=','.join(repr(float(t)) for t in x), objs='', infeas=str(flag))
                            st['checks'] += 1
                            skipped = bool(flag) and not optval
                            exp = (not (bounds_ok and cons_ok)) and not skipped
                            got = (not v.get('ok')) if not fail else (v.get('status') == 'exc')
                            classes.add('infeasflag|opt=%s|flag=%d|%s|exp=%d' % (optname, flag, 'fail' if fail else 'warn', exp))
                            if got != exp:
                                viols.append(('C07 %s: sol:chk:infeas=%s, solver flags the candidate %s%s' % (
                                                  'missed-violation' if exp else 'spurious-violation', optname,
                                                  'infeasible' if flag else 'as an ordinary solution', ' (fail)' if fail else ''),
                                              {'model': m.describe(), 'point': pt, 'opts': opts, 'answer': v},
                                              {'nl': nl, 'opts': opts, 'acc': ACC_NATIVE, 'x': x, 'objs': ''}))
                            elif exp: st['violations_expected_and_reported'] += 1
                            else: st['clean_expected_and_clean'] += 1
    return dict(st), viols[:20], sorted(classes), {'family': 'sol:chk:infeas x solver flag'}



ACC_IND = ACC_NATIVE + ';IfThenConstraint=0'


def work_inddev(job):
    """Indicator rows (if-then-else converted to  b==1 ==> t==x,  b==0 ==> t==y  for an API without a native if-then-else): a
    binary that is 1 within 1e-8 - as MIP solvers return it, far inside sol:chk:inttol and below anything a row can notice -
    means 1; the verdict at the point with such binaries must equal the verdict with exact binaries, in every mode that looks at
    the delivered constraints, and with exact values the verdict is the reference verdict in the exact modes."""
    global _srv
    if _srv is None: _srv = flatlib.Server(flatlib.build())
    st = collections.Counter(); viols = []; classes = set()
    sh = [t for t in flatgen.all_models('quick', ['shapes']) if ' if' in t[1] or t[1].startswith('if') or '<-if' in t[1] or 'if<-' in t[1]]
    sh = sh[::3]
    for fam, name, m in sh:
        nl = m.nl(); nv = len(m.vars)
        for mname, bits in (('default', None), ('real-1+8', 9), ('real-8', 8), ('all-1023', 1023)):
            opts = '' if bits is None else 'sol:chk:mode=%d' % bits
            r = _srv.request('convert', nl=nl, opts=opts, acc=ACC_IND)
            st['conversions'] += 1
            if r.get('status') != 'ok' or 'PLApprox' in r.get('warnings', ''): st['skipped_conversion'] += 1; continue
            D = Delivered(r, nv)
            inds = [c['data'] for c in D.cons if c['type'].startswith('IndicatorConstraint[')]
            if not inds: st['inddev_no_indicator'] += 1; continue
            for pt in m.grid():
                pt = list(pt)
                bounds_ok, cons_ok = ref_status(m, pt, 'grid')
                if cons_ok is None: continue
                a = true_values(D, r, pt, nv)
                if a is None: st['aux_not_determined'] += 1; continue
                x = [a[i] for i in range(D.nv)]
                v0 = _srv.request('check', x=','.join(repr(float(t)) for t in x), objs='', infeas='0')
                st['checks'] += 1
                got0 = not v0.get('ok')
                if mname == 'real-1+8' and got0 != (not (bounds_ok and cons_ok)):
                    viols.append(('C07 %s mode=%s cfg=indicators' % ('missed-violation' if not got0 else 'spurious-violation', mname),
                                  {'model': m.describe(), 'point': pt, 'x': x, 'opts': opts, 'answer': v0},
                                  {'nl': nl, 'opts': opts, 'acc': ACC_IND, 'x': x, 'objs': ''}))
                bs = sorted(set(d['bin_var'] for d in inds if x[d['bin_var']] == 1.0))
                if not bs: st['inddev_no_binary_at_1'] += 1; continue
                y = list(x)
                for b in bs: y[b] = 1.0 - 1e-8
                v1 = _srv.request('check', x=','.join(repr(float(t)) for t in y), objs='', infeas='0')
                st['checks'] += 1
                got1 = not v1.get('ok')
                classes.add('inddev|%s|exact=%s|nearly1=%s' % (mname, 'reported' if got0 else 'silent', 'reported' if got1 else 'silent'))
                if got0 != got1:
                    viols.append(('C07 %s mode=%s: indicator binary at 1-1e-8 instead of 1 changes the verdict' % (
                                      'missed-violation' if got0 else 'spurious-violation', mname),
                                  {'model': m.describe(), 'point': pt, 'x': y, 'binaries': bs, 'opts': opts, 'answer_exact': v0, 'answer_nearly1': v1},
                                  {'nl': nl, 'opts': opts, 'acc': ACC_IND, 'x': y, 'objs': ''}))
                elif got0: st['violations_expected_and_reported'] += 1
                else: st['clean_expected_and_clean'] += 1
    # idealistic modes (expression values recomputed from the original variables): the value the solver reports for the
    # reformulated if-then-else (the variable defined only through the indicator rows) is off by 0.3 - whatever the direction,
    # a recomputed expression value then differs from the reported one and the point must be reported
    for fam, name, m in sh:
        nl = m.nl(); nv = len(m.vars)
        for mname, bits in (('ideal-32+64', 96), ('ideal-32+64+512', 608)):
            opts = 'sol:chk:mode=%d' % bits
            r = _srv.request('convert', nl=nl, opts=opts, acc=ACC_IND)
            st['conversions'] += 1
            if r.get('status') != 'ok' or 'PLApprox' in r.get('warnings', ''): st['skipped_conversion'] += 1; continue
            D = Delivered(r, nv)
            funcres = {c['data'].get('res_var') for c in D.cons if isinstance(c['data'], dict) and c['data'].get('res_var', -1) >= 0}
            tv = sorted({v for c in D.cons if c['type'].startswith('IndicatorConstraint[') for v in c['data']['con']['body']['vars']
                         if v >= nv and v not in funcres})
            if len(tv) != 1: st['inddev_not_one_reformulated_result'] += 1; continue
            t = tv[0]
            for pt in m.grid():
                pt = list(pt)
                bounds_ok, cons_ok = ref_status(m, pt, 'grid')
                if not (bounds_ok and cons_ok): continue
                a = true_values(D, r, pt, nv)
                if a is None: st['aux_not_determined'] += 1; continue
                for sgn in (-1, 1):
                    x = [a[i] for i in range(D.nv)]; x[t] += 0.3 * sgn
                    if not (D.vars[t][0] <= x[t] <= D.vars[t][1]): continue
                    v = _srv.request('check', x=','.join(repr(float(q)) for q in x), objs='', infeas='0')
                    st['checks'] += 1
                    classes.add('inddev|%s|reformulated result off|%s' % (mname, 'silent' if v.get('ok') else 'reported'))
                    if v.get('ok'):
                        viols.append(('C07 missed-violation mode=%s: value reported for a reformulated expression (if-then-else as indicator rows) differs from its mathematical value by 0.3' % mname,
                                      {'model': m.describe(), 'point': pt, 'x': x, 'var': t, 'true_value': a[t], 'opts': opts, 'answer': v},
                                      {'nl': nl, 'opts': opts, 'acc': ACC_IND, 'x': x, 'objs': ''}))
                    else: st['violations_expected_and_reported'] += 1
    return dict(st), viols[:20], sorted(classes), {'family': 'indicator binary at 1-1e-8; reformulated result off by 0.3 in idealistic modes', 'models': len(sh)}



def func_models():
    """transcendental functions (accepted natively): min f(arg) - y  s.t.  f(arg) + y <= f(arg0) + 0.6173, arg = x + shift inside
    the function's domain; the checker must recompute the same values as the reference evaluator"""
    V = [(-0.75, 0.75, False, 0.25), (0.0, 1.0, False, 0.5)]
    x, y = ('v', 0), ('v', 1)
    one = lambda sh: ('add', x, N(sh)) if sh else x
    fs = [('exp', 0.0), ('log', 1.0), ('log10', 1.0), ('sin', 0.0), ('cos', 0.0), ('tan', 0.0), ('sinh', 0.0), ('cosh', 0.0), ('tanh', 0.0),
          ('atan', 0.0), ('asinh', 0.0), ('asin', 0.0), ('acos', 0.0), ('acosh', 2.0), ('atanh', 0.0), ('sqrt', 1.0)]
    for fn, sh in fs:
        e = (fn, one(sh))
        c = nlmodel.ev(e, [0.25, 0.0]) + 0.6173
        yield ('funcs', 'func %s' % fn, Model(V, acons=[(e, {1: 1.0}, -INF, c)], obj=('min', e, {1: -1.0})))
    for nm, e in (('x^3', ('powc', one(0.0), N(3.0))), ('x^0.5', ('powc', one(1.0), N(0.5))), ('2^x', ('cpow', N(2.0), one(0.0))), ('x^1.5', ('powc', one(1.0), N(1.5)))):
        c = nlmodel.ev(e, [0.25, 0.0]) + 0.6173
        yield ('funcs', 'func %s' % nm, Model(V, acons=[(e, {1: 1.0}, -INF, c)], obj=('min', e, {1: -1.0})))



def models(tier):
    fams = ['linmix', 'canon', 'uenc', 'sharing', 'fracint', 'bounds', 'dvars', 'compl', 'sos', 'cones'] if tier == 'quick' else None
    out = []
    for i, (fam, name, m) in enumerate(flatgen.all_models('quick', fams)):
        if fam in ('alldiffcont', 'pl', 'unbounded', 'alg3', 'log3', 'affprod'): continue
        if fam == 'bounds' and name.startswith('dom5') and 'alldiff' in name: continue   # dom5 makes the third alldiff argument continuous (= alldiffcont)     # alldiff over non-integer expressions is refused by the converter;
        out.append((fam, name, m))                               # SOS/complementarity: auxiliaries not functionally determined
    sh = [(f, n, m) for (f, n, m) in flatgen.all_models('quick', ['shapes'])]
    if tier == 'quick':
        out += [t for t in sh if '<-' in t[1] and not t[1].startswith('log ')][::12]
        out = [t for i, t in enumerate(out) if i % 2 == 0 or t[0] in ('sos', 'cones')]   # every 2nd model, but every SOS model (few, and the
        # members' sign patterns differ from model to model)
    else:
        out = [t for t in out if t[0] != 'shapes']                   # thorough: every model of every other family,
        out += [t for t in sh if '<-' in t[1] and not t[1].startswith('log ')][::3]   # every 3rd numeric depth-2 shape
    out += [t for t in sh if '<-' not in t[1]]          # every depth-1 operator shape at every root
    out += list(func_models())
    out += [t for t in sh if '<-' in t[1] and t[1].startswith('log ')]   # every (parent, slot, child) under a logical root:
    # a nested expression may be false at a feasible point, so a wrong recomputation shows as a spurious report
    return out


def build():
    return flatlib.build()


def main(tier, seed):
    chk = vcheck.Check(PID, tier, 'exploration', seed)
    build()
    jobs = [(fam, name, m, tier, i) for i, (fam, name, m) in enumerate(models(tier))]
    tot = collections.Counter(); classes = set()
    with Pool(vcheck.NCPU) as pool:
        pending = [pool.apply_async(work_round, (None,)), pool.apply_async(work_tol, (None,)), pool.apply_async(work_auxdev, (None,)), pool.apply_async(work_infeasflag, (None,)), pool.apply_async(work_inddev, (None,))]
        for pd in pending:
            st, viols, cl, sample = pd.get()
            tot.update(st); classes.update(cl); chk.sample(sample)
            for sig, det, rp in viols: chk.violation(sig, det, rp)
        for st, viols, cl, sample in pool.imap_unordered(work, jobs, chunksize=2):
            tot.update(st); classes.update(cl)
            if sample: chk.sample(sample)
            for sig, det, rp in viols: chk.violation(sig, det, rp)
    for k, v in tot.items(): chk.set(k, v)
    chk.set('models', len(jobs))
    chk.set('evaluations', tot['checks'])
    chk.cov['_classes'] = classes
    vcheck.finalize_classes(chk)
    chk.set('rule', 'exact-fragment models (all-native delivery, auxiliary values = true expression values) x '
            'check modes %s x sol:chk:fail x candidate points (every grid point; +0.5 / +1e-8 above upper bounds; fractional and '
            '1e-7-fractional integers) x {true objective value, objective off by 0.75}; expected verdict from the reference NL '
            'evaluator under the documented tolerance rule; a tolerance family: sol:chk:feastol x feastolrel x inttol (default / looser / tighter each) x row, bound and integrality violations a factor 10 away from the tolerances. A class = (config, mode, point kind, warn|fail, expected verdict).'
            % [x[0] for x in MODES])
    chk.assumptions += ['a violation needs viol > feastol (1e-6) and viol/|ref| > feastolrel; grid step 0.5 and the perturbation sizes '
                        '(1e-8, 1e-7 below / 0.3, 0.5 above tolerance) keep every case away from the ambiguous band',
                        'mode bits 4 and 8 (auxiliary constraints) are only exercised inside mode 1023']
    nfail = len([c for c in classes if '|fail|' in c and c.startswith('native|')])
    chk.set('classes_with_sol_chk_fail', nfail)
    if nfail < 10: chk.broken.append('vacuous: the sol:chk:fail runs did not take place')
    if tot['violations_expected_and_reported'] < 100 or tot['clean_expected_and_clean'] < 100:
        chk.broken.append('vacuous: too few cases on one side of the iff')
    return chk.finish()


def replay(path):
    rp = json.load(open(path))['replay']
    srv = flatlib.Server(flatlib.build())
    r = srv.request('convert', nl=rp['nl'], opts=rp['opts'], acc=rp['acc'])
    v = srv.request('check', x=','.join(repr(float(t)) for t in rp['x']), objs=rp['objs'], infeas='0')
    print(json.dumps(v, indent=1)[:2000])
    return 0
