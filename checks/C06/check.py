"""C06: bounds / integrality of auxiliary (result) variables never cut off a value.
Every functional constraint type x argument-domain alphabet x parameter alphabet x preprocessing
option is converted by the real flattener+converter with an API that accepts every functional
constraint natively, so each delivered functional constraint names its result variable and its
arguments; for all points of the gridded argument domains the true function value must lie inside
the result variable's delivered bounds (and be integral if the variable is integer)."""
import itertools, json, math, os, sys, collections
from multiprocessing import Pool
import vcheck, flatlib, flatcheck, nlmodel
from nlmodel import Model, INF
from delivered import func_value, FuncUndefined, FUNC_TYPES, cond_kind, Undecided

PID = 'C06'
N = lambda v: ('n', v)

# (lb, ub, is_int, grid_step_for_equivalence_judge or None)
DOMS = [
    (0.0, 0.0, True), (1.0, 1.0, True), (0.0, 1.0, True), (0.0, 2.0, True), (-2.0, 2.0, True), (-3.0, -1.0, True),
    (0.0, 2.0, False), (-1.5, 1.5, False), (-3.0, -0.5, False), (0.5, 4.0, False),
    (0.0, INF, False), (-INF, 0.0, False), (-INF, INF, False), (-1.0, 1.0, False),
    (-3.0, 2.0, True), (-2.5, 1.0, False), (-1.0, 3.0, True),          # zero-crossing, asymmetric
    (2.5, 2.5, False),                                                 # fixed at a fractional value
]
DOMS_SMALL = [DOMS[i] for i in (2, 4, 5, 7, 9, 10, 14, 15)]

UNARY = [('neg', lambda a: ('neg', a)), ('abs', lambda a: ('abs', a)), ('pow2', lambda a: ('pow2', a)),
         ('cmul', lambda a: ('mul', N(-2), a)), ('aff', lambda a: ('add', ('mul', N(0.5), a), N(1))),
         ('pl', lambda a: ('pl', (-1.0, 1.0, 2.0), (0.0, 1.0), a)),
         ('pl2', lambda a: ('pl', (2.0, -1.0), (-1.0,), a))]
for ex in (-2, -1, -0.5, 0.5, 1.5, 2, 3, 4):
    UNARY.append(('powc%g' % ex, (lambda ex: lambda a: ('powc', a, N(ex)))(ex)))
for base in (0.5, 2, 10):
    UNARY.append(('cpow%g' % base, (lambda b: lambda a: ('cpow', N(b), a))(base)))
for f in ('exp', 'log', 'log10', 'sqrt', 'sin', 'cos', 'tan', 'asin', 'acos', 'atan', 'sinh', 'cosh', 'tanh',
          'asinh', 'acosh', 'atanh'):
    UNARY.append((f, (lambda f: lambda a: (f, a))(f)))
for op in ('lt', 'le', 'eq', 'ge', 'gt', 'ne'):
    for rhs in (-1, 0, 0.5, 1, 2.5):
        UNARY.append(('%s%g' % (op, rhs), (lambda op, rhs: lambda a: ('count', (op, a, N(rhs)), ('b', 0)))(op, rhs)))
# comparisons of a single variable with a coefficient other than 1 (the threshold is divided by the coefficient)
for op in ('lt', 'le', 'eq', 'ge', 'gt', 'ne'):
    for cf, rhs in ((2, 2), (-3, 3), (2, 1), (0.5, 1), (-2, -4)):
        UNARY.append(('%s(%gx,%g)' % (op, cf, rhs), (lambda op, cf, rhs: lambda a: ('count', (op, ('mul', N(cf), a), N(rhs)), ('b', 0)))(op, cf, rhs)))
UNARY.append(('not', lambda a: ('count', ('not', ('ge', a, N(1))), ('b', 0))))
UNARY.append(('numberofc1', lambda a: ('numberof', N(1), a, N(1))))
UNARY += [('maxc2.5', lambda a: ('max', a, N(2.5))), ('minc2.5', lambda a: ('min', a, N(2.5))), ('minc-0.5', lambda a: ('min', a, N(-0.5))),
          ('ifc2.5', lambda a: ('if', ('ge', a, N(1)), a, N(2.5))), ('ifc', lambda a: ('if', ('ge', a, N(1)), N(0.5), a))]

BINARY = [('add', lambda a, b: ('add', a, b)), ('sub', lambda a, b: ('sub', a, b)), ('mul', lambda a, b: ('mul', a, b)),
          ('div', lambda a, b: ('div', a, b)), ('min', lambda a, b: ('min', a, b)), ('max', lambda a, b: ('max', a, b)),
          ('lin2', lambda a, b: ('sub', ('mul', N(2), a), ('mul', N(3), b))),
          ('absmul', lambda a, b: ('abs', ('mul', a, b))), ('maxquad', lambda a, b: ('max', ('sub', ('mul', a, b), ('pow2', b)), N(1))),
          ('numberofv', lambda a, b: ('numberof', a, b, N(1))),
          ('and', lambda a, b: ('count', ('and', ('ge', a, N(1)), ('le', b, N(0))), ('b', 0))),
          ('or', lambda a, b: ('count', ('or', ('ge', a, N(1)), ('le', b, N(0))), ('b', 0))),
          ('iff', lambda a, b: ('count', ('iff', ('ge', a, N(1)), ('le', b, N(0))), ('b', 0)))]
for op in ('lt', 'le', 'eq', 'ge', 'gt', 'ne'):
    BINARY.append(('rel_' + op, (lambda op: lambda a, b: ('count', (op, a, b), ('b', 0)))(op)))

TERNARY = [('min3', lambda a, b, c: ('min', a, b, c)), ('max3', lambda a, b, c: ('max', a, b, c)),
           ('sum3', lambda a, b, c: ('sum', a, b, c)), ('if', lambda a, b, c: ('if', ('ge', a, N(1)), b, c)),
           ('numberofc', lambda a, b, c: ('numberof', N(1), a, b, c)),
           ('numberofv3', lambda a, b, c: ('numberof', a, b, c)),
           ('impl', lambda a, b, c: ('count', ('impl', ('ge', a, N(1)), ('le', b, N(0)), ('ge', c, N(0))), ('b', 0))),
           ('count3', lambda a, b, c: ('count', ('ge', a, N(1)), ('le', b, N(0)), ('ne', c, N(0)))),
           ('qmix', lambda a, b, c: ('add', ('mul', a, b), ('mul', N(-1), ('mul', c, c))))]

OPTS = ['', 'cvt:pre:all=0', 'cvt:pre:eqresult=0', 'cvt:pre:eqbinary=0']
ACC = 'default=2;QuadraticConeConstraint=0;RotatedQuadraticConeConstraint=0;ExponentialConeConstraint=0;' \
      'PowerConeConstraint=0;GeometricConeConstraint=0;quadobj=2;nonconvexqc=1'


def make_model(builder, doms, int_first=False):
    """variables in NL order; builder gets var exprs in the caller's order.  Default: all variables in the class
    'nonlinear in both' (continuous before integer).  int_first: integer variables in class 'both', continuous ones
    in class 'linear', so that integer variables get the LOWER indices (index-order dependent code paths)."""
    order = sorted(range(len(doms)), key=(lambda i: (not doms[i][2], i)) if int_first else (lambda i: (doms[i][2], i)))
    pos = {orig: k for k, orig in enumerate(order)}
    V = []
    for orig in order:
        lb, ub, isint = doms[orig]
        V.append((lb, ub, isint, 1.0 if isint else 0.5) + ((('b' if isint else 'l'),) if int_first else ()))
    args = [('v', pos[i]) for i in range(len(doms))]
    e = builder(*args)
    return Model(V, obj=('min', e, {}))


def cases(tier):
    for name, b in UNARY:
        for d in DOMS:
            yield ('%s %s' % (name, dom_str(d)), b, [d])
    for name, b in BINARY:
        for d in itertools.product(DOMS if tier == 'thorough' else DOMS_SMALL + [DOMS[0], DOMS[12]], repeat=2):
            yield ('%s %s' % (name, ','.join(map(dom_str, d))), b, list(d))
    for name, b in TERNARY:
        for d in itertools.product(DOMS_SMALL if tier == 'thorough' else DOMS_SMALL[:4], repeat=3):
            yield ('%s %s' % (name, ','.join(map(dom_str, d))), b, list(d))
    # mixed integer / continuous argument pairs with the integer variable at the lower index
    for name, b in BINARY:
        for d in itertools.product(DOMS_SMALL, repeat=2):
            if d[0][2] != d[1][2]:
                yield ('intfirst %s %s' % (name, ','.join(map(dom_str, d))), b, list(d))


def dom_str(d):
    return '%s[%g,%g]' % ('int' if d[2] else 'cont', d[0], d[1])


def grid_of(lb, ub, ty):
    """evaluation grid of one argument domain (delivered bounds)"""
    lo = lb if lb > -1e300 else -INF; hi = ub if ub < 1e300 else INF
    pts = set()
    if ty == 1 and lo > -INF and hi < INF and hi - lo <= 8:
        return [float(v) for v in range(int(math.ceil(lo - 1e-9)), int(math.floor(hi + 1e-9)) + 1)]
    cand = [0.0, 1.0, -1.0, 0.5, -0.5, 2.0, -2.0, 1e-3, -1e-3]
    if lo > -INF: cand += [lo, lo + 1e-6, lo + 0.25 * ((hi if hi < INF else lo + 4) - lo)]
    else: cand += [-1e3, -1e9]
    if hi < INF: cand += [hi, hi - 1e-6, hi - 0.25 * (hi - (lo if lo > -INF else hi - 4))]
    else: cand += [1e3, 1e9]
    if lo > -INF and hi < INF: cand.append(0.5 * (lo + hi))
    for c in cand:
        if lo <= c <= hi:
            if ty == 1: c = float(round(c))
            if lo <= c <= hi: pts.add(c)
    return sorted(pts)


def affine_quad_value(expr, vals):
    b = expr['body']
    lin = b['lin_terms'] if 'lin_terms' in b else b
    v = expr['const_term'] + sum(c * vals[x] for c, x in zip(lin['coefs'], lin['vars']))
    if 'qp_terms' in b:
        q = b['qp_terms']
        v += sum(c * vals[x] * vals[y] for c, x, y in zip(q['coefs'], q['vars1'], q['vars2']))
    return v


def check_delivery(r, st, classes):
    """returns list of (sig, detail) violations for one delivered model"""
    out = []
    V = r['vars']
    for c in r['cons']:
        tn = c['type']; d = c['data']
        if tn in FUNC_TYPES:
            kind = 'func'; args = d['args']; res = d['res_var']
        elif tn in ('LinearFunctionalConstraint', 'QuadraticFunctionalConstraint'):
            kind = 'afq'; res = d['res_var']
            b = d['expr']['body']; lin = b['lin_terms'] if 'lin_terms' in b else b
            args = sorted(set(lin['vars']) | (set(b['qp_terms']['vars1']) | set(b['qp_terms']['vars2']) if 'qp_terms' in b else set()))
        elif tn.startswith('Conditional'):
            kind = 'cond'; res = d['res_var']
            b = d['con']['body']; lin = b['lin_terms'] if 'lin_terms' in b else b
            args = sorted(set(lin['vars']) | (set(b['qp_terms']['vars1']) | set(b['qp_terms']['vars2']) if 'qp_terms' in b else set()))
        else:
            continue
        if res < 0: continue
        rlb, rub, rty = V[res][0], V[res][1], V[res][2]
        grids = [grid_of(V[a][0], V[a][1], V[a][2]) for a in args]
        npts = 1
        for g in grids: npts *= len(g)
        if npts > 20000:
            grids = [g[::2] if len(g) > 6 else g for g in grids]
        st['constraints_checked'] += 1
        nd = 0
        for combo in itertools.product(*grids):
            vals = dict(zip(args, combo))
            try:
                if kind == 'func':
                    v = func_value(tn, [vals[a] for a in args], d.get('params', []))
                elif kind == 'afq':
                    v = affine_quad_value(d['expr'], vals)
                else:
                    body = affine_quad_value({'body': d['con']['body'], 'const_term': 0.0}, vals)
                    rhs = d['con']['rhs_or_range'][1]; ck = cond_kind(tn)
                    # strict comparisons of continuous bodies mean "by at least cvt:cmp:eps": skip the ambiguous band
                    if abs(body - rhs) < 2e-4 and abs(body - rhs) > 0: continue
                    v = float({0: body == rhs, 1: body >= rhs, 2: body > rhs, -1: body <= rhs, -2: body < rhs}[ck])
            except (FuncUndefined, OverflowError, ZeroDivisionError, ValueError):
                continue
            except Undecided:
                break
            if v != v or abs(v) == INF: continue
            nd += 1
            st['points'] += 1
            t = 1e-9 * max(1.0, abs(v))
            bad = None
            if v < rlb - t: bad = 'lower-bound-cutoff'
            elif v > rub + t: bad = 'upper-bound-cutoff'
            elif rty == 1 and abs(v - round(v)) > 1e-9 * max(1.0, abs(v)) and abs(v) < 1e15: bad = 'integer-type-for-fractional-value'
            if bad:
                par = d.get('params', [])
                par = par if isinstance(par, list) else 'pl'
                sig = 'C06 %s %s params=%s' % (tn.replace('Constraint', ''), bad, par if kind == 'func' else '')
                out.append((sig.strip(), {'type': tn, 'args_domains': [V[a][:3] for a in args], 'point': combo, 'value': v,
                                          'result_bounds': [rlb, rub, rty], 'data': d}))
                break
        classes.add('%s|%s|%s' % (tn.replace('Constraint', '')[:40], 'fixed' if rlb == rub else 'int' if rty == 1 else 'cont',
                                  'finite' if rlb > -1e300 and rub < 1e300 else 'halfinf'))
        if nd: st['constraints_with_defined_points'] += 1
    return out


_srv = None


def work(job):
    global _srv
    if _srv is None: _srv = flatlib.Server(flatlib.build())
    name, builder_idx, doms, tier = job
    b = ALLB[builder_idx]
    int_first = name.startswith('intfirst ')
    m = make_model(b, doms, int_first)
    st = collections.Counter(); classes = set(); viols = []
    nl = m.nl()
    finite = all(d[0] > -INF and d[1] < INF for d in doms)
    tt = flatcheck.truth_table(m) if finite else None
    for opts in OPTS:
        r = _srv.request('convert', nl=nl, opts=opts, acc=ACC)
        st['conversions'] += 1
        if r.get('status') == 'crash':
            viols.append(('C06 crash converting %s' % name.split(' ')[0], {'model': m.describe(), 'stderr': r.get('stderr', '')[-500:]},
                          {'nl': nl, 'opts': opts})); continue
        if r.get('status') != 'ok':
            st['refused'] += 1
            classes.add('refused|' + name.split(' ')[0])
            continue
        for sig, det in check_delivery(r, st, classes):
            det['model'] = m.describe(); det['opts'] = opts
            viols.append((sig, det, {'nl': nl, 'opts': opts}))
        # constant / alias replacement: delivered model must stay equivalent (finite domains only)
        if tt is not None and 'PLApprox' not in r.get('warnings', ''):
            v = _srv.request('judge', norig=len(m.vars), pts=tt)
            st['equiv_' + v.get('verdict', '?')] += 1
            if v.get('verdict') == 'violation':
                viols.append(('C06 replaced-expression-not-equal %s %s' % (name.split(' ')[0], v.get('kind', '').split(' ')[0]),
                              {'model': m.describe(), 'opts': opts, 'verdict': v}, {'nl': nl, 'opts': opts}))
    return dict(st), viols, sorted(classes), ({'case': name, 'model': m.describe()} if hash(name) % 400 == 0 else None)


ALLB = [b for _, b in UNARY] + [b for _, b in BINARY] + [b for _, b in TERNARY]


# ---------------------------------------------------------------------------------------------------
# root logical constraints: bounds propagated DOWN from a root (a conjunction fixed to false, a disjunction fixed to
# true, ...) must not exclude values the sub-expressions take at feasible points.  Oracle: at every NL-feasible grid
# point the true value of every delivered expression (C07's true_values) lies in the bounds of its result variable.
RV = [(0.0, 2.0, False, 0.5), (-2.0, 2.0, True, 1.0), (0.0, 1.0, True, 1.0)]
_Y, _X, _B = ('v', 0), ('v', 1), ('v', 2)
_A1, _A2, _A3 = ('ge', _X, N(1)), ('le', _Y, N(1)), ('ge', _B, N(1))
ROOTS = [
    ('not and', ('not', ('and', _A1, _A2))), ('not and3', ('not', ('forall', _A1, _A2, _A3))), ('not or', ('not', ('or', _A1, _A2))),
    ('or not', ('or', ('not', _A1), _A2)), ('not iff', ('not', ('iff', _A1, _A3))), ('impl', ('impl', _A1, _A2, ('b', True))),
    ('not impl', ('not', ('impl', _A1, _A2, ('b', True)))), ('impl else', ('impl', _A3, _A1, _A2)),
    ('and or', ('and', ('or', _A1, _A2), ('not', _A3))), ('atmost1', ('atmost', N(1), ('count', _A1, _A2, _A3))),
    ('atleast2', ('atleast', N(2), ('count', _A1, _A2, _A3))), ('not exactly1', ('nexactly', N(1), ('count', _A1, _A2, _A3))),
    ('not exists', ('not', ('exists', _A1, _A2, _A3))), ('eq max', ('eq', ('max', _X, _B), N(1))), ('le abs', ('le', ('abs', _X), _Y)),
    ('ne if', ('ne', ('if', _A3, _X, N(0)), N(1))),
]


def work_root(job):
    global _srv
    if _srv is None: _srv = flatlib.Server(flatlib.build())
    name, e = job
    from delivered import Delivered
    st = collections.Counter(); viols = []
    m = Model(RV, lcons=[e])
    nl = m.nl()
    for opts in OPTS:
        r = _srv.request('convert', nl=nl, opts=opts, acc=ACC)
        st['conversions'] += 1
        if r.get('status') != 'ok': st['root_refused'] += 1; continue
        D = Delivered(r, len(m.vars))
        for p in m.grid():
            if not m.feasible(p): continue
            a = _c07.true_values(D, r, p, len(m.vars))
            if a is None: st['root_aux_not_determined'] += 1; continue
            st['root_points'] += 1
            for i in range(len(m.vars), D.nv):
                lb, ub, ty = D.vars[i]; v = a[i]
                bad = v < lb - 1e-9 * max(1, abs(lb)) or v > ub + 1e-9 * max(1, abs(ub)) or (ty == 1 and abs(v - round(v)) > 1e-9)
                if bad:
                    tn = next((c['type'] for c in D.cons if isinstance(c['data'], dict) and c['data'].get('res_var') == i), 'variable')
                    viols.append(('C06 root-logical %s: bounds of a result variable exclude its true value at a feasible point (%s)' % (name, tn.split('<')[0]),
                                  {'model': m.describe(), 'opts': opts, 'point': list(p), 'var': i, 'bounds': [lb, ub, ty], 'true_value': v},
                                  {'nl': nl, 'opts': opts}))
                    break
            if viols: break
    return dict(st), viols[:3]


# ---------------------------------------------------------------------------------------------------
# periodic functions approximated piecewise-linearly: x = P*k + r with an integer period index k and a remainder r.
# The bounds given to k and r must leave a representation for every value of the argument domain (whether the PL graph
# reaches the ends of the remainder range is C13's subject).
PERIODIC = [('sin', (0.0, 40.0)), ('sin', (-50.0, 3.0)), ('sin', (29.0, 31.0)), ('cos', (0.0, 40.0)), ('cos', (-3.0, 100.0)),
            ('sin', (100.0, 130.0)), ('cos', (-131.0, -100.0)), ('tan', (-1.0, 1.0)), ('sin', (-1.0, 1.0)), ('sin', (0.0, 1e4))]


def work_periodic(job):
    global _srv
    if _srv is None: _srv = flatlib.Server(flatlib.build())
    f, (lo, hi) = job
    st = collections.Counter(); viols = []
    m = Model([(lo, hi, False, 0.5)], obj=('min', (f, ('v', 0)), {}))
    cfg = flatcheck.base_config('g0'); cfg['types']['PLConstraint'] = 2
    r = _srv.request('convert', nl=m.nl(), opts='', acc=flatcheck.acc_of(cfg))
    st['conversions'] += 1
    if r.get('status') != 'ok': st['periodic_refused'] += 1; return dict(st), viols
    V = r['vars']
    rows = [c for c in r['cons'] if c['type'].startswith('AlgebraicConstraint< LinTerms, RhsEQ') and 0 in c['data']['body']['vars']
            and len(c['data']['body']['vars']) == 3]
    if not rows: st['periodic_no_decomposition'] += 1; return dict(st), viols      # argument inside one period
    d = rows[0]['data']; co = dict(zip(d['body']['vars'], d['body']['coefs'])); rhs = d['rhs_or_range'][1]
    kv = [v for v in co if v != 0 and V[v][2] == 1]; rv = [v for v in co if v != 0 and V[v][2] == 0]
    if len(kv) != 1 or len(rv) != 1: st['periodic_unrecognised'] += 1; return dict(st), viols
    k, rr = kv[0], rv[0]
    st['periodic_instances'] += 1
    n = 400
    for i in range(n + 1):
        x = lo + (hi - lo) * i / n
        # co[0]*x + co[k]*K + co[rr]*R == rhs : exists integer K in bounds with R in bounds?
        ok = False
        klo = max(V[k][0], -1e7); khi = min(V[k][1], 1e7)
        # candidate K from the remainder bounds
        cands = set()
        for rb in (V[rr][0], V[rr][1]):
            kk = (rhs - co[0] * x - co[rr] * rb) / co[k]
            cands.update((math.floor(kk), math.ceil(kk)))
        for K in sorted(cands):
            if K < klo - 1e-9 or K > khi + 1e-9: continue
            R = (rhs - co[0] * x - co[k] * K) / co[rr]
            if V[rr][0] - 1e-9 <= R <= V[rr][1] + 1e-9: ok = True; break
        st['periodic_points'] += 1
        if not ok:
            viols.append(('C06 periodic %s: the bounds of the period index / remainder leave no representation for an argument value' % f,
                          {'function': f, 'domain': [lo, hi], 'x': x, 'index_bounds': V[k][:2], 'remainder_bounds': V[rr][:2], 'row': d},
                          {'nl': m.nl(), 'opts': ''}))
            break
    return dict(st), viols[:2]


import importlib.util as _ilu
_spec = _ilu.spec_from_file_location('c07lib', os.path.join(os.path.dirname(os.path.dirname(os.path.abspath(__file__))), 'C07', 'check.py'))
_c07 = _ilu.module_from_spec(_spec); _spec.loader.exec_module(_c07)


def build():
    return flatlib.build()


def main(tier, seed):
    chk = vcheck.Check(PID, tier, 'exploration', seed)
    build()
    idx = {}
    for i, (n, b) in enumerate(UNARY + BINARY + TERNARY): idx[id(b)] = i
    jobs = [(name, idx[id(b)], doms, tier) for name, b, doms in cases(tier)]
    tot = collections.Counter(); classes = set()
    with Pool(vcheck.NCPU) as pool:
        for st, viols, cl, sample in pool.imap_unordered(work, jobs, chunksize=8):
            tot.update(st); classes.update(cl)
            if sample: chk.sample(sample)
            for sig, det, rp in viols: chk.violation(sig, det, rp)
        for st, viols in pool.imap_unordered(work_periodic, PERIODIC, chunksize=1):
            tot.update(st)
            for sig, det, rp in viols: chk.violation(sig, det, rp)
        for st, viols in pool.imap_unordered(work_root, ROOTS, chunksize=1):
            tot.update(st)
            for sig, det, rp in viols: chk.violation(sig, det, rp)
    for k, v in tot.items(): chk.set(k, v)
    if tot['periodic_instances'] < 5: chk.broken.append('vacuous: periodic family recognised only %d decompositions' % tot['periodic_instances'])
    if tot['root_points'] < 200: chk.broken.append('vacuous: root-logical family judged only %d points' % tot['root_points'])
    chk.set('cases', len(jobs))
    chk.set('evaluations', tot['conversions'])
    chk.cov['_classes'] = classes
    vcheck.finalize_classes(chk)
    chk.set('rule', 'functional templates (%d unary, %d binary, %d ternary incl. parameters) x argument-domain alphabet (%d domains; '
            'pairs/triples over reduced alphabets) x preprocessing options %s, converted with an API accepting every functional '
            'constraint natively; for every delivered functional constraint the true function is evaluated on the gridded argument '
            'domains and must lie in the result variable bounds / be integral for integer results; additionally the delivered model '
            'must be point-wise equivalent on finite domains (catches wrong constant/alias replacement). A class = (constraint type, '
            'result kind fixed|int|cont, bounds finite|half-infinite).' % (len(UNARY), len(BINARY), len(TERNARY), len(DOMS), OPTS) + ' Mixed integer/continuous pairs are also run with the integer variable at the lower NL index. Root-logical family: %d models with one root logical constraint (negated conjunctions / disjunctions, implications, count comparisons); at every NL-feasible grid point the true value of every delivered expression must lie in the bounds of its result variable.' % len(ROOTS))
    chk.assumptions += ['containment is judged with tolerance 1e-9*max(1,|v|) (absorbs libm rounding; a cut-off of a few ulp is not reported)',
                        'infinite argument domain ends are represented by {+-1e3, +-1e9}',
                        'expressions are placed in an objective so that no root constraint narrows the result bounds',
                        'conditional comparisons within 2e-4 of the threshold are skipped (documented cvt:cmp:eps semantics)']
    if tot['constraints_with_defined_points'] < 1000: chk.broken.append('vacuous: few functional constraints judged')
    if len(classes) < 30: chk.broken.append('vacuous: few observation classes')
    return chk.finish()


def replay(path):
    rp = json.load(open(path))['replay']
    srv = flatlib.Server(flatlib.build())
    r = srv.request('convert', nl=rp['nl'], opts=rp['opts'], acc=ACC)
    st = collections.Counter(); cl = set()
    v = check_delivery(r, st, cl) if r.get('status') == 'ok' else []
    print(json.dumps({'status': r.get('status'), 'violations': [s for s, _ in v]}, indent=1))
    return 1 if v else 0
