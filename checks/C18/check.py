"""C18 expression equality / hashing: every pair of a finite family of ExprFactory-built trees (all kinds,
all legal arities <= 3 over a leaf alphabet, depth 2 over class representatives, all single-point
mutations, each tree built in two factories) is compared with mp::Equal in both directions and
std::hash<mp::Expr>, against a structural equality on the generator's own descriptions."""
import json, os, subprocess, sys
import vbuild, vcheck

PID = 'C18'
MP_SRCS = ['src/expr.cc', 'src/expr-info.cc', 'src/format.cc', 'src/posix.cc']
ENV = {'ASAN_OPTIONS': 'detect_leaks=0:abort_on_error=0:allocator_may_return_null=1:symbolize=1',
       'UBSAN_OPTIONS': 'print_stacktrace=1', 'LC_ALL': 'C'}


def build():
    return vbuild.build_program('c18_expr_eq', 'san', ['checks/C18/expr_eq_harness.cc'], mp_srcs=MP_SRCS)


def main(tier, seed):
    chk = vcheck.Check(PID, tier, 'exploration', seed)
    binary = build()
    args = ['--thorough'] if tier == 'thorough' else []
    res = vcheck.run_shards(binary, 16, args, timeout=3000)
    vcheck.absorb(chk, res)
    cov = chk.cov
    cov['evaluations'] = int(cov.get('equal_calls', 0) + cov.get('hash_evals', 0))
    # never a vacuous pass
    if cov.get('root_kinds_built', 0) != cov.get('kinds_in_enum', -1) or cov.get('root_kinds_built', 0) < 40:
        chk.broken.append('only %s of %s expression kinds were built as roots'
                          % (cov.get('root_kinds_built'), cov.get('kinds_in_enum')))
    n = cov.get('items', 0)
    if not cov.get('caps_hit') and cov.get('pairs', 0) + cov.get('pairs_skipped_after_crash', 0) + cov.get('pairs_crashed', 0) != n * (n + 1) // 2:
        chk.broken.append('pair count %s != N(N+1)/2 for N=%s' % (cov.get('pairs'), n))
    for key, why in (('similar_unequal', 'no unequal single-mutation pair was compared'),
                     ('similar_equal', 'no equal single-mutation pair (0.0 vs -0.0) was compared'),
                     ('independent_copy_pairs', 'no pair of independently built copies was compared'),
                     ('equal_true_hash_checked', 'Equal never returned true with both hashes available'),
                     ('equal_throws', 'no pair of kinds without comparator was compared'),
                     ('mutation_pairs_unequal_argument-order', 'no argument-order mutation pair'),
                     ('mutation_pairs_unequal_arity', 'no arity mutation pair'),
                     ('mutation_pairs_unequal_operator', 'no operator mutation pair'),
                     ('mutation_pairs_unequal_function', 'no function-identity mutation pair'),
                     ('mutation_pairs_unequal_pl-slope', 'no PL slope mutation pair'),
                     ('mutation_pairs_unequal_pl-breakpoint', 'no PL breakpoint mutation pair'),
                     ('mutation_pairs_unequal_pl-count', 'no PL breakpoint-count mutation pair')):
        if not chk.violations and cov.get(key, 0) <= 0:
            chk.broken.append(why)
    if cov.get('oracle_cross_check_disagreements', 0):
        chk.broken.append('reference equality and canonical-interning equality disagree')
    vcheck.finalize_classes(chk)
    chk.set('rule',
            'Trees: every leaf; every expression kind at the root with every factory-legal arity in {min..3} and ALL '
            'argument tuples over the leaf alphabet (numbers 0,-0.0,1,2.5; v0,v1; c0,c1; false,true; "", "a", "ab"; '
            'quick uses 4-leaf alphabets at arity 3 and for calls of f1..floc); PL terms (all 1-breakpoint terms over '
            '{0,-0.0,1}^3 x 4 references, 1..3-breakpoint bases); depth 2: every kind x every argument slot x one '
            'representative of every kind class (13 numeric, 8 logical, STRING, IFSYM), plus full products of '
            'representatives below the first kind of each binary/iterated class and CALL (thorough: below every such kind, '
            'plus IF/IMPLICATION/IFSYM/NUMBEROF_SYM/COUNT/EXISTS products); all single-point mutations at any node '
            '(constant, index, reference kind, operator within class, arity -last/-first/+1, adjacent argument swap, '
            'function identity among 6 function objects, PL slope/breakpoint/count/order) of every leaf, PL term, '
            'depth-1 tree of arity <= 2 and depth-2 slot tree (quick: slot trees below the first kind of a class, '
            'operator mutated to the next kind only). Every tree is built in two ExprFactory instances; ALL unordered '
            'pairs of built trees (incl. self, copy and mutant pairs) are compared with Equal(a,b), Equal(b,a) and both '
            'hashes. Oracle: recursive structural equality on the generator\'s descriptions (numeric == on constants), '
            'cross-checked against canonical interning. A class is (root kind, relation in {equal, '
            'unequal-same-root-kind, unequal-other-root-kind, threw, single-mutation-unequal, single-mutation-equal}); '
            'distinct_nontrivial = classes observed.')
    chk.set('bounds', {'max_arity': 3, 'depth': 2, 'factories_per_tree': 2, 'shards': 16,
                       'leaf_alphabet': ['0', '-0.0', '1', '2.5', 'v0', 'v1', 'c0', 'c1', 'false', 'true', '""', '"a"', '"ab"'],
                       'functions': ['f0 "f" variadic', 'f1 "g"', 'f2 "f" (same name, other object)',
                                     'f3 "f" declared with 2 args', 'f4 "f" symbolic', 'floc "f" declared by each factory']})
    chk.assumptions += [
        'NaN constants are excluded from the alphabet (NaN != NaN would make the statement\'s "same constants" ambiguous); '
        'constants are compared numerically, so 0.0 and -0.0 are the same constant and must hash alike',
        '"same function reference" = the same mp::Function object (the function slot of the problem), not the same name: '
        'Function::operator== and the hasher both use object identity (the name pointer is unique per object); two functions '
        'with the same name declared separately, or by two different factories, are different references. Shared functions '
        'are therefore owned by a third factory and used by both copies of a tree',
        'kinds that have no comparator/hasher (STRING at the root, IFSYM, NUMBEROF_SYM anywhere) may make Equal / hash throw '
        'mp::UnsupportedError when both trees contain such a kind; they must not crash and must not report equality of '
        'structurally different trees; every other pair must return exactly the reference verdict',
        'call arguments are numeric or string expressions as documented for expr::CALL (numeric kinds, STRING, IFSYM as read '
        'by NLReader::ReadSymbolicExpr); logical expressions as call arguments and null children (MakeIf with a null else '
        'branch) are outside the explored family',
        'transitivity and reflexivity follow from Equal == reference on every pair, the reference being an equivalence '
        'relation by construction (each reference class is also counted)',
        'hash quality (collisions between unequal trees) is counted but is not part of the property',
        'clang ASan+UBSan (-fno-sanitize-recover) active; Equal/hash run in a forked child, a child death is reported as a '
        'memory-error violation for the exact pair and the exploration resumes after it']
    return chk.finish()


def replay(path):
    r = json.load(open(path))['replay']
    binary = build()
    e = dict(os.environ); e.update(ENV)
    p = subprocess.run([binary, '--pair', r['a'], str(r['ca']), r['b'], str(r['cb'])],
                       capture_output=True, text=True, env=e)
    print(p.stdout)
    return 1 if '"violation"' in p.stdout else 0
